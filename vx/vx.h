/* vx -- deviation-bounded exhaustive explorer over the real implementation (see DESIGN.md 2.3).
 *
 * A scenario is a deterministic C function that asks vx_choose() at every point where the
 * environment (network, clock, allocator, crash, scheduler, next operation) could answer in more
 * than one way.  Alternative 0 is the default answer; alternatives >= 1 carry a cost (deviation
 * units).  vx runs the scenario in forked children: first with defaults everywhere, then for every
 * choice point reached and every alternative whose accumulated cost stays within the bound, again
 * with that prefix -- depth first, lowest total cost first, until the space is exhausted or the
 * deadline hits (then the run reports exhaustive=false and the last bound completed).
 */
#ifndef VX_H
#define VX_H
#include <stddef.h>
#include <stdint.h>
#include <stdio.h>

#define VX_MAXALT 48
#define VX_MAXPTS 800
#define VX_OBS_MAX (48 * 1024)
#define VX_MAXFAIL 16

typedef void (*vx_run_fn)(void *arg);

/* ---- called by scenarios (inside the child) ---- */
int vx_choose(int n, const uint8_t *cost, const char *label); /* cost==NULL: every alt costs 1 */
void vx_observe(const char *fmt, ...) __attribute__((format(printf, 1, 2)));
void vx_trace(const char *fmt, ...) __attribute__((format(printf, 1, 2))); /* log only, not part of digest */
void vx_fail(const char *sig, const char *fmt, ...) __attribute__((format(printf, 2, 3)));
void vx_nontrivial(void);
void vx_outcome(const char *fmt, ...) __attribute__((format(printf, 1, 2)));
int vx_failed(void);
void vx_exit_now(void) __attribute__((noreturn));
int vx_spent(void);              /* deviation units spent so far in this execution */
int vx_budget_left(void);        /* bound - spent (may be used to avoid offering unaffordable alts) */
int vx_in_replay(void);

/* ---- driver side ---- */
struct vx_config {
  const char *scenario; /* name, appears in samples / replay files */
  int bound;            /* max total deviation cost */
  double budget_s;      /* wall budget for this scenario (0 = until global deadline) */
  int exec_timeout_s;   /* per execution watchdog (default 20) */
  int max_execs;        /* 0 = unlimited; hitting it => exhaustive=false */
  int leakcheck;        /* 1: run LeakSanitizer recoverable check at end of each execution */
};

struct vx_scn_stats {
  long execs, points, transitions, fails, nontrivial_distinct, distinct_digests;
  int bound_completed; /* largest b such that every execution of total cost <= b was run; -1 none */
  int exhaustive;
  int det_replays;
};

void vx_main_init(int argc, char **argv, const char *property);
const char *vx_tier(void);   /* "quick" | "thorough" */
int vx_is_thorough(void);
long vx_seed(void);
double vx_time_left(void);   /* seconds to the global deadline */
void vx_set_deadline(double seconds_from_now);
int vx_jobs(void);
const char *vx_replay_path(void); /* non-NULL when invoked with --replay */
const char *vx_scratch_dir(void); /* per-run scratch dir on /dev/shm, removed at exit */

/* Explore one scenario.  Returns number of distinct failure signatures seen. */
int vx_explore(const struct vx_config *cfg, vx_run_fn run, void *arg, struct vx_scn_stats *out);
/* Explore many scenarios at once (shared worker pool, lowest total cost first across all of them);
 * cfgs[i].scenario / bound / leakcheck / exec_timeout_s are per scenario, args[i] is passed to run. */
int vx_explore_multi(const char *group, const struct vx_config *cfgs, void *const *args, int nscn, vx_run_fn run,
                     double budget_s, struct vx_scn_stats *out);

/* Replay support: returns 1 if the replay file names this scenario; then runs it in-process with
 * the recorded choices, prints the trace and exits (0 = held, 1 = failed). */
int vx_replay_if_match(const char *scenario, vx_run_fn run, void *arg);

/* ---- in-process sliced enumeration (pure input / op-sequence properties) ---- */
typedef void (*vxp_case_fn)(uint64_t index, void *arg);
struct vxp_config {
  const char *space;    /* name of the enumerated space */
  uint64_t total;       /* number of cases: indices 0..total-1 */
  double budget_s;
  uint64_t chunk;       /* indices per work unit (default total/(jobs*8)) */
};
struct vxp_stats {
  uint64_t done, total;
  int exhaustive;
  long fails;
};
int vxp_enumerate(const struct vxp_config *cfg, vxp_case_fn fn, void *arg, struct vxp_stats *out);
/* inside a case: */
void vxp_count(int counter, uint64_t inc);     /* generic shared counters 0..31, summed over workers */
uint64_t vxp_counter(int counter);
void vxp_distinct(uint64_t h);                 /* feed a hash into the distinct-nontrivial estimator (exact set, shared) */
void vxp_sample(const char *fmt, ...) __attribute__((format(printf, 1, 2))); /* first few kept */
int vxp_replay_if_match(const char *space, vxp_case_fn fn, void *arg);
uint64_t vxp_distinct_count(void);

/* ---- evidence ---- */
void vx_ev_int(const char *key, long long v);          /* extra coverage keys */
void vx_ev_str(const char *key, const char *v);
void vx_ev_assumption(const char *text);
void vx_ev_rule(const char *text);
void vx_ev_sample(const char *fmt, ...) __attribute__((format(printf, 1, 2)));
void vx_ev_add_states(long long states, long long transitions, long long traces);
void vx_ev_add_evals(long long evals, long long distinct_nontrivial);
void vx_ev_not_exhaustive(const char *cap);
int vx_finish(void); /* writes result json, prints FAIL lines, returns exit code (0/1/2) */

/* helpers */
uint64_t vx_fnv(const void *p, size_t n, uint64_t h);
#define VX_FNV0 1469598103934665603ULL
void vx_hex(char *dst, size_t dstlen, const uint8_t *p, size_t n);

#endif
