/* vx -- deviation-bounded exhaustive explorer + sliced in-process enumerator.  See vx.h. */
#ifndef _GNU_SOURCE
#define _GNU_SOURCE
#endif
#include "vx.h"
#include <errno.h>
#include <fcntl.h>
#include <signal.h>
#include <stdarg.h>
#include <stdlib.h>
#include <string.h>
#include <sys/mman.h>
#include <sys/stat.h>
#include <sys/syscall.h>
#include <sys/time.h>
#include <sys/types.h>
#include <sys/wait.h>
#include <time.h>
#include <unistd.h>
#include <dirent.h>

/* ------------------------------------------------------------------------------------------ */
/* sanitizer defaults (harmless when not built with sanitizers)                                */
const char *__asan_default_options(void);
const char *
__asan_default_options(void) {
  return "exitcode=86:detect_leaks=1:leak_check_at_exit=0:allocator_may_return_null=1:"
         "malloc_context_size=14:detect_stack_use_after_return=0:handle_abort=1:print_summary=1:"
         "max_allocation_size_mb=2048:quarantine_size_mb=8";
}
const char *__ubsan_default_options(void);
const char *
__ubsan_default_options(void) {
  return "print_stacktrace=1:halt_on_error=1";
}
const char *__lsan_default_options(void);
const char *
__lsan_default_options(void) {
  return "print_suppressions=0";
}
extern int __lsan_do_recoverable_leak_check(void) __attribute__((weak));

/* real (not virtual) monotonic time: harnesses define clock_gettime themselves */
static double
real_now(void) {
  struct timespec ts;
  syscall(SYS_clock_gettime, CLOCK_MONOTONIC, &ts);
  return (double)ts.tv_sec + ts.tv_nsec / 1e9;
}
static void
real_sleep_us(long us) {
  struct timespec ts = {us / 1000000, (us % 1000000) * 1000};
  syscall(SYS_nanosleep, &ts, NULL);
}

uint64_t
vx_fnv(const void *p, size_t n, uint64_t h) {
  const uint8_t *b = p;
  for (size_t i = 0; i < n; i++) {
    h ^= b[i];
    h *= 1099511628211ULL;
  }
  return h;
}
void
vx_hex(char *dst, size_t dstlen, const uint8_t *p, size_t n) {
  size_t o = 0;
  for (size_t i = 0; i < n && o + 3 < dstlen; i++)
    o += (size_t)snprintf(dst + o, dstlen - o, "%02x", p[i]);
  if (dstlen)
    dst[o < dstlen ? o : dstlen - 1] = 0;
}

/* ------------------------------------------------------------------------------------------ */
struct vx_pt {
  uint8_t n, chosen;
  uint8_t cost[VX_MAXALT];
  char label[22];
};
struct vx_slot {
  volatile int done;
  double t_start, t_run, t_leak;
  int diverged;
  int npts;
  int spent;
  int nontrivial;
  int nfail;
  int capped_alts;
  uint64_t digest;
  char sig[VX_MAXFAIL][200];
  char msg[VX_MAXFAIL][600];
  char outcome[160];
  uint32_t obs_len;
  int obs_trunc;
  struct vx_pt pts[VX_MAXPTS];
  char obs[VX_OBS_MAX];
};

static const char *g_property = "C00";
static char g_tier[16] = "quick";
static long g_seed = 0;
static int g_jobs = 16;
static double g_t0, g_deadline;
static char g_out[512], g_replay[512], g_scratch[256], g_replaydir[512];
static int g_verbose = 0;

/* child / replay side */
static struct vx_slot *g_slot;
static const uint8_t *g_prefix;
static int g_prefix_len;
static int g_bound_cur;
static int g_mode; /* 0 none, 1 vx child, 2 vx in-process replay, 3 vxp worker, 4 vxp replay */

const char *vx_tier(void) { return g_tier; }
int vx_is_thorough(void) { return strcmp(g_tier, "thorough") == 0; }
long vx_seed(void) { return g_seed; }
int vx_jobs(void) { return g_jobs; }
double vx_time_left(void) { return g_deadline - real_now(); }
void vx_set_deadline(double s) { g_deadline = real_now() + s; }
const char *vx_replay_path(void) { return g_replay[0] ? g_replay : NULL; }
const char *vx_scratch_dir(void) { return g_scratch; }
int vx_in_replay(void) { return g_mode == 2 || g_mode == 4; }

static void
rm_rf(const char *path) {
  DIR *d = opendir(path);
  if (d) {
    struct dirent *e;
    while ((e = readdir(d))) {
      if (!strcmp(e->d_name, ".") || !strcmp(e->d_name, ".."))
        continue;
      char p[768];
      snprintf(p, sizeof p, "%s/%s", path, e->d_name);
      struct stat st;
      if (lstat(p, &st) == 0 && S_ISDIR(st.st_mode))
        rm_rf(p);
      else
        unlink(p);
    }
    closedir(d);
  }
  rmdir(path);
}
static pid_t g_main_pid;
static void
cleanup_scratch(void) {
  if (getpid() == g_main_pid && g_scratch[0])
    rm_rf(g_scratch);
}

static void
tick_handler(int sig) {
  (void)sig;
}

void
vx_main_init(int argc, char **argv, const char *property) {
  g_property = property;
  g_t0 = real_now();
  g_main_pid = getpid();
  const char *e;
  if ((e = getenv("VERIF_TIER")) && *e)
    snprintf(g_tier, sizeof g_tier, "%s", e);
  if ((e = getenv("VERIF_SEED")) && *e)
    g_seed = atol(e);
  if ((e = getenv("VERIF_JOBS")) && *e)
    g_jobs = atoi(e);
  double budget = 0;
  for (int i = 1; i < argc; i++) {
    if (!strcmp(argv[i], "--tier") && i + 1 < argc)
      snprintf(g_tier, sizeof g_tier, "%s", argv[++i]);
    else if (!strcmp(argv[i], "--out") && i + 1 < argc)
      snprintf(g_out, sizeof g_out, "%s", argv[++i]);
    else if (!strcmp(argv[i], "--replay") && i + 1 < argc)
      snprintf(g_replay, sizeof g_replay, "%s", argv[++i]);
    else if (!strcmp(argv[i], "--replaydir") && i + 1 < argc)
      snprintf(g_replaydir, sizeof g_replaydir, "%s", argv[++i]);
    else if (!strcmp(argv[i], "--budget") && i + 1 < argc)
      budget = atof(argv[++i]);
    else if (!strcmp(argv[i], "--jobs") && i + 1 < argc)
      g_jobs = atoi(argv[++i]);
    else if (!strcmp(argv[i], "-v"))
      g_verbose++;
  }
  if (g_jobs < 1)
    g_jobs = 1;
  if (g_jobs > 64)
    g_jobs = 64;
  if (budget <= 0)
    budget = vx_is_thorough() ? 900 : 75;
  g_deadline = g_t0 + budget;
  if (!g_replaydir[0])
    snprintf(g_replaydir, sizeof g_replaydir, "/verif/replay/%s", property);
  snprintf(g_scratch, sizeof g_scratch, "/dev/shm/verif-%s-%d", property, (int)getpid());
  mkdir(g_scratch, 0700);
  atexit(cleanup_scratch);
  setvbuf(stdout, NULL, _IOLBF, 0);
  /* periodic no-op signal so that blocking waitpid() calls return for the per-execution watchdog */
  struct sigaction sa;
  memset(&sa, 0, sizeof sa);
  sa.sa_handler = tick_handler;
  sigaction(SIGALRM, &sa, NULL);
  struct itimerval itv = {{0, 250000}, {0, 250000}};
  setitimer(ITIMER_REAL, &itv, NULL);
}

/* ------------------------------------------------------------------------------------------ */
/* evidence accumulators                                                                       */
#define MAXS 24
static long long ev_states, ev_trans, ev_traces, ev_evals, ev_dnt;
static char *ev_samples[MAXS];
static int ev_nsamples;
static char *ev_assump[32];
static int ev_nassump;
static char *ev_rule;
static char *ev_keys[96], *ev_vals[96];
static int ev_isstr[96], ev_nkv;
static char *ev_caps[16];
static int ev_ncaps;
static int ev_exhaustive = 1;

struct failrec {
  char sig[200];
  char msg[600];
  char replay[700];
  long count;
};
static struct failrec g_fails[128];
static int g_nfails;
static int g_harness_error;

void
vx_ev_int(const char *key, long long v) {
  for (int i = 0; i < ev_nkv; i++)
    if (!strcmp(ev_keys[i], key) && !ev_isstr[i]) {
      char b[32];
      snprintf(b, sizeof b, "%lld", v);
      free(ev_vals[i]);
      ev_vals[i] = strdup(b);
      return;
    }
  if (ev_nkv >= 96)
    return;
  char b[32];
  snprintf(b, sizeof b, "%lld", v);
  ev_keys[ev_nkv] = strdup(key);
  ev_vals[ev_nkv] = strdup(b);
  ev_isstr[ev_nkv++] = 0;
}
void
vx_ev_str(const char *key, const char *v) {
  if (ev_nkv >= 96)
    return;
  ev_keys[ev_nkv] = strdup(key);
  ev_vals[ev_nkv] = strdup(v);
  ev_isstr[ev_nkv++] = 1;
}
void
vx_ev_assumption(const char *t) {
  if (ev_nassump < 32)
    ev_assump[ev_nassump++] = strdup(t);
}
void
vx_ev_rule(const char *t) {
  free(ev_rule);
  ev_rule = strdup(t);
}
void
vx_ev_sample(const char *fmt, ...) {
  if (ev_nsamples >= MAXS)
    return;
  char b[2048];
  va_list ap;
  va_start(ap, fmt);
  vsnprintf(b, sizeof b, fmt, ap);
  va_end(ap);
  ev_samples[ev_nsamples++] = strdup(b);
}
void
vx_ev_add_states(long long s, long long t, long long tr) {
  ev_states += s;
  ev_trans += t;
  ev_traces += tr;
}
void
vx_ev_add_evals(long long e, long long d) {
  ev_evals += e;
  ev_dnt += d;
}
void
vx_ev_not_exhaustive(const char *cap) {
  ev_exhaustive = 0;
  if (ev_ncaps < 16)
    ev_caps[ev_ncaps++] = strdup(cap);
}

static void
json_str(FILE *f, const char *s) {
  fputc('"', f);
  for (; *s; s++) {
    unsigned char c = (unsigned char)*s;
    if (c == '"' || c == '\\')
      fprintf(f, "\\%c", c);
    else if (c == '\n')
      fputs("\\n", f);
    else if (c == '\t')
      fputs("\\t", f);
    else if (c < 0x20 || c >= 0x7f)
      fprintf(f, "\\u%04x", c);
    else
      fputc(c, f);
  }
  fputc('"', f);
}

static void
sanitize(char *dst, size_t n, const char *src) {
  size_t o = 0;
  for (; *src && o + 1 < n; src++) {
    char c = *src;
    if ((c >= 'a' && c <= 'z') || (c >= 'A' && c <= 'Z') || (c >= '0' && c <= '9') || c == '-' || c == '_' ||
        c == '.' || c == '=' || c == '+' || c == ',')
      dst[o++] = c;
    else
      dst[o++] = '_';
  }
  dst[o] = 0;
}

static void
mkdir_p(const char *path) {
  char b[600];
  snprintf(b, sizeof b, "%s", path);
  for (char *p = b + 1; *p; p++)
    if (*p == '/') {
      *p = 0;
      mkdir(b, 0755);
      *p = '/';
    }
  mkdir(b, 0755);
}

static struct failrec *
fail_lookup(const char *sig) {
  for (int i = 0; i < g_nfails; i++)
    if (!strcmp(g_fails[i].sig, sig))
      return &g_fails[i];
  return NULL;
}
static struct failrec *
fail_add(const char *sig, const char *msg) {
  struct failrec *f = fail_lookup(sig);
  if (f) {
    f->count++;
    return f;
  }
  if (g_nfails >= 128)
    return NULL;
  f = &g_fails[g_nfails++];
  memset(f, 0, sizeof *f);
  snprintf(f->sig, sizeof f->sig, "%s", sig);
  snprintf(f->msg, sizeof f->msg, "%s", msg);
  f->count = 1;
  return f;
}

int
vx_finish(void) {
  double wall = real_now() - g_t0;
  if (g_out[0]) {
    char tmp[600];
    snprintf(tmp, sizeof tmp, "%s.tmp", g_out);
    FILE *f = fopen(tmp, "w");
    if (!f) {
      fprintf(stderr, "vx: cannot write %s\n", tmp);
      return 2;
    }
    fprintf(f, "{\n \"property_id\": \"%s\",\n \"tier\": \"%s\",\n \"seed\": %ld,\n \"level\": \"model_checking\",\n",
            g_property, g_tier, g_seed);
    fprintf(f, " \"coverage\": {\n");
    fprintf(f, "  \"states\": %lld,\n  \"transitions\": %lld,\n  \"traces_validated_against_impl\": %lld,\n", ev_states,
            ev_trans, ev_traces);
    fprintf(f, "  \"evaluations\": %lld,\n  \"distinct_nontrivial\": %lld,\n", ev_evals, ev_dnt);
    fprintf(f, "  \"rule\": ");
    json_str(f, ev_rule ? ev_rule : "");
    fprintf(f, ",\n  \"exhaustive\": %s,\n", ev_exhaustive ? "true" : "false");
    fprintf(f, "  \"cap_hit\": [");
    for (int i = 0; i < ev_ncaps; i++) {
      if (i)
        fputc(',', f);
      json_str(f, ev_caps[i]);
    }
    fprintf(f, "],\n");
    for (int i = 0; i < ev_nkv; i++) {
      fprintf(f, "  ");
      json_str(f, ev_keys[i]);
      fprintf(f, ": ");
      if (ev_isstr[i])
        json_str(f, ev_vals[i]);
      else
        fputs(ev_vals[i], f);
      fprintf(f, ",\n");
    }
    fprintf(f, "  \"samples\": [");
    for (int i = 0; i < ev_nsamples; i++) {
      if (i)
        fputc(',', f);
      fprintf(f, "\n   ");
      json_str(f, ev_samples[i]);
    }
    fprintf(f, "]\n },\n \"assumptions\": [");
    for (int i = 0; i < ev_nassump; i++) {
      if (i)
        fputc(',', f);
      fprintf(f, "\n  ");
      json_str(f, ev_assump[i]);
    }
    fprintf(f, "],\n \"failures\": [");
    for (int i = 0; i < g_nfails; i++) {
      if (i)
        fputc(',', f);
      fprintf(f, "\n  {\"sig\": ");
      json_str(f, g_fails[i].sig);
      fprintf(f, ", \"msg\": ");
      json_str(f, g_fails[i].msg);
      fprintf(f, ", \"replay\": ");
      json_str(f, g_fails[i].replay);
      fprintf(f, ", \"count\": %ld}", g_fails[i].count);
    }
    fprintf(f, "],\n \"harness_error\": %d,\n \"violations\": %d,\n \"wall_s\": %.2f\n}\n", g_harness_error, g_nfails, wall);
    fclose(f);
    rename(tmp, g_out);
  }
  for (int i = 0; i < g_nfails; i++)
    printf("FAIL sig=%s replay=%s count=%ld msg=%s\n", g_fails[i].sig, g_fails[i].replay, g_fails[i].count,
           g_fails[i].msg);
  printf("SUMMARY property=%s tier=%s states=%lld transitions=%lld traces=%lld evals=%lld distinct_nontrivial=%lld "
         "exhaustive=%d fails=%d wall=%.1fs\n",
         g_property, g_tier, ev_states, ev_trans, ev_traces, ev_evals, ev_dnt, ev_exhaustive, g_nfails, wall);
  if (g_harness_error)
    return 2;
  return g_nfails ? 1 : 0;
}

/* ------------------------------------------------------------------------------------------ */
/* scenario-side API                                                                           */
static void vxp_fail_record(const char *sig, const char *msg);

static void
obs_append(const char *s, size_t n, int digest) {
  struct vx_slot *sl = g_slot;
  if (!sl)
    return;
  if (digest)
    sl->digest = vx_fnv(s, n, sl->digest);
  if (sl->obs_len + n + 1 < VX_OBS_MAX) {
    memcpy(sl->obs + sl->obs_len, s, n);
    sl->obs_len += (uint32_t)n;
    sl->obs[sl->obs_len] = 0;
  } else
    sl->obs_trunc = 1;
  if (g_mode == 2 || g_mode == 4)
    fwrite(s, 1, n, stdout);
}

int
vx_choose(int n, const uint8_t *cost, const char *label) {
  struct vx_slot *sl = g_slot;
  if (n <= 1 || !sl || (g_mode != 1 && g_mode != 2))
    return 0;
  if (n > VX_MAXALT) {
    n = VX_MAXALT;
    sl->capped_alts = 1;
  }
  int i = sl->npts;
  if (i >= VX_MAXPTS) {
    if (!sl->capped_alts)
      sl->capped_alts = 2;
    return 0;
  }
  int c = i < g_prefix_len ? g_prefix[i] : 0;
  if (c >= n) {
    sl->diverged = 1;
    c = 0;
  }
  struct vx_pt *p = &sl->pts[i];
  p->n = (uint8_t)n;
  p->chosen = (uint8_t)c;
  for (int a = 0; a < n; a++)
    p->cost[a] = a == 0 ? 0 : (cost ? cost[a] : 1);
  snprintf(p->label, sizeof p->label, "%s", label ? label : "");
  sl->spent += p->cost[c];
  sl->npts = i + 1;
  if (g_mode == 2 && c)
    printf("  [choice %d/%d at point %d: %s]\n", c, n, i, label ? label : "");
  return c;
}
int vx_spent(void) { return g_slot ? g_slot->spent : 0; }
int vx_budget_left(void) { return g_bound_cur - vx_spent(); }

void
vx_observe(const char *fmt, ...) {
  char b[1024];
  va_list ap;
  va_start(ap, fmt);
  int n = vsnprintf(b, sizeof b - 1, fmt, ap);
  va_end(ap);
  if (n < 0)
    return;
  if (n > (int)sizeof b - 2)
    n = sizeof b - 2;
  b[n++] = '\n';
  obs_append(b, (size_t)n, 1);
}
void
vx_trace(const char *fmt, ...) {
  if (!(g_mode == 2 || g_mode == 4) && !g_verbose)
    return;
  char b[1024];
  va_list ap;
  va_start(ap, fmt);
  int n = vsnprintf(b, sizeof b - 1, fmt, ap);
  va_end(ap);
  if (n < 0)
    return;
  if (n > (int)sizeof b - 2)
    n = sizeof b - 2;
  b[n++] = '\n';
  if (g_mode == 2 || g_mode == 4)
    fwrite(b, 1, (size_t)n, stdout);
  else
    obs_append(b, (size_t)n, 0);
}
void
vx_fail(const char *sig, const char *fmt, ...) {
  char b[600];
  va_list ap;
  va_start(ap, fmt);
  vsnprintf(b, sizeof b, fmt, ap);
  va_end(ap);
  if (g_mode == 3 || g_mode == 4) {
    vxp_fail_record(sig, b);
    if (g_mode == 4)
      printf("FAIL sig=%s msg=%s\n", sig, b);
    return;
  }
  struct vx_slot *sl = g_slot;
  if (!sl)
    return;
  for (int i = 0; i < sl->nfail; i++)
    if (!strcmp(sl->sig[i], sig))
      return;
  if (sl->nfail < VX_MAXFAIL) {
    snprintf(sl->sig[sl->nfail], sizeof sl->sig[0], "%s", sig);
    snprintf(sl->msg[sl->nfail], sizeof sl->msg[0], "%s", b);
    sl->nfail++;
  }
  char line[900];
  int n = snprintf(line, sizeof line, "!! FAIL %s: %s\n", sig, b);
  obs_append(line, (size_t)n, 0);
}
int vx_failed(void) { return g_slot ? g_slot->nfail : 0; }
/* end the execution right now (e.g. after a deadlock was detected and other threads cannot be unwound) */
void
vx_exit_now(void) {
  if (g_mode == 1 && g_slot) {
    g_slot->done = 1;
    _exit(0);
  }
  if (g_mode == 2 && g_slot) {
    printf("REPLAY-RESULT fails=%d (execution ended early)\n", g_slot->nfail);
    for (int i = 0; i < g_slot->nfail; i++)
      printf("VIOLATION-REPRODUCED sig=%s msg=%s\n", g_slot->sig[i], g_slot->msg[i]);
    fflush(stdout);
    _exit(g_slot->nfail ? 1 : 0);
  }
  _exit(0);
}
void
vx_nontrivial(void) {
  if (g_slot)
    g_slot->nontrivial = 1;
}
void
vx_outcome(const char *fmt, ...) {
  if (!g_slot)
    return;
  va_list ap;
  va_start(ap, fmt);
  vsnprintf(g_slot->outcome, sizeof g_slot->outcome, fmt, ap);
  va_end(ap);
}

/* ------------------------------------------------------------------------------------------ */
/* crash report parsing                                                                        */
static int
frame_is_noise(const char *fn) {
  static const char *noise[] = {"__asan", "__interceptor", "__ubsan", "__sanitizer", "__lsan", "__GI_", "__libc",
                                "_start", "malloc", "calloc", "realloc", "free", "abort", "raise", "__assert",
                                "operator", "memcpy", "memmove", "memset", "memcmp", "strlen", "strcmp", "strncmp",
                                "__wrap_", "__real_", "vx_", "vxp_", "ns_", "hx_", "printf_common", "vsnprintf",
                                "snprintf", "vfprintf", "fprintf", "gsignal", "__pthread", "pthread_kill", "strdup",
                                "strndup", "strchr", "strstr", "strtol", "__strdup", "coap_malloc_type", "coap_realloc_type",
                                "coap_free_type", "main", NULL};
  for (int i = 0; noise[i]; i++)
    if (!strncmp(fn, noise[i], strlen(noise[i])))
      return 1;
  return 0;
}

/* Builds a signature "<kind>:<top libcoap frame>" from a sanitizer / assert report. */
static void
parse_crash(const char *path, int status, char *sig, size_t sigl, char *msg, size_t msgl) {
  char kind[120] = "";
  char frame[120] = "";
  char first[400] = "";
  FILE *f = fopen(path, "r");
  if (f) {
    char line[1024];
    int in_stack = 0;
    while (fgets(line, sizeof line, f)) {
      char *p;
      if (!kind[0]) {
        if ((p = strstr(line, "ERROR: AddressSanitizer: "))) {
          sscanf(p + 25, "%100[^ \n]", kind);
          if (!strcmp(kind, "SEGV")) {
            /* keep it but look for READ/WRITE detail */
          }
          memmove(kind + 5, kind, strlen(kind) + 1);
          memcpy(kind, "asan:", 5);
          snprintf(first, sizeof first, "%s", p);
          in_stack = 1;
        } else if ((p = strstr(line, "runtime error: "))) {
          char what[100] = "";
          sscanf(p + 15, "%90[^\n]", what);
          /* normalise numbers so that the signature is stable */
          char norm[100];
          size_t o = 0;
          for (char *q = what; *q && o + 2 < sizeof norm; q++) {
            if (q[0] == '0' && q[1] == 'x') {
              q += 2;
              while ((*q >= '0' && *q <= '9') || (*q >= 'a' && *q <= 'f'))
                q++;
              q--;
              norm[o++] = '@';
              continue;
            }
            if (*q >= '0' && *q <= '9') {
              if (o == 0 || norm[o - 1] != '#')
                norm[o++] = '#';
            } else
              norm[o++] = *q == ' ' ? '_' : *q;
          }
          norm[o] = 0;
          snprintf(kind, sizeof kind, "ubsan:%.80s", norm);
          /* file:line of the UB is at the start of the line */
          snprintf(first, sizeof first, "%s", line);
          char *c = strstr(line, ": runtime error");
          if (c) {
            *c = 0;
            char *b = strrchr(line, '/');
            char *l2 = b ? b + 1 : line;
            /* strip column */
            char *col = strrchr(l2, ':');
            if (col && col != strchr(l2, ':'))
              *col = 0;
            snprintf(frame, sizeof frame, "%s", l2);
          }
          in_stack = 1;
        } else if ((p = strstr(line, "Assertion `"))) {
          char ex[90] = "";
          sscanf(p + 11, "%80[^']", ex);
          char fl[90] = "";
          /* "prog: file:line: func: Assertion" */
          char *c1 = strchr(line, ' ');
          if (c1) {
            sscanf(c1 + 1, "%80[^:]", fl);
            char *b = strrchr(fl, '/');
            if (b)
              memmove(fl, b + 1, strlen(b));
          }
          snprintf(kind, sizeof kind, "assert:%.40s:%.60s", fl, ex);
          for (char *q = kind; *q; q++)
            if (*q == ' ')
              *q = '_';
          snprintf(first, sizeof first, "%s", line);
          snprintf(frame, sizeof frame, "-");
        } else if ((p = strstr(line, "ERROR: LeakSanitizer: "))) {
          snprintf(kind, sizeof kind, "leak");
          snprintf(first, sizeof first, "%s", p);
          in_stack = 1;
        } else if ((p = strstr(line, "VX-HARNESS: "))) {
          snprintf(kind, sizeof kind, "harness");
          snprintf(first, sizeof first, "%s", p);
          sscanf(p + 12, "%100[^ \n]", frame);
        }
      } else if (in_stack && !frame[0]) {
        if ((p = strstr(line, " in "))) {
          char fn[120] = "";
          sscanf(p + 4, "%110[^ \n]", fn);
          if (fn[0] && !frame_is_noise(fn) && !strstr(line, "/verif/") && !strstr(line, "libasan") &&
              !strstr(line, "libgnutls") && !strstr(line, "libc.so"))
            snprintf(frame, sizeof frame, "%s", fn);
        }
      }
    }
    fclose(f);
  }
  if (!kind[0]) {
    if (WIFSIGNALED(status))
      snprintf(kind, sizeof kind, "signal:%d", WTERMSIG(status));
    else
      snprintf(kind, sizeof kind, "exit:%d", WEXITSTATUS(status));
  }
  if (frame[0] && strcmp(frame, "-"))
    snprintf(sig, sigl, "%s:%s", kind, frame);
  else
    snprintf(sig, sigl, "%s", kind);
  size_t l = strlen(first);
  while (l && (first[l - 1] == '\n' || first[l - 1] == ' '))
    first[--l] = 0;
  snprintf(msg, msgl, "%s", first[0] ? first : "process died without report");
}

/* ------------------------------------------------------------------------------------------ */
/* the explorer                                                                                */
struct job {
  uint8_t *pre;
  int len;
  int cost;
  int scn;
  int verify; /* determinism re-run: expected digest in vdigest */
  uint64_t vdigest;
  int vnpts;
};
struct stack {
  struct job *v;
  long n, cap;
};
static void
st_push(struct stack *s, struct job j) {
  if (s->n == s->cap) {
    s->cap = s->cap ? s->cap * 2 : 1024;
    s->v = realloc(s->v, (size_t)s->cap * sizeof *s->v);
  }
  s->v[s->n++] = j;
}

struct u64set {
  uint64_t *v;
  size_t cap, n;
};
static int
set_add(struct u64set *s, uint64_t h) {
  if (h == 0)
    h = 1;
  if (s->n * 2 >= s->cap) {
    size_t nc = s->cap ? s->cap * 2 : 4096;
    uint64_t *nv = calloc(nc, sizeof *nv);
    for (size_t i = 0; i < s->cap; i++)
      if (s->v[i]) {
        size_t j = s->v[i] & (nc - 1);
        while (nv[j])
          j = (j + 1) & (nc - 1);
        nv[j] = s->v[i];
      }
    free(s->v);
    s->v = nv;
    s->cap = nc;
  }
  size_t j = h & (s->cap - 1);
  while (s->v[j]) {
    if (s->v[j] == h)
      return 0;
    j = (j + 1) & (s->cap - 1);
  }
  s->v[j] = h;
  s->n++;
  return 1;
}

struct cex {
  int scn;
  char sig[200];
  char msg[600];
  uint8_t *ch;
  int len, cost;
  int crash;
};

static struct vx_slot *g_slots;

static void
child_body(struct vx_slot *sl, int slotno, const struct job *j, int bound, vx_run_fn run, void *arg, int leakcheck) {
  char p[400];
  snprintf(p, sizeof p, "%s/err.%d", g_scratch, slotno);
  int fd = open(p, O_WRONLY | O_CREAT | O_TRUNC, 0600);
  if (fd >= 0) {
    dup2(fd, 2);
    dup2(fd, 1);
    close(fd);
  }
  memset(sl, 0, offsetof(struct vx_slot, pts));
  sl->digest = VX_FNV0;
  sl->obs[0] = 0;
  g_slot = sl;
  g_prefix = j->pre;
  g_prefix_len = j->len;
  g_bound_cur = bound;
  g_mode = 1;
  sl->t_start = real_now();
  run(arg);
  sl->t_run = real_now();
  if (leakcheck && __lsan_do_recoverable_leak_check) {
    if (__lsan_do_recoverable_leak_check())
      _exit(87);
  }
  sl->t_leak = real_now();
  sl->done = 1;
  _exit(0);
}

/* ---- persistent forking workers: fork() of the (large, ASan) coordinator costs ~2 ms and is serial, so the
 * coordinator keeps the frontier and N small worker processes do the per-execution fork in parallel ---- */
struct wk {
  pid_t pid;
  int jfd;
  int busy;
  struct job job;
  double started;
};
struct jobmsg {
  int scn, len, bound, leakcheck, tmo;
};
struct resmsg {
  int w, status, timedout;
};
static struct wk *g_wk;
static int g_nwk;
static int g_resfd = -1;

static void
worker_main(int w, int jfd, int rfd, const struct vx_config *cfgs, void *const *args, vx_run_fn run) {
  struct sigaction sa;
  memset(&sa, 0, sizeof sa);
  sa.sa_handler = tick_handler;
  sigaction(SIGALRM, &sa, NULL);
  struct itimerval itv = {{0, 250000}, {0, 250000}};
  setitimer(ITIMER_REAL, &itv, NULL);
  (void)cfgs;
  for (;;) {
    struct jobmsg m;
    ssize_t r;
    size_t got = 0;
    while (got < sizeof m) {
      r = read(jfd, (char *)&m + got, sizeof m - got);
      if (r == 0)
        _exit(0);
      if (r < 0) {
        if (errno == EINTR)
          continue;
        _exit(0);
      }
      got += (size_t)r;
    }
    uint8_t pre[VX_MAXPTS + 1];
    got = 0;
    while (got < (size_t)m.len) {
      r = read(jfd, pre + got, (size_t)m.len - got);
      if (r <= 0) {
        if (r < 0 && errno == EINTR)
          continue;
        _exit(0);
      }
      got += (size_t)r;
    }
    struct job j = {pre, m.len, 0, m.scn, 0, 0, 0};
    g_slots[w].done = 0;
    g_slots[w].npts = 0;
    double t0 = real_now();
    pid_t pid = fork();
    if (pid < 0)
      _exit(3);
    if (pid == 0) {
      close(jfd);
      close(rfd);
      child_body(&g_slots[w], w, &j, m.bound, run, args[m.scn], m.leakcheck);
    }
    struct resmsg res = {w, 0, 0};
    for (;;) {
      pid_t q = waitpid(pid, &res.status, 0);
      if (q == pid)
        break;
      if (real_now() - t0 > m.tmo) {
        kill(pid, SIGKILL);
        waitpid(pid, &res.status, 0);
        res.timedout = 1;
        break;
      }
    }
    while (write(rfd, &res, sizeof res) < 0 && errno == EINTR)
      ;
  }
}

static void
workers_start(int n, const struct vx_config *cfgs, void *const *args, vx_run_fn run) {
  int rp[2];
  if (pipe(rp) < 0) {
    perror("pipe");
    exit(2);
  }
  g_wk = calloc((size_t)n + 1, sizeof *g_wk);
  g_nwk = n;
  g_resfd = rp[0];
  for (int w = 1; w <= n; w++) {
    int jp[2];
    if (pipe(jp) < 0) {
      perror("pipe");
      exit(2);
    }
    pid_t pid = fork();
    if (pid < 0) {
      perror("fork");
      exit(2);
    }
    if (pid == 0) {
      close(jp[1]);
      close(rp[0]);
      for (int q = 1; q < w; q++)
        close(g_wk[q].jfd);
      worker_main(w, jp[0], rp[1], cfgs, args, run);
      _exit(0);
    }
    close(jp[0]);
    g_wk[w].pid = pid;
    g_wk[w].jfd = jp[1];
  }
  close(rp[1]);
}
static void
workers_stop(void) {
  for (int w = 1; w <= g_nwk; w++)
    close(g_wk[w].jfd);
  for (int w = 1; w <= g_nwk; w++) {
    int st;
    while (waitpid(g_wk[w].pid, &st, 0) < 0 && errno == EINTR)
      ;
  }
  close(g_resfd);
  g_resfd = -1;
  free(g_wk);
  g_wk = NULL;
  g_nwk = 0;
}
static void
worker_submit(int w, const struct job *j, int bound, int leakcheck, int tmo) {
  struct jobmsg m = {j->scn, j->len, bound, leakcheck, tmo};
  char buf[sizeof m + VX_MAXPTS + 1];
  memcpy(buf, &m, sizeof m);
  if (j->len)
    memcpy(buf + sizeof m, j->pre, (size_t)j->len);
  size_t tot = sizeof m + (size_t)j->len, off = 0;
  while (off < tot) {
    ssize_t r = write(g_wk[w].jfd, buf + off, tot - off);
    if (r < 0) {
      if (errno == EINTR)
        continue;
      perror("worker write");
      exit(2);
    }
    off += (size_t)r;
  }
  g_wk[w].busy = 1;
  g_wk[w].job = *j;
  g_wk[w].started = real_now();
}
static int
worker_wait(struct resmsg *res) {
  size_t got = 0;
  while (got < sizeof *res) {
    ssize_t r = read(g_resfd, (char *)res + got, sizeof *res - got);
    if (r < 0) {
      if (errno == EINTR)
        continue;
      return 0;
    }
    if (r == 0)
      return 0;
    got += (size_t)r;
  }
  g_wk[res->w].busy = 0;
  return 1;
}

static void
write_replay(const char *scenario, const struct cex *c, const struct vx_slot *sl, char *path_out, size_t pl) {
  char ssig[220], sscn[200];
  sanitize(ssig, sizeof ssig, c->sig);
  sanitize(sscn, sizeof sscn, scenario);
  if (strlen(ssig) > 100)
    ssig[100] = 0;
  if (strlen(sscn) > 80)
    sscn[80] = 0;
  mkdir_p(g_replaydir);
  snprintf(path_out, pl, "%s/%s--%s.json", g_replaydir, ssig, sscn);
  FILE *f = fopen(path_out, "w");
  if (!f)
    return;
  fprintf(f, "{\n \"property\": \"%s\",\n \"kind\": \"vx\",\n \"scenario\": ", g_property);
  json_str(f, scenario);
  fprintf(f, ",\n \"sig\": ");
  json_str(f, c->sig);
  fprintf(f, ",\n \"msg\": ");
  json_str(f, c->msg);
  fprintf(f, ",\n \"cost\": %d,\n \"choices\": [", c->cost);
  for (int i = 0; i < c->len; i++)
    fprintf(f, "%s%d", i ? "," : "", c->ch[i]);
  fprintf(f, "],\n \"labels\": [");
  if (sl)
    for (int i = 0; i < sl->npts && i < c->len; i++) {
      if (i)
        fputc(',', f);
      json_str(f, sl->pts[i].label);
    }
  fprintf(f, "],\n \"trace\": ");
  json_str(f, sl ? sl->obs : "");
  fprintf(f, "\n}\n");
  fclose(f);
}

/* run one execution synchronously on worker 1 (used for shrink / confirm); result in g_slots[1] */
#define SYNC_SLOT 1
static int
run_sync(const uint8_t *ch, int len, int scn, int bound, int leakcheck, int timeout_s, char *sig, size_t sigl, char *msg,
         size_t msgl) {
  struct job j = {(uint8_t *)ch, len, 0, scn, 0, 0, 0};
  struct vx_slot *sl = &g_slots[SYNC_SLOT];
  worker_submit(SYNC_SLOT, &j, bound, leakcheck, timeout_s);
  struct resmsg res;
  if (!worker_wait(&res)) {
    snprintf(sig, sigl, "harness:worker-lost");
    return 1;
  }
  int st = res.status;
  sig[0] = 0;
  if (res.timedout) {
    snprintf(sig, sigl, "timeout");
    snprintf(msg, msgl, "execution exceeded %ds", timeout_s);
    return 1;
  }
  if (WIFEXITED(st) && WEXITSTATUS(st) == 0 && sl->done) {
    if (sl->nfail) {
      snprintf(sig, sigl, "%s", sl->sig[0]);
      snprintf(msg, msgl, "%s", sl->msg[0]);
      return 1;
    }
    return 0;
  }
  char p[400];
  snprintf(p, sizeof p, "%s/err.%d", g_scratch, SYNC_SLOT);
  parse_crash(p, st, sig, sigl, msg, msgl);
  return 1;
}

int
vx_explore(const struct vx_config *cfg, vx_run_fn run, void *arg, struct vx_scn_stats *out) {
  void *args[1] = {arg};
  return vx_explore_multi(cfg->scenario, cfg, args, 1, run, cfg->budget_s, out);
}

int
vx_explore_multi(const char *group, const struct vx_config *cfgs, void *const *args, int nscn, vx_run_fn run,
                 double budget_s, struct vx_scn_stats *out) {
  struct vx_scn_stats stt;
  memset(&stt, 0, sizeof stt);
  stt.bound_completed = -1;
  stt.exhaustive = 1;
  const struct vx_config *cfg = &cfgs[0];
  int bound = 0;
  int tmo = 20;
  for (int i = 0; i < nscn; i++) {
    if (cfgs[i].bound > bound)
      bound = cfgs[i].bound;
    if (cfgs[i].exec_timeout_s > tmo)
      tmo = cfgs[i].exec_timeout_s;
  }
  int jobs = g_jobs;
  double t_start = real_now();
  double deadline = g_deadline;
  if (budget_s > 0 && t_start + budget_s < deadline)
    deadline = t_start + budget_s;
  long *scn_execs = calloc((size_t)nscn, sizeof *scn_execs);

  if (!g_slots) {
    g_slots = mmap(NULL, sizeof(struct vx_slot) * (size_t)(g_jobs + 2), PROT_READ | PROT_WRITE, MAP_SHARED | MAP_ANONYMOUS, -1, 0);
    if (g_slots == MAP_FAILED) {
      perror("mmap");
      exit(2);
    }
  }
  workers_start(jobs, cfgs, args, run);
  struct stack *buckets = calloc((size_t)bound + 1, sizeof *buckets);
  struct u64set digests = {0}, ntdigests = {0};
  struct cex cexs[32];
  int ncex = 0;
  char outcomes[48][160];
  long outcome_cnt[48];
  int noutcomes = 0;
  int running = 0, cur = 0, stop = 0;
  char first_obs[1200] = "", last_obs[1200] = "";
  int first_scn = 0;
  for (int i = nscn - 1; i >= 0; i--) {
    struct job j0 = {NULL, 0, 0, i, 0, 0, 0};
    st_push(&buckets[0], j0);
  }
  long launched = 0;
  int capped = 0;

  while (1) {
    double now = real_now();
    if (!stop && now > deadline) {
      stop = 1;
      stt.exhaustive = 0;
    }
    if (!stop && cfg->max_execs && stt.execs + running >= cfg->max_execs && buckets[cur].n) {
      stop = 2;
      stt.exhaustive = 0;
    }
    /* launch */
    while (!stop && running < jobs && buckets[cur].n > 0) {
      struct job j = buckets[cur].v[--buckets[cur].n];
      int s;
      for (s = 1; s <= jobs; s++)
        if (!g_wk[s].busy)
          break;
      worker_submit(s, &j, cfgs[j.scn].bound, cfgs[j.scn].leakcheck, tmo);
      running++;
      launched++;
    }
    if (running == 0) {
      if (stop)
        break;
      if (buckets[cur].n == 0) {
        stt.bound_completed = cur;
        cur++;
        if (cur > bound)
          break;
        continue;
      }
    }
    /* reap */
    struct resmsg res;
    if (!worker_wait(&res)) {
      fprintf(stderr, "vx: lost contact with workers\n");
      g_harness_error = 1;
      break;
    }
    int st = res.status;
    int s = res.w;
    struct vx_slot *sl = &g_slots[s];
    struct job j = g_wk[s].job;
    running--;

    char csig[200] = "", cmsg[600] = "";
    int crashed = 0;
    if (!(WIFEXITED(st) && WEXITSTATUS(st) == 0 && sl->done)) {
      crashed = 1;
      if (res.timedout) {
        snprintf(csig, sizeof csig, "timeout");
        snprintf(cmsg, sizeof cmsg, "execution exceeded %ds wall (possible unbounded loop)", tmo);
      } else {
        char p[400];
        snprintf(p, sizeof p, "%s/err.%d", g_scratch, s);
        parse_crash(p, st, csig, sizeof csig, cmsg, sizeof cmsg);
      }
    }
    if (sl->diverged) {
      fprintf(stderr, "NONDETERMINISM: scenario %s: replayed prefix hit a choice point with fewer alternatives\n",
              cfgs[j.scn].scenario);
      g_harness_error = 1;
    }
    if (sl->capped_alts)
      capped = sl->capped_alts;
    if (j.verify) {
      stt.det_replays++;
      if (sl->digest != j.vdigest || sl->npts != j.vnpts) {
        fprintf(stderr, "NONDETERMINISM: scenario %s: same choices gave different observations (digest %llx vs %llx, pts %d vs %d)\n",
                cfgs[j.scn].scenario, (unsigned long long)sl->digest, (unsigned long long)j.vdigest, sl->npts, j.vnpts);
        struct cex c;
        memset(&c, 0, sizeof c);
        snprintf(c.sig, sizeof c.sig, "nondeterminism");
        c.ch = j.pre;
        c.len = j.len;
        char pth[700];
        write_replay(cfgs[j.scn].scenario, &c, sl, pth, sizeof pth);
        fprintf(stderr, "  second-run trace in %s\n", pth);
        g_harness_error = 1;
      }
      free(j.pre);
      continue;
    }
    stt.execs++;
    scn_execs[j.scn]++;
    if (g_verbose > 1)
      fprintf(stderr, "[vx] exec fork->start %.2f run %.2f leak %.2f exit->reap %.2f ms\n", (sl->t_start - g_wk[s].started) * 1e3, (sl->t_run - sl->t_start) * 1e3, (sl->t_leak - sl->t_run) * 1e3, (real_now() - sl->t_leak) * 1e3);
    int k = j.len;
    if (sl->npts >= k) {
      stt.points += sl->npts - k + 1;
      stt.transitions += sl->npts - k + (k > 0 ? 1 : 0) + 1;
    } else {
      stt.points += 1;
      stt.transitions += 1;
    }
    if (set_add(&digests, sl->digest))
      stt.distinct_digests++;
    if (sl->nontrivial && set_add(&ntdigests, sl->digest))
      stt.nontrivial_distinct++;
    if (sl->outcome[0]) {
      int o;
      for (o = 0; o < noutcomes; o++)
        if (!strcmp(outcomes[o], sl->outcome))
          break;
      if (o == noutcomes && noutcomes < 48) {
        snprintf(outcomes[noutcomes], sizeof outcomes[0], "%s", sl->outcome);
        outcome_cnt[noutcomes++] = 0;
      }
      if (o < 48)
        outcome_cnt[o]++;
    }
    if (stt.execs == 1) {
      snprintf(first_obs, sizeof first_obs, "%s", sl->obs);
      first_scn = j.scn;
    }
    if (sl->nontrivial || !last_obs[0])
      snprintf(last_obs, sizeof last_obs, "%s", sl->obs);

    /* failures */
    int nf = sl->nfail + (crashed ? 1 : 0);
    for (int fi = 0; fi < nf; fi++) {
      const char *sg = fi < sl->nfail ? sl->sig[fi] : csig;
      const char *mg = fi < sl->nfail ? sl->msg[fi] : cmsg;
      stt.fails++;
      int ci;
      for (ci = 0; ci < ncex; ci++)
        if (!strcmp(cexs[ci].sig, sg))
          break;
      /* full choice vector of this execution */
      int len = sl->npts;
      while (len > 0 && sl->pts[len - 1].chosen == 0)
        len--;
      if (ci == ncex) {
        if (ncex >= 32)
          continue;
        memset(&cexs[ncex], 0, sizeof cexs[0]);
        snprintf(cexs[ncex].sig, sizeof cexs[0].sig, "%s", sg);
        cexs[ncex].cost = 1 << 30;
        cexs[ncex].scn = j.scn;
        ncex++;
      }
      if (sl->spent < cexs[ci].cost || (sl->spent == cexs[ci].cost && len < cexs[ci].len)) {
        cexs[ci].scn = j.scn;
        free(cexs[ci].ch);
        cexs[ci].ch = malloc((size_t)len + 1);
        for (int i = 0; i < len; i++)
          cexs[ci].ch[i] = sl->pts[i].chosen;
        cexs[ci].len = len;
        cexs[ci].cost = sl->spent;
        cexs[ci].crash = fi >= sl->nfail;
        snprintf(cexs[ci].msg, sizeof cexs[0].msg, "%s", mg);
      }
    }

    /* expansion */
    if (!sl->diverged) {
      int cum = 0;
      for (int i = 0; i < sl->npts; i++) {
        struct vx_pt *p = &sl->pts[i];
        if (i >= k) {
          for (int a = 1; a < p->n; a++) {
            int c = cum + p->cost[a];
            if (c > cfgs[j.scn].bound)
              continue;
            struct job nj;
            nj.scn = j.scn;
            nj.len = i + 1;
            nj.pre = malloc((size_t)nj.len);
            for (int q = 0; q < i; q++)
              nj.pre[q] = sl->pts[q].chosen;
            nj.pre[i] = (uint8_t)a;
            nj.cost = c;
            nj.verify = 0;
            nj.vdigest = 0;
            nj.vnpts = 0;
            st_push(&buckets[c < cur ? cur : c], nj);
          }
        }
        cum += p->cost[p->chosen];
      }
    }
    /* determinism re-run of the 1st and every 1000th execution */
    if (stt.execs == 1 || stt.execs % 1000 == 0 || (j.len == 0 && j.scn % 16 == 0)) {
      struct job vj = j;
      vj.pre = malloc((size_t)j.len + 1);
      if (j.len)
        memcpy(vj.pre, j.pre, (size_t)j.len);
      vj.verify = 1;
      vj.vdigest = sl->digest;
      vj.vnpts = sl->npts;
      st_push(&buckets[cur], vj);
    }
    free(j.pre);
  }
  /* drop anything left */
  long left = 0;
  for (int b = 0; b <= bound; b++) {
    for (long i = 0; i < buckets[b].n; i++) {
      if (!buckets[b].v[i].verify)
        left++;
      free(buckets[b].v[i].pre);
    }
    free(buckets[b].v);
  }
  if (left)
    stt.exhaustive = 0;
  if (capped) {
    stt.exhaustive = 0;
    char cap[200];
    snprintf(cap, sizeof cap, "%s: choice point cap hit (%s)", group,
             capped == 1 ? "more than VX_MAXALT alternatives" : "more than VX_MAXPTS points");
    vx_ev_not_exhaustive(cap);
  }
  if (!stt.exhaustive && !capped) {
    char cap[300];
    snprintf(cap, sizeof cap, "%s: %s after %ld executions; bound %d completed, %ld prefixes unexplored at bound %d",
             group, stop == 2 ? "max_execs" : "deadline", stt.execs, stt.bound_completed, left, bound);
    vx_ev_not_exhaustive(cap);
  }

  /* confirm + shrink counterexamples, write replay artefacts */
  for (int ci = 0; ci < ncex; ci++) {
    struct cex *c = &cexs[ci];
    char sg[200], mg[600];
    cfg = &cfgs[c->scn];
    int r = run_sync(c->ch, c->len, c->scn, cfg->bound, cfg->leakcheck, tmo, sg, sizeof sg, mg, sizeof mg);
    if (!r || strcmp(sg, c->sig)) {
      /* try to find it among multiple failures: accept if any recorded sig matches */
      int ok = 0;
      if (r)
        for (int i = 0; i < g_slots[SYNC_SLOT].nfail; i++)
          if (!strcmp(g_slots[SYNC_SLOT].sig[i], c->sig))
            ok = 1;
      if (!ok) {
        fprintf(stderr, "NONDETERMINISM: scenario %s: failure '%s' did not reproduce on replay (got '%s')\n",
                cfg->scenario, c->sig, r ? sg : "pass");
        g_harness_error = 1;
      }
    }
    /* greedy shrink: reset non-default choices to default */
    int attempts = 0;
    for (int i = c->len - 1; i >= 0 && attempts < 40 && real_now() < deadline + 30; i--) {
      if (c->ch[i] == 0)
        continue;
      attempts++;
      uint8_t *cand = malloc((size_t)c->len + 1);
      memcpy(cand, c->ch, (size_t)c->len);
      cand[i] = 0;
      int cl = c->len;
      while (cl > 0 && cand[cl - 1] == 0)
        cl--;
      int rr = run_sync(cand, cl, c->scn, cfg->bound, cfg->leakcheck, tmo, sg, sizeof sg, mg, sizeof mg);
      int same = 0;
      if (rr && !g_slots[SYNC_SLOT].diverged) {
        if (!strcmp(sg, c->sig))
          same = 1;
        for (int q = 0; q < g_slots[SYNC_SLOT].nfail; q++)
          if (!strcmp(g_slots[SYNC_SLOT].sig[q], c->sig))
            same = 1;
      }
      if (same) {
        free(c->ch);
        c->ch = cand;
        c->len = cl;
      } else
        free(cand);
    }
    /* final run to capture the trace of the shrunk case */
    run_sync(c->ch, c->len, c->scn, cfg->bound, cfg->leakcheck, tmo, sg, sizeof sg, mg, sizeof mg);
    struct failrec *fr = fail_add(c->sig, c->msg);
    if (fr) {
      if (!fr->replay[0])
        write_replay(cfg->scenario, c, &g_slots[SYNC_SLOT], fr->replay, sizeof fr->replay);
    }
    free(c->ch);
  }

  /* evidence */
  vx_ev_add_states(stt.points, stt.transitions, stt.execs);
  vx_ev_add_evals(stt.execs, stt.nontrivial_distinct);
  {
    char key[200];
    sanitize(key, sizeof key - 30, group);
    if (strlen(key) > 120)
      key[120] = 0;
    char k2[240];
    snprintf(k2, sizeof k2, "scn.%s", key);
    char val[400];
    int started = 0;
    for (int i = 0; i < nscn; i++)
      if (scn_execs[i])
        started++;
    snprintf(val, sizeof val, "scenarios=%d (run: %d) execs=%ld max_bound=%d bound_completed=%d exhaustive=%d distinct_obs=%ld nontrivial_distinct=%ld outcomes=%d det_replays=%d wall=%.1fs",
             nscn, started, stt.execs, bound, stt.bound_completed, stt.exhaustive, stt.distinct_digests, stt.nontrivial_distinct,
             noutcomes, stt.det_replays, real_now() - t_start);
    vx_ev_str(k2, val);
    if (noutcomes) {
      char ob[1500];
      size_t o = 0;
      for (int i = 0; i < noutcomes && o + 200 < sizeof ob; i++)
        o += (size_t)snprintf(ob + o, sizeof ob - o, "%s%s x%ld", i ? " | " : "", outcomes[i], outcome_cnt[i]);
      snprintf(k2, sizeof k2, "outcomes.%s", key);
      vx_ev_str(k2, ob);
      if (noutcomes == 1 && stt.execs > 50) {
        snprintf(k2, sizeof k2, "vacuous_suspect.%s", key);
        vx_ev_str(k2, "one outcome from many executions");
      }
    }
  }
  if (first_obs[0] && ev_nsamples < MAXS - 4)
    vx_ev_sample("[%s default schedule] %s", cfgs[first_scn].scenario, first_obs);
  if (last_obs[0] && strcmp(last_obs, first_obs) && ev_nsamples < MAXS - 4)
    vx_ev_sample("[%s a deviating schedule] %s", group, last_obs);
  if (g_verbose)
    fprintf(stderr, "[vx] %s: execs=%ld bound_completed=%d exhaustive=%d fails=%d distinct=%ld %.1fs\n", group,
            stt.execs, stt.bound_completed, stt.exhaustive, ncex, stt.distinct_digests, real_now() - t_start);
  free(digests.v);
  free(ntdigests.v);
  free(buckets);
  free(scn_execs);
  workers_stop();
  if (out)
    *out = stt;
  return ncex;
}

/* ------------------------------------------------------------------------------------------ */
/* replay                                                                                      */
static char *
slurp(const char *path) {
  FILE *f = fopen(path, "r");
  if (!f)
    return NULL;
  fseek(f, 0, SEEK_END);
  long n = ftell(f);
  fseek(f, 0, SEEK_SET);
  char *b = malloc((size_t)n + 1);
  if (fread(b, 1, (size_t)n, f) != (size_t)n) {
    /* ignore */
  }
  b[n] = 0;
  fclose(f);
  return b;
}
static int
json_get_str(const char *doc, const char *key, char *out, size_t outl) {
  char pat[100];
  snprintf(pat, sizeof pat, "\"%s\": \"", key);
  const char *p = strstr(doc, pat);
  if (!p)
    return 0;
  p += strlen(pat);
  size_t o = 0;
  while (*p && *p != '"' && o + 1 < outl) {
    if (*p == '\\' && p[1]) {
      p++;
      if (*p == 'n')
        out[o++] = '\n';
      else if (*p == 't')
        out[o++] = '\t';
      else if (*p == 'u') {
        unsigned v = 0;
        sscanf(p + 1, "%4x", &v);
        out[o++] = (char)v;
        p += 4;
      } else
        out[o++] = *p;
      p++;
    } else
      out[o++] = *p++;
  }
  out[o] = 0;
  return 1;
}

int
vx_replay_if_match(const char *scenario, vx_run_fn run, void *arg) {
  if (!g_replay[0])
    return 0;
  char *doc = slurp(g_replay);
  if (!doc) {
    fprintf(stderr, "cannot read %s\n", g_replay);
    exit(2);
  }
  char scn[400];
  if (!json_get_str(doc, "scenario", scn, sizeof scn) || strcmp(scn, scenario)) {
    free(doc);
    return 0;
  }
  uint8_t ch[VX_MAXPTS];
  int len = 0;
  const char *p = strstr(doc, "\"choices\": [");
  if (p) {
    p += 12;
    while (*p && *p != ']' && len < VX_MAXPTS) {
      while (*p == ',' || *p == ' ')
        p++;
      if (*p == ']')
        break;
      ch[len++] = (uint8_t)strtol(p, (char **)&p, 10);
    }
  }
  static struct vx_slot slot;
  memset(&slot, 0, sizeof slot);
  slot.digest = VX_FNV0;
  g_slot = &slot;
  g_prefix = ch;
  g_prefix_len = len;
  g_bound_cur = 1000;
  g_mode = 2;
  printf("REPLAY property=%s scenario=%s choices=%d\n", g_property, scenario, len);
  run(arg);
  int leak = 0;
  if (__lsan_do_recoverable_leak_check)
    leak = __lsan_do_recoverable_leak_check();
  printf("REPLAY-RESULT fails=%d leak=%d digest=%llx\n", slot.nfail, leak, (unsigned long long)slot.digest);
  for (int i = 0; i < slot.nfail; i++)
    printf("VIOLATION-REPRODUCED sig=%s msg=%s\n", slot.sig[i], slot.msg[i]);
  free(doc);
  fflush(stdout);
  _exit(slot.nfail || leak ? 1 : 0);
}

/* ------------------------------------------------------------------------------------------ */
/* vxp: sliced in-process enumeration                                                          */
#define VXP_MAXW 64
#define VXP_SETCAP (1u << 22)
struct vxp_fail {
  char sig[200];
  char msg[600];
  uint64_t index;
};
struct vxp_shared {
  volatile uint64_t next_chunk;
  volatile uint64_t done;
  volatile uint64_t cur_index[VXP_MAXW];
  volatile uint64_t cur_chunk_end[VXP_MAXW];
  volatile int active[VXP_MAXW];
  volatile uint64_t counters[32];
  volatile int lock;
  int nfail;
  struct vxp_fail fails[64];
  int nsamples;
  char samples[8][1500];
  volatile uint64_t setn;
  volatile int set_saturated;
  volatile uint64_t set[VXP_SETCAP];
};
static struct vxp_shared *g_xp;
static int g_xp_worker;
static uint64_t g_xp_index;

static void
xp_lock(void) {
  while (__sync_lock_test_and_set(&g_xp->lock, 1))
    ;
}
static void
xp_unlock(void) {
  __sync_lock_release(&g_xp->lock);
}
static void
vxp_fail_record(const char *sig, const char *msg) {
  if (!g_xp)
    return;
  xp_lock();
  int i;
  for (i = 0; i < g_xp->nfail; i++)
    if (!strcmp(g_xp->fails[i].sig, sig))
      break;
  if (i == g_xp->nfail) {
    if (g_xp->nfail < 64) {
      snprintf(g_xp->fails[i].sig, sizeof g_xp->fails[i].sig, "%s", sig);
      snprintf(g_xp->fails[i].msg, sizeof g_xp->fails[i].msg, "%s", msg);
      g_xp->fails[i].index = g_xp_index;
      g_xp->nfail++;
    }
  } else if (g_xp_index < g_xp->fails[i].index) {
    g_xp->fails[i].index = g_xp_index;
    snprintf(g_xp->fails[i].msg, sizeof g_xp->fails[i].msg, "%s", msg);
  }
  xp_unlock();
}
void
vxp_count(int c, uint64_t inc) {
  if (g_xp && c >= 0 && c < 32)
    __sync_fetch_and_add(&g_xp->counters[c], inc);
}
uint64_t
vxp_counter(int c) {
  return g_xp ? g_xp->counters[c] : 0;
}
void
vxp_distinct(uint64_t h) {
  if (!g_xp || g_xp->set_saturated)
    return;
  if (h == 0)
    h = 1;
  uint64_t j = (h * 0x9E3779B97F4A7C15ULL) >> 42; /* 22 bits */
  for (unsigned probe = 0; probe < 64; probe++) {
    uint64_t v = g_xp->set[j];
    if (v == h)
      return;
    if (v == 0) {
      if (__sync_bool_compare_and_swap(&g_xp->set[j], 0, h)) {
        uint64_t n = __sync_add_and_fetch(&g_xp->setn, 1);
        if (n > VXP_SETCAP / 2)
          g_xp->set_saturated = 1;
        return;
      }
      if (g_xp->set[j] == h)
        return;
    }
    j = (j + 1) & (VXP_SETCAP - 1);
  }
}
void
vxp_sample(const char *fmt, ...) {
  if (g_mode == 4) {
    va_list ap;
    va_start(ap, fmt);
    vprintf(fmt, ap);
    va_end(ap);
    printf("\n");
    return;
  }
  if (!g_xp || g_xp->nsamples >= 8)
    return;
  char b[1500];
  va_list ap;
  va_start(ap, fmt);
  vsnprintf(b, sizeof b, fmt, ap);
  va_end(ap);
  xp_lock();
  if (g_xp->nsamples < 8)
    snprintf(g_xp->samples[g_xp->nsamples++], sizeof g_xp->samples[0], "%s", b);
  xp_unlock();
}

static void
xp_worker(int w, const struct vxp_config *cfg, uint64_t chunk, vxp_case_fn fn, void *arg, uint64_t resume_from,
          uint64_t resume_end, double deadline) {
  char p[400];
  snprintf(p, sizeof p, "%s/xerr.%d", g_scratch, w);
  int fd = open(p, O_WRONLY | O_CREAT | O_TRUNC, 0600);
  if (fd >= 0) {
    dup2(fd, 2);
    dup2(fd, 1);
    close(fd);
  }
  g_mode = 3;
  g_xp_worker = w;
  uint64_t a = resume_from, b = resume_end;
  for (;;) {
    if (a >= b) {
      if (real_now() > deadline)
        break;
      uint64_t c = __sync_fetch_and_add(&g_xp->next_chunk, 1);
      a = c * chunk;
      if (a >= cfg->total)
        break;
      b = a + chunk;
      if (b > cfg->total)
        b = cfg->total;
      g_xp->cur_chunk_end[w] = b;
    }
    for (; a < b; a++) {
      g_xp->cur_index[w] = a;
      g_xp_index = a;
      fn(a, arg);
      __sync_fetch_and_add(&g_xp->done, 1);
    }
  }
  g_xp->active[w] = 0;
  _exit(0);
}

int
vxp_enumerate(const struct vxp_config *cfg, vxp_case_fn fn, void *arg, struct vxp_stats *out) {
  int jobs = g_jobs > VXP_MAXW ? VXP_MAXW : g_jobs;
  double t_start = real_now();
  double deadline = g_deadline;
  if (cfg->budget_s > 0 && t_start + cfg->budget_s < deadline)
    deadline = t_start + cfg->budget_s;
  if (!g_xp) {
    g_xp = mmap(NULL, sizeof *g_xp, PROT_READ | PROT_WRITE, MAP_SHARED | MAP_ANONYMOUS, -1, 0);
    if (g_xp == MAP_FAILED) {
      perror("mmap");
      exit(2);
    }
  }
  /* per-space reset except the distinct set and counters, which accumulate over spaces */
  g_xp->next_chunk = 0;
  g_xp->done = 0;
  g_xp->nfail = 0;
  uint64_t chunk = cfg->chunk;
  if (!chunk) {
    chunk = cfg->total / ((uint64_t)jobs * 16) + 1;
    if (chunk > 200000)
      chunk = 200000;
  }
  pid_t pids[VXP_MAXW] = {0};
  int crashes = 0;
  int nw = jobs;
  if ((uint64_t)nw > cfg->total)
    nw = (int)cfg->total ? (int)cfg->total : 1;
  for (int w = 0; w < nw; w++) {
    g_xp->active[w] = 1;
    g_xp->cur_index[w] = ~0ULL;
    g_xp->cur_chunk_end[w] = 0;
    pid_t pid = fork();
    if (pid == 0)
      xp_worker(w, cfg, chunk, fn, arg, 0, 0, deadline);
    pids[w] = pid;
  }
  int alive = nw;
  int aborted = 0;
  while (alive > 0) {
    int st;
    pid_t pid = waitpid(-1, &st, 0);
    if (pid < 0 && errno == EINTR)
      continue;
    if (pid <= 0)
      break;
    int w;
    for (w = 0; w < nw; w++)
      if (pids[w] == pid)
        break;
    if (w == nw)
      continue;
    pids[w] = 0;
    alive--;
    if (WIFEXITED(st) && WEXITSTATUS(st) == 0)
      continue;
    /* crashed inside case cur_index[w] */
    crashes++;
    uint64_t idx = g_xp->cur_index[w];
    char sig[200], msg[600], p[400];
    snprintf(p, sizeof p, "%s/xerr.%d", g_scratch, w);
    parse_crash(p, st, sig, sizeof sig, msg, sizeof msg);
    g_xp_index = idx;
    vxp_fail_record(sig, msg);
    if (crashes > 200) {
      aborted = 1;
      continue;
    }
    /* resume after the crashing index */
    __sync_fetch_and_add(&g_xp->done, 1);
    pid_t np = fork();
    if (np == 0)
      xp_worker(w, cfg, chunk, fn, arg, idx + 1, g_xp->cur_chunk_end[w], deadline);
    pids[w] = np;
    alive++;
  }
  struct vxp_stats stt;
  stt.total = cfg->total;
  stt.done = g_xp->done;
  stt.exhaustive = (stt.done >= cfg->total) && !aborted;
  stt.fails = g_xp->nfail;
  if (!stt.exhaustive) {
    char cap[300];
    snprintf(cap, sizeof cap, "%s: %s after %llu of %llu cases", cfg->space, aborted ? "too many crashes" : "deadline",
             (unsigned long long)stt.done, (unsigned long long)cfg->total);
    vx_ev_not_exhaustive(cap);
  }
  /* failures -> replay artefacts */
  for (int i = 0; i < g_xp->nfail; i++) {
    struct failrec *fr = fail_add(g_xp->fails[i].sig, g_xp->fails[i].msg);
    if (fr && !fr->replay[0]) {
      char ssig[220], ssp[120];
      sanitize(ssig, sizeof ssig, g_xp->fails[i].sig);
      if (strlen(ssig) > 100)
        ssig[100] = 0;
      sanitize(ssp, sizeof ssp, cfg->space);
      mkdir_p(g_replaydir);
      snprintf(fr->replay, sizeof fr->replay, "%s/%s--%s.json", g_replaydir, ssig, ssp);
      FILE *f = fopen(fr->replay, "w");
      if (f) {
        fprintf(f, "{\n \"property\": \"%s\",\n \"kind\": \"vxp\",\n \"scenario\": ", g_property);
        json_str(f, cfg->space);
        fprintf(f, ",\n \"index\": %llu,\n \"sig\": ", (unsigned long long)g_xp->fails[i].index);
        json_str(f, g_xp->fails[i].sig);
        fprintf(f, ",\n \"msg\": ");
        json_str(f, g_xp->fails[i].msg);
        fprintf(f, "\n}\n");
        fclose(f);
      }
    }
  }
  for (int i = 0; i < g_xp->nsamples && ev_nsamples < MAXS; i++)
    vx_ev_sample("[%s] %s", cfg->space, g_xp->samples[i]);
  g_xp->nsamples = 0;
  {
    char key[160], k2[200], val[300];
    sanitize(key, sizeof key, cfg->space);
    snprintf(k2, sizeof k2, "space.%s", key);
    snprintf(val, sizeof val, "cases=%llu/%llu exhaustive=%d fail_sigs=%ld wall=%.1fs", (unsigned long long)stt.done,
             (unsigned long long)stt.total, stt.exhaustive, stt.fails, real_now() - t_start);
    vx_ev_str(k2, val);
  }
  if (out)
    *out = stt;
  return (int)stt.fails;
}

/* replay for vxp: returns index if file matches space */
int vxp_replay_if_match(const char *space, vxp_case_fn fn, void *arg);
int
vxp_replay_if_match(const char *space, vxp_case_fn fn, void *arg) {
  if (!g_replay[0])
    return 0;
  char *doc = slurp(g_replay);
  if (!doc) {
    fprintf(stderr, "cannot read %s\n", g_replay);
    exit(2);
  }
  char scn[400];
  if (!json_get_str(doc, "scenario", scn, sizeof scn) || strcmp(scn, space)) {
    free(doc);
    return 0;
  }
  const char *p = strstr(doc, "\"index\": ");
  uint64_t idx = p ? strtoull(p + 9, NULL, 10) : 0;
  if (!g_xp)
    g_xp = mmap(NULL, sizeof *g_xp, PROT_READ | PROT_WRITE, MAP_SHARED | MAP_ANONYMOUS, -1, 0);
  g_mode = 4;
  g_xp_index = idx;
  printf("REPLAY property=%s space=%s index=%llu\n", g_property, space, (unsigned long long)idx);
  fn(idx, arg);
  printf("REPLAY-RESULT fails=%d\n", g_xp->nfail);
  for (int i = 0; i < g_xp->nfail; i++)
    printf("VIOLATION-REPRODUCED sig=%s msg=%s\n", g_xp->fails[i].sig, g_xp->fails[i].msg);
  fflush(stdout);
  _exit(g_xp->nfail ? 1 : 0);
}

uint64_t vxp_distinct_count(void);
uint64_t
vxp_distinct_count(void) {
  return g_xp ? g_xp->setn : 0;
}
