/* C13 race stage: happens-before data-race detection on every explored schedule (included by c13_threads.c when C13_RACE is defined).
 *
 * The library objects of this stage are compiled with gcc -fsanitize=thread, which makes the compiler call __tsan_read<N> /
 * __tsan_write<N> / __tsan_{read,write}_range before every memory access of libcoap code that is not provably thread-local.  The
 * executable is NOT linked with the ThreadSanitizer runtime: the hooks are defined here.  Under the cooperative scheduler exactly
 * one thread runs at a time, so the hooks need no synchronisation of their own, and - unlike the real runtime - they do not see the
 * scheduler's hand-offs, which are not synchronisation of the program under test.
 *
 * Algorithm (DJIT+ / vector clocks): every thread t has a clock vector VC[t]; every modelled mutex m has one, L[m].
 *   acquire(m): VC[t] = max(VC[t], L[m])        release(m): L[m] = VC[t]; VC[t][t]++
 * Modelled synchronisation: libcoap's global lock and every other pthread mutex that lives in the executable's data segment (the
 * library's static mutexes); thread start (all clocks equal when the ownership invariant is armed: set-up ran single-threaded).
 * Every byte of non-stack memory touched by library code while >= 2 threads are alive has a shadow cell (last write epoch, last
 * read epoch per thread).  A read that is not ordered after the last write by another thread, or a write that is not ordered after
 * the last write / any last read by another thread, is a data race in this schedule: no sequence of lock operations separates the
 * two accesses.  There are no false positives with respect to the modelled synchronisation; the explorer supplies the schedules.
 * free() / realloc() forget the shadow of the block (the allocator orders reuse).
 *
 * memcpy / memmove / memset / memcmp calls of the library are routed through rc_mem*() below (macro renaming at compile time) and
 * count as accesses of the calling function.  Not seen: accesses made inside other libc functions (strlen, snprintf ...) and inside
 * GnuTLS on the library's behalf, accesses by the harness itself.
 */
#ifndef _GNU_SOURCE
#define _GNU_SOURCE
#endif
#include <malloc.h>
extern int pthread_getattr_np(pthread_t, pthread_attr_t *);
#include <sys/mman.h>

#define RC_PAGE_SHIFT 12
#define RC_PAGE (1u << RC_PAGE_SHIFT)
struct rc_cell {
  uint32_t wc;        /* clock of the last write (0: none) */
  uint32_t rc[MAXT];  /* clock of the last read by each thread (0: none) */
  uint32_t wpc;       /* code address of the last write (non-PIE executable: fits 32 bits) */
  uint32_t rpc[MAXT]; /* code address of the last read by each thread */
  uint8_t wt;         /* thread of the last write */
  uint8_t wlocked;    /* the last writer held the global lock */
  uint8_t rlocked;    /* bit t: the last read by thread t was made holding the global lock */
  uint8_t pad;
};
#define RC_SLOTS 16384u
static struct {
  uintptr_t page; /* page number + 1, 0 = empty */
  struct rc_cell *cells;
} rc_tab[RC_SLOTS];
static unsigned rc_pages;
static char *rc_arena, *rc_arena_end, *rc_bump;
static uint32_t rc_vc[MAXT][MAXT];
#define RC_NLOCKS 24
static struct {
  pthread_mutex_t *m;
  uint32_t vc[MAXT];
} rc_lock[RC_NLOCKS];
static int rc_nlocks;
static int rc_on; /* tracking in this execution */
static char rc_sigs[16][200];
static int rc_nsigs;
static unsigned long long rc_accesses, rc_bytes;
static uintptr_t rc_stack_lo[MAXT], rc_stack_hi[MAXT];
extern char __data_start[], _end[];

struct rc_sym {
  uintptr_t addr;
  char ty;
  char name[47];
};
static struct rc_sym *rc_syms;
static int rc_nsyms;

static NOINSTR void
rc_load_symbols_once(void) {
  char cmd[600], exe[400];
  ssize_t l = readlink("/proc/self/exe", exe, sizeof exe - 1);
  if (l <= 0)
    return;
  exe[l] = 0;
  snprintf(cmd, sizeof cmd, "nm -n '%s'", exe);
  FILE *f = popen(cmd, "r");
  if (!f)
    return;
  char line[400];
  int cap = 0;
  while (fgets(line, sizeof line, f)) {
    unsigned long a;
    char ty, nm[300];
    if (sscanf(line, "%lx %c %299s", &a, &ty, nm) != 3)
      continue;
    if (!strchr("tTbBdDrR", ty))
      continue;
    if (rc_nsyms == cap) {
      cap = cap ? cap * 2 : 4096;
      rc_syms = realloc(rc_syms, sizeof *rc_syms * (size_t)cap);
    }
    rc_syms[rc_nsyms].addr = a;
    rc_syms[rc_nsyms].ty = ty;
    snprintf(rc_syms[rc_nsyms].name, sizeof rc_syms[rc_nsyms].name, "%s", nm);
    char *dot = strchr(rc_syms[rc_nsyms].name, '.'); /* foo.part.0 / foo.constprop.1 / static.1234 -> foo */
    if (dot)
      *dot = 0;
    rc_nsyms++;
  }
  pclose(f);
}
static NOINSTR const char *rc_symbolize(uintptr_t a, const char *kinds);
static NOINSTR void
rc_load_symbols(void) {
  /* the signatures name functions: without a usable table nothing this stage reports could be matched, so insist on one */
  for (int attempt = 0; attempt < 5; attempt++) {
    rc_nsyms = 0;
    rc_load_symbols_once();
    const char *me = rc_symbolize((uintptr_t)&rc_load_symbols, "tT");
    if (rc_nsyms > 500 && me && !strcmp(me, "rc_load_symbols"))
      return;
    usleep(200000);
  }
  fprintf(stderr, "HARNESS-ERROR: race detector: cannot read the symbol table of the executable (nm)\n");
  exit(2);
}
static NOINSTR const char *
rc_symbolize(uintptr_t a, const char *kinds) {
  int lo = 0, hi = rc_nsyms - 1, best = -1;
  while (lo <= hi) {
    int mid = (lo + hi) / 2;
    if (rc_syms[mid].addr <= a) {
      best = mid;
      lo = mid + 1;
    } else
      hi = mid - 1;
  }
  if (best < 0 || !strchr(kinds, rc_syms[best].ty))
    return NULL;
  return rc_syms[best].name;
}

static NOINSTR void
rc_global_init(void) { /* in the parent, before any execution is forked: address space only, no memory */
  size_t sz = (size_t)6 << 30;
  rc_arena = mmap(NULL, sz, PROT_READ | PROT_WRITE, MAP_PRIVATE | MAP_ANONYMOUS | MAP_NORESERVE, -1, 0);
  if (rc_arena == MAP_FAILED) {
    fprintf(stderr, "HARNESS-ERROR: cannot reserve the race-detector shadow arena\n");
    exit(2);
  }
  rc_arena_end = rc_arena + sz;
  rc_bump = rc_arena;
  rc_load_symbols();
}

static NOINSTR void
rc_exec_init(void) { /* start of one execution (forked child): nothing tracked yet */
  rc_on = 0;
  rc_nsigs = 0;
  rc_nlocks = 1; /* lock 0 is the global lock */
  memset(rc_lock, 0, sizeof rc_lock);
  memset(rc_vc, 0, sizeof rc_vc);
  if (rc_pages) { /* (only when one process runs several executions, e.g. a replay) */
    memset(rc_tab, 0, sizeof rc_tab);
    rc_pages = 0;
    madvise(rc_arena, (size_t)(rc_bump - rc_arena), MADV_DONTNEED);
    rc_bump = rc_arena;
  }
}

static NOINSTR void
rc_arm(void) { /* set-up is complete, the API threads start now: every thread's clock starts after everything done so far */
  for (int t = 0; t < MAXT; t++)
    for (int u = 0; u < MAXT; u++)
      rc_vc[t][u] = 1;
  rc_on = 1;
}
static NOINSTR void
rc_thread_stack(int t) {
  pthread_attr_t at;
  void *sa = NULL;
  size_t ss = 0;
  if (pthread_getattr_np(pthread_self(), &at) == 0) {
    pthread_attr_getstack(&at, &sa, &ss);
    pthread_attr_destroy(&at);
  }
  rc_stack_lo[t] = (uintptr_t)sa;
  rc_stack_hi[t] = (uintptr_t)sa + ss;
}

static NOINSTR int
rc_lock_index(pthread_mutex_t *m, int global) {
  if (global)
    return 0;
  if ((char *)m < __data_start || (char *)m >= _end)
    return -1; /* not a mutex of the program under test (GnuTLS, libc): not modelled, so it orders nothing */
  for (int i = 1; i < rc_nlocks; i++)
    if (rc_lock[i].m == m)
      return i;
  if (rc_nlocks == RC_NLOCKS) {
    fprintf(stderr, "HARNESS-ERROR: race detector: more than %d static mutexes\n", RC_NLOCKS);
    _exit(2);
  }
  rc_lock[rc_nlocks].m = m;
  return rc_nlocks++;
}
static NOINSTR void
rc_acquire(pthread_mutex_t *m, int global) {
  if (!rc_on || my_id < 0)
    return;
  int i = rc_lock_index(m, global);
  if (i < 0)
    return;
  for (int u = 0; u < MAXT; u++)
    if (rc_lock[i].vc[u] > rc_vc[my_id][u])
      rc_vc[my_id][u] = rc_lock[i].vc[u];
}
static NOINSTR void
rc_release(pthread_mutex_t *m, int global) {
  if (!rc_on || my_id < 0)
    return;
  int i = rc_lock_index(m, global);
  if (i < 0)
    return;
  memcpy(rc_lock[i].vc, rc_vc[my_id], sizeof rc_lock[i].vc);
  rc_vc[my_id][my_id]++;
}

static NOINSTR struct rc_cell *
rc_page_cells(uintptr_t page, int create) {
  unsigned h = (unsigned)((page * 0x9E3779B97F4A7C15ull) >> 40) & (RC_SLOTS - 1);
  for (;;) {
    if (rc_tab[h].page == page + 1)
      return rc_tab[h].cells;
    if (rc_tab[h].page == 0) {
      if (!create)
        return NULL;
      if (rc_pages * 2 > RC_SLOTS || rc_bump + sizeof(struct rc_cell) * RC_PAGE > rc_arena_end) {
        fprintf(stderr, "HARNESS-ERROR: race detector shadow exhausted (%u pages)\n", rc_pages);
        _exit(2);
      }
      rc_tab[h].page = page + 1;
      rc_tab[h].cells = (struct rc_cell *)rc_bump;
      rc_bump += sizeof(struct rc_cell) * RC_PAGE;
      rc_pages++;
      return rc_tab[h].cells;
    }
    h = (h + 1) & (RC_SLOTS - 1);
  }
}

static NOINSTR void
rc_report(uintptr_t addr, int wr, uintptr_t pc, const struct rc_cell *c, int prev_wr, int prev_t) {
  const char *f1 = rc_symbolize(pc, "tT"), *f2 = rc_symbolize(prev_wr ? c->wpc : c->rpc[prev_t], "tT");
  int l1 = lock_owner == my_id, l2 = prev_wr ? c->wlocked : (c->rlocked >> prev_t) & 1;
  if (!f1)
    f1 = "?";
  if (!f2)
    f2 = "?";
  /* Signature = the call site(s) that touch the location without the global lock (in alphabetical order, so that it does not
   * depend on which access the schedule ran second) + the object for globals.  The function on the locked side is in the
   * message only: any lock-holding user of the same field is the same defect. */
  char who[120], sig[200];
  if (!l1 && !l2)
    snprintf(who, sizeof who, "%s+%s", strcmp(f1, f2) <= 0 ? f1 : f2, strcmp(f1, f2) <= 0 ? f2 : f1);
  else if (l1 && l2)
    snprintf(who, sizeof who, "none(both-hold-the-lock):%s+%s", strcmp(f1, f2) <= 0 ? f1 : f2, strcmp(f1, f2) <= 0 ? f2 : f1);
  else
    snprintf(who, sizeof who, "%s", l1 ? f2 : f1);
  if (addr >= (uintptr_t)__data_start && addr < (uintptr_t)_end) {
    const char *g = rc_symbolize(addr, "bBdD");
    snprintf(sig, sizeof sig, "data-race:unlocked:%s:global:%s", who, g ? g : "?");
  } else
    snprintf(sig, sizeof sig, "data-race:unlocked:%s:heap", who);
  for (int i = 0; i < rc_nsigs; i++)
    if (!strcmp(rc_sigs[i], sig))
      return;
  if (rc_nsigs < 16)
    snprintf(rc_sigs[rc_nsigs++], sizeof rc_sigs[0], "%s", sig);
  vx_fail(sig, "thread %s %s %p in %s() [global lock held: %s]; the last %s of that byte, by thread %s in %s() [global lock held: %s], is not "
               "ordered before it by any lock operation (clock %u of %s; %s has seen %u)",
          T[my_id].name, wr ? "writes" : "reads", (void *)addr, f1, l1 ? "yes" : "no", prev_wr ? "write" : "read", T[prev_t].name, f2,
          l2 ? "yes" : "no", prev_wr ? c->wc : c->rc[prev_t], T[prev_t].name, T[my_id].name, rc_vc[my_id][prev_t]);
}

static NOINSTR void
rc_access(uintptr_t a, size_t n, int wr, uintptr_t pc) {
  if (!rc_on || !armed || my_id < 0)
    return;
  int t = my_id;
  if (a >= rc_stack_lo[t] && a < rc_stack_hi[t])
    return;
  rc_accesses++;
  rc_bytes += n;
  const uint32_t *vc = rc_vc[t];
  uint32_t now = vc[t];
  int locked = lock_owner == t;
  while (n) {
    uintptr_t page = a >> RC_PAGE_SHIFT;
    unsigned off = (unsigned)(a & (RC_PAGE - 1));
    size_t k = RC_PAGE - off < n ? RC_PAGE - off : n;
    struct rc_cell *c = rc_page_cells(page, 1) + off;
    for (size_t i = 0; i < k; i++, c++) {
      if (c->wc && c->wt != t && c->wc > vc[c->wt])
        rc_report(a + i, wr, pc, c, 1, c->wt);
      if (wr) {
        if (c->wc == now && c->wt == t)
          continue; /* same epoch: already checked */
        for (int u = 0; u < MAXT; u++)
          if (u != t && c->rc[u] > vc[u])
            rc_report(a + i, wr, pc, c, 0, u);
        c->wc = now;
        c->wt = (uint8_t)t;
        c->wlocked = (uint8_t)locked;
        c->wpc = (uint32_t)pc;
      } else if (c->rc[t] != now) {
        c->rc[t] = now;
        c->rlocked = (uint8_t)((c->rlocked & ~(1u << t)) | ((unsigned)locked << t));
        c->rpc[t] = (uint32_t)pc;
      }
    }
    a += k;
    n -= k;
  }
}

static NOINSTR void
rc_forget(void *p, size_t n) {
  if (!rc_on || !p || !rc_pages)
    return;
  uintptr_t a = (uintptr_t)p;
  while (n) {
    unsigned off = (unsigned)(a & (RC_PAGE - 1));
    size_t k = RC_PAGE - off < n ? RC_PAGE - off : n;
    struct rc_cell *c = rc_page_cells(a >> RC_PAGE_SHIFT, 0);
    if (c)
      memset(c + off, 0, k * sizeof *c);
    a += k;
    n -= k;
  }
}

/* the allocator orders the reuse of a block: forget what was known about it */
extern void __libc_free(void *);
extern void *__libc_realloc(void *, size_t);
NOINSTR void
free(void *p) {
  if (rc_on && p)
    rc_forget(p, malloc_usable_size(p));
  __libc_free(p);
}
NOINSTR void *
realloc(void *p, size_t n) {
  if (rc_on && p)
    rc_forget(p, malloc_usable_size(p));
  return __libc_realloc(p, n);
}

/* The library objects of this stage are compiled with -Dmemcpy=rc_memcpy etc.: what libcoap copies / fills / compares through the C
 * library is an access of libcoap too (the C library itself is not instrumented). */
NOINSTR void *rc_memcpy(void *d, const void *s, size_t n);
NOINSTR void *rc_memmove(void *d, const void *s, size_t n);
NOINSTR void *rc_memset(void *d, int c, size_t n);
NOINSTR int rc_memcmp(const void *a, const void *b, size_t n);
void *
rc_memcpy(void *d, const void *s, size_t n) {
  if (n) {
    rc_access((uintptr_t)s, n, 0, (uintptr_t)__builtin_return_address(0));
    rc_access((uintptr_t)d, n, 1, (uintptr_t)__builtin_return_address(0));
  }
  return (memcpy)(d, s, n);
}
void *
rc_memmove(void *d, const void *s, size_t n) {
  if (n) {
    rc_access((uintptr_t)s, n, 0, (uintptr_t)__builtin_return_address(0));
    rc_access((uintptr_t)d, n, 1, (uintptr_t)__builtin_return_address(0));
  }
  return (memmove)(d, s, n);
}
void *
rc_memset(void *d, int c, size_t n) {
  if (n)
    rc_access((uintptr_t)d, n, 1, (uintptr_t)__builtin_return_address(0));
  return (memset)(d, c, n);
}
int
rc_memcmp(const void *a, const void *b, size_t n) {
  if (n) {
    rc_access((uintptr_t)a, n, 0, (uintptr_t)__builtin_return_address(0));
    rc_access((uintptr_t)b, n, 0, (uintptr_t)__builtin_return_address(0));
  }
  return (memcmp)(a, b, n);
}

/* the compiler's instrumentation calls */
#define RC_PC ((uintptr_t)__builtin_return_address(0))
#define RC_HOOKS(N)                                  \
  NOINSTR void __tsan_read##N(void *a);              \
  NOINSTR void __tsan_write##N(void *a);             \
  NOINSTR void __tsan_unaligned_read##N(void *a);    \
  NOINSTR void __tsan_unaligned_write##N(void *a);   \
  void __tsan_read##N(void *a) {                     \
    rc_access((uintptr_t)a, N, 0, RC_PC);            \
  }                                                  \
  void __tsan_write##N(void *a) {                    \
    rc_access((uintptr_t)a, N, 1, RC_PC);            \
  }                                                  \
  void __tsan_unaligned_read##N(void *a) {           \
    rc_access((uintptr_t)a, N, 0, RC_PC);            \
  }                                                  \
  void __tsan_unaligned_write##N(void *a) {          \
    rc_access((uintptr_t)a, N, 1, RC_PC);            \
  }
RC_HOOKS(1)
RC_HOOKS(2)
RC_HOOKS(4)
RC_HOOKS(8)
RC_HOOKS(16)
NOINSTR void __tsan_read_range(void *a, unsigned long n);
NOINSTR void __tsan_write_range(void *a, unsigned long n);
NOINSTR void __tsan_func_entry(void *pc);
NOINSTR void __tsan_func_exit(void);
NOINSTR void __tsan_init(void);
void
__tsan_read_range(void *a, unsigned long n) {
  rc_access((uintptr_t)a, n, 0, RC_PC);
}
void
__tsan_write_range(void *a, unsigned long n) {
  rc_access((uintptr_t)a, n, 1, RC_PC);
}
void
__tsan_func_entry(void *pc) {
  (void)pc;
}
void
__tsan_func_exit(void) {
}
void
__tsan_init(void) {
}
