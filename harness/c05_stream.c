/* C05 -- stream transports deliver the same messages however the byte stream is cut.
 *
 * A real libcoap server endpoint (TCP, then WebSocket) accepts a connection from a raw client; the
 * client's byte stream (CSM / HTTP upgrade + a fixed sequence of valid messages composed by the harness
 * with its own framing code) is delivered under a chosen segmentation: recv() on the harness-owned
 * descriptor returns exactly the chunk lengths the case prescribes.  Two exhaustive searches:
 *   (1) every placement of <= k cuts (plus byte-wise and single-chunk), enumerated with vxp;
 *   (2) all 2^(N-1) segmentations by explicit-state search over the reader's state (level-synchronous BFS,
 *       state = stream offset + every reader field + messages delivered so far; merged states have equal futures).
 * Oracle: the sequence of (code, token, options, payload) reaching the request handler equals the sequence
 * the harness composed, and the bytes written back are the same for every segmentation.
 */
#include "netsim.h"
#include "wire.h"
#include <sys/mman.h>
#include <sys/wait.h>
#include <fcntl.h>
#include <unistd.h>

/* ------------------------------------------------------------------------------------------ */
/* composing streams (independent framing code, RFC 8323 section 3, RFC 8974, RFC 6455 5.2)     */
struct cmsg {
  int code;
  size_t tkl;
  uint8_t token[300];
  int nopts;
  struct {
    uint32_t num;
    size_t len;
    uint8_t val[300];
  } opts[4];
  size_t plen;
  uint8_t payload[400];
  /* where the message sits in the stream */
  size_t start, hdr_end /* after Len/ext-len/code */, tok_end, end;
  size_t ws_start; /* start of the WS frame header (WS only) */
  int is_signal;
  size_t big_plen; /* >0: the payload is big_plen bytes of the pattern 0x30 + i % 41 (not stored) */
};
struct stream {
  char name[40];
  int ws;
  uint8_t b[70400];
  size_t n;
  size_t cutpos[200]; /* ncutpos > 0: cuts are placed at these offsets only (a 66 KiB stream has too many pairs of offsets) */
  int ncutpos;
  struct cmsg msgs[12];
  int nmsgs;
  size_t http_end; /* WS: end of the HTTP upgrade request */
  int expect_close; /* the stream must end with the session closed */
  int expect_msgs;  /* number of request messages that must reach the handler */
  unsigned csm_max; /* >0: the server is configured with this Max-Message-Size (coap_context_set_csm_max_message_size) */
  int srv_writes;   /* the server application writes something of its own (a Ping) after every read: what the reader keeps
                     * between two reads must not be disturbed by the session's writer */
};

static size_t
put_opts_payload(uint8_t *o, const struct cmsg *m) {
  struct w_buf w;
  w.n = 0;
  w.last = 0;
  for (int i = 0; i < m->nopts; i++)
    w_opt_add(&w, m->opts[i].num, m->opts[i].val, m->opts[i].len);
  w_payload(&w, m->payload, m->plen);
  memcpy(o, w.b, w.n);
  return w.n;
}
static size_t
put_tkl(uint8_t *ext, size_t tkl, int *nib) {
  if (tkl <= 12) {
    *nib = (int)tkl;
    return 0;
  }
  if (tkl < 269) {
    *nib = 13;
    ext[0] = (uint8_t)(tkl - 13);
    return 1;
  }
  *nib = 14;
  ext[0] = (uint8_t)((tkl - 269) >> 8);
  ext[1] = (uint8_t)(tkl - 269);
  return 2;
}

static void
stream_add(struct stream *s, struct cmsg m) {
  uint8_t body[1200];
  size_t bl = put_opts_payload(body, &m);
  uint8_t tke[2];
  int tn;
  size_t tel = put_tkl(tke, m.tkl, &tn);
  uint8_t hdr[8];
  size_t hl = 0;
  if (s->ws) {
    hdr[hl++] = (uint8_t)tn; /* Len nibble 0 */
  } else if (bl <= 12)
    hdr[hl++] = (uint8_t)(bl << 4 | tn);
  else if (bl < 269) {
    hdr[hl++] = (uint8_t)(13 << 4 | tn);
    hdr[hl++] = (uint8_t)(bl - 13);
  } else if (bl < 65805) {
    hdr[hl++] = (uint8_t)(14 << 4 | tn);
    hdr[hl++] = (uint8_t)((bl - 269) >> 8);
    hdr[hl++] = (uint8_t)(bl - 269);
  }
  hdr[hl++] = (uint8_t)m.code;
  uint8_t msg[2000];
  size_t ml = 0;
  memcpy(msg, hdr, hl);
  ml = hl;
  memcpy(msg + ml, tke, tel);
  ml += tel;
  memcpy(msg + ml, m.token, m.tkl);
  ml += m.tkl;
  memcpy(msg + ml, body, bl);
  ml += bl;
  m.ws_start = s->n;
  if (s->ws) {
    /* masked binary frame, FIN set */
    static const uint8_t key[4] = {0x37, 0xfa, 0x21, 0x3d};
    s->b[s->n++] = 0x82;
    if (ml < 126)
      s->b[s->n++] = (uint8_t)(0x80 | ml);
    else if (m.code == 0x03 && ml < 300) { /* PUT messages use the 64-bit length form on purpose */
      s->b[s->n++] = 0x80 | 127;
      for (int i = 7; i >= 0; i--)
        s->b[s->n++] = (uint8_t)((uint64_t)ml >> (8 * i));
    } else {
      s->b[s->n++] = 0x80 | 126;
      s->b[s->n++] = (uint8_t)(ml >> 8);
      s->b[s->n++] = (uint8_t)ml;
    }
    memcpy(s->b + s->n, key, 4);
    s->n += 4;
    for (size_t i = 0; i < ml; i++)
      msg[i] ^= key[i % 4];
  }
  m.start = s->n;
  m.hdr_end = s->n + hl;
  m.tok_end = s->n + hl + tel + m.tkl;
  memcpy(s->b + s->n, msg, ml);
  s->n += ml;
  m.end = s->n;
  s->msgs[s->nmsgs++] = m;
}

/* a message in the fourth TCP length form (Len nibble 15, 32-bit extended length): options + payload >= 65805 bytes */
static void
stream_add_big(struct stream *s, int code, size_t tkl, size_t plen) {
  struct cmsg m;
  memset(&m, 0, sizeof m);
  m.code = code;
  m.tkl = tkl;
  for (size_t i = 0; i < tkl; i++)
    m.token[i] = (uint8_t)(0xC0 + (i * 7 + tkl) % 61);
  m.opts[0].num = 11;
  m.opts[0].len = 1;
  m.opts[0].val[0] = 't';
  m.nopts = 1;
  m.plen = plen;
  m.big_plen = plen;
  size_t bl = 2 + 1 + plen;
  if (bl < 65805 || tkl > 12 || s->n + bl + 20 > sizeof s->b) {
    fprintf(stderr, "VX-HARNESS: c05-big-message-parameters\n");
    abort();
  }
  m.start = s->n;
  s->b[s->n++] = (uint8_t)(15 << 4 | tkl);
  uint32_t x = (uint32_t)(bl - 65805);
  s->b[s->n++] = (uint8_t)(x >> 24);
  s->b[s->n++] = (uint8_t)(x >> 16);
  s->b[s->n++] = (uint8_t)(x >> 8);
  s->b[s->n++] = (uint8_t)x;
  s->b[s->n++] = (uint8_t)code;
  m.hdr_end = s->n;
  memcpy(s->b + s->n, m.token, tkl);
  s->n += tkl;
  m.tok_end = s->n;
  s->b[s->n++] = 0xB1;
  s->b[s->n++] = 't';
  s->b[s->n++] = 0xFF;
  for (size_t i = 0; i < plen; i++)
    s->b[s->n++] = (uint8_t)(0x30 + i % 41);
  m.end = s->n;
  s->msgs[s->nmsgs++] = m;
}

static struct cmsg
mk(int code, size_t tkl, int nopts_kind, size_t plen) {
  struct cmsg m;
  memset(&m, 0, sizeof m);
  m.code = code;
  m.tkl = tkl;
  for (size_t i = 0; i < tkl; i++)
    m.token[i] = (uint8_t)(0xC0 + (i * 7 + tkl) % 61);
  /* Uri-Path "t" always (so the handler runs) */
  m.opts[0].num = 11;
  m.opts[0].len = 1;
  m.opts[0].val[0] = 't';
  m.nopts = 1;
  if (nopts_kind >= 1) { /* a query of 14 bytes: length nibble 13 */
    m.opts[1].num = 15;
    m.opts[1].len = 14;
    memcpy(m.opts[1].val, "abcdefghijklmn", 14);
    m.nopts = 2;
  }
  if (nopts_kind >= 2) { /* an elective option with a 270-byte value: length nibble 14 */
    m.opts[2].num = 2050;
    m.opts[2].len = 270;
    for (int i = 0; i < 270; i++)
      m.opts[2].val[i] = (uint8_t)(i * 3 + 1);
    m.nopts = 3;
  }
  m.plen = plen;
  for (size_t i = 0; i < plen; i++)
    m.payload[i] = (uint8_t)(0x30 + i % 41);
  return m;
}

static const char WS_UPGRADE[] = "GET /.well-known/coap HTTP/1.1\r\n"
                                 "Host: 10.0.0.1:80\r\n"
                                 "Upgrade: websocket\r\n"
                                 "Connection: Upgrade\r\n"
                                 "Sec-WebSocket-Key: dGhlIHNhbXBsZSBub25jZQ==\r\n"
                                 "Sec-WebSocket-Protocol: coap\r\n"
                                 "Sec-WebSocket-Version: 13\r\n"
                                 "\r\n";

static int g_pad_line; /* >0: the next WS stream's handshake carries an extra legal header line of this many bytes (with CRLF) */
static void
stream_begin(struct stream *s, const char *name, int ws) {
  memset(s, 0, sizeof *s);
  snprintf(s->name, sizeof s->name, "%s", name);
  s->ws = ws;
  if (ws && g_pad_line) {
    /* request line, Host, then "X-Pad: aaa...\r\n" of exactly g_pad_line bytes, then the rest of the upgrade request */
    const char *head = "GET /.well-known/coap HTTP/1.1\r\nHost: 10.0.0.1:80\r\n";
    const char *rest = strstr(WS_UPGRADE, "Upgrade: websocket");
    memcpy(s->b, head, strlen(head));
    s->n = strlen(head);
    memcpy(s->b + s->n, "X-Pad: ", 7);
    s->n += 7;
    for (int i = 0; i < g_pad_line - 9; i++)
      s->b[s->n++] = (uint8_t)('a' + i % 26);
    s->b[s->n++] = '\r';
    s->b[s->n++] = '\n';
    memcpy(s->b + s->n, rest, strlen(rest));
    s->n += strlen(rest);
    s->http_end = s->n;
  } else if (ws) {
    memcpy(s->b, WS_UPGRADE, sizeof WS_UPGRADE - 1);
    s->n = sizeof WS_UPGRADE - 1;
    s->http_end = s->n;
  }
  /* CSM with Extended-Token-Length (option 6) = 300 */
  struct cmsg csm;
  memset(&csm, 0, sizeof csm);
  csm.code = 0xE1;
  csm.opts[0].num = 6;
  csm.opts[0].len = 2;
  csm.opts[0].val[0] = 0x01;
  csm.opts[0].val[1] = 0x2C;
  csm.nopts = 1;
  csm.is_signal = 1;
  stream_add(s, csm);
}

#define NSTREAMS 14
static struct stream streams[NSTREAMS];
static int nstreams;

static void
build_streams(void) {
  struct stream *s;
  /* T1: short TCP messages: Len forms 0..12 and 13, tokens 0 / 8 / ext-1B(13) */
  s = &streams[nstreams++];
  stream_begin(s, "tcp-short", 0);
  stream_add(s, mk(0x01, 0, 0, 0));   /* Len 2 */
  stream_add(s, mk(0x02, 8, 0, 9));   /* Len 12 */
  stream_add(s, mk(0x03, 13, 1, 3));  /* ext token 1 byte, Len 13-form */
  stream_add(s, mk(0x01, 2, 1, 0));
  s->expect_msgs = 4;
  /* T2: 14-form length and 2-byte extended token */
  s = &streams[nstreams++];
  stream_begin(s, "tcp-long", 0);
  stream_add(s, mk(0x02, 1, 2, 5));   /* Len 14-form (>= 269) */
  stream_add(s, mk(0x03, 270, 0, 1)); /* ext token 2 bytes */
  stream_add(s, mk(0x01, 0, 0, 0));
  s->expect_msgs = 3;
  /* T2b: the crossed forms: 14-form length together with 1-byte and 2-byte extended tokens, 13-form with the 2-byte one */
  s = &streams[nstreams++];
  stream_begin(s, "tcp-cross", 0);
  stream_add(s, mk(0x02, 13, 2, 5));  /* Len 14-form + ext token 1 byte */
  stream_add(s, mk(0x03, 270, 2, 4)); /* Len 14-form + ext token 2 bytes */
  stream_add(s, mk(0x01, 269, 1, 2)); /* Len 13-form + ext token 2 bytes (smallest) */
  s->expect_msgs = 3;
  /* T3: a message that makes one read return exactly the 1472-byte buffer, followed by a short one */
  s = &streams[nstreams++];
  stream_begin(s, "tcp-fullbuf", 0);
  {
    struct cmsg m = mk(0x02, 4, 2, 300);
    stream_add(s, m);
    /* pad with further messages so that the first 1472 bytes end inside a message */
    stream_add(s, mk(0x03, 8, 2, 350));
    stream_add(s, mk(0x02, 0, 2, 380));
    stream_add(s, mk(0x01, 1, 0, 0));
  }
  s->expect_msgs = 4;
  /* T3b: the fourth length form in a VALID message (options + payload = 65815 bytes), between two short ones.  Cuts are
   * placed in and around the three headers, at the end of the long message and around the first two buffer-size reads. */
  s = &streams[nstreams++];
  stream_begin(s, "tcp-len32", 0);
  stream_add(s, mk(0x01, 1, 0, 0));
  stream_add_big(s, 0x02, 4, 65812);
  stream_add(s, mk(0x03, 2, 1, 5));
  s->expect_msgs = 3;
  {
    const struct cmsg *bm = &s->msgs[2]; /* msgs[0] is the CSM */
    for (size_t c = 1; c <= bm->start + 16 && c < s->n; c++)
      s->cutpos[s->ncutpos++] = c;
    for (int k = 1; k <= 2; k++)
      for (int d = -1; d <= 1; d++)
        s->cutpos[s->ncutpos++] = (size_t)((long)bm->start + 1472 * k + d);
    for (size_t c = bm->end - 6; c < s->n; c++)
      s->cutpos[s->ncutpos++] = c;
  }
  /* T4: declared length above the maximum: session must be closed, nothing buffered */
  s = &streams[nstreams++];
  stream_begin(s, "tcp-oversize", 0);
  stream_add(s, mk(0x01, 1, 0, 0));
  {
    /* Len nibble 15: 32-bit extended length 0x10000000 + 65805 (> 8 MiB + 256) */
    uint8_t big[] = {0xF1, 0x10, 0x00, 0x00, 0x00, 0x01, 0xAA, 0xB1, 't', 0xFF, 'x', 'y'};
    memcpy(s->b + s->n, big, sizeof big);
    s->n += sizeof big;
  }
  s->expect_msgs = 1;
  s->expect_close = 1;
  /* T5: declared length above the CONFIGURED maximum (600) although the peer's own CSM advertises 4096: must close */
  s = &streams[nstreams++];
  memset(s, 0, sizeof *s);
  snprintf(s->name, sizeof s->name, "tcp-over-configured");
  s->csm_max = 600;
  {
    /* CSM with Max-Message-Size (option 2) = 4096, then a request declaring 900 bytes of options + payload */
    static const uint8_t csm[] = {0x30, 0xE1, 0x22, 0x10, 0x00};
    memcpy(s->b, csm, sizeof csm);
    s->n = sizeof csm;
    stream_add(s, mk(0x01, 1, 0, 0));
    uint8_t hdr[] = {0xE1, (uint8_t)((900 - 269) >> 8), (uint8_t)(900 - 269), 0x02, 0xAB, 0xB1, 't', 0xFF};
    memcpy(s->b + s->n, hdr, sizeof hdr);
    s->n += sizeof hdr;
    for (int i = 0; i < 900 - 3; i++)
      s->b[s->n++] = (uint8_t)('a' + i % 26);
    stream_add(s, mk(0x01, 2, 0, 0)); /* must not be delivered any more */
  }
  s->expect_msgs = 1;
  s->expect_close = 1;
  /* W1: WebSocket: handshake + masked frames with 7-, 16- and 64-bit lengths, two frames back to back */
  s = &streams[nstreams++];
  stream_begin(s, "ws-frames", 1);
  stream_add(s, mk(0x01, 0, 0, 0));
  stream_add(s, mk(0x02, 8, 1, 9));
  stream_add(s, mk(0x03, 2, 1, 120)); /* 64-bit length form */
  stream_add(s, mk(0x02, 13, 2, 4));  /* 16-bit length form */
  stream_add(s, mk(0x01, 1, 0, 0));
  s->expect_msgs = 5;
  /* W5: a short WebSocket stream whose complete segmentation space the quick tier can search */
  s = &streams[nstreams++];
  stream_begin(s, "ws-small", 1);
  stream_add(s, mk(0x01, 1, 0, 0));
  stream_add(s, mk(0x02, 0, 1, 3));
  s->expect_msgs = 2;
  /* W6/T6: the short streams again, with the server writing a Ping of its own after every read */
  s = &streams[nstreams++];
  stream_begin(s, "ws-small-srvwrites", 1);
  stream_add(s, mk(0x01, 1, 0, 0));
  stream_add(s, mk(0x02, 0, 1, 3));
  s->expect_msgs = 2;
  s->srv_writes = 1;
  s = &streams[nstreams++];
  stream_begin(s, "tcp-short-srvwrites", 0);
  stream_add(s, mk(0x01, 0, 0, 0));
  stream_add(s, mk(0x02, 8, 0, 9));
  stream_add(s, mk(0x03, 13, 1, 3));
  s->expect_msgs = 3;
  s->srv_writes = 1;
  /* W3/W4: a legal long header line (the longest the 160-byte line buffer holds, and one well inside it) */
  for (int v = 0; v < 2; v++) {
    s = &streams[nstreams++];
    g_pad_line = v ? 147 : 159;
    stream_begin(s, v ? "ws-line147" : "ws-line159", 1);
    g_pad_line = 0;
    stream_add(s, mk(0x01, 0, 0, 0));
    stream_add(s, mk(0x02, 2, 1, 9));
    s->expect_msgs = 2;
  }
  /* W2: over-long handshake line: must close, not stall */
  s = &streams[nstreams++];
  memset(s, 0, sizeof *s);
  snprintf(s->name, sizeof s->name, "ws-longline");
  s->ws = 1;
  {
    const char *a = "GET /.well-known/coap HTTP/1.1\r\nHost: 10.0.0.1:80\r\nX-Long: ";
    memcpy(s->b, a, strlen(a));
    s->n = strlen(a);
    for (int i = 0; i < 200; i++)
      s->b[s->n++] = (uint8_t)('a' + i % 26);
    const char *z = "\r\nUpgrade: websocket\r\nConnection: Upgrade\r\nSec-WebSocket-Key: dGhlIHNhbXBsZSBub25jZQ==\r\n"
                    "Sec-WebSocket-Protocol: coap\r\nSec-WebSocket-Version: 13\r\n\r\n";
    memcpy(s->b + s->n, z, strlen(z));
    s->n += strlen(z);
    s->http_end = s->n;
  }
  s->expect_msgs = 0;
  s->expect_close = 1;
}

/* ------------------------------------------------------------------------------------------ */
/* running one segmentation                                                                    */
struct rec {
  int code;
  size_t tkl;
  uint64_t tokh, opth, payh;
  size_t plen;
  int nopts;
};
struct result {
  int nrec;
  struct rec recs[16];
  uint64_t resp_hash;
  size_t resp_len;
  int closed; /* server session gone / not established at the end */
  int events_closed;
  size_t buffered; /* bytes held by the reader at the end */
};
static struct result *R;
static coap_context_t *sctx;
static int ev_closed, ev_new;

static void
hnd(coap_resource_t *resource, coap_session_t *session, const coap_pdu_t *request, const coap_string_t *query,
    coap_pdu_t *response) {
  (void)resource;
  (void)session;
  (void)query;
  if (R->nrec < 16) {
    struct rec *r = &R->recs[R->nrec];
    coap_bin_const_t t = coap_pdu_get_token(request);
    r->code = coap_pdu_get_code(request);
    r->tkl = t.length;
    r->tokh = vx_fnv(t.s, t.length, VX_FNV0);
    coap_opt_iterator_t oi;
    coap_opt_t *o;
    uint64_t h = VX_FNV0;
    int n = 0;
    coap_option_iterator_init(request, &oi, COAP_OPT_ALL);
    while ((o = coap_option_next(&oi))) {
      uint32_t num = oi.number;
      uint32_t l = coap_opt_length(o);
      h = vx_fnv(&num, sizeof num, h);
      h = vx_fnv(&l, sizeof l, h);
      h = vx_fnv(coap_opt_value(o), l, h);
      n++;
    }
    r->opth = h;
    r->nopts = n;
    size_t len = 0;
    const uint8_t *data = NULL;
    coap_get_data(request, &len, &data);
    r->plen = len;
    r->payh = vx_fnv(data, len, VX_FNV0);
  }
  R->nrec++;
  coap_pdu_set_code(response, COAP_RESPONSE_CODE_CONTENT);
  uint8_t b[2] = {(uint8_t)R->nrec, (uint8_t)coap_pdu_get_code(request)};
  coap_add_data(response, 2, b);
}
static int
evh(coap_session_t *session, const coap_event_t event) {
  (void)session;
  if (event == COAP_EVENT_SESSION_CLOSED || event == COAP_EVENT_SESSION_FAILED || event == COAP_EVENT_TCP_CLOSED ||
      event == COAP_EVENT_TCP_FAILED || event == COAP_EVENT_WS_CLOSED)
    ev_closed++;
  if (event == COAP_EVENT_SERVER_SESSION_NEW)
    ev_new++;
  return 0;
}

static uint64_t
expected_rec(const struct cmsg *m, struct rec *r) {
  r->code = m->code;
  r->tkl = m->tkl;
  r->tokh = vx_fnv(m->token, m->tkl, VX_FNV0);
  uint64_t h = VX_FNV0;
  for (int i = 0; i < m->nopts; i++) {
    uint32_t num = m->opts[i].num, l = (uint32_t)m->opts[i].len;
    h = vx_fnv(&num, sizeof num, h);
    h = vx_fnv(&l, sizeof l, h);
    h = vx_fnv(m->opts[i].val, m->opts[i].len, h);
  }
  r->opth = h;
  r->nopts = m->nopts;
  r->plen = m->plen;
  if (m->big_plen) {
    uint8_t *pb = malloc(m->big_plen);
    for (size_t i = 0; i < m->big_plen; i++)
      pb[i] = (uint8_t)(0x30 + i % 41);
    r->payh = vx_fnv(pb, m->big_plen, VX_FNV0);
    free(pb);
  } else
    r->payh = vx_fnv(m->payload, m->plen, VX_FNV0);
  return h;
}

static ns_stream_t *cur_ns;
static int cur_srv_writes;
static coap_session_t *
server_session(void) {
  coap_endpoint_t *ep = sctx->endpoint;
  coap_session_t *s, *tmp;
  if (!ep)
    return NULL;
  SESSIONS_ITER(ep->sessions, s, tmp) {
    return s;
  }
  return NULL;
}

static void
seg_begin(const struct stream *st, struct result *res) {
  R = res;
  memset(res, 0, sizeof *res);
  ev_closed = ev_new = 0;
  ns_init();
  ns_stream_auto = 0;
  sctx = coap_new_context(NULL);
  ns_register_ctx(sctx);
  coap_context_set_max_token_size(sctx, 300);
  if (st->csm_max)
    coap_context_set_csm_max_message_size(sctx, st->csm_max);
  coap_register_event_handler(sctx, evh);
  coap_address_t sa, ca;
  ns_addr(&sa, 1, st->ws ? 80 : 5683);
  ns_addr(&ca, 9, 50000);
  coap_new_endpoint(sctx, &sa, st->ws ? COAP_PROTO_WS : COAP_PROTO_TCP);
  coap_resource_t *r = coap_resource_init(coap_make_str_const("t"), 0);
  coap_register_request_handler(r, COAP_REQUEST_GET, hnd);
  coap_register_request_handler(r, COAP_REQUEST_PUT, hnd);
  coap_register_request_handler(r, COAP_REQUEST_POST, hnd);
  coap_add_resource(sctx, r);
  cur_ns = ns_stream_raw_connect(&ca, &sa);
  ns_stream_raw_write(cur_ns, 0, st->b, st->n);
  cur_srv_writes = st->srv_writes;
}
static void
seg_feed(size_t nbytes) {
  if (cur_ns->side[1].closed)
    return;
  ns_stream_release(cur_ns, 1, nbytes);
  ns_prepare_all();
  if (cur_srv_writes) {
    coap_session_t *s = server_session();
    if (s && s->state == COAP_SESSION_STATE_ESTABLISHED && !cur_ns->side[1].closed) {
      coap_session_send_ping(s);
      ns_prepare_all();
    }
  }
}
static void
seg_end(struct result *res) {
  /* a read event with nothing new must not change anything: lets a reader that kept data buffered finish */
  coap_session_t *s = server_session();
  res->closed = !s || s->state != COAP_SESSION_STATE_ESTABLISHED || cur_ns->side[1].closed;
  res->events_closed = ev_closed;
  if (s) {
    res->buffered = s->partial_read;
    if (s->partial_pdu)
      res->buffered += 1;
  }
  uint8_t buf[4096];
  size_t n = ns_stream_raw_read(cur_ns, 0, buf, sizeof buf);
  res->resp_len = n;
  res->resp_hash = vx_fnv(buf, n, VX_FNV0);
  ns_unregister_ctx(sctx);
  coap_free_context(sctx);
  sctx = NULL;
  ns_fini();
}

static void
run_seg(const struct stream *st, const size_t *cuts, int ncuts, struct result *res) {
  seg_begin(st, res);
  size_t prev = 0;
  for (int i = 0; i < ncuts; i++) {
    seg_feed(cuts[i] - prev);
    prev = cuts[i];
  }
  seg_feed(st->n - prev);
  seg_end(res);
}

/* reader phase in which stream offset `cut` falls (a cut at offset c means one read ends after byte c-1) */
static const char *
phase_of(const struct stream *st, size_t cut) {
  if (st->ws && cut < st->http_end)
    return "ws-http";
  for (int i = 0; i < st->nmsgs; i++) {
    const struct cmsg *m = &st->msgs[i];
    if (st->ws && cut > m->ws_start && cut < m->start)
      return "ws-frame-hdr";
    if (cut == (st->ws ? m->ws_start : m->start))
      return "msg-boundary";
    if (cut > m->start && cut < m->end) {
      if (cut == m->start + 1)
        return st->ws ? "ws-data" : "first-byte";
      if (cut < m->hdr_end)
        return st->ws ? "ws-data" : "header";
      if (cut < m->tok_end)
        return st->ws ? "ws-data" : (m->tkl > 12 && cut < m->hdr_end + (m->tkl < 269 ? 1 : 2) ? "ext-token-len" : "token");
      return st->ws ? "ws-data" : "body";
    }
    if (st->ws && cut == m->start)
      return "ws-data-start";
  }
  return "tail";
}

static struct result *base; /* shared memory: filled by the single-chunk space */
static int *base_ok;

/* compares a result with the expectation; returns NULL if fine, else a short clause name */
static const char *
judge(const struct stream *st, const struct result *res, const struct result *b, char *detail, size_t dl) {
  if (res->nrec != st->expect_msgs) {
    snprintf(detail, dl, "%d of %d messages reached the handler", res->nrec, st->expect_msgs);
    return res->nrec < st->expect_msgs ? "lost-message" : "extra-message";
  }
  int k = 0;
  for (int i = 0; i < st->nmsgs; i++) {
    if (st->msgs[i].is_signal)
      continue;
    if (k >= res->nrec || k >= 16)
      break;
    struct rec e;
    expected_rec(&st->msgs[i], &e);
    const struct rec *g = &res->recs[k];
    const char *f = NULL;
    if (g->code != e.code)
      f = "code";
    else if (g->tkl != e.tkl || g->tokh != e.tokh)
      f = "token";
    else if (g->nopts != e.nopts || g->opth != e.opth)
      f = "options";
    else if (g->plen != e.plen || g->payh != e.payh)
      f = "payload";
    if (f) {
      snprintf(detail, dl, "message %d: %s differs from what was sent", k, f);
      return "corrupt-message";
    }
    k++;
  }
  if (st->expect_close) {
    if (!res->closed) {
      snprintf(detail, dl, "session still established after oversize length / over-long line (buffered=%zu)", res->buffered);
      return "not-closed";
    }
  } else if (res->closed) {
    snprintf(detail, dl, "session closed although the stream is valid");
    return "closed";
  }
  if (b && !st->srv_writes /* the number of Pings written depends on the number of reads */ &&
      (res->resp_len != b->resp_len || res->resp_hash != b->resp_hash)) {
    snprintf(detail, dl, "bytes written back differ from the single-chunk run (%zu vs %zu bytes)", res->resp_len, b->resp_len);
    return "responses-differ";
  }
  return NULL;
}

/* ---- (1) cut placements ---- */
struct space {
  char name[64];
  int si;
  int k; /* number of cuts */
};
static uint64_t
choose(uint64_t n, int k) {
  if (k == 0)
    return 1;
  if (k == 1)
    return n;
  if (k == 2)
    return n * (n - 1) / 2;
  return n * (n - 1) * (n - 2) / 6;
}
static void
unrank(uint64_t idx, uint64_t n, int k, size_t *cuts) {
  /* lexicographic unranking of k-subsets of {1..n} */
  uint64_t x = 1;
  for (int i = 0; i < k; i++) {
    for (;; x++) {
      uint64_t c = choose(n - x, k - i - 1);
      if (idx < c)
        break;
      idx -= c;
    }
    cuts[i] = (size_t)x;
    x++;
  }
}

static void
report(const struct stream *st, const size_t *cuts, int ncuts, const char *clause, const char *detail) {
  /* shrink: does a single one of the cuts suffice? */
  size_t use[4];
  int nuse = ncuts;
  memcpy(use, cuts, sizeof(size_t) * (size_t)ncuts);
  struct result r;
  char d2[200];
  for (int i = 0; i < ncuts && ncuts > 1; i++) {
    run_seg(st, &cuts[i], 1, &r);
    const char *c2 = judge(st, &r, base_ok[st - streams] ? &base[st - streams] : NULL, d2, sizeof d2);
    if (c2 && !strcmp(c2, clause)) {
      use[0] = cuts[i];
      nuse = 1;
      break;
    }
  }
  char ph[120] = "";
  size_t o = 0;
  for (int i = 0; i < nuse; i++) {
    const char *p = phase_of(st, use[i]);
    if (!strstr(ph, p))
      o += (size_t)snprintf(ph + o, sizeof ph - o, "%s%s", o ? "+" : "", p);
  }
  char sig[200], cs[80] = "";
  o = 0;
  for (int i = 0; i < nuse; i++)
    o += (size_t)snprintf(cs + o, sizeof cs - o, "%s%zu", i ? "," : "", use[i]);
  snprintf(sig, sizeof sig, "%s:%s:cut-in:%s", st->ws ? "ws" : "tcp", clause, ph);
  vx_fail(sig, "stream %s (%zu bytes): reads ending at offsets {%s}: %s", st->name, st->n, cs, detail);
}

static void
case_cuts(uint64_t idx, void *arg) {
  struct space *sp = arg;
  const struct stream *st = &streams[sp->si];
  size_t cuts[4];
  if (st->ncutpos) {
    unrank(idx, (uint64_t)st->ncutpos, sp->k, cuts);
    for (int i = 0; i < sp->k; i++)
      cuts[i] = st->cutpos[cuts[i] - 1];
  } else
    unrank(idx, st->n - 1, sp->k, cuts);
  struct result r;
  run_seg(st, cuts, sp->k, &r);
  char detail[200];
  const char *clause = judge(st, &r, base_ok[sp->si] ? &base[sp->si] : NULL, detail, sizeof detail);
  vxp_count(0, 1);
  if (sp->k > 0)
    vxp_distinct(vx_fnv(cuts, sizeof(size_t) * (size_t)sp->k, vx_fnv(&sp->si, sizeof sp->si, VX_FNV0)));
  if (clause)
    report(st, cuts, sp->k, clause, detail);
  if (idx % 20011 == 7)
    vxp_sample("stream %s cuts=%zu,%zu,%zu (k=%d) -> %d messages, %zu response bytes, closed=%d", st->name, cuts[0], sp->k > 1 ? cuts[1] : 0,
               sp->k > 2 ? cuts[2] : 0, sp->k, r.nrec, r.resp_len, r.closed);
}

/* single chunk: establishes the baseline the other segmentations are compared with */
static void
case_single(uint64_t idx, void *arg) {
  (void)arg;
  const struct stream *st = &streams[idx];
  struct result r;
  run_seg(st, NULL, 0, &r);
  base[idx] = r;
  char detail[200];
  const char *clause = judge(st, &r, NULL, detail, sizeof detail);
  if (clause) {
    char sig[160];
    snprintf(sig, sizeof sig, "%s:%s:single-chunk", st->ws ? "ws" : "tcp", clause);
    vx_fail(sig, "stream %s delivered in one read: %s", st->name, detail);
  } else
    base_ok[idx] = 1;
  vxp_count(0, 1);
}

/* byte-wise segmentation */
static void
case_bytewise(uint64_t idx, void *arg) {
  (void)arg;
  const struct stream *st = &streams[idx];
  struct result r;
  seg_begin(st, &r);
  for (size_t i = 0; i < st->n; i++)
    seg_feed(1);
  seg_end(&r);
  char detail[200];
  const char *clause = judge(st, &r, base_ok[idx] ? &base[idx] : NULL, detail, sizeof detail);
  if (clause) {
    char sig[160];
    snprintf(sig, sizeof sig, "%s:%s:byte-wise", st->ws ? "ws" : "tcp", clause);
    vx_fail(sig, "stream %s delivered one byte per read: %s", st->name, detail);
  }
  vxp_count(0, 1);
}

/* ---- (2) explicit-state search over reader states: all 2^(N-1) segmentations ---- */
static uint64_t
reader_state_hash(size_t offset, const struct result *res) {
  uint64_t h = vx_fnv(&offset, sizeof offset, VX_FNV0);
  coap_session_t *s = server_session();
  int st = s ? (int)s->state : -1;
  h = vx_fnv(&st, sizeof st, h);
  int closed = cur_ns->side[1].closed;
  h = vx_fnv(&closed, sizeof closed, h);
  if (s) {
    h = vx_fnv(&s->partial_read, sizeof s->partial_read, h);
    if (!s->partial_pdu)
      h = vx_fnv(s->read_header, s->partial_read < 8 ? s->partial_read : 8, h);
    else {
      h = vx_fnv(&s->partial_pdu->hdr_size, sizeof s->partial_pdu->hdr_size, h);
      h = vx_fnv(&s->partial_pdu->used_size, sizeof s->partial_pdu->used_size, h);
      h = vx_fnv(s->partial_pdu->token - s->partial_pdu->hdr_size, s->partial_read, h);
    }
    if (s->ws) {
      coap_ws_state_t *w = s->ws;
      int f[10] = {w->up, w->seen_first, w->seen_host, w->seen_upg, w->seen_conn, w->seen_key, w->seen_proto, w->seen_ver, w->all_hdr_in, w->hdr_ofs};
      h = vx_fnv(f, sizeof f, h);
      h = vx_fnv(&w->http_ofs, sizeof w->http_ofs, h);
      if (!w->up)
        h = vx_fnv(w->http_hdr, w->http_ofs < sizeof w->http_hdr ? w->http_ofs : sizeof w->http_hdr, h);
      h = vx_fnv(w->rd_header, (size_t)(w->hdr_ofs > 0 && w->hdr_ofs <= (int)sizeof w->rd_header ? w->hdr_ofs : 0), h);
      h = vx_fnv(&w->data_ofs, sizeof w->data_ofs, h);
      h = vx_fnv(&w->data_size, sizeof w->data_size, h);
      h = vx_fnv(w->mask_key, sizeof w->mask_key, h);
    }
  }
  h = vx_fnv(&res->nrec, sizeof res->nrec, h);
  for (int i = 0; i < res->nrec && i < 16; i++)
    h = vx_fnv(&res->recs[i], sizeof res->recs[i], h);
  /* bytes written back so far */
  if (!cur_srv_writes) { /* (with a Ping written after every read the output counts the reads: it is not reader state, and
                          *  is not compared for those streams) */
    size_t wl = cur_ns->side[0].rx_len;
    h = vx_fnv(&wl, sizeof wl, h);
    h = vx_fnv(cur_ns->side[0].rx, wl, h);
  }
  return h;
}

struct node {
  uint64_t h;
  size_t offset;
  int parent;
  size_t chunk; /* chunk that led here from parent */
};
static long ss_states, ss_trans;
static int ss_capped; /* this worker's search stopped at the deadline or the node cap */

static void
state_search(int si) {
  const struct stream *st = &streams[si];
  struct node *nodes = calloc(200000, sizeof *nodes);
  int nn = 0;
  /* hash set of visited */
  size_t cap = 1 << 19;
  uint64_t *seen = calloc(cap, sizeof *seen);
  nodes[nn++] = (struct node){0, 0, -1, 0};
  int failed = 0;
  for (int cur = 0; cur < nn && !failed; cur++) {
    if (vx_time_left() < 5) {
      ss_capped = 1;
      break;
    }
    /* path to cur */
    size_t path[4200];
    int pl = 0;
    for (int x = cur; nodes[x].parent >= 0; x = nodes[x].parent)
      path[pl++] = nodes[x].chunk;
    size_t off = nodes[cur].offset;
    if (off >= st->n)
      continue;
    for (size_t chunk = 1; chunk <= st->n - off; chunk++) {
      struct result r;
      seg_begin(st, &r);
      for (int i = pl - 1; i >= 0; i--)
        seg_feed(path[i]);
      seg_feed(chunk);
      size_t noff = off + chunk;
      ss_trans++;
      if (noff == st->n) {
        /* terminal: judge */
        uint64_t dummy = 0;
        (void)dummy;
        seg_end(&r);
        char detail[200];
        const char *clause = judge(st, &r, base_ok[si] ? &base[si] : NULL, detail, sizeof detail);
        if (clause) {
          size_t cuts[4200];
          int nc = 0;
          size_t acc = 0;
          for (int i = pl - 1; i >= 0; i--) {
            acc += path[i];
            cuts[nc++] = acc;
          }
          /* report with at most the last 3 cuts (report() shrinks to one if possible) */
          int from = nc > 3 ? nc - 3 : 0;
          report(st, cuts + from, nc - from, clause, detail);
          failed = 1;
          break;
        }
        continue;
      }
      uint64_t h = reader_state_hash(noff, &r);
      seg_end(&r);
      if (h == 0)
        h = 1;
      size_t j = h & (cap - 1);
      int found = 0;
      while (seen[j]) {
        if (seen[j] == h) {
          found = 1;
          break;
        }
        j = (j + 1) & (cap - 1);
      }
      if (!found) {
        seen[j] = h;
        if (nn < 200000)
          nodes[nn++] = (struct node){h, noff, cur, chunk};
        else {
          ss_capped = 1;
          failed = 1;
          break;
        }
      }
    }
  }
  ss_states += nn;
  free(nodes);
  free(seen);
}

static void
case_state_search(uint64_t idx, void *arg) {
  (void)arg;
  long s0 = ss_states, t0 = ss_trans;
  if (streams[idx].ncutpos)
    return; /* 66 KiB stream: the cut spaces over its header / tail / buffer-boundary offsets and the byte-wise delivery stand for it */
  if (!vx_is_thorough() && (!strncmp(streams[idx].name, "ws-line", 7) || !strcmp(streams[idx].name, "ws-frames") ||
                            !strcmp(streams[idx].name, "tcp-fullbuf"))) {
    /* the search over all segmentations of the three long streams takes minutes (measured: tcp-fullbuf 80 s, ws-frames
     * 750 s): thorough tier.  Quick covers them with every cut pair / single cut and the byte-wise delivery, and runs the
     * complete search on the short streams (tcp-short, tcp-long, tcp-oversize, ws-small, ws-longline) */
    return;
  }
  double tl0 = vx_time_left();
  state_search((int)idx);
  double took = tl0 - vx_time_left();
  vxp_count(1, (uint64_t)(ss_states - s0));
  vxp_count(2, (uint64_t)(ss_trans - t0));
  vxp_sample("state search over stream %s (%zu bytes): %ld reader states, %ld transitions %s all 2^%zu segmentations (%.1f s)", streams[idx].name,
             streams[idx].n, ss_states - s0, ss_trans - t0, ss_capped ? "DO NOT cover (deadline / node cap)" : "cover", streams[idx].n - 1, took);
  if (ss_capped)
    vxp_count(5, 1);
  vxp_count(10 + (int)idx, (uint64_t)(took * 10) + 1);
}

int
main(int argc, char **argv) {
  vx_main_init(argc, argv, "C05");
  int T = vx_is_thorough();
  build_streams();
  base = mmap(NULL, sizeof(struct result) * NSTREAMS + sizeof(int) * NSTREAMS, PROT_READ | PROT_WRITE, MAP_SHARED | MAP_ANONYMOUS, -1, 0);
  base_ok = (int *)(base + NSTREAMS);
  struct space sp[64];
  int nsp = 0;
  for (int i = 0; i < nstreams; i++)
    for (int k = 0; k <= (T ? 3 : 2); k++) {
      if (k == 3 && streams[i].n > 330 && !streams[i].ncutpos)
        continue;
      if (k == 2 && !T && streams[i].n > 1200 && !streams[i].ncutpos)
        continue;
      if (k == 2 && !T && !strncmp(streams[i].name, "ws-line", 7))
        continue; /* long handshake lines: every single cut and the byte-wise delivery in quick, pairs in thorough */
      if (nsp >= 64) {
        fprintf(stderr, "VX-HARNESS: c05-space-table-overflow\n");
        abort();
      }
      snprintf(sp[nsp].name, sizeof sp[nsp].name, "cuts:%s:k=%d", streams[i].name, k);
      sp[nsp].si = i;
      sp[nsp].k = k;
      nsp++;
    }
  for (int i = 0; i < nsp; i++)
    if (vxp_replay_if_match(sp[i].name, case_cuts, &sp[i]))
      return 0;
  if (vxp_replay_if_match("single-chunk", case_single, NULL))
    return 0;
  if (vx_replay_path()) {
    /* replays of other spaces need the baselines */
    for (int i = 0; i < nstreams; i++) {
      pid_t pid = fork();
      if (pid == 0) {
        int fd = open("/dev/null", O_WRONLY);
        dup2(fd, 1);
        dup2(fd, 2);
        case_single((uint64_t)i, NULL);
        _exit(0);
      }
      int stt;
      waitpid(pid, &stt, 0);
    }
  }
  if (vxp_replay_if_match("byte-wise", case_bytewise, NULL))
    return 0;
  if (vxp_replay_if_match("reader-state-search", case_state_search, NULL))
    return 0;
  if (vx_replay_path()) {
    fprintf(stderr, "replay file does not match any space\n");
    return 2;
  }
  uint64_t total = 0;
  struct vxp_stats st;
  struct vxp_config s1 = {.space = "single-chunk", .total = (uint64_t)nstreams, .chunk = 1};
  vxp_enumerate(&s1, case_single, NULL, &st);
  total += st.done;
  struct vxp_config bc = {.space = "byte-wise", .total = (uint64_t)nstreams, .chunk = 1};
  vxp_enumerate(&bc, case_bytewise, NULL, &st);
  total += st.done;
  for (int i = 0; i < nsp; i++) {
    if (sp[i].k == 0)
      continue;
    uint64_t n = choose(streams[sp[i].si].ncutpos ? (uint64_t)streams[sp[i].si].ncutpos : streams[sp[i].si].n - 1, sp[i].k);
    struct vxp_config c = {.space = sp[i].name, .total = n};
    vxp_enumerate(&c, case_cuts, &sp[i], &st);
    total += st.done;
  }
  struct vxp_config sc = {.space = "reader-state-search", .total = (uint64_t)nstreams, .chunk = 1};
  vxp_enumerate(&sc, case_state_search, NULL, &st);
  vx_ev_add_states((long long)vxp_counter(1) + (long long)total, (long long)vxp_counter(2) + (long long)total, (long long)total);
  vx_ev_add_evals((long long)total + (long long)vxp_counter(2), (long long)vxp_distinct_count());
  vx_ev_int("segmentations_run", (long long)total);
  if (vxp_counter(5))
    vx_ev_not_exhaustive("reader-state search stopped at the deadline / node cap for some streams (see samples); the cut spaces are complete");
  vx_ev_int("reader_state_searches_capped", (long long)vxp_counter(5));
  for (int i = 0; i < nstreams; i++) {
    char k[80];
    snprintf(k, sizeof k, "reader_state_search_tenths_of_s.%s", streams[i].name);
    vx_ev_int(k, (long long)vxp_counter(10 + i));
  }
  vx_ev_int("reader_states", (long long)vxp_counter(1));
  vx_ev_int("reader_state_transitions", (long long)vxp_counter(2));
  vx_ev_rule("a real libcoap TCP / WebSocket server session fed a fixed valid byte stream (CSM or HTTP upgrade + 3-5 messages covering TCP length "
             "forms 0-12/13/14, tokens 0/8/ext-1B/ext-2B and their cross combinations, the 32-bit length form in a valid 65.8 KB message between two short ones (cuts at every offset of the three headers, the end of the long message and around the first two buffer-size reads), WS 7/16/64-bit masked frames, a read that fills the 1472-byte buffer, an oversize "
             "declared length, a declared length above a configured Max-Message-Size of 600, an over-long handshake line, legal handshake lines of 147 and 159 bytes, a short WebSocket stream, a short WebSocket and a short TCP stream during which the server writes a Ping of its own after every read) under (1) every placement of <= k "
             "cuts (k = 2, thorough 3 for streams <= 330 bytes; the long-line streams k = 1 in quick), byte-wise and single-chunk, (2) all "
             "2^(N-1) segmentations via BFS over reader states: in quick for the streams tcp-short, tcp-long, tcp-cross, tcp-oversize, ws-small, "
             "ws-longline; in thorough for all streams (tcp-fullbuf about 80 s, ws-frames about 750 s); a search that meets the deadline or "
             "the node cap is reported in cap_hit; distinct = distinct cut sets");
  vx_ev_assumption("server side of the stream only (unmasked client-direction WS frames are not exercised)");
  vx_ev_assumption("state merging in search (2) relies on the dump of every field the three reader functions read; responses written so far are part of the state");
  return vx_finish();
}
