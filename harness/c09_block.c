/* C09 -- block-wise transfer delivers the sender's body intact, once, or fails explicitly.
 *
 * Real libcoap client and server contexts (COAP_BLOCK_USE_LIBCOAP) over netsim.
 *  (1) fault-free sweep: direction x body length (around every multiple of every block size) x block size
 *      limits on either side x MTU x single-body / per-block delivery x CON/NON x token length;
 *  (2) fault exploration: representative transfers under all schedules with <= B drop/duplicate/reorder
 *      deviations, and abandonment (peer silent from datagram j on).
 */
#include "netsim.h"
#include "wire.h"

enum { D_B1, D_B2, D_BOTH };
static const char *dname[] = {"Block1-PUT", "Block2-GET", "PUT+largeresp"};

struct cfg {
  char name[200];
  int dir;
  size_t L;       /* request body (B1/BOTH) or response body (B2) */
  size_t L2;      /* response body for BOTH */
  int cblk, sblk; /* coap_context_set_max_block_size on client / server (0 = unset) */
  int req_szx;    /* >=0: client asks for this Block2 SZX in the request (B2) */
  int mtu;        /* session mtu on both sides (0 = default) */
  int single;     /* receiver delivers single body */
  int con;
  int tkl;
  int bound;
  int silent_from; /* >=0: datagrams with id >= this towards the requester's peer are lost for ever (abandonment) */
  int two;         /* two concurrent transfers on the session (different tokens) */
  int allow_dup;
  int sep;         /* the peer answers with separate responses: every piggybacked response of the server reaches the client as an
                    * Empty ACK followed by a Confirmable response with a message id of the peer's own (RFC 7252 5.2.2), as a slow
                    * server or a proxy in front of it would do; the client's ACKs of those are consumed by that peer (fault-free only) */
};

static struct cfg *C;
static coap_context_t *cc, *sc;
static coap_session_t *cs;
static coap_address_t srv_addr, cli_addr;

static uint8_t
pat(size_t i, unsigned seed) {
  return (uint8_t)((i * 31 + (i >> 8) * 7 + seed * 13 + 3) & 0xff);
}
static uint8_t *
mkbody(size_t n, unsigned seed) {
  uint8_t *p = malloc(n ? n : 1); /* exact size: overreads hit the redzone */
  for (size_t i = 0; i < n; i++)
    p[i] = pat(i, seed);
  return p;
}

/* ---- bookkeeping ---- */
#define MAXT 2
struct xfer {
  uint8_t tok[8];
  int tkl;
  unsigned seed_req, seed_resp;
  size_t Lreq, Lresp;
  /* server side deliveries of the request body */
  int srv_calls;
  uint8_t *srv_cover; /* per byte delivery count */
  int srv_bad;        /* wrong bytes / wrong total */
  /* client side deliveries of the response body */
  int cli_calls, cli_success, cli_error;
  uint8_t *cli_cover;
  int cli_bad;
  int nacks;
  int submitted;
  int refused;       /* a coap_add_data_large_*() call reported failure: no transfer was started / the server answered 5.00 */
  int raw_block_up;  /* libcoap gave up reassembly and handed a raw block message to the application */
};
static struct xfer X[MAXT];
static int nx;
static int release_calls, large_calls;
static int dup_taken, drop_taken;
static size_t max_dgram;
static int dup_req_delivered; /* a datagram with an already seen message id reached the server again */
static int seen_mids[256], nseen_mids;
static int dup_resp_delivered; /* a response datagram (same type + message id) reached the client a second time */
static int seen_resp[256], nseen_resp;

static void
release_cb(coap_session_t *session, void *app_ptr) {
  (void)session;
  release_calls++;
  free(app_ptr);
}

/* the server application identifies the transfer by the request's Uri-Query (tokens of later blocks are the
 * client library's business: RFC 7959 allows a fresh token per block request) */
static int
xfer_by_query(const coap_string_t *query) {
  if (query && query->length == 1 && query->s[0] >= '0' && query->s[0] < '0' + MAXT)
    return query->s[0] - '0';
  return -1;
}
static int
xfer_by_token(coap_bin_const_t t) {
  for (int i = 0; i < nx; i++)
    if ((size_t)X[i].tkl == t.length && (t.length == 0 || !memcmp(X[i].tok, t.s, t.length)))
      return i;
  return -1;
}

static void
account(uint8_t *cover, int *bad, size_t L, unsigned seed, const uint8_t *data, size_t size, size_t offset, size_t total, const char *who) {
  if (total != L && !(total == 0 && L == 0)) {
    /* total may be 0/unknown for per-block delivery when no Size option is present: only flag a wrong non-zero total */
    if (total != 0 && total != size + offset) {
      (*bad)++;
      vx_observe("   %s: total=%zu but body is %zu", who, total, L);
    }
  }
  if (offset + size > L) {
    (*bad)++;
    vx_observe("   %s: delivery [%zu,%zu) beyond body length %zu", who, offset, offset + size, L);
    return;
  }
  for (size_t i = 0; i < size; i++) {
    if (data[i] != pat(offset + i, seed)) {
      (*bad)++;
      vx_observe("   %s: wrong byte at body offset %zu", who, offset + i);
      return;
    }
    if (cover[offset + i] < 250)
      cover[offset + i]++;
  }
}

/* ---- server handlers ---- */
static void
hnd_put(coap_resource_t *resource, coap_session_t *session, const coap_pdu_t *request, const coap_string_t *query,
        coap_pdu_t *response) {
  size_t size = 0, offset = 0, total = 0;
  const uint8_t *data = NULL;
  int xi = xfer_by_query(query);
  coap_get_data_large(request, &size, &data, &offset, &total);
  vx_observe("t=%llu SRV-PUT xfer=%d offset=%zu size=%zu total=%zu", (unsigned long long)ns_now(), xi, offset, size, total);
  if (xi < 0 || xi >= nx) {
    vx_fail("server:query-lost", "a block of the request reached the handler without the request's Uri-Query");
    coap_pdu_set_code(response, COAP_RESPONSE_CODE_CHANGED);
    return;
  }
  struct xfer *x = &X[xi];
  x->srv_calls++;
  account(x->srv_cover, &x->srv_bad, x->Lreq, x->seed_req, data, size, offset, total, "server");
  coap_pdu_set_code(response, COAP_RESPONSE_CODE_CHANGED);
  if (C->dir == D_BOTH && (C->single || offset + size >= x->Lreq)) {
    uint8_t *b = mkbody(x->Lresp, x->seed_resp);
    large_calls++;
    coap_pdu_set_code(response, COAP_RESPONSE_CODE_CHANGED);
    if (!coap_add_data_large_response(resource, session, request, response, query, COAP_MEDIATYPE_APPLICATION_OCTET_STREAM, -1, 0,
                                      x->Lresp, b, release_cb, b)) {
      vx_observe("   server: coap_add_data_large_response refused");
      x->refused = 1;
      coap_pdu_set_code(response, COAP_RESPONSE_CODE_INTERNAL_ERROR);
    }
  }
}
static void
hnd_get(coap_resource_t *resource, coap_session_t *session, const coap_pdu_t *request, const coap_string_t *query,
        coap_pdu_t *response) {
  int xi = xfer_by_query(query);
  vx_observe("t=%llu SRV-GET xfer=%d", (unsigned long long)ns_now(), xi);
  if (xi < 0 || xi >= nx) {
    vx_fail("server:query-lost", "a request reached the handler without the request's Uri-Query");
    coap_pdu_set_code(response, COAP_RESPONSE_CODE_CONTENT);
    return;
  }
  struct xfer *x = &X[xi];
  uint8_t *b = mkbody(x->Lresp, x->seed_resp);
  large_calls++;
  coap_pdu_set_code(response, COAP_RESPONSE_CODE_CONTENT);
  if (!coap_add_data_large_response(resource, session, request, response, query, COAP_MEDIATYPE_APPLICATION_OCTET_STREAM, -1, 0,
                                    x->Lresp, b, release_cb, b)) {
    vx_observe("   server: coap_add_data_large_response refused");
    x->refused = 1;
    coap_pdu_set_code(response, COAP_RESPONSE_CODE_INTERNAL_ERROR);
  }
}

/* ---- client handlers ---- */
static coap_response_t
resp_handler(coap_session_t *session, const coap_pdu_t *sent, const coap_pdu_t *received, const coap_mid_t mid) {
  (void)session;
  (void)sent;
  (void)mid;
  coap_bin_const_t t = coap_pdu_get_token(received);
  int xi = xfer_by_token(t);
  size_t size = 0, offset = 0, total = 0;
  const uint8_t *data = NULL;
  int has = coap_get_data_large(received, &size, &data, &offset, &total);
  int code = coap_pdu_get_code(received);
  vx_observe("t=%llu CLI-RESP xfer=%d code=%d.%02d offset=%zu size=%zu total=%zu", (unsigned long long)ns_now(), xi, code >> 5, code & 31,
             offset, size, total);
  if (xi < 0) {
    char hx[20];
    vx_hex(hx, sizeof hx, t.s, t.length);
    vx_fail(dup_req_delivered    ? "token:client-handler-foreign:after-duplicate-request-reprocessed"
            : dup_resp_delivered ? "token:client-handler-foreign:after-stale-duplicate-response"
                                 : "token:client-handler-foreign",
            "response handler saw token %s which the application never used (libcoap's internal token leaked)%s", hx,
            dup_req_delivered    ? " - a response to a duplicated block request that the server processed a second time"
            : dup_resp_delivered ? " - a duplicate of an older block response was processed again by the client (only the last ACK mid is remembered), "
                                   "blocks were sent twice and the surplus replies carry internal tokens"
                                 : "");
    return COAP_RESPONSE_OK;
  }
  struct xfer *x = &X[xi];
  x->cli_calls++;
  {
    /* did libcoap give up on reassembly and pass a raw block message up?  (Block2 NUM > 0 but offset reported as 0) */
    coap_opt_iterator_t oi;
    coap_opt_t *bo = coap_check_option(received, COAP_OPTION_BLOCK2, &oi);
    if (bo && (coap_decode_var_bytes(coap_opt_value(bo), coap_opt_length(bo)) >> 4) > 0 && offset == 0) {
      x->raw_block_up = 1;
      char sig[160];
      snprintf(sig, sizeof sig, "client:raw-block-handed-up:offset-lost:%s", dup_req_delivered || drop_taken ? "after-loss-or-duplicate" : "fault-free");
      vx_fail(sig, "a response carrying Block2 NUM=%u reached the application but coap_get_data_large() reports offset 0 / total %zu: libcoap "
                   "abandoned reassembly (e.g. the server started a new body for a late retransmission) and passed the block up as if it were a whole body",
              coap_decode_var_bytes(coap_opt_value(bo), coap_opt_length(bo)) >> 4, total);
      return COAP_RESPONSE_OK;
    }
  }
  if ((code >> 5) == 2) {
    if (code == COAP_RESPONSE_CODE_CONTINUE) {
      vx_fail("handler:2.31-leaked", "2.31 Continue reached the application");
      return COAP_RESPONSE_OK;
    }
    if (x->Lresp > 0 || has)
      account(x->cli_cover, &x->cli_bad, x->Lresp, x->seed_resp, data, size, offset, total, "client");
    if (C->single || offset + size >= x->Lresp)
      x->cli_success++;
  } else
    x->cli_error++;
  return COAP_RESPONSE_OK;
}
static void
nack_handler(coap_session_t *session, const coap_pdu_t *sent, const coap_nack_reason_t reason, const coap_mid_t mid) {
  (void)session;
  (void)mid;
  int xi = -1;
  if (sent) {
    coap_bin_const_t t = coap_pdu_get_token(sent);
    xi = xfer_by_token(t);
    if (xi < 0) {
      char hx[20];
      vx_hex(hx, sizeof hx, t.s, t.length);
      vx_fail("token:nack-handler-foreign", "NACK handler saw token %s which the application never used", hx);
    }
  }
  vx_observe("t=%llu CLI-NACK xfer=%d reason=%d", (unsigned long long)ns_now(), xi, reason);
  if (xi >= 0)
    X[xi].nacks++;
}

static void
on_deliver(const ns_dgram_t *d) {
  if (d->len >= 4 && ns_addr_host(&d->dst) == ns_addr_host(&cli_addr) && d->data[1] >= 64) {
    int key = ((d->data[0] >> 4) & 3) << 16 | d->data[2] << 8 | d->data[3];
    for (int i = 0; i < nseen_resp; i++)
      if (seen_resp[i] == key)
        dup_resp_delivered = 1;
    if (nseen_resp < 256)
      seen_resp[nseen_resp++] = key;
    return;
  }
  if (ns_addr_host(&d->dst) != ns_addr_host(&srv_addr) || d->len < 4)
    return;
  int type = (d->data[0] >> 4) & 3;
  if (type > 1)
    return;
  int mid = d->data[2] << 8 | d->data[3];
  for (int i = 0; i < nseen_mids; i++)
    if (seen_mids[i] == mid) {
      dup_req_delivered = 1;
      return;
    }
  if (nseen_mids < 256)
    seen_mids[nseen_mids++] = mid;
}

static void
on_send(const ns_dgram_t *d) {
  if (d->len > max_dgram)
    max_dgram = d->len;
  int limit = C->mtu ? C->mtu : 1152;
  if ((int)d->len > limit) {
    char sig[80];
    snprintf(sig, sizeof sig, "mtu:datagram-too-big:%s", dname[C->dir]);
    vx_fail(sig, "datagram of %zu bytes on a session whose maximum message size is %d", d->len, limit);
  }
  struct w_msg m;
  if (!w_parse(d->data, d->len, &m)) {
    vx_fail("wire:malformed", "malformed datagram emitted");
    return;
  }
  const struct w_opt *b1 = w_find(&m, 27), *b2 = w_find(&m, 23);
  vx_observe("t=%llu %s TX type=%d code=%d.%02d len=%zu b1=%x b2=%x", (unsigned long long)ns_now(),
             ns_addr_host(&d->src) == ns_addr_host(&cli_addr) ? "C" : "S", m.type, m.code >> 5, m.code & 31, d->len,
             b1 ? w_uint(b1) : 0xfffff, b2 ? w_uint(b2) : 0xfffff);
}

static void
submit(int xi) {
  struct xfer *x = &X[xi];
  coap_pdu_t *pdu = coap_new_pdu(C->con ? COAP_MESSAGE_CON : COAP_MESSAGE_NON, C->dir == D_B2 ? COAP_REQUEST_CODE_GET : COAP_REQUEST_CODE_PUT, cs);
  coap_add_token(pdu, (size_t)x->tkl, x->tok);
  coap_add_option(pdu, COAP_OPTION_URI_PATH, 1, (const uint8_t *)(C->dir == D_B2 ? "g" : "p"));
  uint8_t qv = (uint8_t)('0' + xi);
  coap_add_option(pdu, COAP_OPTION_URI_QUERY, 1, &qv);
  if (C->req_szx >= 0) {
    /* the application states its block size: Block2 (GET) / Block1 (PUT) option with NUM 0, M 0, SZX */
    uint8_t v = (uint8_t)C->req_szx;
    coap_add_option(pdu, C->dir == D_B2 ? COAP_OPTION_BLOCK2 : COAP_OPTION_BLOCK1, v ? 1 : 0, &v);
  }
  if (C->dir != D_B2) {
    uint8_t *b = mkbody(x->Lreq, x->seed_req);
    large_calls++;
    if (!coap_add_data_large_request(cs, pdu, x->Lreq, b, release_cb, b)) {
      /* explicit failure: a well-behaved application does not send the request */
      vx_observe("   client: coap_add_data_large_request refused");
      x->refused = 1;
      coap_delete_pdu(pdu);
      return;
    }
  }
  coap_mid_t r = coap_send(cs, pdu);
  x->submitted = r != COAP_INVALID_MID;
  vx_observe("t=%llu SUBMIT xfer=%d -> %d", (unsigned long long)ns_now(), xi, r);
}

/* the separate-response peer (C->sep): rewrite the datagram at the head of the network if it is a piggybacked response of the
 * server, swallow the client's acknowledgements of the peer's own Confirmables.  Returns 1 if it consumed the head. */
static uint16_t sep_mid;
static int sep_split;
static int
sep_peer(void) {
  if (!C->sep || ns_inflight_count() == 0)
    return 0;
  ns_dgram_t *d = ns_inflight(0);
  if (d->len < 4)
    return 0;
  int type = (d->data[0] >> 4) & 3, code = d->data[1], mid = d->data[2] << 8 | d->data[3];
  if (ns_addr_host(&d->src) == ns_addr_host(&srv_addr) && type == 2 && code != 0 && d->len <= 1400) {
    uint8_t ack[4] = {0x60, 0, d->data[2], d->data[3]}, sepb[1400];
    size_t n = d->len;
    memcpy(sepb, d->data, n);
    sepb[0] = (uint8_t)((sepb[0] & 0xCF) | 0x00); /* type CON */
    sepb[2] = (uint8_t)(sep_mid >> 8);
    sepb[3] = (uint8_t)sep_mid;
    sep_mid++;
    sep_split++;
    vx_observe("   peer: piggybacked response mid=%04x becomes Empty ACK + separate CON mid=%04x", mid, sep_mid - 1);
    ns_drop(0);
    void (*keep)(const ns_dgram_t *) = ns_on_send;
    ns_on_send = NULL; /* not library output */
    ns_inject_now(&srv_addr, &cli_addr, ack, 4);
    ns_inject_now(&srv_addr, &cli_addr, sepb, n);
    ns_on_send = keep;
    return 1;
  }
  if (ns_addr_host(&d->src) == ns_addr_host(&cli_addr) && type == 2 && code == 0 && mid >= 0x7000 && mid < sep_mid) {
    ns_drop(0); /* the client's ACK of the peer's Confirmable: for the peer, not for the libcoap server behind it */
    return 1;
  }
  return 0;
}

static int
may_fault(const ns_dgram_t *d) {
  (void)d;
  return 1;
}

static int
step(void) {
  enum { EV_DELIVER, EV_TIMER, EV_REORDER, EV_DROP, EV_DUP };
  struct {
    int kind, idx;
  } ev[VX_MAXALT];
  uint8_t cost[VX_MAXALT];
  int n = 0;
  unsigned tmo = ns_prepare_all();
  /* abandonment: datagrams from the server side vanish */
  if (C->silent_from >= 0) {
    for (int j = ns_inflight_count() - 1; j >= 0; j--) {
      ns_dgram_t *d = ns_inflight(j);
      if (d->id >= C->silent_from && ns_addr_host(&d->src) == ns_addr_host(&srv_addr))
        ns_drop(j);
    }
  }
  if (sep_peer())
    return 1;
  int nf = ns_inflight_count();
  if (nf > 0)
    ev[n].kind = EV_DELIVER, ev[n++].idx = 0;
  else if (tmo && tmo < 250000 && ns_now() < 1500000)
    ev[n].kind = EV_TIMER, ev[n++].idx = (int)tmo;
  if (n == 0)
    return 0;
  cost[0] = 0;
  int budget = vx_budget_left();
  if (budget > 0)
    for (int j = 0; j < nf && j < 3 && n < VX_MAXALT - 3; j++) {
      ns_dgram_t *d = ns_inflight(j);
      if (d->id >= 14 || !may_fault(d))
        continue;
      ev[n].kind = EV_DROP, ev[n].idx = j, cost[n++] = 1;
      if (j >= 1)
        ev[n].kind = EV_REORDER, ev[n].idx = j, cost[n++] = 1;
      if (C->allow_dup && ns_dups_done < 2)
        ev[n].kind = EV_DUP, ev[n].idx = j, cost[n++] = 1;
    }
  int c = vx_choose(n, cost, "step");
  switch (ev[c].kind) {
  case EV_DELIVER:
    ns_deliver(0);
    break;
  case EV_REORDER:
    vx_observe("   reorder dgram#%d first", ns_inflight(ev[c].idx)->id);
    ns_deliver(ev[c].idx);
    break;
  case EV_DUP:
    vx_observe("   dup dgram#%d", ns_inflight(ev[c].idx)->id);
    dup_taken++;
    ns_duplicate(ev[c].idx);
    break;
  case EV_DROP:
    vx_observe("   drop dgram#%d", ns_inflight(ev[c].idx)->id);
    drop_taken++;
    ns_drop(ev[c].idx);
    break;
  case EV_TIMER:
    ns_advance((uint64_t)ev[c].idx);
    break;
  }
  if (c)
    vx_nontrivial();
  return 1;
}

static const char *
lclass(size_t L, int blk) {
  if (L == 0)
    return "L=0";
  if (!blk)
    blk = 1024;
  if (L % (size_t)blk == 0)
    return "L=k*bs";
  if (L % (size_t)blk == 1)
    return "L=k*bs+1";
  if (L % (size_t)blk == (size_t)blk - 1)
    return "L=k*bs-1";
  return "L=other";
}

static void
run(void *arg) {
  C = arg;
  ns_init();
  memset(X, 0, sizeof X);
  release_calls = large_calls = 0;
  dup_taken = drop_taken = 0;
  sep_mid = 0x7000;
  sep_split = 0;
  max_dgram = 0;
  ns_on_send = on_send;
  ns_on_deliver = on_deliver;
  dup_req_delivered = 0;
  nseen_mids = 0;
  dup_resp_delivered = 0;
  nseen_resp = 0;
  ns_addr(&srv_addr, 1, 5683);
  ns_addr(&cli_addr, 50, 40001);
  int mode = COAP_BLOCK_USE_LIBCOAP | (C->single ? COAP_BLOCK_SINGLE_BODY : 0);
  sc = coap_new_context(NULL);
  ns_register_ctx(sc);
  coap_context_set_block_mode(sc, (uint32_t)mode);
  if (C->sblk)
    coap_context_set_max_block_size(sc, (size_t)C->sblk);
  coap_endpoint_t *ep = coap_new_endpoint(sc, &srv_addr, COAP_PROTO_UDP);
  if (C->mtu)
    coap_endpoint_set_default_mtu(ep, (unsigned)C->mtu);
  coap_resource_t *rp = coap_resource_init(coap_make_str_const("p"), 0);
  coap_register_request_handler(rp, COAP_REQUEST_PUT, hnd_put);
  coap_add_resource(sc, rp);
  coap_resource_t *rg = coap_resource_init(coap_make_str_const("g"), 0);
  coap_register_request_handler(rg, COAP_REQUEST_GET, hnd_get);
  coap_add_resource(sc, rg);
  cc = coap_new_context(NULL);
  ns_register_ctx(cc);
  coap_context_set_block_mode(cc, (uint32_t)mode);
  if (C->cblk)
    coap_context_set_max_block_size(cc, (size_t)C->cblk);
  coap_register_response_handler(cc, resp_handler);
  coap_register_nack_handler(cc, nack_handler);
  cs = coap_new_client_session(cc, &cli_addr, &srv_addr, COAP_PROTO_UDP);
  if (C->mtu)
    coap_session_set_mtu(cs, (unsigned)C->mtu);
  coap_session_set_nstart(cs, 2);
  nx = C->two ? 2 : 1;
  for (int i = 0; i < nx; i++) {
    struct xfer *x = &X[i];
    x->tkl = C->tkl;
    for (int b = 0; b < x->tkl; b++)
      x->tok[b] = (uint8_t)(0x21 + 0x40 * i + b);
    x->seed_req = 1 + (unsigned)i * 2;
    x->seed_resp = 2 + (unsigned)i * 2;
    x->Lreq = C->dir == D_B2 ? 0 : C->L + (size_t)i * 17;
    x->Lresp = C->dir == D_B2 ? C->L + (size_t)i * 17 : C->dir == D_BOTH ? C->L2 : 0;
    x->srv_cover = calloc(x->Lreq + 1, 1);
    x->cli_cover = calloc(x->Lresp + 1, 1);
    submit(i);
  }
  int steps = 0;
  while (steps++ < 3000 && step())
    ;
  if (steps >= 3000)
    vx_fail("horizon:steps", "transfer did not become quiescent within 3000 events");
  coap_session_release(cs);
  ns_unregister_ctx(cc);
  coap_free_context(cc);
  ns_unregister_ctx(sc);
  coap_free_context(sc);
  /* ---- verdicts ---- */
  int faults = dup_taken + drop_taken + (C->silent_from >= 0);
  char oc[120] = "";
  size_t o = 0;
  int blk = C->req_szx >= 0 ? 16 << C->req_szx : 1024;
  for (int i = 0; i < nx; i++) {
    struct xfer *x = &X[i];
    char sig[160];
    const char *lc = lclass(x->Lreq ? x->Lreq : x->Lresp, blk);
    if (!x->submitted || x->refused) {
      o += (size_t)snprintf(oc + o, sizeof oc - o, "%srefused", i ? "," : "");
      free(x->srv_cover);
      free(x->cli_cover);
      continue;
    }
    /* request body at the server */
    if (C->dir != D_B2) {
      if (x->srv_bad) {
        snprintf(sig, sizeof sig, "corrupt:%s:server:%s%s", dname[C->dir], lc, faults ? ":faults" : "");
        vx_fail(sig, "server application received bytes that are not the client's body (L=%zu)", x->Lreq);
      }
      size_t zero = 0, multi = 0;
      for (size_t b = 0; b < x->Lreq; b++) {
        zero += x->srv_cover[b] == 0;
        multi += x->srv_cover[b] > 1;
      }
      if (multi || (C->single && x->srv_calls > 1)) {
        if (!dup_req_delivered && dup_resp_delivered) {
          snprintf(sig, sizeof sig, "twice:server:%s:after-stale-duplicate-response", C->single ? "single-body" : "per-block");
          vx_fail(sig, "%s: a duplicate of an older 2.31 reached the client after a newer ACK; the client (which remembers only the last ACK "
                       "message id) sent the following block again with a new message id and the server handed it to the application twice "
                       "(calls=%d, L=%zu)", dname[C->dir], x->srv_calls, x->Lreq);
        } else if (dup_req_delivered) {
          /* a retransmitted / duplicated request datagram (same message id) was processed again: the server keeps no
           * record of handled message ids (RFC 7252 4.5) */
          snprintf(sig, sizeof sig, "twice:server:duplicate-request-datagram-reprocessed:%s", C->single ? "single-body" : "per-block");
          vx_fail(sig, "%s: the request body (or a block of it) was handed to the server application again when a datagram with an already "
                       "processed message id arrived (calls=%d, L=%zu)", dname[C->dir], x->srv_calls, x->Lreq);
        } else {
          snprintf(sig, sizeof sig, "twice:%s:server:%s:%s%s", dname[C->dir], C->single ? "single-body" : "per-block", lc, faults ? ":faults" : "");
          vx_fail(sig, "server application was handed %zu body bytes more than once (calls=%d, L=%zu)", multi, x->srv_calls, x->Lreq);
        }
      }
      if (!faults && (zero || x->srv_calls == 0)) {
        snprintf(sig, sizeof sig, "incomplete:%s:server:%s", dname[C->dir], lc);
        vx_fail(sig, "fault-free transfer: server application got %zu of %zu body bytes (calls=%d)", x->Lreq - zero, x->Lreq, x->srv_calls);
      }
    }
    /* response body at the client */
    if (x->cli_bad) {
      snprintf(sig, sizeof sig, "corrupt:%s:client:%s%s", dname[C->dir], lc, faults ? ":faults" : "");
      vx_fail(sig, "client application received bytes that are not the server's body (L=%zu)", x->Lresp);
    }
    if (x->Lresp) {
      size_t zero = 0, multi = 0;
      for (size_t b = 0; b < x->Lresp; b++) {
        zero += x->cli_cover[b] == 0;
        multi += x->cli_cover[b] > 1;
      }
      if (multi) {
        if (dup_req_delivered)
          snprintf(sig, sizeof sig, "twice:client:%s:after-duplicate-request-reprocessed", C->single ? "single-body" : "per-block");
        else
          snprintf(sig, sizeof sig, "twice:%s:client:%s:%s%s", dname[C->dir], C->single ? "single-body" : "per-block", lc, faults ? ":faults" : "");
        vx_fail(sig, "client application was handed %zu body bytes more than once (calls=%d, L=%zu)%s", multi, x->cli_calls, x->Lresp,
                dup_req_delivered ? " - the server processed a duplicated request datagram again (new body/ETag), the client restarted" : "");
      }
      if (!faults && zero) {
        snprintf(sig, sizeof sig, "incomplete:%s:client:%s", dname[C->dir], lc);
        vx_fail(sig, "fault-free transfer: client application got %zu of %zu body bytes", x->Lresp - zero, x->Lresp);
      }
    }
    if (!faults) {
      if (x->cli_success != 1 || x->cli_error || x->nacks) {
        snprintf(sig, sizeof sig, "outcome:fault-free:%s:%s", dname[C->dir], lc);
        vx_fail(sig, "fault-free transfer: %d success responses, %d error responses, %d NACKs at the requester", x->cli_success, x->cli_error,
                x->nacks);
      }
    } else if (C->con) {
      if (C->single && x->cli_success > 1) {
        snprintf(sig, sizeof sig, "outcome:success-twice:%s", dname[C->dir]);
        vx_fail(sig, "%d success responses for one transfer", x->cli_success);
      }
      if (x->cli_success + x->cli_error + x->nacks == 0 && !x->raw_block_up) {
        if (dup_req_delivered)
          snprintf(sig, sizeof sig, "outcome:abandoned-silently:after-duplicate-request-reprocessed");
        else
          snprintf(sig, sizeof sig, "outcome:abandoned-silently:%s:%s", dname[C->dir], C->silent_from >= 0 ? "peer-silent" : "loss");
        vx_fail(sig, "Confirmable transfer ended without success, error response or NACK at the requester%s",
                dup_req_delivered ? " (the server processed a retransmitted request again, ACKed it and its later NON error response was lost)" : "");
      }
    }
    o += (size_t)snprintf(oc + o, sizeof oc - o, "%ss%d/e%d/n%d", i ? "," : "", x->cli_success, x->cli_error, x->nacks);
    free(x->srv_cover);
    free(x->cli_cover);
  }
  if (release_calls != large_calls) {
    char sig[120];
    snprintf(sig, sizeof sig, "release:%s:%s%s", release_calls < large_calls ? "missing" : "twice", dname[C->dir], faults ? ":faults" : "");
    vx_fail(sig, "%d coap_add_data_large_* calls but the release callback ran %d times (after both contexts were freed)", large_calls,
            release_calls);
  }
  vx_outcome("%s rel=%d/%d", oc, release_calls, large_calls);
  ns_fini();
}

static struct cfg *cfgs;
static int ncfgs;
static void
add(struct cfg c) {
  cfgs = realloc(cfgs, sizeof *cfgs * (size_t)(ncfgs + 1));
  snprintf(c.name, sizeof c.name, "c09:%s,L=%zu,L2=%zu,cblk=%d,sblk=%d,szx=%d,mtu=%d,single=%d,con=%d,tkl=%d,two=%d,sil=%d,dup=%d%s,B=%d", dname[c.dir],
           c.L, c.L2, c.cblk, c.sblk, c.req_szx, c.mtu, c.single, c.con, c.tkl, c.two, c.silent_from, c.allow_dup, c.sep ? ",sep" : "", c.bound);
  cfgs[ncfgs++] = c;
}

int
main(int argc, char **argv) {
  vx_main_init(argc, argv, "C09");
  int T = vx_is_thorough();
  /* (1) fault-free sweep */
  static const int szxs_q[] = {0, 2, 4, 6}, szxs_t[] = {0, 1, 2, 3, 4, 5, 6};
  const int *szxs = T ? szxs_t : szxs_q;
  int nszx = T ? 7 : 4;
  static const int ks[] = {1, 2, 3, 5};
  static const int mtus_q[] = {0, 128, 576}, mtus_t[] = {0, 64, 128, 256, 576, 1152, 1280};
  const int *mtus = T ? mtus_t : mtus_q;
  int nmtu = T ? 7 : 3;
  for (int dir = 0; dir < 3; dir++)
    for (int si = 0; si < nszx; si++) {
      int bs = 16 << szxs[si];
      size_t Ls[64];
      int nL = 0;
      Ls[nL++] = 0;
      Ls[nL++] = 1;
      for (int ki = 0; ki < 4; ki++)
        for (int d = -1; d <= 1; d++) {
          if (!T && ks[ki] == 5 && bs >= 256)
            continue;
          Ls[nL++] = (size_t)(ks[ki] * bs + d);
        }
      for (int li = 0; li < nL; li++)
        for (int mi = 0; mi < nmtu; mi++) {
          if (mtus[mi] && mtus[mi] < bs / 4 && !T)
            continue;
          for (int single = 0; single < 2; single++)
            for (int con = 1; con >= (T || li % 2 == 0 ? 0 : 1); con--) {
              struct cfg c = {.dir = dir, .L = Ls[li], .L2 = dir == D_BOTH ? Ls[(li + 3) % nL] : 0, .cblk = 0, .sblk = 0,
                              .req_szx = szxs[si], .mtu = mtus[mi], .single = single, .con = con, .tkl = (li + mi) % 2 ? 8 : 1, .bound = 0,
                              .silent_from = -1};
              add(c);
              if (con && mi == 0 && (T || li % 2 == 0)) {
                /* the same transfer against a peer that answers every request with Empty ACK + separate Confirmable response */
                c.sep = 1;
                add(c);
                c.sep = 0;
              }
              if ((T || li % 3 == 0) && szxs[si] > 1 && mi == 0) {
                /* the other side only supports smaller blocks (context max block size): early renegotiation by the peer */
                c.sblk = bs / 2;
                add(c);
                c.sblk = 0;
                c.cblk = bs / 2;
                add(c);
              }
            }
        }
    }
  /* large bodies (fault free) */
  {
    static const size_t big[] = {65535, 65536, 65537};
    for (int i = 0; i < (T ? 3 : 1); i++)
      for (int dir = 0; dir < 2; dir++) {
        struct cfg c = {.dir = dir, .L = big[i], .cblk = 0, .sblk = 0, .req_szx = -1, .mtu = 0, .single = 1, .con = 1, .tkl = 4, .bound = 0,
                        .silent_from = -1};
        add(c);
      }
  }
  /* (2) faults on representative transfers */
  for (int dir = 0; dir < 3; dir++)
    for (int v = 0; v < 3; v++)
      for (int single = 0; single < 2; single++) {
        size_t L = v == 0 ? 64 : v == 1 ? 49 : 80; /* 4 blocks exactly / last block of 1 byte / 5 blocks */
        struct cfg c = {.dir = dir, .L = L, .L2 = dir == D_BOTH ? 33 : 0, .cblk = 0, .sblk = 0, .req_szx = 0, .mtu = 0, .single = single,
                        .con = 1, .tkl = 2, .bound = T ? (v == 0 ? 3 : 2) : 2, .silent_from = -1, .allow_dup = 1, .two = v == 2 && single};
        add(c);
        if (v == 0) { /* NON transfers under loss: nothing may be delivered wrongly */
          c.con = 0;
          c.allow_dup = 0;
          add(c);
          /* ... and under duplication: no message-layer de-duplication helps a NON transfer, the block layer's own
           * record of received blocks is all there is */
          c.allow_dup = 1;
          add(c);
          c.con = 1;
        }
        /* abandonment: the server side goes silent after datagram j */
        for (int j = 1; j <= (T ? 9 : 5); j += (T ? 1 : 2)) {
          struct cfg a = c;
          a.bound = 0;
          a.silent_from = j;
          a.two = 0;
          a.allow_dup = 0;
          add(a);
        }
      }
  vx_ev_rule("real libcoap client + server doing Block1 / Block2 on the application's behalf over the simulated network; (1) fault-free product "
             "of direction x body length {0,1, k*bs+d: k in 1,2,3,5, d in -1,0,+1} x block size 16..1024 x MTU x single-body/per-block x "
             "CON/NON x token length (+ early renegotiation and 64 KiB bodies), (2) all schedules with <= bound drop/duplicate/reorder "
             "deviations over the first 14 datagrams of representative 4-5 block transfers incl. two concurrent transfers, and abandonment "
             "(server silent from datagram j on); non-trivial = fault taken; distinct = distinct observation logs");
  vx_ev_assumption("body bytes follow a position-dependent pattern so any misplaced block is visible");
  vx_ev_assumption("duplicated datagrams may legitimately lead to repeated per-block deliveries; exactly-once is required whenever no duplicate was injected");
  for (int i = 0; i < ncfgs; i++)
    if (vx_replay_if_match(cfgs[i].name, run, &cfgs[i]))
      return 0;
  if (vx_replay_path()) {
    fprintf(stderr, "replay file does not match any scenario\n");
    return 2;
  }
  struct vx_config *vcs = calloc((size_t)ncfgs, sizeof *vcs);
  void **args = calloc((size_t)ncfgs, sizeof *args);
  for (int i = 0; i < ncfgs; i++) {
    vcs[i] = (struct vx_config){.scenario = cfgs[i].name, .bound = cfgs[i].bound, .leakcheck = 1, .exec_timeout_s = 40};
    args[i] = &cfgs[i];
  }
  struct vx_scn_stats st;
  vx_explore_multi("c09:all", vcs, args, ncfgs, run, 0, &st);
  vx_ev_int("scenarios", ncfgs);
  return vx_finish();
}
