/* C04 -- in-place message edits change only what they name (DESIGN.md 3, C04).
 *
 * Engine: explicit-state breadth-first search over edit histories with dedup on a canonical state, run level
 * by level on top of vxp: level d+1 enumerates (frontier state index) x (edit index); a state is the history
 * replayed on a fresh real coap_pdu_t (PDUs are not copyable) paired with the refmsg list model.  Workers
 * publish new canonical states into a shared hash set; the parent turns the set of states first reached at this
 * level (represented by their lowest index, so the frontier is deterministic) into the next frontier.
 *
 * Oracle after every edit: accessor dump == model; internal fields (used_size, e_token_length, actual_token,
 * max_opt, data) as the header file defines them; coap_pdu_encode_header + wire bytes == reference encoding and
 * reference decoding == model; coap_pdu_parse of those bytes == model when every option length is inside its RFC
 * range; an edit that returns 0 must be explained (option absent / non-repeatable present / no room) and must
 * leave everything unchanged.  ASan/UBSan/asserts through the machinery.
 *
 * Signatures:  <edit>:<class>:<what>
 *   insert:next-delta <old class>-><new class> | insert:at-end        (successor's delta before -> after)
 *   remove:next-delta <old class>-><new class> | remove:last
 *   update:len <old class>-><new class>      (update of an absent option is reported as insert)
 *   retoken:len<=254 | retoken:len>=255        (255 bytes + 1 extension byte = 256 = first length that needs 9 bits)
 *   duplicate:<filter>   add_data:<len class>
 *   <what> = header-wrong | token-wrong | options-lost | options-wrong | payload-wrong   (accessor dump, first difference)
 *          | refused-unexplained | refused-but-changed | accepted-beyond-max_size
 *          | wire-<element> | wire-not-wellformed | refdecode-<field> | reparse-rejected | reparse-<field>
 *          | internal-<field>
 */
#include <coap3/coap_internal.h>
#include <stdarg.h>
#include <sys/mman.h>
#include "vx.h"
#include "refmsg.h"
#include "netsim.h"

/* ------------------------------------------------------------------------------------------ */
/* alphabets                                                                                   */
enum { E_INSERT, E_UPDATE, E_REMOVE, E_RETOKEN, E_DUP, E_ADDDATA };
static const char *const EK_NAME[] = {"insert", "update", "remove", "retoken", "duplicate", "add_data"};
struct edit {
  uint8_t kind;
  uint8_t variant; /* E_DUP: filter variant */
  uint32_t num, len;
};
#define MAXEDITS 255
struct alphabet {
  int n;
  struct edit e[MAXEDITS];
};

/* 290 and 283 are not in DESIGN's list.  290: without a number 1..12 above another one that is >= 257 above its
 * predecessor the "successor delta 0-12 -> 269+" case of coap_remove_option (and the 2-byte shrink of
 * coap_insert_option with a short successor delta) cannot occur; {1,282,290} provides it.  283: 283-14 is the only
 * delta of exactly 269 (the list had 268 = 282-14 and 270 = 282-12 but not the boundary value itself). */
static const uint32_t NUM_FULL[] = {1, 4, 11, 12, 14, 17, 23, 27, 60, 258, 282, 283, 290, 295, 552, 65000};
static const uint32_t LEN_FULL[] = {0, 1, 12, 13, 268, 269};
static const uint32_t TOK_FULL[] = {0, 1, 4, 8, 12, 13, 14, 255, 256, 268, 269, 270, 300};
static const uint32_t DATA_FULL[] = {1, 300};
static const uint32_t NUM_B[] = {1, 11, 14, 282, 283, 290};
static const uint32_t LEN_B[] = {0, 13};
static const uint32_t TOK_B[] = {0, 8, 13, 255, 269};
static const uint32_t DATA_B[] = {1};
static const uint32_t NUM_C[] = {11, 282, 290};
static const uint32_t LEN_C[] = {0, 13};
static const uint32_t TOK_C[] = {0, 13, 269};
static const uint32_t DATA_C[] = {1};
#define NDUP 4
static const char *const DUP_NAME[NDUP] = {"keep-all(NULL)", "keep-all(empty-filter)", "drop{11}", "drop{1,282,65000}"};

static void
mk_alphabet(struct alphabet *a, const uint32_t *nums, int nn, const uint32_t *lens, int nl, const uint32_t *toks, int nt,
            int ndup, const uint32_t *datas, int nd) {
  a->n = 0;
  for (int k = E_INSERT; k <= E_UPDATE; k++)
    for (int i = 0; i < nn; i++)
      for (int j = 0; j < nl; j++)
        a->e[a->n++] = (struct edit){(uint8_t)k, 0, nums[i], lens[j]};
  for (int i = 0; i < nn; i++)
    a->e[a->n++] = (struct edit){E_REMOVE, 0, nums[i], 0};
  for (int i = 0; i < nt; i++)
    a->e[a->n++] = (struct edit){E_RETOKEN, 0, 0, toks[i]};
  for (int i = 0; i < ndup; i++)
    a->e[a->n++] = (struct edit){E_DUP, (uint8_t)(i == 1 && ndup == 2 ? 2 : i), 0, 0};
  for (int i = 0; i < nd; i++)
    a->e[a->n++] = (struct edit){E_ADDDATA, 0, 0, datas[i]};
  if (a->n > MAXEDITS)
    abort();
}

static void
edit_str(const struct edit *e, char *b, size_t n) {
  switch (e->kind) {
  case E_INSERT:
  case E_UPDATE:
    snprintf(b, n, "%s(%u,len=%u)", EK_NAME[e->kind], e->num, e->len);
    break;
  case E_REMOVE:
    snprintf(b, n, "remove(%u)", e->num);
    break;
  case E_RETOKEN:
    snprintf(b, n, "retoken(len=%u)", e->len);
    break;
  case E_DUP:
    snprintf(b, n, "duplicate(%s)", DUP_NAME[e->variant]);
    break;
  default:
    snprintf(b, n, "add_data(len=%u)", e->len);
  }
}

/* ------------------------------------------------------------------------------------------ */
/* initial states                                                                              */
enum { K_BUILT, K_BUILT_SENT_TCP, K_PARSED_UDP, K_PARSED_TCP, NKIND };
static const char *const KIND_NAME[] = {"built", "built+header-encoded(TCP,session)", "parsed(UDP)", "parsed(TCP)"};
enum { NOPTSET = 4, NSIZE = 4 };
static const char *const OPTSET_NAME[] = {"{}", "{11}", "{3,11,11,15}", "{1,282,65000}"};
static const char *const SIZE_NAME[] = {"size=0(alloc-grows,max-unlimited)", "size=exact(max-tight)", "size=exact+3", "size=1200(roomy)"};
struct init {
  uint8_t kind, pay, optset, size;
};
#define MAXINIT 128
struct initset {
  int n;
  struct init s[MAXINIT];
};

static coap_context_t *g_ctx;
static coap_session_t *g_sess[2]; /* [0] UDP client session, [1] TCP client session (netsim, nothing leaves the process) */
static size_t g_sess_max[2];

struct state {
  coap_pdu_t *pdu;
  rm_msg_t m;
  int fam; /* 0 UDP framing, 1 TCP framing: which session / proto this message belongs to */
  int hdr_encoded; /* pdu->hdr_size != 0 before the oracle re-serialises (part of the canonical state) */
};

static void
fill(uint8_t *b, size_t len, unsigned seed) {
  for (size_t j = 0; j < len; j++)
    b[j] = (uint8_t)(seed + j * 3);
}

static uint8_t *
heapdup(const uint8_t *p, size_t len) {
  uint8_t *q = malloc(len ? len : 1);
  if (len)
    memcpy(q, p, len);
  return q;
}

static void
init_model(const struct init *in, rm_msg_t *m) {
  int fam = in->kind == K_BUILT_SENT_TCP || in->kind == K_PARSED_TCP;
  uint8_t b[300];
  rm_init(m, 0 /* CON */, 0x02 /* POST */, fam ? 0 : 0x4321);
  static const uint32_t toklen[NOPTSET] = {0, 4, 8, 13};
  fill(b, toklen[in->optset], 0xA1);
  rm_set_token(m, b, toklen[in->optset]);
  switch (in->optset) {
  case 1:
    rm_insert(m, 11, (const uint8_t *)"abc", 3);
    break;
  case 2:
    rm_insert(m, 3, (const uint8_t *)"h", 1);
    rm_insert(m, 11, (const uint8_t *)"aa", 2);
    fill(b, 13, 0x62);
    rm_insert(m, 11, b, 13);
    rm_insert(m, 15, (const uint8_t *)"q=1", 3);
    break;
  case 3:
    rm_insert(m, 1, (const uint8_t *)"\x01\x02", 2);
    fill(b, 13, 0x52);
    rm_insert(m, 282, b, 13);
    rm_insert(m, 65000, NULL, 0);
    break;
  default:
    break;
  }
  if (in->pay)
    rm_set_payload(m, (const uint8_t *)"\xffpaylod", 7);
}

/* builds the real PDU of an initial state; returns 0 on (harness) failure */
static int
init_state(const struct init *in, struct state *st) {
  init_model(in, &st->m);
  rm_msg_t *m = &st->m;
  st->fam = in->kind == K_BUILT_SENT_TCP || in->kind == K_PARSED_TCP;
  size_t body = rm_body_len(m);
  size_t size = in->size == 0 ? 0 : in->size == 1 ? body : in->size == 2 ? body + 3 : 1200;
  if (in->kind == K_BUILT || in->kind == K_BUILT_SENT_TCP) {
    coap_pdu_t *p = coap_pdu_init((coap_pdu_type_t)m->type, (coap_pdu_code_t)m->code, m->mid, size);
    if (!p)
      return 0;
    st->pdu = p;
    if (!coap_add_token(p, m->tok_len, m->tok))
      return 0;
    for (int i = 0; i < m->nopts; i++)
      if (!coap_add_option(p, (coap_option_num_t)m->opt[i].num, m->opt[i].len, m->opt[i].val))
        return 0;
    if (!coap_add_data(p, m->pay_len, m->pay))
      return 0;
    if (in->kind == K_BUILT_SENT_TCP) { /* as coap_send_lkd leaves it */
      p->session = g_sess[1];
      if (!coap_pdu_encode_header(p, COAP_PROTO_TCP))
        return 0;
    }
  } else {
    enum rm_framing f = st->fam ? RM_TCP : RM_UDP;
    size_t wl = rm_wire_len(m, f);
    uint8_t *w = malloc(wl);
    rm_encode(m, f, w, wl);
    coap_pdu_t *p = coap_pdu_init(0, 0, 0, size);
    st->pdu = p;
    int r = p && coap_pdu_parse(st->fam ? COAP_PROTO_TCP : COAP_PROTO_UDP, w, wl, p);
    free(w);
    if (!r)
      return 0;
    p->session = g_sess[st->fam]; /* as coap_read_session / coap_handle_dgram leave it */
  }
  st->hdr_encoded = st->pdu->hdr_size != 0;
  return 1;
}

static void
free_state(struct state *st) {
  coap_delete_pdu(st->pdu);
  st->pdu = NULL;
  rm_clear(&st->m);
}

/* ------------------------------------------------------------------------------------------ */
/* oracle                                                                                      */
static const char *
cmp_pdu(const coap_pdu_t *pdu, const rm_msg_t *m, int cmp_type_mid, int *opt_idx, int *pdu_has_fewer) {
  *opt_idx = -1;
  *pdu_has_fewer = 0;
  if (cmp_type_mid && (unsigned)coap_pdu_get_type(pdu) != m->type)
    return "type";
  if ((unsigned)coap_pdu_get_code(pdu) != m->code)
    return "code";
  if (cmp_type_mid && (unsigned)coap_pdu_get_mid(pdu) != m->mid)
    return "mid";
  coap_bin_const_t t = coap_pdu_get_token(pdu);
  if (t.length != m->tok_len)
    return "token-len";
  if (t.length && memcmp(t.s, m->tok, t.length))
    return "token";
  coap_opt_iterator_t oi;
  coap_opt_t *o;
  int i = 0;
  coap_option_iterator_init(pdu, &oi, COAP_OPT_ALL);
  while ((o = coap_option_next(&oi))) {
    *opt_idx = i;
    if (i >= m->nopts)
      return "opt-count";
    if (oi.number != m->opt[i].num)
      return "opt-number";
    if (coap_opt_length(o) != m->opt[i].len)
      return "opt-len";
    if (m->opt[i].len && memcmp(coap_opt_value(o), m->opt[i].val, m->opt[i].len))
      return "opt-value";
    i++;
  }
  if (i != m->nopts) {
    *opt_idx = i;
    *pdu_has_fewer = 1;
    return "opt-count";
  }
  *opt_idx = -1;
  size_t dl = 0;
  const uint8_t *dp = NULL;
  if (!coap_get_data(pdu, &dl, &dp))
    dl = 0;
  if (dl != m->pay_len)
    return "payload-len";
  if (dl && memcmp(dp, m->pay, dl))
    return "payload";
  return NULL;
}

static const char *
coarse(const char *field, int fewer) {
  if (!strncmp(field, "token", 5))
    return "token-wrong";
  if (!strncmp(field, "opt", 3))
    return fewer ? "options-lost" : "options-wrong";
  if (!strncmp(field, "payload", 7))
    return "payload-wrong";
  return "header-wrong";
}

static int
fits(size_t max_size, size_t body) {
  return max_size == 0 || body <= max_size;
}

static size_t
size_after_insert(const rm_msg_t *m, uint32_t num, uint32_t len, size_t *cons) {
  int pos = 0;
  while (pos < m->nopts && m->opt[pos].num <= num)
    pos++;
  uint32_t prev = pos ? m->opt[pos - 1].num : 0;
  size_t body = rm_body_len(m), add = rm_opt_wire_len(num - prev, len), back = 0;
  if (pos < m->nopts) {
    const rm_opt_t *nx = &m->opt[pos];
    back = rm_opt_hdr_len(nx->num - prev, nx->len) - rm_opt_hdr_len(nx->num - num, nx->len);
  }
  *cons = body + add;
  return body + add - back;
}

static size_t
opt_size_in(const rm_msg_t *m, int i) {
  uint32_t prev = i ? m->opt[i - 1].num : 0;
  return rm_opt_wire_len(m->opt[i].num - prev, m->opt[i].len);
}

/* counters */
enum { C_TRANS, C_DISABLED, C_ACCEPTED, C_REFUSED_SPACE, C_REFUSED_ABSENT, C_REFUSED_REPEAT, C_REALLOC, C_REPARSED,
       C_NEWSTATE, C_INS_SHRINK1, C_INS_SHRINK2, C_REM_GROW1, C_REM_GROW2, C_HDR_FIXUP, C_RETOKEN_BIG, C_DUP_OK,
       C_BROKEN_STATE };

struct ctxinfo { /* for messages */
  const char *bfs;
  char hist[200];
  char descr[360];
};

static void failx(const struct ctxinfo *ci, const char *cls, const char *what, const char *fmt, ...)
    __attribute__((format(printf, 4, 5)));
static void
failx(const struct ctxinfo *ci, const char *cls, const char *what, const char *fmt, ...) {
  char sig[200], m[240];
  va_list ap;
  va_start(ap, fmt);
  vsnprintf(m, sizeof m, fmt, ap);
  va_end(ap);
  snprintf(sig, sizeof sig, "%s:%s", cls, what);
  vx_fail(sig, "hist=%s %s => %s [%s]", ci->hist, ci->descr, m, ci->bfs);
}

/* everything that must hold in a state, whatever edit led to it; returns 0 after reporting */
static int
check_state(const struct ctxinfo *ci, const char *cls, struct state *st, int refused) {
  coap_pdu_t *pdu = st->pdu;
  rm_msg_t *m = &st->m;
  int oi, fewer;
  const char *d;
  if (refused && (d = cmp_pdu(pdu, m, 1, &oi, &fewer))) {
    failx(ci, cls, "refused-but-changed", "edit returned 0 but the accessor dump changed at %s (option index %d)", d, oi);
    return 0;
  }
  /* internal fields, as coap_pdu_internal.h defines them ("options start at token + e_token_length", "payload
   * starts at data", "max_opt highest option number") -- first, so that one root cause has one signature and the
   * accessor dump below never walks a PDU whose offsets are already known to be wrong */
  {
    const char *bad = NULL;
    char detail[160] = "";
    size_t etl = rm_tok_wire_len(m->tok_len), body = rm_body_len(m);
    if (pdu->e_token_length != etl) {
      bad = "internal-e_token_length";
      snprintf(detail, sizeof detail, "e_token_length=%u, token of %zu bytes occupies %zu", pdu->e_token_length, m->tok_len, etl);
    } else if (pdu->used_size != body) {
      bad = "internal-used_size";
      snprintf(detail, sizeof detail, "used_size=%zu, message body is %zu", pdu->used_size, body);
    } else if (pdu->actual_token.length != m->tok_len || (m->tok_len && pdu->actual_token.s != pdu->token + etl - m->tok_len)) {
      bad = "internal-actual_token";
      snprintf(detail, sizeof detail, "actual_token.length=%zu, token is %zu", pdu->actual_token.length, m->tok_len);
    } else if (m->pay_len ? pdu->data != pdu->token + body - m->pay_len : pdu->data != NULL) {
      bad = "internal-data";
      snprintf(detail, sizeof detail, "data offset %ld, expected %ld", pdu->data ? (long)(pdu->data - pdu->token) : -1L,
               m->pay_len ? (long)(body - m->pay_len) : -1L);
    } else if (pdu->max_opt != rm_last_num(m)) {
      bad = "internal-max_opt";
      snprintf(detail, sizeof detail, "max_opt=%u, highest option number is %u", pdu->max_opt, rm_last_num(m));
    } else if (pdu->used_size > pdu->alloc_size) {
      bad = "internal-alloc_size";
      snprintf(detail, sizeof detail, "used_size=%zu > alloc_size=%zu", pdu->used_size, pdu->alloc_size);
    } else if (pdu->max_size && pdu->used_size > pdu->max_size) {
      bad = "internal-max_size";
      snprintf(detail, sizeof detail, "used_size=%zu > max_size=%zu", pdu->used_size, pdu->max_size);
    }
    if (bad) {
      /* what an observer sees, when it is safe to look (offsets inside the buffer) */
      const char *seen = "not examined";
      if (pdu->e_token_length <= pdu->used_size && pdu->used_size <= pdu->alloc_size &&
          (!pdu->data || (pdu->data > pdu->token && pdu->data <= pdu->token + pdu->used_size)) &&
          (pdu->actual_token.length == 0 ||
           (pdu->actual_token.s >= pdu->token && pdu->actual_token.s + pdu->actual_token.length <= pdu->token + pdu->used_size))) {
        d = cmp_pdu(pdu, m, 1, &oi, &fewer);
        seen = d ? coarse(d, fewer) : "accessor dump still equal";
      }
      failx(ci, cls, bad, "%s; observable now: %s (model: token %zu, %d options, payload %zu)", detail, seen, m->tok_len, m->nopts,
            m->pay_len);
      return 0;
    }
  }
  d = cmp_pdu(pdu, m, 1, &oi, &fewer);
  if (d) {
    failx(ci, cls, coarse(d, fewer), "accessor dump != model: first difference %s (option index %d; model has %d options, token %zu, payload %zu)",
          d, oi, m->nopts, m->tok_len, m->pay_len);
    return 0;
  }
  /* serialise as coap_send does: header in front of token, hdr_size + used_size bytes */
  coap_proto_t proto = st->fam ? COAP_PROTO_TCP : COAP_PROTO_UDP;
  enum rm_framing f = st->fam ? RM_TCP : RM_UDP;
  size_t hs = coap_pdu_encode_header(pdu, proto);
  size_t rl = rm_wire_len(m, f);
  uint8_t *ref = malloc(rl);
  rm_encode(m, f, ref, rl);
  const uint8_t *wire = pdu->token - pdu->hdr_size;
  size_t wl = (size_t)pdu->hdr_size + pdu->used_size;
  size_t n = wl < rl ? wl : rl, k = 0;
  while (k < n && wire[k] == ref[k])
    k++;
  if (hs == 0 || k < n || wl != rl) {
    char what[80], hx[2 * 20 + 1], hr[2 * 20 + 1];
    int oix;
    size_t from = k > 4 ? k - 4 : 0;
    snprintf(what, sizeof what, "wire-%s", hs == 0 ? "encode_header-failed" : k < n ? rm_locate(m, f, k, &oix) : "length");
    vx_hex(hx, sizeof hx, wire + from, wl - from > 20 ? 20 : wl - from);
    vx_hex(hr, sizeof hr, ref + from, rl - from > 20 ? 20 : rl - from);
    failx(ci, cls, what, "re-serialised bytes differ from the reference encoding at offset %zu: libcoap(%zu) ..%s reference(%zu) ..%s", k,
          wl, hx, rl, hr);
    free(ref);
    return 0;
  }
  free(ref);
  uint8_t *copy = heapdup(wire, wl);
  rm_msg_t dec;
  const char *why = NULL;
  if (!rm_decode(f, copy, wl, &dec, &why)) {
    failx(ci, cls, "wire-not-wellformed", "reference decoder rejects the re-serialised bytes: %s", why);
    free(copy);
    return 0;
  }
  d = rm_diff(&dec, m, !st->fam, &oi);
  rm_clear(&dec);
  if (d) {
    char what[80];
    snprintf(what, sizeof what, "refdecode-%s", d);
    failx(ci, cls, what, "reference decoding of the re-serialised bytes differs from the model at %s (option %d)", d, oi);
    free(copy);
    return 0;
  }
  int legal = 1;
  for (int i = 0; i < m->nopts; i++)
    if (!rm_opt_len_legal(m->code, m->opt[i].num, m->opt[i].len))
      legal = 0;
  if (legal) {
    coap_pdu_t *back = coap_pdu_init(0, 0, 0, wl);
    int r = back && coap_pdu_parse(proto, copy, wl, back);
    if (!r) {
      failx(ci, cls, "reparse-rejected", "coap_pdu_parse refuses the re-serialised bytes although all option lengths are inside their RFC range");
    } else if ((d = cmp_pdu(back, m, !st->fam, &oi, &fewer))) {
      char what[80];
      snprintf(what, sizeof what, "reparse-%s", d);
      failx(ci, cls, what, "re-parsed PDU differs from the model at %s (option %d)", d, oi);
      r = 0;
    }
    coap_delete_pdu(back);
    vxp_count(C_REPARSED, 1);
    if (!r) {
      free(copy);
      return 0;
    }
  }
  free(copy);
  return 1;
}

static const char *
tok_class(uint32_t len) {
  return len <= 254 ? "len<=254" : "len>=255";
}

/* Applies one edit to the real PDU and to the model.  check: run the oracle (only for the last edit of a history).
 * Returns 1 = applied (accepted or legitimately refused), 0 = edit not enabled in this state, -1 = oracle failure. */
#define CNT(c, n)                                                                                                     \
  do {                                                                                                                 \
    if (check)                                                                                                         \
      vxp_count((c), (n));                                                                                             \
  } while (0)
static int
apply_edit(const struct ctxinfo *ci, struct state *st, const struct edit *e, int cap_opts, int check) {
  coap_pdu_t *pdu = st->pdu;
  rm_msg_t *m = &st->m;
  static uint8_t vbuf[512];
  char cls[96];
  int refused = 0;
  const uint8_t *buf0 = pdu->token;
  size_t maxsz = pdu->max_size;
  switch (e->kind) {
  case E_INSERT:
  case E_UPDATE: {
    int present = rm_find(m, e->num);
    int as_update = e->kind == E_UPDATE && present >= 0;
    if (!as_update && m->nopts >= cap_opts)
      return 0;
    /* value bytes: pure function of (edit, number of equal-numbered options present) so that instances differ */
    fill(vbuf, e->len, e->kind == E_INSERT ? 0x40u + 0x11u * (unsigned)rm_count(m, e->num) : 0xC3u);
    uint8_t *val = heapdup(vbuf, e->len);
    size_t ret = e->kind == E_INSERT ? coap_insert_option(pdu, (coap_option_num_t)e->num, e->len, val)
                                     : coap_update_option(pdu, (coap_option_num_t)e->num, e->len, val);
    free(val);
    if (check)
      vx_trace("  %s(%u, len=%u) -> %zu   [used_size=%zu alloc_size=%zu max_size=%zu]",
               e->kind == E_INSERT ? "coap_insert_option" : "coap_update_option", e->num, e->len, ret, pdu->used_size, pdu->alloc_size,
               pdu->max_size);
    if (as_update) {
      uint32_t oldlen = m->opt[present].len;
      snprintf(cls, sizeof cls, "update:len %s->%s", rm_class(oldlen), rm_class(e->len));
      size_t newbody = rm_body_len(m) - opt_size_in(m, present);
      uint32_t prev = present ? m->opt[present - 1].num : 0;
      newbody += rm_opt_wire_len(e->num - prev, e->len);
      if (ret) {
        rm_update(m, e->num, vbuf, e->len);
        if (check && !fits(maxsz, newbody)) {
          failx(ci, cls, "accepted-beyond-max_size", "result %zu bytes > max_size %zu", newbody, maxsz);
          return -1;
        }
      } else {
        refused = 1;
        if (check && (newbody <= rm_body_len(m) || fits(maxsz, newbody))) {
          failx(ci, cls, "refused-unexplained", "coap_update_option returned 0: option present, result %zu bytes fits max_size %zu", newbody,
                maxsz);
          return -1;
        }
        CNT(C_REFUSED_SPACE, 1);
      }
    } else {
      int pos = 0;
      while (pos < m->nopts && m->opt[pos].num <= e->num)
        pos++;
      uint32_t prev = pos ? m->opt[pos - 1].num : 0;
      if (pos < m->nopts) {
        uint32_t od = m->opt[pos].num - prev, nd = m->opt[pos].num - e->num;
        snprintf(cls, sizeof cls, "insert:next-delta %s->%s", rm_class(od), rm_class(nd));
        size_t sh = rm_opt_hdr_len(od, 0) - rm_opt_hdr_len(nd, 0);
        if (sh)
          CNT(sh == 1 ? C_INS_SHRINK1 : C_INS_SHRINK2, 1);
      } else
        snprintf(cls, sizeof cls, "insert:at-end");
      size_t c, t = size_after_insert(m, e->num, e->len, &c);
      int rep = present >= 0 && rm_opt_repeatable(e->num) == 0;
      if (ret) {
        int p = rm_insert(m, e->num, vbuf, e->len);
        if (check && !fits(maxsz, t)) {
          failx(ci, cls, "accepted-beyond-max_size", "result %zu bytes > max_size %zu", t, maxsz);
          return -1;
        }
        if (check && e->kind == E_INSERT && ret != opt_size_in(m, p)) {
          failx(ci, cls, "return-value", "coap_insert_option returned %zu, the option occupies %zu bytes", ret, opt_size_in(m, p));
          return -1;
        }
      } else {
        refused = 1;
        if (check && !rep && fits(maxsz, c)) {
          failx(ci, cls, "refused-unexplained",
                "%s returned 0: no non-repeatable instance present and body %zu + option fits max_size %zu",
                e->kind == E_INSERT ? "coap_insert_option" : "coap_update_option", rm_body_len(m), maxsz);
          return -1;
        }
        CNT(rep ? C_REFUSED_REPEAT : C_REFUSED_SPACE, 1);
      }
    }
    break;
  }
  case E_REMOVE: {
    int present = rm_find(m, e->num);
    if (present >= 0 && present + 1 < m->nopts) {
      uint32_t prev = present ? m->opt[present - 1].num : 0;
      uint32_t od = m->opt[present + 1].num - m->opt[present].num, nd = m->opt[present + 1].num - prev;
      snprintf(cls, sizeof cls, "remove:next-delta %s->%s", rm_class(od), rm_class(nd));
      size_t gr = rm_opt_hdr_len(nd, 0) - rm_opt_hdr_len(od, 0);
      if (gr)
        CNT(gr == 1 ? C_REM_GROW1 : C_REM_GROW2, 1);
    } else
      snprintf(cls, sizeof cls, present >= 0 ? "remove:last" : "remove:absent");
    int ret = coap_remove_option(pdu, (coap_option_num_t)e->num);
    if (check)
      vx_trace("  coap_remove_option(%u) -> %d   [used_size=%zu]", e->num, ret, pdu->used_size);
    if (ret) {
      if (present < 0) {
        if (check)
          failx(ci, cls, "accepted-absent", "coap_remove_option(%u) returned 1 but the model has no such option", e->num);
        return -1;
      }
      rm_remove(m, e->num);
    } else {
      refused = 1;
      if (present >= 0) {
        if (check)
          failx(ci, cls, "refused-unexplained", "coap_remove_option(%u) returned 0 although the option is present", e->num);
        return -1;
      }
      CNT(C_REFUSED_ABSENT, 1);
    }
    break;
  }
  case E_RETOKEN: {
    snprintf(cls, sizeof cls, "retoken:%s", tok_class(e->len));
    fill(vbuf, e->len, 0x11u * e->len + 1u);
    uint8_t *val = heapdup(vbuf, e->len);
    size_t olde = rm_tok_wire_len(m->tok_len), newe = rm_tok_wire_len(e->len);
    size_t newbody = rm_body_len(m) - olde + newe;
    if (olde != newe && pdu->hdr_size && pdu->session)
      CNT(C_HDR_FIXUP, 1); /* coap_update_token re-encodes the header itself on this path */
    int ret = coap_update_token(pdu, e->len, val);
    free(val);
    if (check)
      vx_trace("  coap_update_token(len=%u) -> %d   [e_token_length=%u used_size=%zu alloc_size=%zu max_size=%zu]", e->len, ret,
               pdu->e_token_length, pdu->used_size, pdu->alloc_size, pdu->max_size);
    if (e->len >= 255)
      CNT(C_RETOKEN_BIG, 1);
    if (ret) {
      rm_set_token(m, vbuf, e->len);
      if (check && !fits(maxsz, newbody)) {
        failx(ci, cls, "accepted-beyond-max_size", "result %zu bytes > max_size %zu", newbody, maxsz);
        return -1;
      }
    } else {
      refused = 1;
      if (check && (newe <= olde || fits(maxsz, newbody))) {
        failx(ci, cls, "refused-unexplained", "coap_update_token(%u) returned 0: result %zu bytes fits max_size %zu", e->len, newbody, maxsz);
        return -1;
      }
      CNT(C_REFUSED_SPACE, 1);
    }
    break;
  }
  case E_DUP: {
    snprintf(cls, sizeof cls, "duplicate:%s", DUP_NAME[e->variant]);
    coap_opt_filter_t flt;
    coap_option_filter_clear(&flt);
    if (e->variant == 2)
      coap_option_filter_set(&flt, 11);
    if (e->variant == 3) {
      coap_option_filter_set(&flt, 1);
      coap_option_filter_set(&flt, 282);
      coap_option_filter_set(&flt, 65000);
    }
    coap_session_t *se = g_sess[st->fam];
    se->tx_mid = 0x00FF;
    /* variants 0/1 keep the token, 2/3 give the copy a new 5-byte token */
    size_t tl = e->variant >= 2 ? 5 : m->tok_len;
    if (e->variant >= 2)
      fill(vbuf, 5, 0x77);
    else if (tl)
      memcpy(vbuf, m->tok, tl);
    uint8_t *tk = heapdup(vbuf, tl);
    coap_pdu_t *np = coap_pdu_duplicate_lkd(pdu, se, tl, tk, e->variant == 0 ? NULL : &flt);
    free(tk);
    if (check)
      vx_trace("  coap_pdu_duplicate_lkd(token len=%zu, %s) -> %s", tl, DUP_NAME[e->variant], np ? "new PDU" : "NULL");
    rm_msg_t nm;
    rm_init(&nm, m->type, m->code, st->fam ? 0 : 0x0100);
    rm_set_token(&nm, vbuf, tl);
    for (int i = 0; i < m->nopts; i++) {
      uint32_t n = m->opt[i].num;
      int drop = (e->variant == 2 && n == 11) || (e->variant == 3 && (n == 1 || n == 282 || n == 65000));
      if (!drop)
        rm_insert(&nm, n, m->opt[i].val, m->opt[i].len);
    }
    size_t newmax = pdu->max_size > g_sess_max[st->fam] ? pdu->max_size : g_sess_max[st->fam];
    if (np) {
      coap_delete_pdu(pdu);
      st->pdu = pdu = np;
      rm_clear(m);
      *m = nm;
      maxsz = newmax;
      CNT(C_DUP_OK, 1);
      if (check && !fits(newmax, rm_body_len(m))) {
        failx(ci, cls, "accepted-beyond-max_size", "copy of %zu bytes > max_size %zu", rm_body_len(m), newmax);
        return -1;
      }
    } else {
      refused = 1;
      /* the filtered copy is rebuilt with coap_add_option_internal, which refuses a second adjacent instance of a
       * non-repeatable option (coap_insert_option let it in); the unfiltered copy is a memcpy */
      int expl = !fits(newmax, rm_body_len(&nm));
      if (e->variant != 0)
        for (int i = 1; i < nm.nopts; i++)
          if (nm.opt[i].num == nm.opt[i - 1].num && rm_opt_repeatable(nm.opt[i].num) == 0)
            expl = 1;
      size_t nb = rm_body_len(&nm);
      rm_clear(&nm);
      if (check && !expl) {
        failx(ci, cls, "refused-unexplained", "coap_pdu_duplicate_lkd returned NULL: copy of %zu bytes fits max_size %zu", nb, newmax);
        return -1;
      }
      CNT(C_REFUSED_SPACE, 1);
    }
    buf0 = pdu->token;
    break;
  }
  default: { /* E_ADDDATA */
    if (m->pay_len)
      return 0;
    snprintf(cls, sizeof cls, "add_data:len %s", rm_class(e->len));
    fill(vbuf, e->len, 0xFFu);
    uint8_t *val = heapdup(vbuf, e->len);
    int ret = coap_add_data(pdu, e->len, val);
    free(val);
    if (check)
      vx_trace("  coap_add_data(len=%u) -> %d", e->len, ret);
    size_t newbody = rm_body_len(m) + 1 + e->len;
    if (ret) {
      rm_set_payload(m, vbuf, e->len);
      if (check && !fits(maxsz, newbody)) {
        failx(ci, cls, "accepted-beyond-max_size", "result %zu bytes > max_size %zu", newbody, maxsz);
        return -1;
      }
    } else {
      refused = 1;
      if (check && fits(maxsz, newbody)) {
        failx(ci, cls, "refused-unexplained", "coap_add_data(%u) returned 0: result %zu bytes fits max_size %zu", e->len, newbody, maxsz);
        return -1;
      }
      CNT(C_REFUSED_SPACE, 1);
    }
  }
  }
  st->hdr_encoded = st->pdu->hdr_size != 0;
  if (!check)
    return 1;
  CNT(C_TRANS, 1);
  if (!refused)
    CNT(C_ACCEPTED, 1);
  if (st->pdu->token != buf0)
    CNT(C_REALLOC, 1);
  return check_state(ci, cls, st, refused) ? 1 : -1;
}

#undef CNT

/* ------------------------------------------------------------------------------------------ */
/* canonical state                                                                             */
static void
canon_hash(const struct state *st, uint64_t *h1, uint64_t *h2) {
  const rm_msg_t *m = &st->m;
  const coap_pdu_t *p = st->pdu;
  uint64_t a = VX_FNV0, b = 0x9AE16A3B2F90404FULL;
#define MIX(ptr, n)                                                                                                    \
  do {                                                                                                                 \
    a = vx_fnv((ptr), (n), a);                                                                                         \
    b = vx_fnv((ptr), (n), b ^ 0x5bd1e995u);                                                                           \
  } while (0)
  uint64_t hd[8] = {(uint64_t)st->fam, (uint64_t)st->hdr_encoded, p->session != NULL, m->type, m->code, m->mid, p->alloc_size, p->max_size};
  MIX(hd, sizeof hd);
  uint64_t l = m->tok_len;
  MIX(&l, sizeof l);
  if (m->tok_len)
    MIX(m->tok, m->tok_len);
  l = (uint64_t)m->nopts;
  MIX(&l, sizeof l);
  for (int i = 0; i < m->nopts; i++) {
    uint64_t nl[2] = {m->opt[i].num, m->opt[i].len};
    MIX(nl, sizeof nl);
    if (m->opt[i].len)
      MIX(m->opt[i].val, m->opt[i].len);
  }
  l = m->pay_len;
  MIX(&l, sizeof l);
  if (m->pay_len)
    MIX(m->pay, m->pay_len);
#undef MIX
  *h1 = a ? a : 1;
  *h2 = b ? b : 1;
}

struct ent {
  volatile uint64_t h1, h2, w;
};
struct shared {
  volatile uint64_t nlog, nstates, overflow, count_saturated;
  uint64_t cap, logcap;
};
static struct shared *g_sh;
static struct ent *g_tab;
static volatile uint32_t *g_log;

static void
shared_alloc(uint64_t cap, uint64_t logcap) {
  size_t sz = sizeof(struct shared) + cap * sizeof(struct ent) + logcap * sizeof(uint32_t);
  void *p = mmap(NULL, sz, PROT_READ | PROT_WRITE, MAP_SHARED | MAP_ANONYMOUS | MAP_NORESERVE, -1, 0);
  if (p == MAP_FAILED) {
    perror("mmap");
    exit(2);
  }
  g_sh = p;
  g_tab = (struct ent *)(g_sh + 1);
  g_log = (volatile uint32_t *)(g_tab + cap);
  g_sh->cap = cap;
  g_sh->logcap = logcap;
}
static void
shared_reset(void) {
  size_t sz = sizeof(struct shared) + g_sh->cap * sizeof(struct ent) + g_sh->logcap * sizeof(uint32_t);
  uint64_t cap = g_sh->cap, logcap = g_sh->logcap;
  madvise(g_sh, sz, MADV_REMOVE); /* drop the pages: everything reads as zero again */
  memset((void *)g_sh, 0, sizeof *g_sh);
  g_sh->cap = cap;
  g_sh->logcap = logcap;
}

/* returns 1 if (h1,h2) was not known before this call */
static int
visit(uint64_t h1, uint64_t h2, int level, uint64_t idx, int final_level) {
  uint64_t mask = g_sh->cap - 1;
  uint64_t j = (h1 * 0x9E3779B97F4A7C15ULL) >> 20 & mask;
  uint64_t w = ((uint64_t)(level + 1) << 56) | (idx + 1);
  for (uint64_t probe = 0; probe < g_sh->cap; probe++, j = (j + 1) & mask) {
    struct ent *e = &g_tab[j];
    uint64_t cur = e->h1;
    int mine = 0;
    if (cur == 0) {
      if (g_sh->nstates * 2 > g_sh->cap || g_sh->nlog >= g_sh->logcap) {
        /* states of the last level are not expanded, they are only counted: a full table then only saturates the count */
        if (final_level)
          g_sh->count_saturated = 1;
        else
          g_sh->overflow = 1;
        return 0;
      }
      if (__sync_bool_compare_and_swap(&e->h1, 0, h1)) {
        e->h2 = h2;
        __sync_synchronize();
        mine = 1;
        cur = h1;
      } else
        cur = e->h1;
    }
    if (cur != h1)
      continue;
    if (!mine) {
      for (long spin = 0; e->h2 == 0 && spin < 100000000L; spin++)
        ;
      if (e->h2 != h2)
        continue; /* 64-bit collision on h1: a different state, keep probing */
    }
    /* w := min(w) over everyone who reaches this state; an earlier level always wins */
    for (;;) {
      uint64_t old = e->w;
      if (old != 0 && old <= w)
        break;
      if (__sync_bool_compare_and_swap(&e->w, old, w))
        break;
    }
    if (mine) {
      uint64_t k = __sync_fetch_and_add(&g_sh->nlog, 1);
      if (k < g_sh->logcap)
        g_log[k] = (uint32_t)j;
      __sync_fetch_and_add(&g_sh->nstates, 1);
    }
    return mine;
  }
  g_sh->overflow = 1;
  return 0;
}

/* ------------------------------------------------------------------------------------------ */
/* BFS                                                                                         */
#define MAXD 48
struct hist {
  uint8_t init, n;
  uint8_t e[MAXD];
};
struct bfs {
  const char *name;
  const struct alphabet *alpha;
  const struct initset *inits;
  int depth; /* maximum history length */
  int cap_opts;
  /* per level */
  int level;
  const struct hist *front;
  uint64_t nfront;
  char space[64];
};

static void
hist_str(const struct bfs *b, const struct hist *h, const struct edit *last, char *hs, size_t hn, char *ds, size_t dn) {
  const struct init *in = &b->inits->s[h->init];
  size_t o = (size_t)snprintf(hs, hn, "I%u", h->init);
  size_t q = (size_t)snprintf(ds, dn, "init{%s, options %s, %s, %s}", KIND_NAME[in->kind], OPTSET_NAME[in->optset],
                              in->pay ? "payload 7" : "no payload", SIZE_NAME[in->size]);
  for (int i = 0; i <= h->n; i++) {
    const struct edit *e = i < h->n ? &b->alpha->e[h->e[i]] : last;
    if (!e)
      break;
    char es[64];
    edit_str(e, es, sizeof es);
    if (i < h->n && o < hn)
      o += (size_t)snprintf(hs + o, hn - o, "%c%u", i ? ',' : ':', h->e[i]);
    if (q < dn)
      q += (size_t)snprintf(ds + q, dn - q, " . %s", es);
  }
}

static void
bfs_case(uint64_t idx, void *arg) {
  const struct bfs *b = arg;
  uint64_t fi = idx / (uint64_t)b->alpha->n;
  int ei = (int)(idx % (uint64_t)b->alpha->n);
  const struct hist *h = &b->front[fi];
  const struct edit *e = &b->alpha->e[ei];
  struct ctxinfo ci;
  ci.bfs = b->space;
  hist_str(b, h, e, ci.hist, sizeof ci.hist, ci.descr, sizeof ci.descr);
  {
    size_t o = strlen(ci.hist);
    snprintf(ci.hist + o, sizeof ci.hist - o, "%c%d", h->n ? ',' : ':', ei);
  }
  struct state st;
  memset(&st, 0, sizeof st);
  if (!init_state(&b->inits->s[h->init], &st)) {
    vx_fail("harness:init-state", "cannot build initial state %u", h->init);
    if (st.pdu)
      free_state(&st);
    return;
  }
  for (int i = 0; i < h->n; i++)
    if (apply_edit(&ci, &st, &b->alpha->e[h->e[i]], b->cap_opts, 0) != 1) {
      vx_fail("harness:replay-diverged", "history %s does not replay (step %d)", ci.hist, i);
      free_state(&st);
      return;
    }
  if (vx_in_replay()) {
    vx_trace("state before the edit: token %zu bytes, %d options, payload %zu; alloc_size=%zu max_size=%zu used_size=%zu hdr_size=%u",
             st.m.tok_len, st.m.nopts, st.m.pay_len, st.pdu->alloc_size, st.pdu->max_size, st.pdu->used_size, st.pdu->hdr_size);
    vx_trace("history: %s", ci.descr);
  }
  int r = apply_edit(&ci, &st, e, b->cap_opts, 1);
  if (r == 0)
    vxp_count(C_DISABLED, 1);
  else if (r < 0)
    vxp_count(C_BROKEN_STATE, 1);
  else {
    uint64_t h1, h2;
    canon_hash(&st, &h1, &h2);
    if (visit(h1, h2, b->level, idx, b->level == b->depth))
      vxp_count(C_NEWSTATE, 1);
    if (idx % 50021 == 0 && b->level >= 2)
      vxp_sample("%s -> token %zu, %d options, payload %zu, used_size=%zu alloc_size=%zu max_size=%zu: dump, internal fields, "
                 "re-serialisation, reference decoding%s all equal the model",
                 ci.descr, st.m.tok_len, st.m.nopts, st.m.pay_len, st.pdu->used_size, st.pdu->alloc_size, st.pdu->max_size, "");

  }
  free_state(&st);
}

static int
cmp_u64(const void *a, const void *b) {
  uint64_t x = *(const uint64_t *)a, y = *(const uint64_t *)b;
  return x < y ? -1 : x > y;
}

struct bfs_result {
  uint64_t states, transitions_offered;
  int levels_done, fixpoint, complete;
};

static char g_replay_space[128]; /* "scenario" named by the --replay file, if any */

static void
read_replay_space(void) {
  const char *p = vx_replay_path();
  if (!p)
    return;
  FILE *f = fopen(p, "r");
  if (!f)
    return;
  static char doc[8192];
  size_t n = fread(doc, 1, sizeof doc - 1, f);
  fclose(f);
  doc[n] = 0;
  const char *q = strstr(doc, "\"scenario\": \"");
  if (!q)
    return;
  q += 13;
  size_t o = 0;
  while (*q && *q != '"' && o + 1 < sizeof g_replay_space)
    g_replay_space[o++] = *q++;
  g_replay_space[o] = 0;
}

static void
run_bfs(struct bfs *b, struct bfs_result *res) {
  memset(res, 0, sizeof *res);
  if (vx_replay_path() && (strncmp(g_replay_space, b->name, strlen(b->name)) || g_replay_space[strlen(b->name)] != '-'))
    return; /* replaying a case of another search */
  shared_reset();
  /* level 0: the initial states */
  struct hist *front = calloc((size_t)b->inits->n, sizeof *front);
  uint64_t nfront = 0;
  for (int i = 0; i < b->inits->n; i++) {
    struct state st;
    memset(&st, 0, sizeof st);
    if (!init_state(&b->inits->s[i], &st)) {
      fprintf(stderr, "cannot build initial state %d of %s\n", i, b->name);
      exit(2);
    }
    uint64_t h1, h2;
    canon_hash(&st, &h1, &h2);
    if (visit(h1, h2, 0, (uint64_t)i, 0)) {
      front[nfront].init = (uint8_t)i;
      front[nfront].n = 0;
      nfront++;
    }
    free_state(&st);
  }
  res->states = nfront;
  res->complete = 1;
  for (int level = 1; level <= b->depth; level++) {
    b->level = level;
    b->front = front;
    b->nfront = nfront;
    snprintf(b->space, sizeof b->space, "%s-L%d", b->name, level);
    if (vx_replay_path() && !strcmp(g_replay_space, b->space)) {
      /* the levels below were re-enumerated to rebuild this frontier; forget what they reported */
      struct vxp_config z = {.space = "replay-reset", .total = 0};
      struct vxp_stats zs;
      vxp_enumerate(&z, bfs_case, b, &zs);
      if (vxp_replay_if_match(b->space, bfs_case, b))
        exit(0);
    }
    g_sh->nlog = 0;
    uint64_t total = nfront * (uint64_t)b->alpha->n;
    if (total == 0) {
      res->fixpoint = 1;
      break;
    }
    if (vx_time_left() < 2) {
      char cap[200];
      snprintf(cap, sizeof cap, "%s: out of time before level %d (%llu states to expand)", b->name, level, (unsigned long long)nfront);
      vx_ev_not_exhaustive(cap);
      res->complete = 0;
      break;
    }
    struct vxp_config c = {.space = b->space, .total = total};
    struct vxp_stats stt;
    vxp_enumerate(&c, bfs_case, b, &stt);
    res->transitions_offered += stt.done;
    if (!stt.exhaustive) {
      res->complete = 0;
      break;
    }
    res->levels_done = level;
    if (g_sh->overflow) {
      char cap[200];
      snprintf(cap, sizeof cap, "%s: state table full at level %d (%llu states)", b->name, level, (unsigned long long)g_sh->nstates);
      vx_ev_not_exhaustive(cap);
      res->complete = 0;
      break;
    }
    /* next frontier: states first reached at this level, ordered by their lowest index */
    uint64_t nn = g_sh->nlog;
    uint64_t *ix = malloc((size_t)(nn ? nn : 1) * sizeof *ix);
    uint64_t k = 0;
    for (uint64_t i = 0; i < nn; i++) {
      uint64_t w = g_tab[g_log[i]].w;
      if ((int)(w >> 56) == level + 1)
        ix[k++] = (w & 0x00FFFFFFFFFFFFFFULL) - 1;
    }
    qsort(ix, (size_t)k, sizeof *ix, cmp_u64);
    res->states += k;
    struct hist *next = NULL;
    if (level < b->depth) {
      next = calloc((size_t)(k ? k : 1), sizeof *next);
      for (uint64_t i = 0; i < k; i++) {
        next[i] = front[ix[i] / (uint64_t)b->alpha->n];
        next[i].e[next[i].n++] = (uint8_t)(ix[i] % (uint64_t)b->alpha->n);
      }
    }
    free(ix);
    free(front);
    front = next;
    nfront = k;
    if (k == 0) {
      res->fixpoint = 1;
      break;
    }
  }
  free(front);
  char key[80], val[200];
  snprintf(key, sizeof key, "bfs.%s", b->name);
  snprintf(val, sizeof val, "inits=%d edits=%d option-cap=%d depth-bound=%d levels-completed=%d states%s%llu fixpoint=%d complete=%d",
           b->inits->n, b->alpha->n, b->cap_opts, b->depth, res->levels_done, g_sh->count_saturated ? ">=" : "=",
           (unsigned long long)res->states, res->fixpoint, res->complete);
  vx_ev_str(key, val);
}

static void
mk_inits(struct initset *is, const int *kinds, int nk, const int *optsets, int no, const int *sizes, int nsz) {
  is->n = 0;
  for (int k = 0; k < nk; k++)
    for (int p = 0; p < 2; p++)
      for (int o = 0; o < no; o++)
        for (int s = 0; s < nsz; s++)
          is->s[is->n++] = (struct init){(uint8_t)kinds[k], (uint8_t)p, (uint8_t)optsets[o], (uint8_t)sizes[s]};
}

int
main(int argc, char **argv) {
  vx_main_init(argc, argv, "C04");
  ns_init();
  coap_set_log_level(COAP_LOG_EMERG);
  g_ctx = coap_new_context(NULL);
  if (!g_ctx)
    return 2;
  ns_register_ctx(g_ctx);
  coap_address_t dst;
  ns_addr(&dst, 2, 5683);
  g_sess[0] = coap_new_client_session(g_ctx, NULL, &dst, COAP_PROTO_UDP);
  g_sess[1] = coap_new_client_session(g_ctx, NULL, &dst, COAP_PROTO_TCP);
  if (!g_sess[0] || !g_sess[1]) {
    fprintf(stderr, "cannot create sessions\n");
    return 2;
  }
  for (int i = 0; i < 2; i++)
    g_sess_max[i] = coap_session_max_pdu_size_lkd(g_sess[i]);

  int T = vx_is_thorough();
  int fast_stage = 0;
#ifdef C04_FAST
  fast_stage = 1;
#endif
  if (fast_stage && !T && !vx_replay_path()) {
    vx_ev_rule("fast stage runs in the thorough tier only");
    return vx_finish();
  }
  static struct alphabet A_full, A_b, A_c;
  mk_alphabet(&A_full, NUM_FULL, 16, LEN_FULL, 6, TOK_FULL, 13, NDUP, DATA_FULL, 2);
  mk_alphabet(&A_b, NUM_B, 6, LEN_B, 2, TOK_B, 5, 2, DATA_B, 1);
  mk_alphabet(&A_c, NUM_C, 3, LEN_C, 2, TOK_C, 3, 0, DATA_C, 1);
  static struct initset I_all, I_b, I_c;
  {
    const int k4[] = {K_BUILT, K_BUILT_SENT_TCP, K_PARSED_UDP, K_PARSED_TCP}, o4[] = {0, 1, 2, 3}, s4[] = {0, 1, 2, 3};
    mk_inits(&I_all, k4, 4, o4, 4, s4, 4);
    const int ob[] = {0, 3}, sb[] = {0, 2};
    mk_inits(&I_b, k4, 4, ob, 2, sb, 2);
    const int kc[] = {K_BUILT, K_PARSED_TCP}, oc[] = {0, 3}, sc[] = {0, 2};
    mk_inits(&I_c, kc, 2, oc, 2, sc, 2);
  }
  shared_alloc(T ? 1ULL << 25 : 1ULL << 23, T ? 1ULL << 24 : 1ULL << 22);
  read_replay_space();

  struct bfs runs[4];
  int nr = 0;
  if (!fast_stage) {
    runs[nr++] = (struct bfs){.name = "A.full-alphabet", .alpha = &A_full, .inits = &I_all, .depth = 2, .cap_opts = 5};
    runs[nr++] = (struct bfs){.name = "B.reduced", .alpha = &A_b, .inits = &I_b, .depth = T ? 6 : 4, .cap_opts = 5};
    runs[nr++] = (struct bfs){.name = "C.tiny-to-fixpoint", .alpha = &A_c, .inits = &I_c, .depth = MAXD, .cap_opts = T ? 4 : 3};
  } else {
    runs[nr++] = (struct bfs){.name = "A3.full-alphabet", .alpha = &A_full, .inits = &I_all, .depth = 3, .cap_opts = 5};
  }
  uint64_t states = 0, offered = 0;
  for (int i = 0; i < nr; i++) {
    struct bfs_result r;
    run_bfs(&runs[i], &r);
    states += r.states;
    offered += r.transitions_offered;
  }
  if (vx_replay_path()) {
    fprintf(stderr, "replay file names no level of this stage\n");
    return 3;
  }
  uint64_t trans = vxp_counter(C_TRANS);
  vx_ev_add_states((long long)states, (long long)trans, (long long)trans);
  vx_ev_add_evals((long long)offered, (long long)states);
  vx_ev_rule("explicit-state BFS over edit histories of real coap_pdu_t objects, dedup on canonical state = (framing family, "
             "header-encoded?, session?, type, code, mid, token, ordered (number,value) list, payload, alloc_size, max_size); a "
             "transition = one enabled edit applied to one frontier state by replaying its history on a fresh PDU and checking "
             "the full oracle; distinct_nontrivial = distinct canonical states; edits not enabled in a state (option cap, "
             "add_data with payload present) are counted separately");
  vx_ev_assumption("realloc never fails (C18)");
  vx_ev_assumption("a refusal for lack of room may ignore the <=2 bytes the successor's header gives back on insertion");
  vx_ev_assumption("coap_update_option of an absent number is an insertion (what the code does; the header says 'existing')");
  vx_ev_assumption("sessions are real client sessions on the simulated network (netsim); nothing is sent");
  vx_ev_int("transitions_checked", (long long)trans);
  vx_ev_int("edits_not_enabled", (long long)vxp_counter(C_DISABLED));
  vx_ev_int("edits_accepted", (long long)vxp_counter(C_ACCEPTED));
  vx_ev_int("refused_no_room", (long long)vxp_counter(C_REFUSED_SPACE));
  vx_ev_int("refused_absent", (long long)vxp_counter(C_REFUSED_ABSENT));
  vx_ev_int("refused_non_repeatable", (long long)vxp_counter(C_REFUSED_REPEAT));
  vx_ev_int("buffer_moved_by_realloc", (long long)vxp_counter(C_REALLOC));
  vx_ev_int("reparsed_by_libcoap", (long long)vxp_counter(C_REPARSED));
  vx_ev_int("insert_successor_header_shrinks_1", (long long)vxp_counter(C_INS_SHRINK1));
  vx_ev_int("insert_successor_header_shrinks_2", (long long)vxp_counter(C_INS_SHRINK2));
  vx_ev_int("remove_successor_header_grows_1", (long long)vxp_counter(C_REM_GROW1));
  vx_ev_int("remove_successor_header_grows_2", (long long)vxp_counter(C_REM_GROW2));
  vx_ev_int("retoken_header_fixups_checked", (long long)vxp_counter(C_HDR_FIXUP));
  vx_ev_int("retoken_len_ge_255", (long long)vxp_counter(C_RETOKEN_BIG));
  vx_ev_int("duplicates_made", (long long)vxp_counter(C_DUP_OK));
  vx_ev_int("transitions_into_broken_state", (long long)vxp_counter(C_BROKEN_STATE));
  return vx_finish();
}
