/* C17 -- persisted observe state survives a crash at any point and is restored on restart.
 *
 * One vx execution = { "life 1" crash free (learns the tracked stdio calls and the content of the three persistence
 * files around every persistence call-out; kept per history in the scratch directory), life 1 again with a kill
 * before tracked call k, "life 2" = restart }, every life in its own forked process of the (libcoap-free) vx child.
 * Crash points are the stdio / rename / remove calls the persistence code makes on files of the execution's private
 * directory (ld --wrap, link-wide pass-through wrappers; only FILE*s whose fopen() path lies in that directory are
 * counted).  Only the calls of the LAST operation of a history are crash points of that history: a kill during an
 * earlier operation is the same execution as the kill in the shorter history that ends with that operation, and
 * every prefix of a history is itself an enumerated history.  Short histories additionally kill the restart itself
 * (before each tracked call of coap_persist_startup and right after it) and restart once more.
 *
 * Histories may CONTINUE after a restart: a marker between two operations (stop+restart: coap_persist_stop +
 * coap_free_context; kill+restart: the process dies between two operations) ends the server
 * process, and the following operations run in a fresh process after coap_persist_startup on the same files, i.e. on the
 * restored resources and observations.  All lives of a history fill one report (tracked calls, call-outs - the loader of
 * a later life is one more updater of the files, "startup" -, snapshots and Observe values are numbered through), the
 * reference model of acknowledged state is a function of the operations and carries across; the last operation has the
 * kill points and the final restart is judged as before.  Not enumerated: a kill inside an operation (or inside the
 * loader) that is followed by further operations.
 *
 * Oracle (reference = the acknowledged operations; the interrupted one may or may not have taken effect):
 *  (1) torn: / emptied: / mixed: <file>:<updater>@<call that was not made any more>
 *        each file after the kill, read by the independent parser below, equals the content before the interrupted
 *        call-out or the content the same call-out leaves when it is not interrupted;
 *      changed-outside-update:   nothing but the five call-outs (and the loader) touches the files;
 *  (2) lost-resource:<cause> / lost-observation:<static|dynamic>:<cause> / token-changed / stale-resource: /
 *      stale-observation: / resource-unreachable:
 *        restart restores exactly the acknowledged state; <cause> names where the record went:
 *        dropped-by:<updater> (a completed call-out removed it), never-written-by:<updater>,
 *        dropped-by-crash-in:<updater>, not-loaded (record is in the file, the loader did not restore it);
 *        a stale record that is still in the file names the call-out that had to take it out: still-in-file:kept-by:<updater>
 *        (e.g. observe_deleted of a restored observation), :re-added-by:<updater>, :no-call-out;
 *  (3) observe-not-greater:after-restart:<crash-free | crash-in:<updater of the counter file> | kill-in-restart | mid-history>
 *        first Observe value after restart is serial-greater (RFC 7641 3.4) than every value of that observation
 *        that was put on the wire before the kill, in any earlier life (mid-history: the same for the values sent
 *        after a restart inside the history);
 *  leak:<life1|restart>:<libcoap function>   LeakSanitizer at the end of a graceful life (coap_persist_stop +
 *        coap_free_context); any other sanitizer report / assert of a life process ends the execution abnormally
 *        with the report in the execution's stderr, where vx names it.
 *
 * Transports: the server listens on UDP and on TCP (same address, as coap-server does).  Every request operation carries
 * a transport flag: over UDP it comes from the raw datagram peers (ctl, p1, p2), over TCP from the raw RFC 8323 peer t
 * (one connection per server process: connect, CSM exchange, requests; the connection dies with the server process).  The
 * persistence files store the transport of the request next to the raw packet and the loader re-parses the packet with
 * that transport's framing: the independent reader below does the same (a record whose packet reads only with the other
 * framing is "mislabelled").  The generated histories are all-UDP; the explicit family "mixed-transport" (mixed_family())
 * creates resources / registers / cancels over both transports in every order.  Peer t may observe: libcoap does not
 * persist observations of stream sessions and the connection does not outlive the process, so the model says that t's
 * observations end with every server process and are NOT re-established (a subscriber entry for t after a restart is a
 * failure); what t's requests do to the records of the UDP observers is what these histories are about.
 *  mislabelled-proto:<file>:<updater>   a record's transport label does not fit the framing of its stored packet; names
 *        the call-out after which the record read like that for the first time;
 *  resource-unreachable:after-restart:over-tcp   mixed-transport histories: a fresh TCP connection after the restart GETs
 *        every dynamic resource that must exist.
 *
 * Knobs for experiments (not used by bin/check): C17_FULL_DEPTH (histories with kills), C17_FREE_DEPTH (kill free
 * histories), C17_LIVES3_DEPTH (kill in the restart), C17_DOUBLE_DEPTH (kill in life 1 and in the restart); for histories
 * with a mid-history restart (depth = operations, markers not counted): C17_RST_FULL_DEPTH, C17_RST_FREE_DEPTH,
 * C17_RST_LIVES3_DEPTH, C17_RST_KILL_DEPTH (kill+restart markers), C17_RST2_DEPTH (two markers; >= 3 to have any),
 * C17_RST2_KILL (two markers may be kill+restart); C17_NO_MIXED / C17_ONLY_MIXED (without / only the mixed-transport family).
 */
#ifndef _GNU_SOURCE
#define _GNU_SOURCE
#endif
#include "netsim.h"
#include "wire.h"
#include <dirent.h>
#include <errno.h>
#include <fcntl.h>
#include <signal.h>
#include <stdarg.h>
#include <sys/mman.h>
#include <sys/prctl.h>
#include <sys/stat.h>
#include <sys/wait.h>
#include <unistd.h>

extern int __lsan_do_recoverable_leak_check(void) __attribute__((weak));

/* ================================================================================================ */
/* scenario description                                                                             */
enum { OP_PUT, OP_DEL, OP_REG, OP_CAN, OP_CHG, OP_RST };
enum { R_S1, R_D1, R_D2, R_D3, NRES };
static const char *res_names[NRES] = {"s1", "d1", "d1x", "d2"}; /* the second dynamic name extends the first: records are told apart by the whole name */
enum { P_CTL, P_1, P_2, P_PROBE, P_T, NPEER }; /* P_T: the raw CoAP-over-TCP peer (control requests and observer over TCP) */
#define MAXOPS 8
struct op {
  uint8_t t, p, r;
  uint16_t c; /* OP_CHG: number of changes; OP_RST: 0 = graceful stop, 1 = kill between two operations */
  uint8_t x;  /* transport of the request (OP_PUT, OP_DEL, OP_REG, OP_CAN): 0 = UDP, 1 = TCP (then the requester is P_T) */
};
struct scn {
  char name[200];
  int f; /* save_freq */
  int nops;
  struct op ops[MAXOPS];
  int bound;
  int lives; /* 2: judge after one restart; 3: additionally a kill during the restart, judged by a second restart */
  int mixed; /* member of the explicit mixed-transport family (some operation arrives over TCP) */
};

static void
op_str(const struct op *o, char *b, size_t n) {
  const char *via = o->x ? "@tcp" : ""; /* (names of the all-UDP histories stay what they were) */
  char who[8];
  if (o->p == P_T)
    snprintf(who, sizeof who, "t");
  else
    snprintf(who, sizeof who, "p%d", o->p);
  switch (o->t) {
  case OP_PUT:
    snprintf(b, n, "put(%s)%s", res_names[o->r], via);
    break;
  case OP_DEL:
    snprintf(b, n, "del(%s)%s", res_names[o->r], via);
    break;
  case OP_REG:
    snprintf(b, n, "reg(%s,%s)%s", who, res_names[o->r], via);
    break;
  case OP_CAN:
    snprintf(b, n, "cancel(%s,%s)%s", who, res_names[o->r], via);
    break;
  case OP_RST:
    snprintf(b, n, "%s", o->c ? "kill+restart" : "stop+restart");
    break;
  default:
    snprintf(b, n, "chg(%s)x%d", res_names[o->r], o->c);
  }
}

/* ================================================================================================ */
/* report shared between the vx child and one life process                                          */
enum { K_FOPEN, K_FCLOSE, K_FREAD, K_FWRITE, K_FGETS, K_FPRINTF, K_FFLUSH, K_RENAME, K_REMOVE, K_FPUTS, K_FPUTC, K_UNLINK };
static const char *kind_names[] = {"fopen", "fclose", "fread", "fwrite", "fgets", "fprintf", "fflush", "rename", "remove", "fputs", "fputc", "unlink"};
enum { U_NONE, U_OBS_ADDED, U_OBS_DELETED, U_TRACK, U_DYN_ADDED, U_RES_DELETED, U_STARTUP };
static const char *upd_names[] = {"none", "observe_added", "observe_deleted", "track_observe", "dyn_resource_added", "resource_deleted", "startup"};
enum { F_DYN, F_OBS, F_CNT, NFILES };
static const char *file_names[NFILES] = {"dyn", "obs", "obs_cnt"};

#define MAXCALLS 6000
#define MAXUPD 160
#define MAXSENT 700
#define BLOBSZ (160 * 1024)
#define ABSENT 0xFFFFFFFFu
struct snap {
  uint32_t off[NFILES], len[NFILES];
};
struct upd {
  uint8_t type, done;
  int8_t res;  /* resource the call-out is about, -1 unknown */
  int8_t peer; /* observer the call-out is about, 0 unknown */
  int16_t op;
  int call_in, call_out;
  struct snap pre, post;
};
struct sent {
  uint8_t peer;
  int8_t res;    /* resource whose registered token this datagram carries, -1 = no registered token matches */
  int8_t during; /* life 2: resource being changed when it was sent */
  uint8_t type, code, has_obs, round;
  uint8_t life; /* history: 0 = the life before the first mid-history restart, 1 = the one after it, ... */
  int16_t op;
  uint32_t obs;
};
struct report {
  int seg, seg_first_op; /* history: which life this process is, and the operation it starts with (set by the parent) */
  int started, ops_complete, finished; /* per life */
  int ncalls;    /* tracked calls performed (or about to be performed when died) */
  int died_at;   /* index of the call before which the process killed itself, 0 = did not */
  int calls_ops; /* ncalls when the last op had completed */
  int ops_done;
  int op_first_call[MAXOPS + 1];
  uint8_t kinds[MAXCALLS + 2];
  int nupd, in_upd;
  struct upd upd[MAXUPD];
  int nsent;
  struct sent sent[MAXSENT];
  /* life >= 2 */
  int startup_ret;
  int startup_calls;
  int exists[NRES], get_code[NRES];
  int get_code_tcp[NRES]; /* mixed-transport histories: answer to a GET over a fresh TCP connection (0 = not asked, -1 = no answer) */
  int sub[NPEER][NRES]; /* 1: subscriber entry with original token, 2: with another token */
  int tcp_conns, tcp_notifs; /* history: connections peer t made, notifications it read (log only) */
  /* problems seen inside the life process */
  int nfail;
  char fsig[4][100], fmsg[4][300];
  int overflow;
  uint32_t blob_used;
  uint8_t blob[BLOBSZ];
};
static struct report *R; /* in a life process: the report it fills */

static void
rep_fail(const char *sig, const char *fmt, ...) {
  if (!R || R->nfail >= 4)
    return;
  for (int i = 0; i < R->nfail; i++)
    if (!strcmp(R->fsig[i], sig))
      return;
  snprintf(R->fsig[R->nfail], sizeof R->fsig[0], "%s", sig);
  va_list ap;
  va_start(ap, fmt);
  vsnprintf(R->fmsg[R->nfail], sizeof R->fmsg[0], fmt, ap);
  va_end(ap);
  R->nfail++;
}

/* ================================================================================================ */
/* link-wide stdio wrappers: pass everything through, count only what belongs to the directory      */
static struct {
  int enabled;
  int die_at;
  char dir[300];
  size_t dirlen;
  FILE *fps[16];
  int nfps;
} T;
static char g_path[NFILES][340];

static int
path_tracked(const char *p) {
  return T.dirlen && p && !strncmp(p, T.dir, T.dirlen) && p[T.dirlen] == '/';
}
static int
fp_tracked(FILE *fp) {
  for (int i = 0; i < T.nfps; i++)
    if (T.fps[i] == fp)
      return 1;
  return 0;
}
static void
tracked_call(int kind) {
  if (!T.enabled || !R)
    return;
  int idx = ++R->ncalls;
  if (idx <= MAXCALLS)
    R->kinds[idx] = (uint8_t)kind;
  else
    R->overflow = 1;
  if (T.die_at && idx == T.die_at) {
    R->died_at = idx;
    _exit(137); /* user-space stdio buffers are lost, completed system calls are durable */
  }
}

FILE *__real_fopen(const char *path, const char *mode);
int __real_fclose(FILE *fp);
size_t __real_fread(void *p, size_t s, size_t n, FILE *fp);
size_t __real_fwrite(const void *p, size_t s, size_t n, FILE *fp);
char *__real_fgets(char *s, int n, FILE *fp);
int __real_fflush(FILE *fp);
int __real_rename(const char *a, const char *b);
int __real_remove(const char *a);
int __real_unlink(const char *a);
int __real_fputs(const char *s, FILE *fp);
int __real_fputc(int c, FILE *fp);
FILE *__wrap_fopen(const char *path, const char *mode);
int __wrap_fclose(FILE *fp);
size_t __wrap_fread(void *p, size_t s, size_t n, FILE *fp);
size_t __wrap_fwrite(const void *p, size_t s, size_t n, FILE *fp);
char *__wrap_fgets(char *s, int n, FILE *fp);
int __wrap_fprintf(FILE *fp, const char *fmt, ...);
int __wrap_fflush(FILE *fp);
int __wrap_rename(const char *a, const char *b);
int __wrap_remove(const char *a);
int __wrap_unlink(const char *a);
int __wrap_fputs(const char *s, FILE *fp);
int __wrap_fputc(int c, FILE *fp);

FILE *
__wrap_fopen(const char *path, const char *mode) {
  int t = path_tracked(path);
  if (t)
    tracked_call(K_FOPEN);
  FILE *fp = __real_fopen(path, mode);
  if (t && fp && T.nfps < 16)
    T.fps[T.nfps++] = fp;
  return fp;
}
int
__wrap_fclose(FILE *fp) {
  if (T.nfps && fp_tracked(fp)) {
    tracked_call(K_FCLOSE);
    for (int i = 0; i < T.nfps; i++)
      if (T.fps[i] == fp) {
        T.fps[i] = T.fps[--T.nfps];
        break;
      }
  }
  return __real_fclose(fp);
}
size_t
__wrap_fread(void *p, size_t s, size_t n, FILE *fp) {
  if (T.nfps && fp_tracked(fp))
    tracked_call(K_FREAD);
  return __real_fread(p, s, n, fp);
}
size_t
__wrap_fwrite(const void *p, size_t s, size_t n, FILE *fp) {
  if (T.nfps && fp_tracked(fp))
    tracked_call(K_FWRITE);
  return __real_fwrite(p, s, n, fp);
}
char *
__wrap_fgets(char *s, int n, FILE *fp) {
  if (T.nfps && fp_tracked(fp))
    tracked_call(K_FGETS);
  return __real_fgets(s, n, fp);
}
int
__wrap_fprintf(FILE *fp, const char *fmt, ...) {
  if (T.nfps && fp_tracked(fp))
    tracked_call(K_FPRINTF);
  va_list ap;
  va_start(ap, fmt);
  int r = vfprintf(fp, fmt, ap);
  va_end(ap);
  return r;
}
int
__wrap_fflush(FILE *fp) {
  if (T.nfps && fp && fp_tracked(fp))
    tracked_call(K_FFLUSH);
  return __real_fflush(fp);
}
int
__wrap_rename(const char *a, const char *b) {
  if (path_tracked(a) || path_tracked(b))
    tracked_call(K_RENAME);
  return __real_rename(a, b);
}
int
__wrap_remove(const char *a) {
  if (path_tracked(a))
    tracked_call(K_REMOVE);
  return __real_remove(a);
}
int
__wrap_unlink(const char *a) {
  if (path_tracked(a))
    tracked_call(K_UNLINK);
  return __real_unlink(a);
}
int
__wrap_fputs(const char *s, FILE *fp) {
  if (T.nfps && fp_tracked(fp))
    tracked_call(K_FPUTS);
  return __real_fputs(s, fp);
}
int
__wrap_fputc(int c, FILE *fp) {
  if (T.nfps && fp_tracked(fp))
    tracked_call(K_FPUTC);
  return __real_fputc(c, fp);
}

/* ================================================================================================ */
/* snapshots of the three files (plain system calls, never counted)                                 */
static void
set_dir(const char *dir) {
  snprintf(T.dir, sizeof T.dir, "%s", dir);
  T.dirlen = strlen(T.dir);
  T.nfps = 0;
  snprintf(g_path[F_DYN], sizeof g_path[0], "%s/dyn", dir);
  snprintf(g_path[F_OBS], sizeof g_path[0], "%s/obs", dir);
  snprintf(g_path[F_CNT], sizeof g_path[0], "%s/cnt", dir);
}
static void
take_snap(struct report *rep, struct snap *s) {
  for (int f = 0; f < NFILES; f++) {
    s->off[f] = rep->blob_used;
    s->len[f] = ABSENT;
    int fd = open(g_path[f], O_RDONLY);
    if (fd < 0)
      continue;
    uint32_t got = 0;
    for (;;) {
      if (rep->blob_used + got + 4096 > BLOBSZ) {
        rep->overflow = 1;
        break;
      }
      ssize_t r = read(fd, rep->blob + rep->blob_used + got, 4096);
      if (r < 0 && errno == EINTR)
        continue;
      if (r <= 0)
        break;
      got += (uint32_t)r;
    }
    close(fd);
    s->len[f] = got;
    rep->blob_used += got;
  }
}

/* ================================================================================================ */
/* independent reader of the three record formats (man page coap_persist(3) / the record comments)  */
static coap_address_t peer_addr[NPEER], srv_addr;
static void
make_addrs(void) {
  ns_addr(&srv_addr, 1, 5683);
  for (int p = 0; p < NPEER; p++)
    ns_addr(&peer_addr[p], 10 + p, 50000 + p);
}
static void
tok_of(int p, int r, uint8_t t[3]) {
  t[0] = (uint8_t)(0xC0 | p);
  t[1] = (uint8_t)(0x10 | r);
  t[2] = 0x5A;
}
static int
res_index(const uint8_t *s, size_t l) {
  for (int i = 0; i < NRES; i++)
    if (strlen(res_names[i]) == l && !memcmp(res_names[i], s, l))
      return i;
  return -1;
}
static int
peer_of_sin(const struct sockaddr_in *sin) {
  for (int p = 0; p < NPEER; p++)
    if (peer_addr[p].addr.sin.sin_addr.s_addr == sin->sin_addr.s_addr && peer_addr[p].addr.sin.sin_port == sin->sin_port)
      return p;
  return -1;
}

#define MAXREC 24
struct prec {
  char name[24];
  int peer, res, tok_ok;
  int stream;     /* the record's transport label is one with RFC 8323 framing (TCP, TLS, WS, WSS) */
  int mislabelled; /* the stored packet reads with the other transport family's framing only */
  uint32_t val;
  uint64_t h;
};
struct pfile {
  int absent, torn, n;
  char why[100];
  struct prec rec[MAXREC];
};

static uint64_t
h_addr(const coap_address_t *a, uint64_t h) {
  h = vx_fnv(&a->size, sizeof a->size, h);
  h = vx_fnv(&a->addr.sin.sin_family, sizeof a->addr.sin.sin_family, h);
  h = vx_fnv(&a->addr.sin.sin_port, sizeof a->addr.sin.sin_port, h);
  h = vx_fnv(&a->addr.sin.sin_addr, sizeof a->addr.sin.sin_addr, h);
  return h;
}
static int
torn(struct pfile *P, const char *fmt, ...) {
  P->torn = 1;
  va_list ap;
  va_start(ap, fmt);
  vsnprintf(P->why, sizeof P->why, fmt, ap);
  va_end(ap);
  return 0;
}
#define NEED(nbytes, what)                                                                                             \
  do {                                                                                                                 \
    if ((size_t)len - o < (size_t)(nbytes))                                                                            \
      return torn(P, "record %d truncated inside %s (offset %zu of %u)", P->n + 1, what, o, len);                      \
  } while (0)

/* RFC 8323 3.2 framing of one message: Len nibble | TKL nibble, extended length (0/1/2/4 bytes), code, token, then Len
 * bytes of options and payload.  Exactly one message, nothing behind it.  Filled into the datagram reader's structure
 * (type / mid do not exist on a stream). */
static int
t_frame(const uint8_t *b, size_t n, size_t *total, int *code, int *tkl, const uint8_t **tok, const uint8_t **body, size_t *blen) {
  if (n < 2)
    return 0;
  size_t ext, L;
  switch (b[0] >> 4) {
  case 13:
    ext = 1;
    break;
  case 14:
    ext = 2;
    break;
  case 15:
    ext = 4;
    break;
  default:
    ext = 0;
  }
  if (n < 1 + ext + 1)
    return 0;
  if (ext == 0)
    L = b[0] >> 4;
  else if (ext == 1)
    L = 13u + b[1];
  else if (ext == 2)
    L = 269u + ((size_t)b[1] << 8 | b[2]);
  else
    L = 65805u + ((size_t)b[1] << 24 | (size_t)b[2] << 16 | (size_t)b[3] << 8 | b[4]);
  *tkl = b[0] & 15;
  if (*tkl > 8)
    return -1;
  *total = 1 + ext + 1 + (size_t)*tkl + L;
  if (n < *total)
    return 0;
  *code = b[1 + ext];
  *tok = b + 2 + ext;
  *body = *tok + *tkl;
  *blen = L;
  return 1;
}
static int
t_parse(const uint8_t *b, size_t n, struct w_msg *m, uint8_t scratch[], size_t cap) {
  size_t total, blen;
  int code, tkl;
  const uint8_t *tok, *body;
  memset(m, 0, sizeof *m);
  if (t_frame(b, n, &total, &code, &tkl, &tok, &body, &blen) != 1 || total != n || 4 + blen > cap)
    return 0;
  /* options and payload are coded as in a datagram: let the datagram reader walk them behind an empty header */
  scratch[0] = 0x40;
  scratch[1] = (uint8_t)code;
  scratch[2] = scratch[3] = 0;
  memcpy(scratch + 4, body, blen);
  if (!w_parse(scratch, 4 + blen, m))
    return 0;
  m->tkl = tkl;
  memcpy(m->token, tok, (size_t)tkl);
  return 1;
}
static int
proto_is_stream(coap_proto_t p) {
  return p == COAP_PROTO_TCP || p == COAP_PROTO_TLS || p == COAP_PROTO_WS || p == COAP_PROTO_WSS;
}
/* The stored packet of a record, read with the framing its transport label says: a request (code_lo..code_hi) and, when
 * the record names its resource, for that Uri-Path.  1 = yes; 2 = only the other transport family's framing reads it as
 * such; 0 = neither does. */
static int
stored_is(int stream, const uint8_t *b, size_t n, struct w_msg *m, uint8_t scratch[], size_t cap, int code_lo, int code_hi, const uint8_t *path,
          size_t plen) {
  if (!(stream ? t_parse(b, n, m, scratch, cap) : w_parse(b, n, m)) || m->code < code_lo || m->code > code_hi)
    return 0;
  if (path) {
    const struct w_opt *up = w_find(m, 11);
    if (!up || up->len != plen || memcmp(up->val, path, plen))
      return 0;
  }
  return 1;
}
static int
parse_stored(coap_proto_t proto, const uint8_t *b, size_t n, struct w_msg *m, uint8_t scratch[], size_t cap, int code_lo, int code_hi,
             const uint8_t *path, size_t plen) {
  int stream = proto_is_stream(proto);
  if (stored_is(stream, b, n, m, scratch, cap, code_lo, code_hi, path, plen))
    return 1;
  if (stored_is(!stream, b, n, m, scratch, cap, code_lo, code_hi, path, plen))
    return 2;
  return 0;
}

/* observe file: key | proto | listen addr | addr tuple | ssize len | packet | ssize len or -1 | oscore */
static int
parse_obs(const uint8_t *b, uint32_t len, struct pfile *P) {
  size_t o = 0;
  while (o < len) {
    if (P->n >= MAXREC)
      return torn(P, "more than %d records", MAXREC);
    struct prec *r = &P->rec[P->n];
    memset(r, 0, sizeof *r);
    uint64_t h = VX_FNV0;
    NEED(sizeof(void *), "key");
    o += sizeof(void *);
    coap_proto_t proto;
    NEED(sizeof proto, "proto");
    memcpy(&proto, b + o, sizeof proto);
    o += sizeof proto;
    if (proto <= COAP_PROTO_NONE || proto >= COAP_PROTO_LAST)
      return torn(P, "record %d: protocol %d is not a protocol", P->n + 1, (int)proto);
    h = vx_fnv(&proto, sizeof proto, h);
    coap_address_t la;
    NEED(sizeof la, "listen address");
    memcpy(&la, b + o, sizeof la);
    o += sizeof la;
    h = h_addr(&la, h);
    coap_addr_tuple_t at;
    NEED(sizeof at, "address tuple");
    memcpy(&at, b + o, sizeof at);
    o += sizeof at;
    h = h_addr(&at.remote, h);
    h = h_addr(&at.local, h);
    ssize_t sz;
    NEED(sizeof sz, "packet length");
    memcpy(&sz, b + o, sizeof sz);
    o += sizeof sz;
    if (sz < 4 || sz > 0x10000)
      return torn(P, "record %d: packet length %zd is impossible", P->n + 1, sz);
    NEED(sz, "packet");
    struct w_msg m;
    uint8_t scratch[600];
    int how = parse_stored(proto, b + o, (size_t)sz, &m, scratch, sizeof scratch, 1, 1, NULL, 0);
    if (!how)
      return torn(P, "record %d: stored packet is not a CoAP GET", P->n + 1);
    r->stream = proto_is_stream(proto);
    r->mislabelled = how == 2;
    const struct w_opt *ob = w_find(&m, 6);
    if (!ob || w_uint(ob) != 0)
      return torn(P, "record %d: stored packet has no Observe:0", P->n + 1);
    h = vx_fnv(b + o, (size_t)sz, h);
    const struct w_opt *up = w_find(&m, 11);
    r->res = up ? res_index(up->val, up->len) : -1;
    r->peer = peer_of_sin(&at.remote.addr.sin);
    uint8_t tk[3];
    tok_of(r->peer > 0 ? r->peer : 0, r->res >= 0 ? r->res : 0, tk);
    r->tok_ok = m.tkl == 3 && !memcmp(m.token, tk, 3);
    snprintf(r->name, sizeof r->name, "p%d/%s", r->peer, r->res >= 0 ? res_names[r->res] : "?");
    o += (size_t)sz;
    NEED(sizeof sz, "oscore length");
    memcpy(&sz, b + o, sizeof sz);
    o += sizeof sz;
    if (sz != -1) {
      if (sz < 0 || sz > 0x10000)
        return torn(P, "record %d: oscore length %zd is impossible", P->n + 1, sz);
      NEED(sz, "oscore info");
      h = vx_fnv(b + o, (size_t)sz, h);
      o += (size_t)sz;
    }
    r->h = h;
    P->n++;
  }
  return 1;
}
/* dynamic resource file: proto | ssize len | name | ssize len | packet */
static int
parse_dyn(const uint8_t *b, uint32_t len, struct pfile *P) {
  size_t o = 0;
  while (o < len) {
    if (P->n >= MAXREC)
      return torn(P, "more than %d records", MAXREC);
    struct prec *r = &P->rec[P->n];
    memset(r, 0, sizeof *r);
    uint64_t h = VX_FNV0;
    coap_proto_t proto;
    NEED(sizeof proto, "proto");
    memcpy(&proto, b + o, sizeof proto);
    o += sizeof proto;
    if (proto <= COAP_PROTO_NONE || proto >= COAP_PROTO_LAST)
      return torn(P, "record %d: protocol %d is not a protocol", P->n + 1, (int)proto);
    h = vx_fnv(&proto, sizeof proto, h);
    ssize_t sz;
    NEED(sizeof sz, "name length");
    memcpy(&sz, b + o, sizeof sz);
    o += sizeof sz;
    if (sz < 1 || sz > 0x10000)
      return torn(P, "record %d: name length %zd is impossible", P->n + 1, sz);
    NEED(sz, "name");
    r->res = res_index(b + o, (size_t)sz);
    snprintf(r->name, sizeof r->name, "%.*s", (int)(sz > 20 ? 20 : sz), (const char *)(b + o));
    h = vx_fnv(b + o, (size_t)sz, h);
    const uint8_t *nptr = b + o;
    size_t nsz = (size_t)sz;
    o += (size_t)sz;
    NEED(sizeof sz, "packet length");
    memcpy(&sz, b + o, sizeof sz);
    o += sizeof sz;
    if (sz < 4 || sz > 0x10000)
      return torn(P, "record %d: packet length %zd is impossible", P->n + 1, sz);
    NEED(sz, "packet");
    struct w_msg m;
    uint8_t scratch[600];
    int how = parse_stored(proto, b + o, (size_t)sz, &m, scratch, sizeof scratch, 1, 31, nptr, nsz);
    if (!how)
      return torn(P, "record %d: stored packet is not a CoAP request for the resource the record names", P->n + 1);
    r->stream = proto_is_stream(proto);
    r->mislabelled = how == 2;
    h = vx_fnv(b + o, (size_t)sz, h);
    o += (size_t)sz;
    r->h = h;
    P->n++;
  }
  return 1;
}
/* counter file: text lines "<resource name> <decimal>\n" */
static int
parse_cnt(const uint8_t *b, uint32_t len, struct pfile *P) {
  size_t o = 0;
  while (o < len) {
    if (P->n >= MAXREC)
      return torn(P, "more than %d lines", MAXREC);
    struct prec *r = &P->rec[P->n];
    memset(r, 0, sizeof *r);
    const uint8_t *nl = memchr(b + o, '\n', len - o);
    if (!nl)
      return torn(P, "line %d has no line end (offset %zu of %u)", P->n + 1, o, len);
    size_t ll = (size_t)(nl - (b + o));
    const uint8_t *sp = memchr(b + o, ' ', ll);
    if (!sp || sp == b + o)
      return torn(P, "line %d has no 'name value' shape", P->n + 1);
    size_t nlen = (size_t)(sp - (b + o));
    size_t dl = ll - nlen - 1;
    if (dl == 0 || dl > 10)
      return torn(P, "line %d: value has %zu digits", P->n + 1, dl);
    uint64_t v = 0;
    for (size_t i = 0; i < dl; i++) {
      if (sp[1 + i] < '0' || sp[1 + i] > '9')
        return torn(P, "line %d: value is not a decimal number", P->n + 1);
      v = v * 10 + (uint64_t)(sp[1 + i] - '0');
    }
    r->res = res_index(b + o, nlen);
    snprintf(r->name, sizeof r->name, "%.*s", (int)(nlen > 20 ? 20 : nlen), (const char *)(b + o));
    r->val = (uint32_t)v;
    P->n++;
    o += ll + 1;
  }
  return 1;
}
static void
parse_file(int f, const uint8_t *b, uint32_t len, struct pfile *P) {
  memset(P, 0, sizeof *P);
  if (len == ABSENT) {
    P->absent = 1;
    return;
  }
  if (f == F_OBS)
    parse_obs(b, len, P);
  else if (f == F_DYN)
    parse_dyn(b, len, P);
  else
    parse_cnt(b, len, P);
}
static void
parse_snap(const struct report *rep, const struct snap *s, struct pfile P[NFILES]) {
  for (int f = 0; f < NFILES; f++)
    parse_file(f, rep->blob + s->off[f], s->len[f], &P[f]);
}
static int
pfile_eq(const struct pfile *a, const struct pfile *b) {
  if (a->torn || b->torn || a->n != b->n)
    return 0;
  for (int i = 0; i < a->n; i++) {
    const struct prec *x = &a->rec[i], *y = &b->rec[i];
    if (strcmp(x->name, y->name) || x->peer != y->peer || x->res != y->res || x->tok_ok != y->tok_ok || x->val != y->val || x->h != y->h || x->stream != y->stream ||
        x->mislabelled != y->mislabelled)
      return 0;
  }
  return 1;
}
static void
pfile_str(int f, const struct pfile *P, char *out, size_t n) {
  size_t o = 0;
  out[0] = 0;
  if (P->absent) {
    snprintf(out, n, "(absent)");
    return;
  }
  o += (size_t)snprintf(out + o, n - o, "[");
  for (int i = 0; i < P->n && o + 40 < n; i++) {
    if (f == F_CNT)
      o += (size_t)snprintf(out + o, n - o, "%s%s=%u", i ? " " : "", P->rec[i].name, P->rec[i].val);
    else if (f == F_OBS)
      o += (size_t)snprintf(out + o, n - o, "%s%s%s%s%s", i ? " " : "", P->rec[i].name, P->rec[i].tok_ok ? "" : "(token?)",
                            P->rec[i].stream ? "@tcp" : "", P->rec[i].mislabelled ? "(other-framing!)" : "");
    else
      o += (size_t)snprintf(out + o, n - o, "%s%s%s%s", i ? " " : "", P->rec[i].name, P->rec[i].stream ? "@tcp" : "",
                            P->rec[i].mislabelled ? "(other-framing!)" : "");
  }
  o += (size_t)snprintf(out + o, n - o, "]");
  if (P->torn && o + 20 < n)
    snprintf(out + o, n - o, " TORN: %s", P->why);
}
static int
pfile_has(int f, const struct pfile *P, int peer, int res) {
  for (int i = 0; i < P->n; i++)
    if (P->rec[i].res == res && (f != F_OBS || P->rec[i].peer == peer))
      return 1;
  return 0;
}

/* ================================================================================================ */
/* the server application of both lives (same shape as examples/coap-server.c)                      */
static coap_context_t *ctx;
static const struct scn *S;
static int cur_op = -1, cur_round, cur_during = -1;
static int last_code[NPEER], last_has_obs[NPEER], next_mid[NPEER];

static void
hnd_get(coap_resource_t *resource, coap_session_t *session, const coap_pdu_t *request, const coap_string_t *query,
        coap_pdu_t *response) {
  (void)resource;
  (void)session;
  (void)request;
  (void)query;
  coap_pdu_set_code(response, COAP_RESPONSE_CODE_CONTENT);
  coap_add_data(response, 5, (const uint8_t *)"value");
}
static void
hnd_put(coap_resource_t *resource, coap_session_t *session, const coap_pdu_t *request, const coap_string_t *query,
        coap_pdu_t *response) {
  (void)resource;
  (void)session;
  (void)request;
  (void)query;
  coap_pdu_set_code(response, COAP_RESPONSE_CODE_CHANGED);
}
static void
hnd_delete(coap_resource_t *resource, coap_session_t *session, const coap_pdu_t *request, const coap_string_t *query,
           coap_pdu_t *response) {
  (void)session;
  (void)request;
  (void)query;
  coap_delete_resource(NULL, resource);
  coap_pdu_set_code(response, COAP_RESPONSE_CODE_DELETED);
}
static void
hnd_put_unknown(coap_resource_t *resource, coap_session_t *session, const coap_pdu_t *request, const coap_string_t *query,
                coap_pdu_t *response) {
  (void)resource;
  (void)query;
  coap_string_t *uri_path = coap_get_uri_path(request);
  if (!uri_path) {
    coap_pdu_set_code(response, COAP_RESPONSE_CODE_NOT_FOUND);
    return;
  }
  coap_resource_t *r = coap_resource_init((coap_str_const_t *)uri_path, COAP_RESOURCE_FLAGS_RELEASE_URI);
  coap_add_attr(r, coap_make_str_const("title"), coap_make_str_const("\"Dynamic\""), 0);
  coap_register_request_handler(r, COAP_REQUEST_PUT, hnd_put);
  coap_register_request_handler(r, COAP_REQUEST_DELETE, hnd_delete);
  coap_resource_set_get_observable(r, 1);
  coap_register_request_handler(r, COAP_REQUEST_GET, hnd_get);
  coap_add_resource(coap_session_get_context(session), r);
  coap_pdu_set_code(response, COAP_RESPONSE_CODE_CREATED);
}

static void
on_send(const ns_dgram_t *d) {
  struct w_msg m;
  if (!w_parse(d->data, d->len, &m)) {
    rep_fail("wire:malformed", "server emitted a malformed datagram");
    return;
  }
  int p = peer_of_sin(&d->dst.addr.sin);
  if (p < 0)
    return;
  if (m.code >= 64) {
    last_code[p] = m.code;
    last_has_obs[p] = w_find(&m, 6) != NULL;
  }
  if ((p == P_1 || p == P_2) && m.code == 69) {
    const struct w_opt *ob = w_find(&m, 6);
    if (!ob)
      return;
    int res = -1;
    for (int r = 0; r < NRES; r++) {
      uint8_t tk[3];
      tok_of(p, r, tk);
      if (m.tkl == 3 && !memcmp(m.token, tk, 3))
        res = r;
    }
    if (R->nsent >= MAXSENT) {
      R->overflow = 1;
      return;
    }
    struct sent *e = &R->sent[R->nsent];
    e->peer = (uint8_t)p;
    e->res = (int8_t)res;
    e->during = (int8_t)cur_during;
    e->type = (uint8_t)m.type;
    e->code = (uint8_t)m.code;
    e->has_obs = 1;
    e->obs = w_uint(ob);
    e->round = (uint8_t)cur_round;
    e->life = (uint8_t)R->seg;
    e->op = (int16_t)cur_op;
    R->nsent++; /* published last: the entry is complete when the count says so */
  }
}
static void
raw_rx(const ns_dgram_t *d) {
  struct w_msg m;
  if (!w_parse(d->data, d->len, &m))
    return;
  if (m.type == 0 && m.code != 0) { /* Confirmable notification / response: acknowledge */
    struct w_buf a;
    w_begin(&a, 2, 0, m.mid, NULL, 0);
    ns_inject(&d->dst, &d->src, a.b, a.n);
  }
}
static void
pump(void) {
  for (int i = 0; i < 200; i++) {
    ns_prepare_all();
    if (!ns_inflight_count())
      return;
    ns_deliver(0);
  }
  rep_fail("harness:pump", "network did not drain");
}
static void
request(int peer, int code, const char *path, int observe, const uint8_t *tok, int tkl, const char *payload) {
  struct w_buf w;
  w_begin(&w, 0, code, next_mid[peer]++, tok, tkl);
  if (observe >= 0)
    w_opt_uint(&w, 6, (uint32_t)observe);
  w_opt_add(&w, 11, path, strlen(path));
  if (payload)
    w_payload(&w, payload, strlen(payload));
  last_code[peer] = -1;
  last_has_obs[peer] = 0;
  ns_inject_now(&peer_addr[peer], &srv_addr, w.b, w.n);
  pump();
}

/* ---- peer t: a raw CoAP-over-TCP client (RFC 8323), one connection per server process ---- */
static ns_stream_t *tcp_st;
static uint8_t tcp_rx[4096];
static size_t tcp_rxlen;
static int tcp_csm_seen, tcp_gone;
/* what the server wrote to the connection since the last look: CSM, responses, notifications */
static void
tcp_drain(void) {
  if (!tcp_st)
    return;
  for (;;) {
    size_t got = ns_stream_raw_read(tcp_st, 0, tcp_rx + tcp_rxlen, sizeof tcp_rx - tcp_rxlen);
    if (!got)
      break;
    tcp_rxlen += got;
    for (;;) {
      size_t total, blen;
      int code, tkl;
      const uint8_t *tok, *body;
      int k = t_frame(tcp_rx, tcp_rxlen, &total, &code, &tkl, &tok, &body, &blen);
      if (k == 0)
        break;
      struct w_msg m;
      uint8_t scratch[1400];
      if (k < 0 || !t_parse(tcp_rx, total, &m, scratch, sizeof scratch)) {
        rep_fail("wire:malformed:tcp", "server wrote a malformed message to the TCP connection");
        tcp_rxlen = 0;
        return;
      }
      if (code == 0xE1) /* 7.01 CSM */
        tcp_csm_seen = 1;
      else if (code == 0xE4 || code == 0xE5) /* 7.04 Release / 7.05 Abort */
        tcp_gone = 1;
      else if (code >= 64 && code < 0xE0) {
        uint8_t tk[3];
        int notif = 0;
        for (int r = 0; r < NRES; r++) {
          tok_of(P_T, r, tk);
          if (tkl == 3 && !memcmp(tok, tk, 3) && w_find(&m, 6))
            notif = 1;
        }
        if (notif && last_code[P_T] != -1)
          R->tcp_notifs++; /* not the answer to a request that is being waited for */
        else {
          last_code[P_T] = code;
          last_has_obs[P_T] = w_find(&m, 6) != NULL;
        }
      }
      memmove(tcp_rx, tcp_rx + total, tcp_rxlen - total);
      tcp_rxlen -= total;
    }
    if (tcp_rxlen == sizeof tcp_rx) {
      rep_fail("harness:tcp-rx", "TCP receive buffer full");
      tcp_rxlen = 0;
    }
  }
}
static int
tcp_connect(void) {
  if (tcp_st && !tcp_gone)
    return 1;
  tcp_rxlen = 0;
  tcp_csm_seen = tcp_gone = 0;
  tcp_st = ns_stream_raw_connect(&peer_addr[P_T], &srv_addr);
  if (!tcp_st) {
    rep_fail("harness:tcp-connect", "TCP connect to the server failed");
    return 0;
  }
  static const uint8_t csm[2] = {0x00, 0xE1}; /* Len 0, TKL 0, 7.01 */
  ns_stream_raw_write(tcp_st, 0, csm, 2);
  ns_stream_release_all(tcp_st, 1);
  tcp_drain();
  if (!tcp_csm_seen)
    rep_fail("harness:tcp-csm", "no CSM from the server on a new TCP connection");
  R->tcp_conns++;
  return 1;
}
static void
request_tcp(int code, const char *path, int observe, const uint8_t *tok, int tkl, const char *payload) {
  last_code[P_T] = -1;
  last_has_obs[P_T] = 0;
  if (!tcp_connect())
    return;
  tcp_drain(); /* what other peers' operations made the server write to this connection in the meantime */
  last_code[P_T] = -1;
  last_has_obs[P_T] = 0;
  struct w_buf w; /* options and payload as in a datagram, then the stream framing around them */
  w_begin(&w, 0, code, 0, NULL, 0);
  if (observe >= 0)
    w_opt_uint(&w, 6, (uint32_t)observe);
  w_opt_add(&w, 11, path, strlen(path));
  if (payload)
    w_payload(&w, payload, strlen(payload));
  size_t blen = w.n - 4, n = 0;
  uint8_t f[300];
  if (blen < 13)
    f[n++] = (uint8_t)(blen << 4 | (unsigned)tkl);
  else {
    f[n++] = (uint8_t)(13 << 4 | (unsigned)tkl);
    f[n++] = (uint8_t)(blen - 13);
  }
  f[n++] = (uint8_t)code;
  memcpy(f + n, tok, (size_t)tkl);
  n += (size_t)tkl;
  memcpy(f + n, w.b + 4, blen);
  n += blen;
  ns_stream_raw_write(tcp_st, 0, f, n);
  ns_stream_release_all(tcp_st, 1);
  pump();
  tcp_drain();
}
static void
request_via(int tcp, int peer, int code, const char *path, int observe, const uint8_t *tok, int tkl, const char *payload) {
  if (tcp)
    request_tcp(code, path, observe, tok, tkl, payload);
  else
    request(peer, code, path, observe, tok, tkl, payload);
}

/* ---- shims around the persistence call-outs: updater boundaries, snapshots ---- */
static coap_observe_added_t o_observe_added;
static coap_observe_deleted_t o_observe_deleted;
static coap_track_observe_value_t o_track;
static coap_dyn_resource_added_t o_dyn_added;
static coap_resource_deleted_t o_res_deleted;

static struct upd *
upd_enter(int type, int res, int peer) {
  if (R->in_upd)
    return NULL; /* nested: part of the outer one */
  if (R->nupd >= MAXUPD) {
    R->overflow = 1;
    return NULL;
  }
  struct upd *u = &R->upd[R->nupd];
  memset(u, 0, sizeof *u);
  u->type = (uint8_t)type;
  u->res = (int8_t)res;
  u->peer = (int8_t)peer;
  u->op = (int16_t)cur_op;
  u->call_in = R->ncalls + 1;
  take_snap(R, &u->pre);
  R->nupd++;
  R->in_upd = 1;
  return u;
}
static void
upd_exit(struct upd *u) {
  if (!u)
    return;
  u->call_out = R->ncalls;
  take_snap(R, &u->post);
  u->done = 1;
  R->in_upd = 0;
}
static int
pkt_res(const coap_bin_const_t *pkt) {
  struct w_msg m;
  if (!pkt || !w_parse(pkt->s, pkt->length, &m))
    return -1;
  const struct w_opt *up = w_find(&m, 11);
  return up ? res_index(up->val, up->len) : -1;
}
static int
sub_res(coap_subscription_t *s) {
  RESOURCES_ITER(ctx->resources, r) {
    coap_subscription_t *q;
    LL_FOREACH(r->subscribers, q) {
      if (q == s)
        return res_index(r->uri_path->s, r->uri_path->length);
    }
  }
  return -1;
}
static int
shim_observe_added(coap_session_t *session, coap_subscription_t *key, coap_proto_t proto, coap_address_t *la,
                   coap_addr_tuple_t *ai, coap_bin_const_t *pkt, coap_bin_const_t *osc, void *ud) {
  struct upd *u = upd_enter(U_OBS_ADDED, pkt_res(pkt), peer_of_sin(&ai->remote.addr.sin));
  int r = o_observe_added(session, key, proto, la, ai, pkt, osc, ud);
  upd_exit(u);
  return r;
}
static int
shim_observe_deleted(coap_session_t *session, coap_subscription_t *key, void *ud) {
  struct upd *u = upd_enter(U_OBS_DELETED, sub_res(key), peer_of_sin(&session->addr_info.remote.addr.sin));
  int r = o_observe_deleted(session, key, ud);
  upd_exit(u);
  return r;
}
static int
shim_track(coap_context_t *c, coap_str_const_t *name, uint32_t num, void *ud) {
  struct upd *u = upd_enter(U_TRACK, res_index(name->s, name->length), 0);
  int r = o_track(c, name, num, ud);
  upd_exit(u);
  return r;
}
static int
shim_dyn_added(coap_session_t *session, coap_str_const_t *name, coap_bin_const_t *pkt, void *ud) {
  struct upd *u = upd_enter(U_DYN_ADDED, res_index(name->s, name->length), 0);
  int r = o_dyn_added(session, name, pkt, ud);
  upd_exit(u);
  return r;
}
static int
shim_res_deleted(coap_context_t *c, coap_str_const_t *name, void *ud) {
  struct upd *u = upd_enter(U_RES_DELETED, res_index(name->s, name->length), 0);
  int r = o_res_deleted(c, name, ud);
  upd_exit(u);
  return r;
}

static void
server_start(int track_startup) {
  ns_init();
  make_addrs();
  ns_on_send = on_send;
  ns_raw_rx = raw_rx;
  for (int p = 0; p < NPEER; p++)
    next_mid[p] = 0x1000 * (p + 1);
  ctx = coap_new_context(NULL);
  ns_register_ctx(ctx);
  coap_new_endpoint(ctx, &srv_addr, COAP_PROTO_UDP);
  if (!coap_new_endpoint(ctx, &srv_addr, COAP_PROTO_TCP)) /* same address, as coap-server listens */
    rep_fail("harness:tcp-endpoint", "coap_new_endpoint(COAP_PROTO_TCP) failed");
  tcp_st = NULL;
  coap_resource_t *r = coap_resource_init(coap_make_str_const("s1"), 0);
  coap_register_request_handler(r, COAP_REQUEST_GET, hnd_get);
  coap_resource_set_get_observable(r, 1);
  coap_add_resource(ctx, r);
  r = coap_resource_unknown_init2(hnd_put_unknown, 0);
  coap_add_resource(ctx, r);
  struct upd *u = NULL;
  if (track_startup) {
    T.enabled = 1;
    u = upd_enter(U_STARTUP, -1, 0);
  }
  R->startup_ret = coap_persist_startup(ctx, g_path[F_DYN], g_path[F_OBS], g_path[F_CNT], (uint32_t)S->f);
  upd_exit(u);
  R->startup_calls = R->ncalls;
  if (!R->startup_ret)
    rep_fail("startup:failed", "coap_persist_startup returned 0");
  o_observe_added = ctx->observe_added;
  o_observe_deleted = ctx->observe_deleted;
  o_track = ctx->track_observe_value;
  o_dyn_added = ctx->dyn_resource_added;
  o_res_deleted = ctx->resource_deleted;
  if (o_observe_added && o_observe_deleted && o_track && o_dyn_added && o_res_deleted) {
    ctx->observe_added = shim_observe_added;
    ctx->observe_deleted = shim_observe_deleted;
    ctx->track_observe_value = shim_track;
    ctx->dyn_resource_added = shim_dyn_added;
    ctx->resource_deleted = shim_res_deleted;
  } else
    rep_fail("startup:no-callouts", "coap_persist_startup did not install all five call-outs");
  R->started = 1;
}
static int g_leakcheck = 1; /* LeakSanitizer pass at the end of a graceful life (about as expensive as the life itself) */
static void
server_stop_gracefully(void) {
  coap_persist_stop(ctx);
  ns_unregister_ctx(ctx);
  coap_free_context(ctx);
  ctx = NULL;
  ns_fini();
  if (g_leakcheck && __lsan_do_recoverable_leak_check && __lsan_do_recoverable_leak_check()) {
    fflush(NULL);
    _exit(87);
  }
}

static void
do_op(int i) {
  const struct op *o = &S->ops[i];
  uint8_t tk[3];
  char what[40];
  op_str(o, what, sizeof what);
  switch (o->t) {
  case OP_PUT: {
    int c = o->x ? P_T : P_CTL;
    request_via(o->x, c, 3, res_names[o->r], -1, (const uint8_t *)"\x01", 1, "x");
    if (last_code[c] != 65)
      rep_fail("op-failed:put", "%s answered with code %d", what, last_code[c]);
    break;
  }
  case OP_DEL: {
    int c = o->x ? P_T : P_CTL;
    request_via(o->x, c, 4, res_names[o->r], -1, (const uint8_t *)"\x02", 1, NULL);
    if (last_code[c] != 66)
      rep_fail("op-failed:del", "%s answered with code %d", what, last_code[c]);
    break;
  }
  case OP_REG:
    tok_of(o->p, o->r, tk);
    request_via(o->x, o->p, 1, res_names[o->r], 0, tk, 3, NULL);
    if (last_code[o->p] != 69 || !last_has_obs[o->p])
      rep_fail("op-failed:reg", "%s answered with code %d observe=%d", what, last_code[o->p], last_has_obs[o->p]);
    break;
  case OP_CAN:
    tok_of(o->p, o->r, tk);
    request_via(o->x, o->p, 1, res_names[o->r], 1, tk, 3, NULL);
    if (last_code[o->p] != 69 || last_has_obs[o->p])
      rep_fail("op-failed:cancel", "%s answered with code %d observe=%d", what, last_code[o->p], last_has_obs[o->p]);
    break;
  case OP_CHG: {
    for (int k = 0; k < o->c; k++) {
      coap_str_const_t n = {strlen(res_names[o->r]), (const uint8_t *)res_names[o->r]};
      coap_resource_t *r = coap_get_resource_from_uri_path(ctx, &n);
      if (!r) {
        rep_fail("op-failed:chg", "%s: resource does not exist", what);
        break;
      }
      coap_resource_notify_observers(r, NULL);
      pump();
      tcp_drain();
    }
    break;
  }
  }
}

static void *g_heap_shift[17 * (MAXOPS + 2)];
static void
heap_shift(int life) {
  /* All lives are forked from the same image, so the same allocation sequence yields the same addresses.  Subscription
   * pointers are the keys of the observe file: let them differ between the incarnations as they do between real
   * processes (blocks stay reachable from the array: no leak). */
  for (int i = 0; i < 17 * life && i < (int)(sizeof g_heap_shift / sizeof g_heap_shift[0]); i++)
    g_heap_shift[i] = malloc(sizeof(coap_subscription_t));
}
/* One life of the history: the operations from R->seg_first_op up to the next restart marker (then a graceful stop or a
 * kill between two operations, as the marker says) or up to the end of the history (then as before: kill point / end). */
static void
life_segment(int die_at) {
  int seg = R->seg, a = R->seg_first_op;
  heap_shift(seg);
  T.die_at = die_at; /* counts tracked calls over all lives of the history; lies in the last operation */
  cur_op = a ? a - 1 : -1;
  server_start(seg > 0); /* a later life restores: its loader is an updater of the files like the call-outs */
  for (int p = 0; p < NPEER; p++)
    next_mid[p] += 0x100 * seg; /* the peers live on */
  T.enabled = 1;
  int i = a;
  for (; i < S->nops && S->ops[i].t != OP_RST; i++) {
    cur_op = i;
    R->op_first_call[i] = R->ncalls + 1;
    do_op(i);
    R->ops_done = i + 1;
  }
  if (i < S->nops) { /* mid-history restart: this life ends here, the parent starts the next one on the same directory */
    cur_op = i;
    R->op_first_call[i] = R->ncalls + 1;
    R->ops_done = i + 1;
    R->ops_complete = 1;
    if (S->ops[i].c)
      _exit(137); /* killed between two operations: no shutdown code runs */
    server_stop_gracefully();
    R->finished = 1;
    return;
  }
  R->op_first_call[S->nops] = R->ncalls + 1;
  R->calls_ops = R->ncalls;
  R->ops_complete = 1;
  if (die_at && die_at == R->ncalls + 1) { /* killed after the last operation, before any shutdown code */
    R->died_at = die_at;
    _exit(137);
  }
  T.die_at = 0;
  cur_op = S->nops;
  server_stop_gracefully();
  R->finished = 1;
}

static void
life_restart(int die_at) {
  T.die_at = die_at;
  cur_op = 100;
  heap_shift(MAXOPS + (die_at ? 1 : 2));
  server_start(1);
  if (die_at && die_at == R->ncalls + 1) { /* killed right after coap_persist_startup returned */
    R->died_at = die_at;
    _exit(137);
  }
  T.die_at = 0;
  for (int i = 0; i < NRES; i++) {
    coap_str_const_t n = {strlen(res_names[i]), (const uint8_t *)res_names[i]};
    coap_resource_t *r = coap_get_resource_from_uri_path(ctx, &n);
    R->exists[i] = r != NULL;
    if (r) {
      coap_subscription_t *s;
      LL_FOREACH(r->subscribers, s) {
        int p = peer_of_sin(&s->session->addr_info.remote.addr.sin);
        if (p < 0)
          continue;
        uint8_t tk[3];
        tok_of(p, i, tk);
        R->sub[p][i] = s->pdu->actual_token.length == 3 && !memcmp(s->pdu->actual_token.s, tk, 3) ? 1 : 2;
      }
    }
  }
  for (int i = 0; i < NRES; i++) {
    request(P_PROBE, 1, res_names[i], -1, (const uint8_t *)"\x09", 1, NULL);
    R->get_code[i] = last_code[P_PROBE];
  }
  if (S->mixed) /* a fresh TCP connection (the old one died with the old process) reaches the restored resources as well */
    for (int i = 0; i < NRES; i++) {
      request_tcp(1, res_names[i], -1, (const uint8_t *)"\x0a", 1, NULL);
      R->get_code_tcp[i] = last_code[P_T];
    }
  for (cur_round = 0; cur_round < 2; cur_round++)
    for (int i = 0; i < NRES; i++) {
      coap_str_const_t n = {strlen(res_names[i]), (const uint8_t *)res_names[i]};
      coap_resource_t *r = coap_get_resource_from_uri_path(ctx, &n);
      if (!r)
        continue;
      cur_during = i;
      coap_resource_notify_observers(r, NULL);
      pump();
      cur_during = -1;
    }
  R->ops_complete = 1;
  server_stop_gracefully();
  R->finished = 1;
}

/* ================================================================================================ */
/* vx child side                                                                                    */
static struct scn *scns;
static int nscn, capscn;
/* counters of the whole run (shared anonymous mapping made before the workers are forked) */
static struct shared {
  long mixed_execs, mixed_kill_execs, mixed_restart_kill_execs, tcp_probes_ok;
} *G;
static struct report *
rep_alloc(void) {
  struct report *r = mmap(NULL, sizeof *r, PROT_READ | PROT_WRITE, MAP_SHARED | MAP_ANONYMOUS, -1, 0);
  if (r == MAP_FAILED) {
    fprintf(stderr, "VX-HARNESS: mmap-failed\n");
    _exit(99);
  }
  return r;
}
static void
rep_free(struct report *r) {
  if (r)
    munmap(r, sizeof *r);
}
static void
wipe_dir(const char *dir, int remove_dir) {
  DIR *d = opendir(dir);
  if (d) {
    struct dirent *e;
    while ((e = readdir(d))) {
      if (e->d_name[0] == '.' && (!e->d_name[1] || (e->d_name[1] == '.' && !e->d_name[2])))
        continue;
      char p[700];
      snprintf(p, sizeof p, "%s/%s", dir, e->d_name);
      __real_unlink(p);
    }
    closedir(d);
  }
  if (remove_dir)
    rmdir(dir);
}
static void
copy_dir(const char *from, const char *to) {
  DIR *d = opendir(from);
  if (!d)
    return;
  struct dirent *e;
  while ((e = readdir(d))) {
    if (e->d_name[0] == '.')
      continue;
    char p[700], q[700], buf[8192];
    snprintf(p, sizeof p, "%s/%s", from, e->d_name);
    snprintf(q, sizeof q, "%s/%s", to, e->d_name);
    int a = open(p, O_RDONLY), b = open(q, O_WRONLY | O_CREAT | O_TRUNC, 0600);
    ssize_t r;
    while (a >= 0 && b >= 0 && (r = read(a, buf, sizeof buf)) > 0)
      if (write(b, buf, (size_t)r) != r)
        break;
    if (a >= 0)
      close(a);
    if (b >= 0)
      close(b);
  }
  closedir(d);
}

/* runs one life in its own process (stderr into a file next to the directory); returns the wait status */
static char g_errpath[400];
static int
run_life(int restart, const struct scn *scn, const char *dir, int die_at, struct report *rep) {
  fflush(stdout);
  fflush(stderr);
  snprintf(g_errpath, sizeof g_errpath, "%s.err", dir);
  pid_t pid = fork();
  if (pid < 0) {
    fprintf(stderr, "VX-HARNESS: fork-failed\n");
    _exit(99);
  }
  if (pid == 0) {
    prctl(PR_SET_PDEATHSIG, SIGKILL);
    int fd = open(g_errpath, O_WRONLY | O_CREAT | O_TRUNC, 0600);
    if (fd >= 0) {
      dup2(fd, 2);
      close(fd);
    }
    R = rep;
    S = scn;
    set_dir(dir);
    if (restart)
      life_restart(die_at);
    else
      life_segment(die_at);
    fflush(stdout);
    _exit(0);
  }
  int st = 0;
  while (waitpid(pid, &st, 0) < 0 && errno == EINTR)
    ;
  return st;
}
/* A life that ended in any way other than exit(0) / the kill we asked for.  A LeakSanitizer verdict at the end of a
 * complete life becomes a failure with the allocating libcoap function in the signature; anything else (ASan, UBSan,
 * assert, signal) is copied to our stderr and ends this execution abnormally, so that vx names it from the report. */
static void
helper_must(int st, int want_kill, const struct report *rep, const char *who) {
  int ok = WIFEXITED(st) && WEXITSTATUS(st) == (want_kill ? 137 : 0);
  if (ok && !want_kill && !rep->finished)
    ok = 0;
  if (ok && rep->overflow) {
    fprintf(stderr, "VX-HARNESS: report-overflow in %s\n", who);
    _exit(99);
  }
  if (ok) {
    __real_unlink(g_errpath);
    return;
  }
  static char buf[65536];
  size_t n = 0;
  int fd = open(g_errpath, O_RDONLY);
  if (fd >= 0) {
    ssize_t r;
    while (n + 1 < sizeof buf && (r = read(fd, buf + n, sizeof buf - 1 - n)) > 0)
      n += (size_t)r;
    close(fd);
  }
  buf[n] = 0;
  __real_unlink(g_errpath);
  if (n && write(2, buf, n) < 0)
    n = 0;
  if (WIFEXITED(st) && WEXITSTATUS(st) == 87 && rep->ops_complete && !want_kill) {
    static const char *noise[] = {"__interceptor", "__asan", "__sanitizer", "malloc", "calloc", "realloc", "coap_malloc_type", "coap_realloc_type",
                                  "coap_new_string", "coap_new_binary", "coap_new_bin_const", "coap_new_str_const", NULL};
    char frame[100] = "unknown", fn[100];
    for (char *p = strstr(buf, "leak of"); p && (p = strstr(p, " in ")); p += 4) {
      if (sscanf(p + 4, "%90[A-Za-z0-9_]", fn) != 1)
        continue;
      int skip = 0;
      for (int i = 0; noise[i]; i++)
        if (!strncmp(fn, noise[i], strlen(noise[i])))
          skip = 1;
      if (fn[0] >= '0' && fn[0] <= '9')
        skip = 1;
      if (!skip) {
        snprintf(frame, sizeof frame, "%s", fn);
        break;
      }
    }
    char sig[200];
    snprintf(sig, sizeof sig, "leak:%s:%s", who[4] == '1' ? "life1" : "restart", frame);
    char what[80] = "?";
    char *dl = strstr(buf, "leak of");
    if (dl)
      sscanf(dl - 7 > buf ? dl - 7 : dl, "%70[^\n]", what);
    vx_fail(sig, "%s: LeakSanitizer at the end of the life (after coap_persist_stop + coap_free_context): %s under %s", who, what, frame);
    return;
  }
  fprintf(stderr, "VX-HARNESS: helper-died %s status=0x%x want_kill=%d\n", who, st, want_kill);
  _exit(98);
}

/* Runs the lives of a history one after the other on the same directory, each in its own process, all filling the same
 * report (tracked calls, updaters, snapshots and sent values are numbered through).  The lives before a restart marker
 * end the way the marker says; the last one is killed before tracked call die_at (0: it stops gracefully). */
static void
run_history(const struct scn *scn, const char *dir, int die_at, struct report *rep, int leakcheck, const char *what) {
  int a = 0;
  for (int seg = 0;; seg++) {
    int b = a;
    while (b < scn->nops && scn->ops[b].t != OP_RST)
      b++;
    int last = b == scn->nops;
    int want_kill = last ? die_at != 0 : scn->ops[b].c != 0;
    rep->seg = seg;
    rep->seg_first_op = a;
    rep->started = rep->ops_complete = rep->finished = 0;
    char who[80];
    snprintf(who, sizeof who, "life%d(%s%s)", seg + 1, what, last ? "" : want_kill ? ", killed before the next operation" : ", stopped before the next operation");
    /* LeakSanitizer only at the end of the last life: a life that ends at a stop+restart marker is, process for process,
     * the last life of the shorter history that ends there, and that history is enumerated too */
    int sv = g_leakcheck;
    g_leakcheck = leakcheck && last;
    int st = run_life(0, scn, dir, die_at, rep);
    g_leakcheck = sv;
    helper_must(st, want_kill, rep, who);
    if (last)
      return;
    if (rep->ops_done != b + 1 || rep->died_at || rep->in_upd) {
      fprintf(stderr, "VX-HARNESS: mid-history-life-incomplete seg=%d ops_done=%d want=%d\n", seg, rep->ops_done, b + 1);
      _exit(99);
    }
    a = b + 1;
  }
}

/* the crash free history is the same in every execution of that history: keep its report */
static int
cache_path(const struct scn *scn, char *p, size_t n) {
  if (vx_in_replay() || scn->bound == 0)
    return 0;
  snprintf(p, n, "%s/dry.%d", vx_scratch_dir(), (int)(scn - scns));
  return 1;
}
static int
cache_load(const struct scn *scn, struct report *rep) {
  char p[400];
  if (!cache_path(scn, p, sizeof p))
    return 0;
  int fd = open(p, O_RDONLY);
  if (fd < 0)
    return 0;
  size_t want = offsetof(struct report, blob), got = 0;
  ssize_t r;
  while (got < want && (r = read(fd, (char *)rep + got, want - got)) > 0)
    got += (size_t)r;
  int ok = got == want && rep->finished && rep->blob_used <= BLOBSZ;
  if (ok) {
    got = 0;
    while (got < rep->blob_used && (r = read(fd, rep->blob + got, rep->blob_used - got)) > 0)
      got += (size_t)r;
    ok = got == rep->blob_used;
  }
  close(fd);
  if (!ok)
    memset(rep, 0, offsetof(struct report, blob));
  return ok;
}
static void
cache_store(const struct scn *scn, const struct report *rep) {
  char p[400], t[440];
  if (!cache_path(scn, p, sizeof p))
    return;
  snprintf(t, sizeof t, "%s.%d", p, (int)getpid());
  int fd = open(t, O_WRONLY | O_CREAT | O_TRUNC, 0600);
  if (fd < 0)
    return;
  size_t n = offsetof(struct report, blob) + rep->blob_used;
  int ok = write(fd, rep, n) == (ssize_t)n;
  close(fd);
  if (ok)
    __real_rename(t, p);
  else
    __real_unlink(t);
}

static int
choose_crash(int M) { /* 0 = none, else 1..M; every crash costs exactly 1 */
  enum { B = 40 };
  if (M <= 0)
    return 0;
  int nblk = (M + B - 1) / B;
  if (nblk > VX_MAXALT - 1) {
    fprintf(stderr, "VX-HARNESS: too-many-crash-points %d\n", M);
    _exit(99);
  }
  uint8_t c1[VX_MAXALT], c0[VX_MAXALT];
  memset(c0, 0, sizeof c0);
  for (int i = 0; i < VX_MAXALT; i++)
    c1[i] = i ? 1 : 0;
  int b = vx_choose(nblk + 1, c1, "crash-block");
  if (!b)
    return 0;
  int size = b < nblk ? B : M - (nblk - 1) * B;
  int off = size > 1 ? vx_choose(size, c0, "crash-offset") : 0;
  return (b - 1) * B + off + 1;
}

static int
serial_gt(uint32_t a, uint32_t b) { /* RFC 7641 3.4 on 24 bits: a is fresher than b */
  a &= 0xFFFFFF;
  b &= 0xFFFFFF;
  return (b < a && a - b < (1u << 23)) || (b > a && b - a > (1u << 23));
}

struct model {
  int live[NRES], born[NRES];
  int obs[NPEER][NRES], regop[NPEER][NRES];
};
static void
m_apply(struct model *m, const struct op *o, int idx) {
  switch (o->t) {
  case OP_PUT:
    m->live[o->r] = 1;
    m->born[o->r] = idx;
    break;
  case OP_DEL:
    m->live[o->r] = 0;
    for (int p = 0; p < NPEER; p++)
      m->obs[p][o->r] = 0;
    break;
  case OP_REG:
    m->obs[o->p][o->r] = 1;
    m->regop[o->p][o->r] = idx;
    break;
  case OP_CAN:
    m->obs[o->p][o->r] = 0;
    break;
  case OP_RST: /* a TCP connection does not outlive the server process, and its observations are not persisted */
    for (int r = 0; r < NRES; r++)
      m->obs[P_T][r] = 0;
    break;
  default:
    break;
  }
}

/* where did a record that should be in file f go?  walks the updater boundaries of life 1 */
static void
explain_loss(const struct report *r1, int f, int peer, int res, const struct pfile *final, int crashed_in, char *out, size_t n) {
  if (pfile_has(f, final, peer, res)) {
    snprintf(out, n, "not-loaded");
    return;
  }
  int seen = 0;
  const char *by = NULL;
  int by_own_add = 0;
  for (int j = 0; j < r1->nupd; j++) {
    const struct upd *u = &r1->upd[j];
    struct pfile pre, post;
    parse_file(f, r1->blob + u->pre.off[f], u->pre.len[f], &pre);
    int was = pfile_has(f, &pre, peer, res);
    if (was)
      seen = 1;
    if (!u->done) { /* the interrupted one: post is what is on disk now */
      if (was && j == crashed_in) {
        snprintf(out, n, "dropped-by-crash-in:%s", upd_names[u->type]);
        return;
      }
      continue;
    }
    parse_file(f, r1->blob + u->post.off[f], u->post.len[f], &post);
    int is = pfile_has(f, &post, peer, res);
    int own_add = (f == F_DYN && u->type == U_DYN_ADDED && u->res == res) || (f == F_OBS && u->type == U_OBS_ADDED && u->res == res && u->peer == peer);
    if (was && !is) {
      by = upd_names[u->type];
      by_own_add = 0;
    } else if (!was && !is && own_add) {
      by = upd_names[u->type];
      by_own_add = 1;
    } else if (is)
      by = NULL;
  }
  if (by)
    snprintf(out, n, "%s:%s", by_own_add ? "never-written-by" : "dropped-by", by);
  else
    snprintf(out, n, seen ? "vanished-between-updates" : "never-written");
}

/* why is a record that should be gone still in file f?  walks the updater boundaries of the history: the last call-out
 * that had to take it out (after the last one that wrote it) either left it in, or it came back later */
static void
explain_stale(const struct report *r1, int f, int peer, int res, char *out, size_t n) {
  const char *kept = NULL, *readded = NULL;
  for (int j = 0; j < r1->nupd; j++) {
    const struct upd *u = &r1->upd[j];
    if (!u->done)
      continue;
    struct pfile pre, post;
    parse_file(f, r1->blob + u->pre.off[f], u->pre.len[f], &pre);
    parse_file(f, r1->blob + u->post.off[f], u->post.len[f], &post);
    int was = pfile_has(f, &pre, peer, res), is = pfile_has(f, &post, peer, res);
    int own_add = (f == F_DYN && u->type == U_DYN_ADDED && u->res == res) || (f == F_OBS && u->type == U_OBS_ADDED && u->res == res && u->peer == peer);
    /* (observe_deleted of a resource that is being deleted: the subscription is not reachable from the context any more, res unknown) */
    int remover = (u->type == U_RES_DELETED && u->res == res) ||
                  (f == F_OBS && u->type == U_OBS_DELETED && u->peer == peer && (u->res == res || (u->res < 0 && was)));
    if (own_add)
      kept = readded = NULL;
    else if (remover && is)
      kept = upd_names[u->type];
    else if (remover || (was && !is))
      kept = readded = NULL;
    else if (!was && is)
      readded = upd_names[u->type];
  }
  if (kept)
    snprintf(out, n, "kept-by:%s", kept);
  else if (readded)
    snprintf(out, n, "re-added-by:%s", readded);
  else
    snprintf(out, n, "no-call-out");
}

/* Observe values across the restarts inside the history: what an observation is sent in a later life is greater than
 * everything it was sent in the lives before (since its registration) */
static void
judge_history_observe(const struct scn *scn, const struct report *r1) {
  for (int j = 0; j < r1->nsent; j++) {
    const struct sent *e = &r1->sent[j];
    if (!e->life || e->res < 0)
      continue;
    int since = 0;
    for (int i = 0; i < scn->nops && i <= e->op; i++)
      if (scn->ops[i].t == OP_REG && scn->ops[i].p == e->peer && scn->ops[i].r == e->res)
        since = i;
    for (int i = 0; i < j; i++) {
      const struct sent *b = &r1->sent[i];
      if (b->peer != e->peer || b->res != e->res || b->life >= e->life || b->op < since)
        continue;
      if (!serial_gt(e->obs, b->obs)) {
        vx_fail("observe-not-greater:after-restart:mid-history", "history %s: p%d/%s was sent Observe=%u in life %d, and Observe=%u after the restart (life %d, during operation #%d)",
                scn->name, e->peer, res_names[e->res], b->obs, b->life + 1, e->obs, e->life + 1, e->op);
        return;
      }
    }
  }
}

static void
forward_fails(const struct report *rep, const char *who) {
  for (int i = 0; i < rep->nfail; i++)
    vx_fail(rep->fsig[i], "[%s] %s", who, rep->fmsg[i]);
}

static void
sent_summary(const struct report *rep, char *out, size_t n) {
  size_t o = 0;
  out[0] = 0;
  for (int p = P_1; p <= P_2; p++)
    for (int r = -1; r < NRES; r++) {
      int first = 1;
      for (int i = 0; i < rep->nsent && o + 40 < n; i++) {
        const struct sent *e = &rep->sent[i];
        if (e->peer != p || e->res != r)
          continue;
        if (first)
          o += (size_t)snprintf(out + o, n - o, " p%d/%s:", p, r < 0 ? "?" : res_names[r]);
        o += (size_t)snprintf(out + o, n - o, "%s%u%s", first ? "" : ",", e->obs, e->type == 0 ? "c" : "");
        first = 0;
      }
    }
}

/* judge one restart against what must / may exist */
static void
judge_restart(const struct scn *scn, const struct report *r1, const struct report *r2, const struct pfile final[NFILES],
              const struct model *pre, const struct model *post, int crashed_in, const char *ctx_sig, const char *who) {
  char sig[200], why[80];
  int lost_res[NRES] = {0};
  if (!r2->exists[R_S1])
    vx_fail("harness:static-resource-missing", "s1 missing after restart");
  int nlive = 0;
  for (int d = R_D1; d < NRES; d++)
    nlive += pre->live[d] && post->live[d];
  for (int d = R_D1; d < NRES; d++) {
    int must = pre->live[d] && post->live[d], may = pre->live[d] || post->live[d];
    if (must && !r2->exists[d]) {
      int rank = 1;
      for (int e = R_D1; e < NRES; e++)
        if (e != d && pre->live[e] && post->live[e] && pre->born[e] < pre->born[d])
          rank++;
      explain_loss(r1, F_DYN, 0, d, &final[F_DYN], crashed_in, why, sizeof why);
      snprintf(sig, sizeof sig, "lost-resource:%s", why);
      vx_fail(sig, "%s: dynamic resource %s (created %d%s of %d live ones, not deleted) does not exist after restart; dyn file before restart: %d record(s)",
              who, res_names[d], rank, rank == 1 ? "st" : rank == 2 ? "nd" : "rd", nlive, final[F_DYN].n);
      lost_res[d] = 1;
    } else if (must && r2->get_code[d] != 69) {
      vx_fail("resource-unreachable:after-restart", "%s: %s exists after restart but GET answers code %d", who, res_names[d], r2->get_code[d]);
    } else if (must && scn->mixed && r2->get_code_tcp[d] != 69) {
      vx_fail("resource-unreachable:after-restart:over-tcp", "%s: %s exists after restart and answers a GET over UDP, but a GET over a new TCP connection is answered with code %d",
              who, res_names[d], r2->get_code_tcp[d]);
    } else if (!may && r2->exists[d]) {
      if (pfile_has(F_DYN, &final[F_DYN], 0, d)) {
        explain_stale(r1, F_DYN, 0, d, why, sizeof why);
        snprintf(sig, sizeof sig, "stale-resource:still-in-file:%s", why);
      } else
        snprintf(sig, sizeof sig, "stale-resource:not-in-file");
      vx_fail(sig, "%s: dynamic resource %s was deleted (acknowledged) but exists again after restart", who, res_names[d]);
    }
  }
  /* the TCP observer: its connection died with the process and is not coming back, nothing of it may be restored */
  for (int r = 0; r < NRES; r++)
    if (r2->sub[P_T][r])
      vx_fail("stale-observation:tcp-observer-restored", "%s: %s has a subscriber entry for the TCP peer after restart (its connection ended with the old process)", who,
              res_names[r]);
  for (int p = P_1; p <= P_2; p++)
    for (int r = 0; r < NRES; r++) {
      int must = pre->obs[p][r] && post->obs[p][r], may = pre->obs[p][r] || post->obs[p][r];
      /* notifications of life 2 for this pair */
      int n_ok = 0, n_othertok = 0;
      uint32_t v[4] = {0};
      for (int i = 0; i < r2->nsent; i++) {
        const struct sent *e = &r2->sent[i];
        if (e->peer != p)
          continue;
        if (e->res == r) {
          if (n_ok < 4)
            v[n_ok] = e->obs;
          n_ok++;
        } else if (e->res < 0 && e->during == r)
          n_othertok++;
      }
      if (lost_res[r])
        continue; /* already reported: the resource itself is gone */
      if (must && !n_ok) {
        if (n_othertok || r2->sub[p][r] == 2)
          vx_fail("token-changed", "%s: observer p%d of %s is notified after restart with a token it never used", who, p, res_names[r]);
        else if (r2->sub[p][r] == 1)
          vx_fail("lost-observation:subscriber-not-notified", "%s: p%d/%s has a subscriber entry after restart but no notification was sent", who, p,
                  res_names[r]);
        else {
          explain_loss(r1, F_OBS, p, r, &final[F_OBS], crashed_in, why, sizeof why);
          snprintf(sig, sizeof sig, "lost-observation:%s:%s", r == R_S1 ? "static" : "dynamic", why);
          vx_fail(sig, "%s: observation p%d/%s was active (registered, not cancelled) but the observer gets no notification after restart", who, p,
                  res_names[r]);
        }
      }
      if (!may && (n_ok || r2->sub[p][r])) {
        if (pfile_has(F_OBS, &final[F_OBS], p, r)) {
          explain_stale(r1, F_OBS, p, r, why, sizeof why);
          snprintf(sig, sizeof sig, "stale-observation:still-in-file:%s", why);
        } else
          snprintf(sig, sizeof sig, "stale-observation:not-in-file");
        vx_fail(sig, "%s: observation p%d/%s was cancelled / never made but is notified after restart; obs file before restart: %d record(s)", who, p,
                res_names[r], final[F_OBS].n);
      }
      if (may && n_ok) {
        /* (3) greater than everything this observation was sent before */
        int since = pre->obs[p][r] ? pre->regop[p][r] : post->regop[p][r];
        for (int i = 0; i < r1->nsent; i++) {
          const struct sent *e = &r1->sent[i];
          if (e->peer != p || e->res != r || e->op < since)
            continue;
          if (!serial_gt(v[0], e->obs)) {
            snprintf(sig, sizeof sig, "observe-not-greater:after-restart:%s", ctx_sig);
            vx_fail(sig, "%s: p%d/%s was sent Observe=%u before the kill, first value after restart is %u", who, p, res_names[r], e->obs, v[0]);
            break;
          }
        }
        if (n_ok >= 2 && !serial_gt(v[1], v[0]))
          vx_fail("observe-not-increasing:after-restart", "%s: p%d/%s consecutive values after restart %u then %u", who, p, res_names[r], v[0], v[1]);
      }
    }
}

static void
run(void *arg) {
  const struct scn *scn = arg;
  char dir[300], dir2[300] = "";
  snprintf(dir, sizeof dir, "%s/c17-XXXXXX", vx_scratch_dir());
  if (!mkdtemp(dir)) {
    fprintf(stderr, "VX-HARNESS: mkdtemp-failed\n");
    _exit(99);
  }
  set_dir(dir);
  make_addrs();
  struct report *dry = rep_alloc(), *r1 = NULL, *r2 = rep_alloc(), *r2b = NULL, *r3 = NULL;
  vx_observe("scenario %s", scn->name);
  for (int i = 0; i < scn->nops; i++)
    if (scn->ops[i].t == OP_RST) {
      vx_nontrivial(); /* the history continues on restored state */
      break;
    }

  /* ---- dry run: the crash free life 1 ---- */
  int st, dry_cached = cache_load(scn, dry);
  if (!dry_cached) {
    run_history(scn, dir, 0, dry, 1, "crash-free");
    if (!vx_failed())
      cache_store(scn, dry);
  }
  int N = dry->calls_ops;
  int first = dry->op_first_call[scn->nops - 1];
  vx_observe("history crash free: %d tracked calls, last op makes calls %d..%d, %d updater call-outs, %d calls during graceful stop", N, first, N,
             dry->nupd, dry->ncalls - N);
  int M = scn->bound > 0 && vx_budget_left() > 0 ? (N - first + 1) + 1 : 0;
  int kk = choose_crash(M);
  int die_at = 0;
  if (!kk) {
    if (dry_cached) { /* the files are needed, not only the report (leak verdict: given by the run that filled the cache) */
      memset(dry, 0, offsetof(struct report, blob));
      run_history(scn, dir, 0, dry, 0, "crash-free");
    }
    r1 = dry;
    vx_observe("no kill: graceful coap_persist_stop + coap_free_context");
  } else {
    die_at = first + kk - 1;
    vx_nontrivial();
    wipe_dir(dir, 0);
    r1 = rep_alloc();
    run_history(scn, dir, die_at, r1, 0, "kill"); /* leak verdicts of the earlier lives: given by the crash free run */
    if (r1->died_at != die_at || memcmp(r1->kinds + 1, dry->kinds + 1, (size_t)(die_at <= N ? die_at : N)) || r1->nupd > dry->nupd) {
      fprintf(stderr, "VX-HARNESS: life1-not-deterministic died_at=%d want=%d\n", r1->died_at, die_at);
      _exit(99);
    }
  }
  forward_fails(r1, "history");
  judge_history_observe(scn, r1);

  /* ---- what was acknowledged ---- */
  struct model pre, post;
  memset(&pre, 0, sizeof pre);
  pre.live[R_S1] = 1;
  for (int i = 0; i < r1->ops_done; i++)
    m_apply(&pre, &scn->ops[i], i);
  post = pre;
  if (r1->ops_done < scn->nops)
    m_apply(&post, &scn->ops[r1->ops_done], r1->ops_done);
  int crashed_in = die_at && r1->in_upd ? r1->nupd - 1 : -1;
  char ctx_sig[80] = "crash-free", opname[40] = "-";
  if (die_at) {
    if (r1->ops_done < scn->nops)
      op_str(&scn->ops[r1->ops_done], opname, sizeof opname);
    if (crashed_in >= 0 && (r1->upd[crashed_in].type == U_TRACK || r1->upd[crashed_in].type == U_RES_DELETED))
      snprintf(ctx_sig, sizeof ctx_sig, "crash-in:%s", upd_names[r1->upd[crashed_in].type]); /* the updaters of the counter file */
    vx_observe("kill before tracked call %d (%s) = after call %d; interrupted op #%d %s; interrupted updater %s; acknowledged ops: %d", die_at,
               die_at <= N ? kind_names[dry->kinds[die_at]] : "end-of-history", die_at - 1, r1->ops_done, opname,
               crashed_in >= 0 ? upd_names[r1->upd[crashed_in].type] : "none", r1->ops_done);
  }

  /* ---- (1) the files as the kill left them ---- */
  struct report *fin = rep_alloc();
  struct snap fs;
  take_snap(fin, &fs);
  struct pfile F[NFILES];
  parse_snap(fin, &fs, F);
  char fstr[NFILES][400];
  for (int f = 0; f < NFILES; f++)
    pfile_str(f, &F[f], fstr[f], sizeof fstr[0]);
  vx_observe("files before restart: dyn=%s obs=%s cnt=%s", fstr[F_DYN], fstr[F_OBS], fstr[F_CNT]);
  if (scn->mixed && G) {
    __atomic_fetch_add(&G->mixed_execs, 1, __ATOMIC_RELAXED);
    if (die_at)
      __atomic_fetch_add(&G->mixed_kill_execs, 1, __ATOMIC_RELAXED);
  }
  /* every record carries the transport of its own packet: the loader reads the packet with the framing the label says */
  for (int f = 0; f < NFILES; f++) {
    if (f == F_CNT)
      continue;
    for (int i = 0; i < F[f].n; i++) {
      if (!F[f].rec[i].mislabelled)
        continue;
      const char *by = "unknown";
      int at = -1;
      for (int j = 0; j < r1->nupd && at < 0; j++) { /* the first call-out that left the record like this */
        const struct upd *u = &r1->upd[j];
        if (!u->done) {
          at = j;
          break;
        }
        struct pfile post;
        parse_file(f, r1->blob + u->post.off[f], u->post.len[f], &post);
        for (int k = 0; k < post.n; k++)
          if (post.rec[k].mislabelled && !strcmp(post.rec[k].name, F[f].rec[i].name))
            at = j;
      }
      char sig[200], opn[40] = "-";
      if (at >= 0) {
        by = upd_names[r1->upd[at].type];
        if (r1->upd[at].op >= 0 && r1->upd[at].op < scn->nops)
          op_str(&scn->ops[r1->upd[at].op], opn, sizeof opn);
      }
      snprintf(sig, sizeof sig, "mislabelled-proto:%s:%s", file_names[f], by);
      vx_fail(sig, "history %s: %s file is %s: record %d (%s) is labelled %s but its stored packet has the framing of the other transport family (the loader will not read it); "
                   "first like that after call-out %s of operation #%d %s",
              scn->name, file_names[f], fstr[f], i + 1, F[f].rec[i].name, F[f].rec[i].stream ? "TCP" : "UDP", by, at >= 0 ? r1->upd[at].op : -1, opn);
      break;
    }
  }
  const char *where = "no-kill";
  const char *ckind = die_at && die_at <= N ? kind_names[dry->kinds[die_at]] : "end";
  if (crashed_in >= 0) {
    const struct upd *ud = &dry->upd[crashed_in];
    if (ud->type != r1->upd[crashed_in].type || !ud->done) {
      fprintf(stderr, "VX-HARNESS: updater-mismatch\n");
      _exit(99);
    }
    struct pfile A[NFILES], B[NFILES];
    parse_snap(dry, &ud->pre, A);
    parse_snap(dry, &ud->post, B);
    int all_pre = 1, all_post = 1;
    for (int f = 0; f < NFILES; f++) {
      char sig[200], a[300], b[300];
      int is_pre = pfile_eq(&F[f], &A[f]), is_post = pfile_eq(&F[f], &B[f]);
      all_pre &= is_pre;
      all_post &= is_post;
      if (is_pre || is_post)
        continue;
      pfile_str(f, &A[f], a, sizeof a);
      pfile_str(f, &B[f], b, sizeof b);
      snprintf(sig, sizeof sig, "%s:%s:%s@%s", F[f].torn ? "torn" : (F[f].n == 0 && A[f].n > 0) ? "emptied" : "mixed", file_names[f],
               upd_names[ud->type], ckind);
      vx_fail(sig, "history %s, kill before tracked call %d (%s, the %d. call of updater %s during %s): %s file is %s; before the update it was %s, the uninterrupted update leaves %s",
              scn->name, die_at, ckind, die_at - ud->call_in + 1, upd_names[ud->type], opname, file_names[f], fstr[f], a, b);
    }
    where = all_pre ? "pre" : all_post ? "post" : "between";
  } else {
    for (int f = 0; f < NFILES; f++)
      if (F[f].torn) {
        char sig[200];
        snprintf(sig, sizeof sig, "torn:%s:%s", file_names[f], die_at ? "kill-between-updates" : "crash-free");
        vx_fail(sig, "history %s: %s file does not parse: %s", scn->name, file_names[f], F[f].why);
      }
    if (dry->nupd) { /* nothing may touch the files outside the call-outs (graceful stop included) */
      struct pfile L[NFILES];
      parse_snap(dry, &dry->upd[dry->nupd - 1].post, L);
      for (int f = 0; f < NFILES; f++)
        if (!pfile_eq(&F[f], &L[f]) && !F[f].torn) {
          char sig[200];
          snprintf(sig, sizeof sig, "changed-outside-update:%s:%s", file_names[f], die_at ? "kill-at-end" : "graceful-stop");
          vx_fail(sig, "history %s: %s file is %s but the last persistence call-out left something else", scn->name, file_names[f], fstr[f]);
        }
    }
    where = die_at ? "end" : "no-kill";
  }

  /* ---- (2)+(3): restart ---- */
  if (scn->lives >= 3) {
    snprintf(dir2, sizeof dir2, "%s/c17b-XXXXXX", vx_scratch_dir());
    if (!mkdtemp(dir2)) {
      fprintf(stderr, "VX-HARNESS: mkdtemp-failed\n");
      _exit(99);
    }
    copy_dir(dir, dir2);
  }
  /* The restart is a function of the directory.  All kills inside one updater that leave every file in its
   * pre-update state start the restart from the same directory: the restart runs for each of them, its (expensive)
   * LeakSanitizer pass only for the first. */
  g_leakcheck = !(crashed_in >= 0 && !strcmp(where, "pre") && die_at != r1->upd[crashed_in].call_in);
  st = run_life(1, scn, dir, 0, r2);
  g_leakcheck = 1;
  helper_must(st, 0, r2, "life2(restart)");
  forward_fails(r2, "life 2");
  char ss[600];
  sent_summary(r1, ss, sizeof ss);
  vx_observe("Observe values sent in the history:%s", ss[0] ? ss : " none");
  sent_summary(r2, ss, sizeof ss);
  vx_observe("after restart: exists s1=%d d1=%d d2=%d d3=%d; notifications:%s", r2->exists[0], r2->exists[1], r2->exists[2], r2->exists[3],
             ss[0] ? ss : " none");
  if (scn->mixed) {
    vx_observe("peer t in the history: %d connection(s), %d notification(s) read; after restart a new TCP connection GETs: s1=%d d1=%d d2=%d d3=%d", r1->tcp_conns,
               r1->tcp_notifs, r2->get_code_tcp[0], r2->get_code_tcp[1], r2->get_code_tcp[2], r2->get_code_tcp[3]);
    if (G)
      for (int d = R_D1; d < NRES; d++)
        if (r2->exists[d] && r2->get_code_tcp[d] == 69)
          __atomic_fetch_add(&G->tcp_probes_ok, 1, __ATOMIC_RELAXED);
  }
  int before = vx_failed();
  judge_restart(scn, r1, r2, F, &pre, &post, crashed_in, ctx_sig, "restart");

  /* ---- optional: a kill during the restart itself, judged by a second restart ---- */
  if (scn->lives >= 3) {
    int M2 = vx_budget_left() > 0 ? r2->startup_calls + 1 : 0; /* before each call of the startup, and right after it */
    int k2 = choose_crash(M2);
    if (k2) {
      vx_nontrivial();
      if (scn->mixed && G)
        __atomic_fetch_add(&G->mixed_restart_kill_execs, 1, __ATOMIC_RELAXED);
      r2b = rep_alloc();
      r3 = rep_alloc();
      set_dir(dir2);
      st = run_life(1, scn, dir2, k2, r2b);
      helper_must(st, 1, r2b, "life2(kill)");
      struct report *fin2 = rep_alloc();
      struct snap fs2;
      take_snap(fin2, &fs2);
      struct pfile G[NFILES];
      parse_snap(fin2, &fs2, G);
      char g[NFILES][400];
      for (int f = 0; f < NFILES; f++)
        pfile_str(f, &G[f], g[f], sizeof g[0]);
      const char *k2kind = k2 <= r2->startup_calls ? kind_names[r2->kinds[k2]] : "end-of-startup";
      vx_observe("restart killed before its tracked call %d (%s); files: dyn=%s obs=%s cnt=%s", k2, k2kind, g[F_DYN], g[F_OBS], g[F_CNT]);
      for (int f = 0; f < NFILES; f++) {
        char sig[200];
        if (G[f].torn) {
          snprintf(sig, sizeof sig, "torn:%s:startup@%s", file_names[f], k2kind);
          vx_fail(sig, "history %s, restart killed before its tracked call %d (%s): %s file does not parse: %s", scn->name, k2, k2kind,
                  file_names[f], G[f].why);
        } else if (G[f].n == 0 && F[f].n > 0 && f != F_CNT) {
          /* obs may legitimately shrink to the restorable subset; it may not become empty if something is restorable */
          int restorable = 0;
          for (int i = 0; i < F[f].n; i++)
            if (f == F_DYN || (F[f].rec[i].res >= 0 && (F[f].rec[i].res == R_S1 || pfile_has(F_DYN, &F[F_DYN], 0, F[f].rec[i].res))))
              restorable++;
          if (restorable) {
            snprintf(sig, sizeof sig, "emptied:%s:startup@%s", file_names[f], k2kind);
            vx_fail(sig, "history %s, restart killed before its tracked call %d (%s): %s file is empty, it had %d restorable record(s)", scn->name, k2,
                    k2kind, file_names[f], restorable);
          }
        }
      }
      st = run_life(1, scn, dir2, 0, r3);
      helper_must(st, 0, r3, "life3(restart)");
      forward_fails(r3, "life 3");
      sent_summary(r3, ss, sizeof ss);
      vx_observe("after second restart: exists s1=%d d1=%d d2=%d d3=%d; notifications:%s", r3->exists[0], r3->exists[1], r3->exists[2],
                 r3->exists[3], ss[0] ? ss : " none");
      /* only new information is interesting: skip when the first restart already failed */
      if (vx_failed() == before) {
        char c2[100];
        snprintf(c2, sizeof c2, "kill-in-restart");
        judge_restart(scn, r1, r3, G, &pre, &post, crashed_in, c2, "second restart (first restart was killed)");
      }
      rep_free(fin2);
      set_dir(dir);
    }
  }
  vx_outcome("%s;%s", where, vx_failed() ? "fail" : "ok");

  wipe_dir(dir, 1);
  if (dir2[0])
    wipe_dir(dir2, 1);
  rep_free(fin);
  if (r1 != dry)
    rep_free(r1);
  rep_free(dry);
  rep_free(r2);
  rep_free(r2b);
  rep_free(r3);
}

/* ================================================================================================ */
/* history enumeration: all well-formed sequences over Sigma, modulo renaming of d1<->d2 and p1<->p2 */
static int chg_counts[3], n_chg_counts;

struct gen {
  int live[NRES], ever[NRES];
  int obs[NPEER][NRES];
  int peer_seen[NPEER];
  int nreal, nrst, nkill; /* operations / restart markers / restart markers that are kills so far */
};
static void
emit(const struct op *ops, int n, int f, int bound, int lives) {
  if (nscn == capscn) {
    capscn = capscn ? capscn * 2 : 1024;
    scns = realloc(scns, sizeof *scns * (size_t)capscn);
  }
  struct scn *s = &scns[nscn++];
  memset(s, 0, sizeof *s);
  s->f = f;
  s->nops = n;
  s->bound = bound;
  s->lives = lives;
  memcpy(s->ops, ops, sizeof *ops * (size_t)n);
  size_t o = (size_t)snprintf(s->name, sizeof s->name, "c17:f=%d,L=%d,B=%d:", f, lives, bound);
  for (int i = 0; i < n; i++) {
    char b[40];
    op_str(&ops[i], b, sizeof b);
    o += (size_t)snprintf(s->name + o, sizeof s->name - o, "%s%s", i ? ";" : "", b);
  }
}
static int gen_depth, gen_f;
static int gen_rst_depth, gen_rst_max, gen_rst_kill_depth; /* histories with restart markers: operations, markers, operations when a marker is a kill */
static int (*gen_policy)(const struct op *ops, int n, int *bound, int *lives);
static void
gen_rec(struct gen *g, struct op *ops, int n) {
  if (n && ops[n - 1].t != OP_RST) { /* a restart as the last thing is the judged restart itself */
    int bound = 1, lives = 2;
    if (gen_policy(ops, n, &bound, &lives))
      emit(ops, n, gen_f, bound, lives);
  }
  struct gen sv = *g;
  /* restart between two operations: graceful stop or kill, then coap_persist_startup in a fresh process; the state carries over */
  if (n && ops[n - 1].t != OP_RST && g->nrst < gen_rst_max) {
    for (int k = 0; k < 2; k++) {
      if (g->nreal >= (k || g->nkill ? gen_rst_kill_depth : gen_rst_depth))
        continue; /* no room for an operation after it */
      g->nrst++;
      g->nkill += k;
      ops[n] = (struct op){OP_RST, 0, 0, (uint16_t)k};
      gen_rec(g, ops, n + 1);
      *g = sv;
    }
  }
  if (g->nreal >= (g->nkill ? gen_rst_kill_depth : g->nrst ? gen_rst_depth : gen_depth))
    return;
  g->nreal++;
  sv = *g;
  /* put */
  for (int d = R_D1; d < NRES; d++) {
    if (g->live[d])
      continue;
    if (d == R_D2 && !g->ever[R_D1])
      continue; /* names are introduced in order (renaming symmetry) */
    if (d == R_D3 && !(g->ever[R_D1] && g->ever[R_D2]))
      continue;
    g->live[d] = g->ever[d] = 1;
    ops[n] = (struct op){OP_PUT, 0, (uint8_t)d, 0};
    gen_rec(g, ops, n + 1);
    *g = sv;
  }
  /* del */
  for (int d = R_D1; d < NRES; d++) {
    if (!g->live[d])
      continue;
    g->live[d] = 0;
    for (int p = 0; p < NPEER; p++)
      g->obs[p][d] = 0;
    ops[n] = (struct op){OP_DEL, 0, (uint8_t)d, 0};
    gen_rec(g, ops, n + 1);
    *g = sv;
  }
  /* reg / cancel */
  for (int p = P_1; p <= P_2; p++)
    for (int r = R_S1; r <= R_D2; r++) {
      if (!g->live[r])
        continue;
      if (p == P_2 && !g->peer_seen[P_1])
        continue; /* observers are introduced in order */
      if (!g->obs[p][r]) {
        g->obs[p][r] = 1;
        g->peer_seen[p] = 1;
        ops[n] = (struct op){OP_REG, (uint8_t)p, (uint8_t)r, 0};
      } else {
        g->obs[p][r] = 0;
        ops[n] = (struct op){OP_CAN, (uint8_t)p, (uint8_t)r, 0};
      }
      gen_rec(g, ops, n + 1);
      *g = sv;
    }
  /* chg: only where somebody observes (otherwise libcoap does nothing at all) */
  for (int r = R_S1; r <= R_D2; r++) {
    if (!g->live[r] || !(g->obs[P_1][r] || g->obs[P_2][r]))
      continue;
    for (int c = 0; c < n_chg_counts; c++) {
      ops[n] = (struct op){OP_CHG, 0, (uint8_t)r, (uint16_t)chg_counts[c]};
      gen_rec(g, ops, n + 1);
      *g = sv;
    }
  }
}
static void
generate(int f, int depth, int (*policy)(const struct op *, int, int *, int *)) {
  gen_f = f;
  gen_depth = depth;
  gen_policy = policy;
  n_chg_counts = 0;
  int cand[3] = {1, f, f + 1};
  for (int i = 0; i < 3; i++) {
    int dup = 0;
    for (int j = 0; j < n_chg_counts; j++)
      dup |= chg_counts[j] == cand[i];
    if (!dup)
      chg_counts[n_chg_counts++] = cand[i];
  }
  struct gen g;
  memset(&g, 0, sizeof g);
  g.live[R_S1] = g.ever[R_S1] = 1;
  struct op ops[MAXOPS];
  gen_rec(&g, ops, 0);
}

/* ================================================================================================ */
/* the mixed-transport family: an explicit list (a transport flag per operation breaks the d1<->d2 renaming the generator
 * above divides by, so nothing of this goes through it; every name order is written out instead)   */
#define PUT(r, x) ((struct op){OP_PUT, 0, (uint8_t)(r), 0, (uint8_t)(x)})
#define DEL(r, x) ((struct op){OP_DEL, 0, (uint8_t)(r), 0, (uint8_t)(x)})
#define REG(p, r) ((struct op){OP_REG, (uint8_t)(p), (uint8_t)(r), 0, (p) == P_T})
#define CAN(p, r) ((struct op){OP_CAN, (uint8_t)(p), (uint8_t)(r), 0, (p) == P_T})
#define CHG(r, c) ((struct op){OP_CHG, 0, (uint8_t)(r), (uint16_t)(c), 0})
#define RST(k) ((struct op){OP_RST, 0, 0, (uint16_t)(k), 0})
static int n_mixed;
static void
emit_mixed(const struct op *ops, int n, int f, int bound, int lives) {
  int any = 0;
  for (int i = 0; i < n; i++)
    any |= ops[i].x;
  if (!any || n > MAXOPS) {
    fprintf(stderr, "mixed-transport family: bad history\n");
    exit(2);
  }
  emit(ops, n, f, bound, lives);
  for (int i = 0; i < nscn - 1; i++)
    if (!strcmp(scns[i].name, scns[nscn - 1].name)) { /* listed twice */
      nscn--;
      return;
    }
  scns[nscn - 1].mixed = 1;
  n_mixed++;
}
/* explicit family "counters": two observed resources (one static, one dynamic), changes on each of them in both orders so that the
 * counter file is rewritten for a resource that is not the last one listed, then the judged restart (and, within the bound, a kill
 * at every tracked call of the last life): the first Observe value after the restart must exceed the last one sent, for both */
static int n_counters;
static void
counters_family(int thorough) {
  static const int freqs[3] = {1, 2, 10};
  for (int fi = 0; fi < (thorough ? 3 : 2); fi++)
    for (int o = 0; o < 2; o++) {
      int a = o ? R_D1 : R_S1, b = o ? R_S1 : R_D1;
      struct op h[MAXOPS];
      int n = 0;
      h[n++] = PUT(R_D1, 0);
      h[n++] = REG(P_1, R_S1);
      h[n++] = REG(P_1, R_D1);
      h[n++] = CHG(a, 1);
      h[n++] = CHG(b, 1);
      h[n++] = CHG(a, 2);
      emit(h, n, freqs[fi], 1, 2);
      n_counters++;
      h[n++] = CHG(b, 1);
      if (n <= MAXOPS) {
        emit(h, n, freqs[fi], thorough ? 1 : 0, 2);
        n_counters++;
      }
    }
}

static void
mixed_family(int thorough) {
  static const int freqs[3] = {1, 2, 10};
  struct op b[MAXOPS], h[MAXOPS];
  /* --- creation over both transports, every order --- */
  struct {
    int n;
    struct op ops[3];
  } base[64];
  int nbase = 0;
  static const int two[2][2] = {{R_D1, R_D2}, {R_D2, R_D1}};
  for (int o = 0; o < 2; o++)
    for (int x = 1; x < 4; x++) { /* bit i = operation i over TCP: TU, UT, TT */
      base[nbase].n = 2;
      for (int i = 0; i < 2; i++)
        base[nbase].ops[i] = PUT(two[o][i], x >> i & 1);
      nbase++;
    }
  base[nbase].n = 1; /* (a single creation over TCP: the record alone in the file) */
  base[nbase].ops[0] = PUT(R_D1, 1);
  nbase++;
  int n2 = nbase; /* the short bases */
  static const int perm[6][3] = {{R_D1, R_D2, R_D3}, {R_D1, R_D3, R_D2}, {R_D2, R_D1, R_D3}, {R_D2, R_D3, R_D1}, {R_D3, R_D1, R_D2}, {R_D3, R_D2, R_D1}};
  for (int o = 0; o < 6; o++) { /* all orders of {d1 over TCP, d2 over UDP, d3 over UDP} */
    base[nbase].n = 3;
    for (int i = 0; i < 3; i++)
      base[nbase].ops[i] = PUT(perm[o][i], perm[o][i] == R_D1);
    nbase++;
  }
  int n3perm = nbase;
  for (int x = 2; x < 8; x++) { /* d1, d2, d3 in this order, every other assignment of transports that uses TCP */
    base[nbase].n = 3;
    for (int i = 0; i < 3; i++)
      base[nbase].ops[i] = PUT(R_D1 + i, x >> i & 1);
    nbase++;
  }
  for (int k = 0; k < nbase; k++) {
    int n = base[k].n, rt = -1, ru = -1, first = base[k].ops[0].r;
    if (!thorough && k >= n3perm)
      break;
    memcpy(b, base[k].ops, sizeof b[0] * (size_t)n);
    for (int i = 0; i < n; i++) {
      if (b[i].x && rt < 0)
        rt = b[i].r;
      if (!b[i].x && ru < 0)
        ru = b[i].r;
    }
    if (ru < 0)
      ru = R_S1;
    /* the creations, then stop or kill (kill points of the last creation, kill in the restart) and restart */
    emit_mixed(b, n, 1, thorough && k < n2 ? 2 : 1, thorough || k < n2 ? 3 : 2);
    /* ... then the first created resource is deleted, over either transport */
    for (int x = 0; x < 2; x++) {
      memcpy(h, b, sizeof b[0] * (size_t)n);
      h[n] = DEL(first, x);
      if (thorough || k < n2)
        emit_mixed(h, n + 1, 1, 1, thorough ? 3 : 2);
    }
    /* ... then a UDP observer registers on a TCP-created and on a UDP-created resource (either order) */
    for (int fi = 0; fi < 3; fi++) {
      int f = freqs[fi];
      if (!thorough && f != 10)
        continue;
      for (int ord = 0; ord < 2; ord++) {
        if (!thorough && ord && k >= n2)
          continue;
        for (int m = -1; m < 2; m++) { /* no restart in between / stop+restart / kill+restart before the registrations */
          if (!thorough && m == 0 && k >= n2)
            continue;
          int j = n;
          memcpy(h, b, sizeof b[0] * (size_t)n);
          if (m >= 0)
            h[j++] = RST(m);
          h[j++] = REG(P_1, ord ? ru : rt);
          h[j++] = REG(P_1, ord ? rt : ru);
          emit_mixed(h, j, f, 1, thorough && m < 0 ? 3 : 2);
          if (thorough && m >= 0) { /* and the restored resources are changed once more in a third life */
            h[j++] = RST(0);
            h[j++] = CHG(rt, 1);
            emit_mixed(h, j, f, 1, 2);
          }
        }
      }
    }
  }
  /* --- the TCP peer observes next to a UDP observer: its requests rewrite the file that holds the UDP observer's record --- */
  for (int fi = 0; fi < 3; fi++) {
    int f = freqs[fi], L = thorough ? 3 : 2, n;
    /* (quick: save_freq 10, and the histories with changes for save_freq 1 as well) */
#define H(...)                                                                                                         \
  do {                                                                                                                 \
    struct op l_[] = {__VA_ARGS__};                                                                                    \
    int chg_ = 0;                                                                                                      \
    n = (int)(sizeof l_ / sizeof l_[0]);                                                                               \
    for (int i_ = 0; i_ < n; i_++)                                                                                     \
      chg_ |= l_[i_].t == OP_CHG;                                                                                      \
    if (thorough || f == 10 || (f == 1 && chg_))                                                                       \
      emit_mixed(l_, n, f, 1, L);                                                                                      \
  } while (0)
    H(REG(P_T, R_S1));
    H(REG(P_T, R_S1), CHG(R_S1, 1));
    H(REG(P_T, R_S1), CAN(P_T, R_S1));
    H(REG(P_1, R_S1), REG(P_T, R_S1));
    H(REG(P_T, R_S1), REG(P_1, R_S1));
    H(REG(P_1, R_S1), REG(P_T, R_S1), CAN(P_T, R_S1));
    H(REG(P_T, R_S1), REG(P_1, R_S1), CAN(P_T, R_S1));
    H(REG(P_1, R_S1), REG(P_T, R_S1), CAN(P_1, R_S1));
    H(REG(P_1, R_S1), REG(P_T, R_S1), CHG(R_S1, 1));
    H(REG(P_1, R_S1), REG(P_T, R_S1), CHG(R_S1, f + 1));
    H(REG(P_1, R_S1), REG(P_2, R_S1), REG(P_T, R_S1), CAN(P_T, R_S1));
    L = 2;
    for (int k = 0; k < 2; k++) { /* the TCP connection ends with the server process, the UDP observation goes on */
      H(REG(P_1, R_S1), REG(P_T, R_S1), RST(k), CHG(R_S1, 1));
      H(REG(P_1, R_S1), REG(P_T, R_S1), RST(k), REG(P_T, R_S1));
      H(REG(P_1, R_S1), REG(P_T, R_S1), RST(k), REG(P_T, R_S1), CAN(P_T, R_S1));
    }
    H(PUT(R_D1, 1), REG(P_1, R_D1), REG(P_T, R_D1), CAN(P_T, R_D1));
    H(PUT(R_D1, 0), REG(P_1, R_D1), REG(P_T, R_D1), CAN(P_T, R_D1));
    H(PUT(R_D1, 1), REG(P_T, R_D1), REG(P_1, R_D1), DEL(R_D1, 1));
    H(PUT(R_D1, 1), REG(P_T, R_D1), REG(P_1, R_D1), DEL(R_D1, 0));
    H(PUT(R_D1, 0), PUT(R_D2, 1), REG(P_1, R_D1), REG(P_T, R_D2), DEL(R_D2, 1));
    H(PUT(R_D1, 1), PUT(R_D2, 0), REG(P_1, R_D1), REG(P_T, R_D1), REG(P_1, R_D2), CAN(P_T, R_D1));
#undef H
  }
}

static int T_full_depth, T_free_depth, T_lives3_depth, T_double_depth, T_deldeep_depth = 6;
static int T_rst_full_depth, T_rst_free_depth, T_rst_lives3_depth, T_rst_kill_depth, T_rst2_depth, T_rst2_kill;
static int
policy(const struct op *ops, int n, int *bound, int *lives) {
  int nrst = 0, nkill = 0;
  for (int i = 0; i < n; i++)
    if (ops[i].t == OP_RST) {
      nrst++;
      nkill += ops[i].c != 0;
    }
  if (nrst) { /* histories that continue after a restart: depth = number of operations, the markers not counted */
    n -= nrst;
    if (nrst > 1 && (n > T_rst2_depth || (nkill && !T_rst2_kill)))
      return 0;
    if (nkill && n > T_rst_kill_depth)
      return 0;
    if (n <= T_rst_lives3_depth) {
      *bound = 1; /* a kill in the last operation or a kill in the judged restart */
      *lives = 3;
    } else if (n <= T_rst_full_depth) {
      *bound = 1;
      *lives = 2;
    } else if (n <= T_rst_free_depth) {
      *bound = 0;
      *lives = 2;
    } else
      return 0;
    return 1;
  }
  if (n > T_full_depth && n <= T_deldeep_depth && ops[n - 1].t == OP_DEL && gen_f == 10) {
    /* deeper family: only put / reg operations (optionally one change of another resource just before), then the deletion of a resource while another resource is observed, with
     * the kill points of that deletion (the deletion updates all three files; records of other resources must survive
     * whichever of its renames is the last one made) */
    int ok = 1, regs_other = 0;
    for (int i = 0; i < n - 1; i++) {
      if (ops[i].t != OP_PUT && ops[i].t != OP_REG && !(ops[i].t == OP_CHG && i == n - 2 && ops[i].r != ops[n - 1].r && ops[i].c == 1))
        ok = 0;
      if (ops[i].r == R_D3 || (ops[i].t == OP_REG && ops[i].p != P_1))
        ok = 0; /* two dynamic resources and one observer are enough for this family */
      if (ops[i].t == OP_REG && ops[i].r != ops[n - 1].r)
        regs_other++;
    }
    if (ok && regs_other) {
      *bound = 1;
      *lives = 2;
      return 1;
    }
  }
  if (n <= T_double_depth) {
    *bound = 2; /* a kill in life 1 and a kill in the restart */
    *lives = 3;
  } else if (n <= T_lives3_depth) {
    *bound = 1; /* a kill in life 1 or a kill in the restart */
    *lives = 3;
  } else if (n <= T_full_depth) {
    *bound = 1;
    *lives = 2;
  } else if (n <= T_free_depth) {
    *bound = 0; /* restoration over all histories, no kill */
    *lives = 2;
  } else
    return 0;
  return 1;
}

int
main(int argc, char **argv) {
  vx_main_init(argc, argv, "C17");
  int Tq = vx_is_thorough();
  T_full_depth = Tq ? 4 : 3;
  T_free_depth = Tq ? 5 : 3;
  T_lives3_depth = Tq ? 3 : 2;
  T_double_depth = Tq ? 2 : 1;
  const char *e;
  if ((e = getenv("C17_FULL_DEPTH")))
    T_full_depth = atoi(e);
  if ((e = getenv("C17_FREE_DEPTH")))
    T_free_depth = atoi(e);
  if ((e = getenv("C17_LIVES3_DEPTH")))
    T_lives3_depth = atoi(e);
  if ((e = getenv("C17_DOUBLE_DEPTH")))
    T_double_depth = atoi(e);
  /* histories with a restart between two operations (depths count the operations, not the restart markers) */
  T_rst_full_depth = Tq ? 3 : 2;   /* kill points in the last operation */
  T_rst_free_depth = Tq ? 4 : 3;   /* no kill after the mid-history restart */
  T_rst_lives3_depth = Tq ? 2 : 0; /* kill in the judged restart as well */
  T_rst_kill_depth = Tq ? 4 : 3;   /* the mid-history restart may follow a kill between two operations instead of a graceful stop */
  T_rst2_depth = 3;                /* two mid-history restarts (needs 3 operations: one before, between and after) */
  if ((e = getenv("C17_RST_FULL_DEPTH")))
    T_rst_full_depth = atoi(e);
  if ((e = getenv("C17_RST_FREE_DEPTH")))
    T_rst_free_depth = atoi(e);
  if ((e = getenv("C17_RST_LIVES3_DEPTH")))
    T_rst_lives3_depth = atoi(e);
  if ((e = getenv("C17_RST_KILL_DEPTH")))
    T_rst_kill_depth = atoi(e);
  T_rst2_kill = Tq;                /* ... of which some may be kill+restart */
  if ((e = getenv("C17_RST2_DEPTH")))
    T_rst2_depth = atoi(e);
  if ((e = getenv("C17_RST2_KILL")))
    T_rst2_kill = atoi(e);
  static const int freqs[3] = {1, 2, 10};
  int maxd = T_full_depth > T_free_depth ? T_full_depth : T_free_depth;
  if (maxd < T_deldeep_depth)
    maxd = T_deldeep_depth;
  gen_rst_depth = T_rst_full_depth > T_rst_free_depth ? T_rst_full_depth : T_rst_free_depth;
  gen_rst_kill_depth = T_rst_kill_depth < gen_rst_depth ? T_rst_kill_depth : gen_rst_depth;
  gen_rst_max = gen_rst_depth < 2 ? 0 : T_rst2_depth >= 3 ? 2 : 1;
  if (gen_rst_depth + gen_rst_max > MAXOPS || maxd > MAXOPS) {
    fprintf(stderr, "depths exceed MAXOPS\n");
    return 2;
  }
  for (int fi = 0; fi < 3; fi++)
    generate(freqs[fi], maxd, policy);
  if (!getenv("C17_NO_MIXED"))
    mixed_family(Tq);
  counters_family(Tq);
  vx_ev_int("histories_counters_family", n_counters);
  if (getenv("C17_ONLY_MIXED")) { /* experiments: the mixed-transport family alone */
    int k = 0;
    for (int i = 0; i < nscn; i++)
      if (scns[i].mixed)
        scns[k++] = scns[i];
    nscn = k;
  }
  G = mmap(NULL, sizeof *G, PROT_READ | PROT_WRITE, MAP_SHARED | MAP_ANONYMOUS, -1, 0);
  if (G == MAP_FAILED)
    G = NULL;
  /* stable sort by depth so that the first counterexample found for a signature is a short history */
  {
    struct scn *tmp = malloc(sizeof *tmp * (size_t)nscn);
    int k = 0;
    for (int d = 1; d <= MAXOPS; d++)
      for (int i = 0; i < nscn; i++)
        if (scns[i].nops == d)
          tmp[k++] = scns[i];
    memcpy(scns, tmp, sizeof *tmp * (size_t)nscn);
    free(tmp);
  }
  {
    static char rule[6000];
    snprintf(rule, sizeof rule,
             "histories = all well-formed operation sequences over {put(d1..d3), del, reg(p1|p2, s1|d1|d2), cancel, chg(r) x {1,f,f+1}} up to the "
             "tier's depth (names and observers introduced in order = modulo renaming; chg only where somebody observes), save_freq f in {1,2,10}; "
             "each history runs on a real libcoap server (unknown-resource PUT handler as in examples/coap-server.c, coap_persist_startup) in its "
             "own process; crash points = a kill before every tracked stdio/rename/remove call of the history's last operation plus after the last "
             "call (kills in earlier operations are the crash points of the shorter history), then restart in a fresh process; short histories "
             "additionally kill the restart itself before each of its calls and restart again; "
             "restart-free histories: kill points up to %d operations (kill in the judged restart up to %d, in both up to %d), kill-free up to %d, plus the "
             "family 'put / reg operations only, optionally one change of another resource, then a deletion while another resource is observed' (save_freq 10, resources s1/d1/d2, one observer) with the deletion's kill points up to 6 operations; "
             "histories that CONTINUE after a restart: a marker between two operations (never first or last) ends the server process - "
             "stop+restart = coap_persist_stop + coap_free_context, kill+restart = process death between two operations - and "
             "the next operations run in a fresh process after coap_persist_startup on the same three files, on the restored resources / "
             "observations (same peers, same tokens); the reference of acknowledged state, the Observe values on the wire and the file snapshots "
             "around every call-out and around every loader run carry across all lives; the last operation has the kill points and the final "
             "restart is judged as before, plus: every Observe value sent after a mid-history restart is greater than all sent to that "
             "observation in earlier lives; with one marker at every position: kill points in the last operation up to %d operations (marker "
             "not counted; plus kill in the judged restart up to %d), kill-free up to %d; kill+restart markers up to %d operations; two markers "
             "up to %d operations (0 = none in this tier)%s; LeakSanitizer runs at the graceful end of the last life (a life ending at a "
             "stop+restart marker is the last life of the shorter enumerated history); not enumerated: a kill INSIDE an operation or inside the loader followed by further "
             "operations (only by the judged restart); non-trivial = a kill happened or the history continued after a restart; distinct = distinct logs; "
             "TRANSPORTS: the server listens on UDP and TCP (same address); the histories above are all-UDP (the generator's renaming reduction "
             "d1<->d2, p1<->p2 is only sound without per-operation attributes, so nothing with a transport flag goes through it); the explicit family "
             "'mixed-transport' (%d histories in this tier, every name order written out) sends put / del / reg / cancel over UDP or over a raw RFC 8323 TCP "
             "connection (peer t: connect, CSM exchange, one connection per server process): (a) one dynamic resource over TCP, 2 dynamic resources in both name orders x transports "
             "{TCP-UDP, UDP-TCP, TCP-TCP}, all 6 orders of {d1 over TCP, d2 over UDP, d3 over UDP}%s, each followed by stop-or-kill and restart with "
             "the kill points of the last creation and the kill points of the restart itself (thorough: 1- and 2-resource bases also a kill in both), by a "
             "deletion of the first created resource over either transport, and by a UDP observer registering on a TCP-created and on a UDP-created "
             "resource (both orders; directly, after stop+restart, after kill+restart%s; save_freq %s; quick: 3-resource bases without the kill in the restart, without the deletion, registrations in one order and without the stop+restart variant); (b) peer t observes next to UDP "
             "observers (reg / cancel / resource deletion over TCP rewrite the observe file that holds the UDP observers' records; t's connection ends "
             "at a stop+restart or kill+restart marker); after the judged restart of every mixed-transport history a new TCP connection GETs every "
             "resource; the independent reader of the files reads each stored packet with the framing of the record's transport label (RFC 7252 "
             "datagram / RFC 8323 stream) and requires, in the dynamic-resource file, a request for the Uri-Path the record names",
             T_full_depth, T_lives3_depth, T_double_depth, T_free_depth, T_rst_full_depth, T_rst_lives3_depth, T_rst_free_depth,
             T_rst_kill_depth < gen_rst_depth ? T_rst_kill_depth : gen_rst_depth, gen_rst_max >= 2 ? T_rst2_depth : 0,
             T_rst2_kill ? "" : ", both stop+restart", n_mixed, Tq ? ", and d1,d2,d3 in order with every assignment of transports that uses TCP" : "",
             Tq ? "; then stop+restart and a change in a third life" : "", Tq ? "1, 2, 10" : "10 (and 1 for the histories of (b) with changes)");
    vx_ev_rule(rule);
  }
  vx_ev_assumption("a kill loses user-space stdio buffers and keeps every completed system call (process death, not power loss: no fsync modelling)");
  vx_ev_assumption("observers whose observation must survive are UDP peers that acknowledge Confirmable notifications; no OSCORE, no Block2 in the registration request");
  vx_ev_assumption("the TCP peer's observations are NOT expected to be re-established: a TCP connection does not survive the server process and libcoap does not "
                   "persist observations of stream sessions; the model ends them at every restart, and a subscriber entry for the TCP peer after a restart is a failure; "
                   "TCP is plain (no TLS, no WebSockets), one connection per server process, default CSM (no options)");
  vx_ev_assumption("crash-free executions end with coap_persist_stop() + coap_free_context() as coap_persist(3) prescribes");
  vx_ev_assumption("every incarnation of the server is a fresh process with the same static resource, endpoint address and save_freq; subscription "
                   "addresses (the keys of the observe file) differ between incarnations, as with real processes");
  for (int i = 0; i < nscn; i++)
    if (vx_replay_if_match(scns[i].name, run, &scns[i]))
      return 0;
  if (vx_replay_path()) {
    fprintf(stderr, "replay file does not match any scenario\n");
    return 2;
  }
  struct vx_config *vcs = calloc((size_t)nscn, sizeof *vcs);
  void **args = calloc((size_t)nscn, sizeof *args);
  int byd[MAXOPS + 1] = {0}, byd_rst[MAXOPS + 1] = {0}, n_rst = 0, n_rst2 = 0, n_rstk = 0;
  for (int i = 0; i < nscn; i++) {
    vcs[i] = (struct vx_config){.scenario = scns[i].name, .bound = scns[i].bound, .leakcheck = 0};
    args[i] = &scns[i];
    int nr = 0, nk = 0;
    for (int j = 0; j < scns[i].nops; j++)
      if (scns[i].ops[j].t == OP_RST) {
        nr++;
        nk += scns[i].ops[j].c != 0;
      }
    if (nr)
      byd_rst[scns[i].nops - nr]++;
    else
      byd[scns[i].nops]++;
    n_rst += nr > 0;
    n_rst2 += nr > 1;
    n_rstk += nk > 0;
  }
  struct vx_scn_stats stt;
  vx_explore_multi("c17:all", vcs, args, nscn, run, 0, &stt);
  vx_ev_int("histories", nscn);
  for (int d = 1; d <= MAXOPS; d++)
    if (byd[d]) {
      char k[40];
      snprintf(k, sizeof k, "histories_depth_%d", d);
      vx_ev_int(k, byd[d]);
    }
  {
    int mx_kill = 0, mx_put_only = 0, mx_tcp_obs = 0, mx_rst = 0;
    for (int i = 0; i < nscn; i++) {
      if (!scns[i].mixed)
        continue;
      int tobs = 0, rst = 0, putonly = 1;
      for (int j = 0; j < scns[i].nops; j++) {
        tobs |= scns[i].ops[j].p == P_T;
        rst |= scns[i].ops[j].t == OP_RST;
        putonly &= scns[i].ops[j].t == OP_PUT;
      }
      mx_kill += scns[i].bound > 0;
      mx_put_only += putonly;
      mx_tcp_obs += tobs;
      mx_rst += rst;
    }
    vx_ev_int("histories_mixed_transport", n_mixed);
    vx_ev_int("histories_mixed_transport_creations_only", mx_put_only);
    vx_ev_int("histories_mixed_transport_with_tcp_observer", mx_tcp_obs);
    vx_ev_int("histories_mixed_transport_with_mid_history_restart", mx_rst);
    vx_ev_int("histories_mixed_transport_with_kill_points", mx_kill);
    if (G) {
      vx_ev_int("executions_mixed_transport", G->mixed_execs);
      vx_ev_int("executions_mixed_transport_with_kill_in_history", G->mixed_kill_execs);
      vx_ev_int("executions_mixed_transport_with_kill_in_restart", G->mixed_restart_kill_execs);
      vx_ev_int("tcp_get_after_restart_answered_2_05", G->tcp_probes_ok);
    }
  }
  vx_ev_int("histories_with_mid_history_restart", n_rst);
  vx_ev_int("histories_with_two_mid_history_restarts", n_rst2);
  vx_ev_int("histories_with_kill_before_mid_history_restart", n_rstk);
  for (int d = 1; d <= MAXOPS; d++)
    if (byd_rst[d]) {
      char k[60];
      snprintf(k, sizeof k, "histories_with_mid_history_restart_depth_%d", d);
      vx_ev_int(k, byd_rst[d]);
    }
  return vx_finish();
}
