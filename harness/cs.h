/* cs.h -- a small, failure-tolerant client/server application pair over netsim, shared by the harnesses
 * that need "ordinary traffic" (C18 allocation failures, C12 lifecycle, C02 endpoint states).
 * Every API result is checked the way a careful application would, so injected failures surface as
 * error returns here and not as harness crashes.  Header-only (static functions). */
#ifndef CS_H
#define CS_H
#include "netsim.h"
#include "wire.h"

struct cs {
  coap_context_t *sc, *cc;
  coap_endpoint_t *ep;
  coap_session_t *sess;
  coap_address_t srv, cli;
  coap_proto_t proto;
  coap_resource_t *r_small, *r_big, *r_put, *r_obs, *r_async;
  /* observations */
  int srv_calls, srv_put_bytes, srv_put_ok;
  int resp_total, resp_2xx, resp_err, nacks, notifications;
  int last_code;
  size_t max_len; /* longest response body seen */
  int watch_tok, watch_code; /* response code seen for the request with this one-byte token (0 = none yet) */
  size_t last_len;
  uint64_t last_hash;
  int body_ok; /* last large response matched the pattern */
  int release_calls, large_calls;
  coap_async_t *pending_async;
  int events[64];
};
static struct cs *CS;

static uint8_t
cs_pat(size_t i) {
  return (uint8_t)(i * 7 + 1);
}
static void
cs_release(coap_session_t *s, void *p) {
  (void)s;
  CS->release_calls++;
  free(p);
}

static void
cs_hnd_small(coap_resource_t *r, coap_session_t *s, const coap_pdu_t *req, const coap_string_t *q, coap_pdu_t *resp) {
  (void)r;
  (void)s;
  (void)q;
  CS->srv_calls++;
  if (coap_pdu_get_code(req) == COAP_REQUEST_CODE_GET) {
    coap_pdu_set_code(resp, COAP_RESPONSE_CODE_CONTENT);
    coap_add_data(resp, 5, (const uint8_t *)"hello");
  } else
    coap_pdu_set_code(resp, COAP_RESPONSE_CODE_CHANGED);
}
static size_t cs_big_len = 100; /* body length /big serves */
static void
cs_hnd_big(coap_resource_t *r, coap_session_t *s, const coap_pdu_t *req, const coap_string_t *q, coap_pdu_t *resp) {
  CS->srv_calls++;
  size_t n = cs_big_len;
  uint8_t *b = malloc(n);
  if (!b) {
    coap_pdu_set_code(resp, COAP_RESPONSE_CODE_INTERNAL_ERROR);
    return;
  }
  for (size_t i = 0; i < n; i++)
    b[i] = cs_pat(i);
  coap_pdu_set_code(resp, COAP_RESPONSE_CODE_CONTENT);
  CS->large_calls++;
  if (!coap_add_data_large_response(r, s, req, resp, q, COAP_MEDIATYPE_APPLICATION_OCTET_STREAM, -1, 0, n, b, cs_release, b))
    coap_pdu_set_code(resp, COAP_RESPONSE_CODE_INTERNAL_ERROR);
}
static void
cs_hnd_put(coap_resource_t *r, coap_session_t *s, const coap_pdu_t *req, const coap_string_t *q, coap_pdu_t *resp) {
  (void)r;
  (void)s;
  (void)q;
  CS->srv_calls++;
  size_t size = 0, off = 0, total = 0;
  const uint8_t *d = NULL;
  if (coap_get_data_large(req, &size, &d, &off, &total)) {
    int ok = 1;
    for (size_t i = 0; i < size; i++)
      if (d[i] != cs_pat(off + i))
        ok = 0;
    CS->srv_put_bytes += (int)size;
    CS->srv_put_ok = ok;
  }
  coap_pdu_set_code(resp, COAP_RESPONSE_CODE_CHANGED);
}
static void
cs_hnd_obs(coap_resource_t *r, coap_session_t *s, const coap_pdu_t *req, const coap_string_t *q, coap_pdu_t *resp) {
  (void)r;
  (void)s;
  (void)req;
  (void)q;
  CS->srv_calls++;
  coap_pdu_set_code(resp, COAP_RESPONSE_CODE_CONTENT);
  uint8_t v = (uint8_t)CS->srv_calls;
  coap_add_data(resp, 1, &v);
}
static void
cs_hnd_async(coap_resource_t *r, coap_session_t *s, const coap_pdu_t *req, const coap_string_t *q, coap_pdu_t *resp) {
  (void)r;
  (void)q;
  CS->srv_calls++;
  coap_bin_const_t tok = coap_pdu_get_token(req);
  coap_async_t *a = coap_find_async(s, tok);
  if (!a) {
    a = coap_register_async(s, req, 0);
    if (a) {
      CS->pending_async = a;
      return;
    }
    coap_pdu_set_code(resp, COAP_RESPONSE_CODE_SERVICE_UNAVAILABLE);
    return;
  }
  if (a == CS->pending_async)
    CS->pending_async = NULL;
  coap_pdu_set_code(resp, COAP_RESPONSE_CODE_CONTENT);
  coap_add_data(resp, 4, (const uint8_t *)"done");
}

static coap_response_t
cs_resp(coap_session_t *s, const coap_pdu_t *sent, const coap_pdu_t *rcv, const coap_mid_t mid) {
  (void)s;
  (void)sent;
  (void)mid;
  CS->resp_total++;
  int code = coap_pdu_get_code(rcv);
  CS->last_code = code;
  coap_bin_const_t wt = coap_pdu_get_token(rcv);
  if (CS->watch_tok && wt.length == 1 && wt.s[0] == CS->watch_tok)
    CS->watch_code = code;
  size_t size = 0, off = 0, total = 0;
  const uint8_t *d = NULL;
  CS->last_len = 0;
  CS->body_ok = 0;
  if (coap_get_data_large(rcv, &size, &d, &off, &total)) {
    CS->last_len = size;
    if (size > CS->max_len)
      CS->max_len = size;
    CS->last_hash = vx_fnv(d, size, VX_FNV0);
    int ok = 1;
    for (size_t i = 0; i < size; i++)
      if (d[i] != cs_pat(off + i))
        ok = 0;
    CS->body_ok = ok;
  }
  coap_opt_iterator_t oi;
  if (coap_check_option(rcv, COAP_OPTION_OBSERVE, &oi))
    CS->notifications++;
  if ((code >> 5) == 2)
    CS->resp_2xx++;
  else
    CS->resp_err++;
  return COAP_RESPONSE_OK;
}
static void
cs_nack(coap_session_t *s, const coap_pdu_t *sent, const coap_nack_reason_t reason, const coap_mid_t mid) {
  (void)s;
  (void)sent;
  (void)reason;
  (void)mid;
  CS->nacks++;
}
static int
cs_event(coap_session_t *s, const coap_event_t ev) {
  (void)s;
  int k = (int)ev & 63;
  CS->events[k]++;
  return 0;
}

/* returns 0 if some set-up step failed (everything created so far stays valid and is torn down by cs_free) */
static int
cs_server_new(struct cs *c, coap_proto_t proto) {
  CS = c;
  c->proto = proto;
  ns_addr(&c->srv, 1, proto == COAP_PROTO_UDP || proto == COAP_PROTO_DTLS ? 5683 : proto == COAP_PROTO_WS ? 80 : 5683);
  c->sc = coap_new_context(NULL);
  if (!c->sc)
    return 0;
  ns_register_ctx(c->sc);
  coap_context_set_block_mode(c->sc, COAP_BLOCK_USE_LIBCOAP | COAP_BLOCK_SINGLE_BODY);
  coap_register_event_handler(c->sc, cs_event);
  c->ep = coap_new_endpoint(c->sc, &c->srv, proto);
  if (!c->ep)
    return 0;
  struct {
    const char *path;
    coap_method_handler_t h;
    coap_resource_t **slot;
    int obs;
    int put;
  } tab[] = {{"r", cs_hnd_small, &c->r_small, 0, 1},
             {"big", cs_hnd_big, &c->r_big, 0, 0},
             {"put", cs_hnd_put, &c->r_put, 0, 2},
             {"obs", cs_hnd_obs, &c->r_obs, 1, 0},
             {"async", cs_hnd_async, &c->r_async, 0, 0}};
  int ok = 1;
  for (unsigned i = 0; i < sizeof tab / sizeof tab[0]; i++) {
    coap_resource_t *r = coap_resource_init(coap_make_str_const(tab[i].path), 0);
    if (!r) {
      ok = 0;
      continue;
    }
    if (tab[i].put != 2)
      coap_register_request_handler(r, COAP_REQUEST_GET, tab[i].h);
    if (tab[i].put)
      coap_register_request_handler(r, COAP_REQUEST_PUT, tab[i].h);
    if (tab[i].obs)
      coap_resource_set_get_observable(r, 1);
    coap_add_resource(c->sc, r);
    *tab[i].slot = r;
  }
  return ok;
}
static int
cs_client_new(struct cs *c, coap_proto_t proto) {
  CS = c;
  ns_addr(&c->cli, 50, 40001);
  c->cc = coap_new_context(NULL);
  if (!c->cc)
    return 0;
  ns_register_ctx(c->cc);
  coap_context_set_block_mode(c->cc, COAP_BLOCK_USE_LIBCOAP | COAP_BLOCK_SINGLE_BODY);
  coap_register_response_handler(c->cc, cs_resp);
  coap_register_nack_handler(c->cc, cs_nack);
  coap_register_event_handler(c->cc, cs_event);
  c->sess = coap_new_client_session(c->cc, &c->cli, &c->srv, proto);
  return c->sess != NULL;
}
static void
cs_free(struct cs *c) {
  if (c->sess)
    coap_session_release(c->sess);
  c->sess = NULL;
  if (c->cc) {
    ns_unregister_ctx(c->cc);
    coap_free_context(c->cc);
  }
  c->cc = NULL;
  if (c->sc) {
    ns_unregister_ctx(c->sc);
    coap_free_context(c->sc);
  }
  c->sc = NULL;
}

/* default environment: deliver everything in order, pump streams, fire timers when idle; bounded */
static int
cs_pump(struct cs *c, int max_events, uint64_t horizon_ms) {
  (void)c;
  int n = 0;
  uint64_t end = ns_now() + horizon_ms;
  while (n++ < max_events) {
    unsigned tmo = ns_prepare_all();
    if (ns_inflight_count() > 0) {
      ns_deliver(0);
      continue;
    }
    if (ns_stream_count() > 0 && ns_stream_pump() > 1)
      continue;
    if (CS->pending_async) {
      coap_async_t *a = CS->pending_async;
      CS->pending_async = NULL;
      coap_async_trigger(a);
      continue;
    }
    if (tmo && ns_now() + tmo <= end && tmo < 200000) {
      ns_advance(tmo);
      continue;
    }
    break;
  }
  return n;
}

static coap_pdu_t *
cs_request(struct cs *c, coap_session_t *s, int con, int method, const char *path, uint8_t tok) {
  (void)c;
  coap_pdu_t *p = coap_new_pdu(con ? COAP_MESSAGE_CON : COAP_MESSAGE_NON, (coap_pdu_code_t)method, s);
  if (!p)
    return NULL;
  if (!coap_add_token(p, 1, &tok) || !coap_add_option(p, COAP_OPTION_URI_PATH, strlen(path), (const uint8_t *)path)) {
    coap_delete_pdu(p);
    return NULL;
  }
  return p;
}

/* canary: a fresh session must get 2.05 "hello" from /r */
static int
cs_canary(struct cs *c) {
  int before = c->resp_2xx;
  coap_address_t ca;
  ns_addr(&ca, 77, 45000);
  coap_session_t *s = coap_new_client_session(c->cc, &ca, &c->srv, COAP_PROTO_UDP);
  if (!s)
    return 0;
  coap_pdu_t *p = cs_request(c, s, 1, COAP_REQUEST_CODE_GET, "r", 0xCA);
  if (!p) {
    coap_session_release(s);
    return 0;
  }
  c->last_code = 0;
  c->last_len = 0;
  coap_mid_t m = coap_send(s, p);
  if (m != COAP_INVALID_MID)
    cs_pump(c, 400, 120000);
  coap_session_release(s);
  return m != COAP_INVALID_MID && c->resp_2xx == before + 1 && c->last_code == COAP_RESPONSE_CODE_CONTENT && c->last_len == 5;
}

/* canary on a session the scenario used: with memory available again a Confirmable GET /r on it must be answered 2.05
 * (earlier Confirmables of the scenario may first have to run out of retransmissions: the horizon covers that) */
static int
cs_canary_same(struct cs *c, coap_session_t *s) {
  coap_pdu_t *p = cs_request(c, s, 1, COAP_REQUEST_CODE_GET, "r", 0xCB);
  if (!p)
    return 0;
  c->watch_tok = 0xCB;
  c->watch_code = 0;
  coap_mid_t m = coap_send(s, p);
  for (int round = 0; m != COAP_INVALID_MID && !c->watch_code && round < 4; round++)
    cs_pump(c, 400, 120000);
  c->watch_tok = 0;
  return m != COAP_INVALID_MID && c->watch_code == COAP_RESPONSE_CODE_CONTENT;
}
#endif
