/* C12 (stage c12cli) -- the client side of "a session stays valid while the application or a queued message refers to it".
 *
 * The server-side stage (c12_sessions.c) never lets the last reference to a session be a queued message: server
 * sessions survive ref == 0 as idle sessions.  A client session is freed by the release that drops the last reference,
 * so here the holder that is left can be a Confirmable still waiting in the send queue for its acknowledgement.
 *
 * One client context, two client sessions to silent raw peers.  All operation sequences of depth 1..D over
 *   CON(s0) CON(s1) NON(s0)          the application sends a request (only while it holds the session)
 *   REL(s0) REL(s1) REF(s0)          coap_session_release / coap_session_reference by the application
 *   ANSWER                           the peer answers the oldest outstanding Confirmable (piggybacked 2.05)
 *   RST                              the peer resets the newest outstanding Confirmable
 *   TIMER                            virtual time runs to the next retransmission
 *   GIVEUP                           virtual time runs until every outstanding Confirmable was given up
 * each followed by the release of whatever the application still holds and coap_free_context().
 *
 * Reference model: holders(s) = application references + Confirmables of s still queued.  Verdicts: a session is never
 * freed while holders > 0 (seen at the allocation funnel), is freed by the time the context is gone, every handler is
 * called with a session that is still allocated, every Confirmable concludes at most once, the allocation funnel
 * balances to zero; ASan watches every access in between (this is what catches a use after the last release).
 */
#include "netsim.h"
#include "wire.h"

void *__real_coap_malloc_type(coap_memory_tag_t type, size_t size);
void *__real_coap_realloc_type(coap_memory_tag_t type, void *p, size_t size);
void __real_coap_free_type(coap_memory_tag_t type, void *p);
void *__wrap_coap_malloc_type(coap_memory_tag_t type, size_t size);
void *__wrap_coap_realloc_type(coap_memory_tag_t type, void *p, size_t size);
void __wrap_coap_free_type(coap_memory_tag_t type, void *p);
/* gnutls_priority_* are wrapped for the server-side stage of this check; this stage passes them through */
#include <gnutls/gnutls.h>
int __real_gnutls_priority_init(gnutls_priority_t *cache, const char *prio, const char **err);
void __real_gnutls_priority_deinit(gnutls_priority_t cache);
int __wrap_gnutls_priority_init(gnutls_priority_t *cache, const char *prio, const char **err);
void __wrap_gnutls_priority_deinit(gnutls_priority_t cache);
static gnutls_priority_t prio_shared;
static char prio_shared_str[256];
int
__wrap_gnutls_priority_init(gnutls_priority_t *cache, const char *prio, const char **err) {
  if (prio_shared && prio && !strcmp(prio, prio_shared_str)) {
    *cache = prio_shared;
    return 0;
  }
  int r = __real_gnutls_priority_init(cache, prio, err);
  if (r == 0 && !prio_shared && prio && strlen(prio) < sizeof prio_shared_str) {
    strcpy(prio_shared_str, prio);
    prio_shared = *cache;
  }
  return r;
}
void
__wrap_gnutls_priority_deinit(gnutls_priority_t cache) {
  if (cache && cache == prio_shared)
    return;
  __real_gnutls_priority_deinit(cache);
}
__attribute__((destructor)) static void
prio_shared_fini(void) {
  if (prio_shared)
    __real_gnutls_priority_deinit(prio_shared);
  prio_shared = NULL;
}

static long live_blocks;
static coap_session_t *sess[2];
static int sess_freed[2];

void *
__wrap_coap_malloc_type(coap_memory_tag_t type, size_t size) {
  void *p = __real_coap_malloc_type(type, size);
  if (p)
    live_blocks++;
  return p;
}
void *
__wrap_coap_realloc_type(coap_memory_tag_t type, void *p, size_t size) {
  void *q = __real_coap_realloc_type(type, p, size);
  if (!p && q)
    live_blocks++;
  return q;
}
void
__wrap_coap_free_type(coap_memory_tag_t type, void *p) {
  if (p)
    live_blocks--;
  if (p && type == COAP_SESSION)
    for (int s = 0; s < 2; s++)
      if (p == (void *)sess[s])
        sess_freed[s]++;
  __real_coap_free_type(type, p);
}

enum { O_CON0, O_CON1, O_NON0, O_REL0, O_REL1, O_REF0, O_ANSWER, O_RST, O_TIMER, O_GIVEUP, O_N };
static const char *oname[] = {"con(s0)", "con(s1)", "non(s0)", "rel(s0)", "rel(s1)", "ref(s0)", "answer", "rst", "timer", "giveup"};

struct ccfg {
  char name[48];
  int depth;
  int max_retx;
};

#define MAXREQ 8
static struct req {
  int s, mid, con, sent, outstanding; /* sent: seen on the wire; outstanding: queued at the client (sent, no ACK / RST / give-up yet) */
  uint8_t tok;
  int responses, nacks;
} reqs[MAXREQ];
static int nreqs;
static int app_refs[2];
static coap_context_t *ctx;
static coap_address_t peer[2], cli[2];
static char hist[160];
static const struct ccfg *CC;

static int
queued(int s) {
  int n = 0;
  for (int i = 0; i < nreqs; i++)
    n += reqs[i].s == s && reqs[i].con && reqs[i].outstanding;
  return n;
}
static int
sess_index(const coap_session_t *x) {
  return x == sess[0] ? 0 : x == sess[1] ? 1 : -1;
}
static struct req *
req_by_mid(int s, int mid) {
  for (int i = 0; i < nreqs; i++)
    if (reqs[i].s == s && reqs[i].mid == mid)
      return &reqs[i];
  return NULL;
}

/* what an application does with the session it is handed in a callback */
static void
touch_session(coap_session_t *x, const char *where) {
  int s = sess_index(x);
  if (s < 0) {
    vx_fail("cli:handler-with-unknown-session", "%s called with a session that is none of the two client sessions; history [%s]", where, hist);
    return;
  }
  if (sess_freed[s]) {
    char sig[80];
    snprintf(sig, sizeof sig, "cli:%s-with-freed-session", where);
    vx_fail(sig, "%s called with session s%d after it was freed; history [%s]", where, s, hist);
    return;
  }
  const coap_address_t *ra = coap_session_get_addr_remote(x);
  if (!ra || ns_addr_host(ra) != ns_addr_host(&peer[s]))
    vx_fail("cli:session-content", "%s: session s%d does not carry its peer's address any more; history [%s]", where, s, hist);
  (void)coap_session_get_state(x);
  (void)coap_session_max_pdu_size(x);
}

static coap_response_t
resp_handler(coap_session_t *x, const coap_pdu_t *sent, const coap_pdu_t *rcv, const coap_mid_t mid) {
  (void)sent;
  (void)mid;
  touch_session(x, "response-handler");
  int s = sess_index(x);
  coap_bin_const_t t = coap_pdu_get_token(rcv);
  for (int i = 0; i < nreqs; i++)
    if (reqs[i].s == s && t.length == 1 && t.s[0] == reqs[i].tok)
      reqs[i].responses++;
  return COAP_RESPONSE_OK;
}
static void
nack_handler(coap_session_t *x, const coap_pdu_t *sent, const coap_nack_reason_t reason, const coap_mid_t mid) {
  (void)reason;
  touch_session(x, "nack-handler");
  int s = sess_index(x);
  if (!sent || s < 0)
    return;
  struct req *r = req_by_mid(s, mid);
  if (r) {
    r->nacks++;
    r->outstanding = 0;
  }
}

static void
on_send(const ns_dgram_t *d) {
  struct w_msg m;
  if (!w_parse(d->data, d->len, &m))
    return;
  int s = ns_addr_host(&d->dst) == ns_addr_host(&peer[0]) ? 0 : 1;
  struct req *r = req_by_mid(s, m.mid);
  if (r)
    r->sent = 1;
}

static void
quiet_network(void) {
  ns_prepare_all();
  while (ns_inflight_count())
    ns_drop(0); /* the peers are silent unless an operation makes them speak */
}

/* after every operation: model vs. what the allocation funnel saw */
static int
judge(const char *after) {
  for (int s = 0; s < 2; s++) {
    int holders = app_refs[s] + queued(s);
    if (holders > 0 && sess_freed[s]) {
      char sig[100];
      snprintf(sig, sizeof sig, "cli:freed-while-held:by-%s", app_refs[s] ? "application" : "queued-message");
      vx_fail(sig, "session s%d was freed after %s although %d application reference(s) and %d queued Confirmable(s) refer to it; history [%s]", s,
              after, app_refs[s], queued(s), hist);
      return 0;
    }
    if (sess_freed[s] > 1) {
      vx_fail("cli:freed-twice", "session s%d went through the allocation funnel's free %d times; history [%s]", s, sess_freed[s], hist);
      return 0;
    }
  }
  return 1;
}

static void
send_req(int s, int con) {
  if (nreqs >= MAXREQ)
    return;
  struct req *r = &reqs[nreqs];
  memset(r, 0, sizeof *r);
  r->s = s;
  r->con = con;
  r->tok = (uint8_t)(0xC0 + nreqs);
  coap_pdu_t *pdu = coap_new_pdu(con ? COAP_MESSAGE_CON : COAP_MESSAGE_NON, COAP_REQUEST_CODE_GET, sess[s]);
  if (!pdu) {
    vx_fail("harness:new-pdu", "coap_new_pdu failed");
    return;
  }
  coap_add_token(pdu, 1, &r->tok);
  coap_add_option(pdu, COAP_OPTION_URI_PATH, 1, (const uint8_t *)"r");
  r->mid = coap_pdu_get_mid(pdu);
  nreqs++;
  coap_mid_t m = coap_send(sess[s], pdu);
  if (m == COAP_INVALID_MID) {
    vx_fail("cli:send-refused", "coap_send on a live client session s%d returned COAP_INVALID_MID; history [%s]", s, hist);
    return;
  }
  r->outstanding = con;
}

static void
case_cli(uint64_t idx, void *arg) {
  const struct ccfg *c = CC = arg;
  int ops[8];
  uint64_t x = idx;
  size_t hl = 0;
  hist[0] = 0;
  for (int i = 0; i < c->depth; i++) {
    ops[i] = (int)(x % O_N);
    x /= O_N;
    hl += (size_t)snprintf(hist + hl, sizeof hist - hl, "%s%s", i ? " " : "", oname[ops[i]]);
  }
  ns_init();
  ns_on_send = on_send;
  live_blocks = 0;
  nreqs = 0;
  sess[0] = sess[1] = NULL;
  sess_freed[0] = sess_freed[1] = 0;
  ctx = coap_new_context(NULL);
  ns_register_ctx(ctx);
  coap_register_response_handler(ctx, resp_handler);
  coap_register_nack_handler(ctx, nack_handler);
  for (int s = 0; s < 2; s++) {
    ns_addr(&peer[s], 2 + s, 5683);
    ns_addr(&cli[s], 60 + s, 41000 + s);
    sess[s] = coap_new_client_session(ctx, &cli[s], &peer[s], COAP_PROTO_UDP);
    coap_session_set_max_retransmit(sess[s], (uint16_t)c->max_retx);
    coap_session_set_nstart(sess[s], 3);
    app_refs[s] = 1;
  }
  int ok = 1, inapplicable = 0, last_ref_was_message = 0;
  for (int i = 0; i < c->depth && ok; i++) {
    int op = ops[i];
    switch (op) {
    case O_CON0:
    case O_CON1:
    case O_NON0: {
      int s = op == O_CON1;
      if (!app_refs[s]) { /* the application gave the session up: it has no pointer to send on */
        inapplicable = 1;
        break;
      }
      send_req(s, op != O_NON0);
      break;
    }
    case O_REL0:
    case O_REL1: {
      int s = op == O_REL1;
      if (!app_refs[s]) {
        inapplicable = 1;
        break;
      }
      app_refs[s]--;
      if (!app_refs[s] && queued(s))
        last_ref_was_message = 1;
      coap_session_release(sess[s]);
      break;
    }
    case O_REF0:
      if (!app_refs[0] || app_refs[0] > 2) {
        inapplicable = 1;
        break;
      }
      coap_session_reference(sess[0]);
      app_refs[0]++;
      break;
    case O_ANSWER:
    case O_RST: {
      struct req *r = NULL;
      for (int k = 0; k < nreqs; k++)
        if (reqs[k].con && reqs[k].outstanding && reqs[k].sent && (op == O_RST || !r)) /* a peer only answers what it received */
          r = &reqs[k];
      if (!r) {
        inapplicable = 1;
        break;
      }
      uint8_t pkt[16];
      size_t n;
      if (op == O_ANSWER) {
        pkt[0] = 0x61, pkt[1] = 0x45, pkt[2] = (uint8_t)(r->mid >> 8), pkt[3] = (uint8_t)r->mid, pkt[4] = r->tok, pkt[5] = 0xff, pkt[6] = 'x';
        n = 7;
      } else {
        pkt[0] = 0x70, pkt[1] = 0, pkt[2] = (uint8_t)(r->mid >> 8), pkt[3] = (uint8_t)r->mid;
        n = 4;
      }
      /* the model first: the message leaves the queue when the datagram is processed */
      int before_resp = r->responses, before_nack = r->nacks;
      r->outstanding = 0;
      ns_inject_now(&peer[r->s], &cli[r->s], pkt, n);
      if (op == O_ANSWER && r->responses != before_resp + 1) {
        vx_fail("cli:response-not-delivered", "the answer to CON mid %04x on s%d (application refs %d) did not reach the response handler; history [%s]",
                r->mid, r->s, app_refs[r->s], hist);
        ok = 0;
      }
      if (op == O_RST && r->nacks != before_nack + 1) {
        vx_fail("cli:rst-not-reported", "the Reset of CON mid %04x on s%d was not reported by a NACK; history [%s]", r->mid, r->s, hist);
        ok = 0;
      }
      break;
    }
    case O_TIMER:
    case O_GIVEUP: {
      int any = 0;
      for (int k = 0; k < nreqs; k++)
        any |= reqs[k].con && reqs[k].outstanding;
      if (!any) {
        inapplicable = 1;
        break;
      }
      for (int round = 0; round < 40; round++) {
        unsigned t = ns_prepare_all();
        while (ns_inflight_count())
          ns_drop(0);
        if (!t)
          break;
        ns_advance(t);
        if (op == O_TIMER)
          break;
      }
      quiet_network();
      if (op == O_GIVEUP)
        for (int k = 0; k < nreqs; k++)
          if (reqs[k].con && reqs[k].outstanding) {
            vx_fail("cli:no-give-up", "CON mid %04x on s%d is still outstanding after every retransmission timer ran; history [%s]", reqs[k].mid,
                    reqs[k].s, hist);
            ok = 0;
            break;
          }
      break;
    }
    }
    if (inapplicable)
      break;
    quiet_network();
    if (ok)
      ok = judge(oname[op]);
  }
  if (inapplicable) {
    /* the same history without the inapplicable operation is another index of this space */
    vxp_count(1, 1);
  } else {
    vxp_count(0, 1);
    if (last_ref_was_message)
      vxp_count(2, 1);
  }
  /* teardown: the application lets go of what it still holds, then frees the context */
  for (int s = 0; s < 2; s++)
    while (app_refs[s] > 0) {
      app_refs[s]--;
      coap_session_release(sess[s]);
    }
  ns_unregister_ctx(ctx);
  coap_free_context(ctx);
  ctx = NULL;
  if (ok && !inapplicable) {
    for (int s = 0; s < 2; s++)
      if (sess_freed[s] != 1) {
        vx_fail(sess_freed[s] ? "cli:freed-twice" : "cli:session-not-freed", "after coap_free_context session s%d was freed %d times; history [%s]", s,
                sess_freed[s], hist);
        ok = 0;
      }
    for (int k = 0; k < nreqs && ok; k++)
      if (reqs[k].responses + reqs[k].nacks > 1) {
        vx_fail("cli:concluded-twice", "request %d (mid %04x) got %d responses and %d NACKs; history [%s]", k, reqs[k].mid, reqs[k].responses,
                reqs[k].nacks, hist);
        ok = 0;
      }
    if (ok && live_blocks != 0)
      vx_fail(live_blocks > 0 ? "cli:allocation-funnel:leak" : "cli:allocation-funnel:negative",
              "%ld blocks of the allocation funnel are unreleased after coap_free_context; history [%s]", live_blocks, hist);
  }
  ns_fini();
  if (!inapplicable) {
    int sumq = 0;
    for (int k = 0; k < nreqs; k++)
      sumq = sumq * 5 + reqs[k].responses * 2 + reqs[k].nacks;
    vxp_distinct(vx_fnv(ops, sizeof(int) * (size_t)c->depth, (uint64_t)(c->max_retx * 1000 + sumq)));
    if (idx % 9973 == 11)
      vxp_sample("max_retx=%d [%s]: sessions freed exactly once, after their last holder", c->max_retx, hist);
  }
}

int
main(int argc, char **argv) {
  vx_main_init(argc, argv, "C12");
  int T = vx_is_thorough();
  static struct ccfg cf[16];
  int ncf = 0;
  for (int d = 1; d <= (T ? 7 : 6); d++)
    for (int mr = 1; mr <= 2; mr++) {
      if (mr == 2 && d != (T ? 6 : 5))
        continue;
      struct ccfg c = {.depth = d, .max_retx = mr};
      snprintf(c.name, sizeof c.name, "cli:depth=%d:max_retx=%d", d, mr);
      cf[ncf++] = c;
    }
  for (int i = 0; i < ncf; i++)
    if (vxp_replay_if_match(cf[i].name, case_cli, &cf[i]))
      return 0;
  if (vx_replay_path()) {
    fprintf(stderr, "replay file does not match any space\n");
    return 2;
  }
  uint64_t total = 0;
  for (int i = 0; i < ncf; i++) {
    uint64_t n = 1;
    for (int k = 0; k < cf[i].depth; k++)
      n *= O_N;
    struct vxp_config c = {.space = cf[i].name, .total = n};
    struct vxp_stats st;
    vxp_enumerate(&c, case_cli, &cf[i], &st);
    total += st.done;
  }
  uint64_t run = vxp_counter(0);
  vx_ev_add_states((long long)run, (long long)run, (long long)run);
  vx_ev_add_evals((long long)run, (long long)vxp_distinct_count());
  vx_ev_int("cli.indices_enumerated", (long long)total);
  vx_ev_int("cli.histories_run", (long long)run);
  vx_ev_int("cli.indices_with_an_inapplicable_operation", (long long)vxp_counter(1));
  vx_ev_int("cli.histories_where_a_queued_message_was_the_last_holder", (long long)vxp_counter(2));
  vx_ev_rule("stage c12cli: all operation sequences of depth 1..6 (thorough 7) over {CON on s0 / s1, NON on s0, application release of s0 / s1, "
             "second application reference on s0, peer answers the oldest outstanding CON, peer resets the newest, one retransmission timer, all "
             "timers until give-up} on two client sessions of one context to silent raw peers (MAX_RETRANSMIT 1, and 2 at one depth), each followed by "
             "release of what the application still holds and coap_free_context(); model: holders = application references + queued Confirmables; "
             "a session is never freed while held, freed exactly once in the end, handlers only ever see live sessions, the allocation funnel "
             "balances, ASan watches");
  vx_ev_assumption("client stage: the application does not use a session pointer after releasing its last reference to it");
  return vx_finish();
}
