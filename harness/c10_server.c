/* C10 -- server answers each request datagram once, with the protocol-prescribed code.
 *
 * Full Cartesian product of request features x resource tables through the REAL receive path: a fresh libcoap
 * server context per case on the simulated network, the request datagram is composed by wire.h and injected
 * from a raw peer (coap_io_do_io -> coap_read_endpoint -> coap_handle_dgram -> coap_dispatch ->
 * handle_request), the replies are captured at the wrapped coap_socket_send, the request handlers log every
 * invocation.  The observation is compared with ref/refsrv.c (decision table of the statement).
 *
 * Stages: the sanitizer build (c10) enumerates the <=2-option request product and the edge product (all four message
 * types, invalid code classes, Empty, 9-byte token, Confirmable-to-multicast) in both tiers; the -O2 build (c10f)
 * enumerates the <=3-option request product in the thorough tier only.
 *
 * A failing case that carries No-Response or was sent to the multicast group is re-run without No-Response / unicast
 * ("base case"); when the base case deviates too and the failing case is exactly that deviation seen through the
 * reference's own suppression stage, it is reported under the base case's signature (one defect, one signature).
 *
 * Signatures (stable classes):
 *   reply:want-<W>-got-<G>:<rule>[:<CON|NON|ACK|RST>[:mcast]]  W/G = none | RST | EACK | c.dd | sep/c.dd, prefixed
 *                                                             "handler/" when an application handler must run / ran;
 *                                                             G = "handler" when one ran that must not; the type
 *                                                             suffix is dropped when both sides are response codes
 *   suppression:no-response:<value>:<class>xx:want-<W>-got-<G>
 *   suppression:mcast:<rule>:want-<W>-got-<G>     suppression:mcast:rst-for-NON:<rule>
 *   reply-count:<n>:<rule>   token-not-echoed:<rule>   ack-for-NON   ack-for-<ACK|RST>   non-for-CON
 *   ack-mid-mismatch  rst-mid-mismatch  wire:<what>   handler-ran-twice   handler-args:<what>
 *   error-response:4.02:option-not-echoed   handler-reply:payload
 */
#include "netsim.h"
#include "wire.h"
#include "refsrv.h"

/* ------------------------------------------------------------------------------------------------ */
/* alphabets                                                                                         */

static const int req_codes[] = {1, 2, 3, 4, 5, 8, 6, 7, 31}; /* quick request product: the first six */
#define N_REQ_CODES 9
static const int edge_codes[] = {1, 2, 3, 4, 5, 6, 7, 8, 31, 0, 0x20, 0xC0, 0xE1};
#define N_EDGE_CODES 13
static const int tok_lens[] = {0, 8, 1, 9}; /* quick request product: the first two, thorough: the first three, edge: all */

struct path_alt {
  const char *name;
  int nseg;
  const char *seg[3];
};
static const struct path_alt paths[] = {
    {"(none)", 0, {0}},
    {"a", 1, {"a"}},
    {"a/b", 2, {"a", "b"}},
    {"''", 1, {""}},
    {"a/''", 2, {"a", ""}},
    {".well-known/core", 2, {".well-known", "core"}},
    {"'a/b'(one segment)", 1, {"a/b"}},
    {"'\\xc3\\xa4'", 1, {"\xc3\xa4"}},
    {"zz", 1, {"zz"}},
    {"'t:n@x'", 1, {"t:n@x"}}, /* sub-delimiters that need no escaping in a path segment (RFC 3986 pchar) */
};
#define N_PATHS 10

/* option items; an item contributes one or two options */
struct item {
  const char *name;
  int group; /* items of the same non-zero group exclude each other */
  int n;
  struct {
    uint32_t num;
    const char *val;
    size_t len;
  } o[2];
  int solo; /* the item is only used on its own (the repetition sweep), not in pairs / triples with other items */
};
enum { G_NONE, G_CF, G_OBS, G_HL, G_PS, G_NR };
static const struct item items[] = {
    {"Uri-Query=x=1", G_NONE, 1, {{15, "x=1", 3}}},
    {"Accept=0", G_NONE, 1, {{17, "", 0}}},
    {"If-None-Match", G_NONE, 1, {{5, "", 0}}},
    {"If-Match=01", G_NONE, 1, {{1, "\x01", 1}}},
    {"Content-Format=0", G_CF, 1, {{12, "", 0}}},
    {"Observe=0", G_OBS, 1, {{6, "", 0}}},
    {"Observe=1", G_OBS, 1, {{6, "\x01", 1}}},
    {"Block2=0/0/64", G_NONE, 1, {{23, "\x02", 1}}},
    {"Hop-Limit=0", G_HL, 1, {{16, "\x00", 1}}},
    {"Hop-Limit=1", G_HL, 1, {{16, "\x01", 1}}},
    {"Hop-Limit=2", G_HL, 1, {{16, "\x02", 1}}},
    {"Hop-Limit=255", G_HL, 1, {{16, "\xff", 1}}},
    {"Proxy-Uri=coap://h/x", G_NONE, 1, {{35, "coap://h/x", 10}}},
    {"Proxy-Scheme=coap", G_PS, 1, {{39, "coap", 4}}},
    {"Proxy-Scheme=coap+Uri-Host=h", G_PS, 2, {{3, "h", 1}, {39, "coap", 4}}},
    {"No-Response=0", G_NR, 1, {{258, "", 0}}},
    {"No-Response=2", G_NR, 1, {{258, "\x02", 1}}},
    {"No-Response=8", G_NR, 1, {{258, "\x08", 1}}},
    {"No-Response=16", G_NR, 1, {{258, "\x10", 1}}},
    {"No-Response=26", G_NR, 1, {{258, "\x1a", 1}}},
    {"crit-9", G_NONE, 1, {{9, "\x09", 1}}},
    {"crit-safe-2049", G_NONE, 1, {{2049, "s", 1}}},
    {"crit-unsafe-2051", G_NONE, 1, {{2051, "u", 1}}},
    {"elective-2050", G_NONE, 1, {{2050, "e", 1}}},
    {"2xContent-Format", G_CF, 2, {{12, "", 0}, {12, "", 0}}},
    {"2xETag", G_NONE, 2, {{4, "\x01", 1}, {4, "\x02", 1}}},
    /* the repetition sweep: every option the statement's protocol family defines, twice, with legal values */
    {"2xIf-Match", G_NONE, 2, {{1, "\x01", 1}, {1, "\x02", 1}}, 1},
    {"2xUri-Host", G_NONE, 2, {{3, "h", 1}, {3, "h", 1}}, 1},
    {"2xIf-None-Match", G_NONE, 2, {{5, "", 0}, {5, "", 0}}, 1},
    {"2xObserve", G_OBS, 2, {{6, "", 0}, {6, "", 0}}, 1},
    {"2xUri-Port", G_NONE, 2, {{7, "\x16\x33", 2}, {7, "\x16\x33", 2}}, 1},
    {"2xMax-Age", G_NONE, 2, {{14, "\x3c", 1}, {14, "\x3c", 1}}, 1},
    {"2xUri-Query", G_NONE, 2, {{15, "x=1", 3}, {15, "y=2", 3}}, 1},
    {"2xHop-Limit", G_HL, 2, {{16, "\x05", 1}, {16, "\x05", 1}}, 1},
    {"2xAccept", G_NONE, 2, {{17, "", 0}, {17, "", 0}}, 1},
    {"2xBlock2", G_NONE, 2, {{23, "\x02", 1}, {23, "\x02", 1}}, 1},
    {"2xSize2", G_NONE, 2, {{28, "", 0}, {28, "", 0}}, 1},
    {"2xProxy-Uri", G_NONE, 2, {{35, "coap://h/x", 10}, {35, "coap://h/x", 10}}, 1},
    {"2xProxy-Scheme", G_PS, 2, {{39, "coap", 4}, {39, "coap", 4}}, 1},
    {"2xSize1", G_NONE, 2, {{60, "\x10", 1}, {60, "\x10", 1}}, 1},
    {"2xEcho", G_NONE, 2, {{252, "e1", 2}, {252, "e2", 2}}, 1},
    {"2xNo-Response", G_NR, 2, {{258, "", 0}, {258, "", 0}}, 1},
    {"2xRequest-Tag", G_NONE, 2, {{292, "a", 1}, {292, "b", 1}}, 1},
    {"Echo", G_NONE, 1, {{252, "e1", 2}}, 1},
    {"Request-Tag", G_NONE, 1, {{292, "a", 1}}, 1},
    /* the length sweep: options at the smallest and largest value length their definition allows (RFC 7252 5.10, 7959, 9175): a
     * well-formed request whatever the length, so the reply follows the same rules */
    {"If-Match=(empty)", G_NONE, 1, {{1, "", 0}}, 1},
    {"If-Match=8B", G_NONE, 1, {{1, "12345678", 8}}, 1},
    {"ETag=1B", G_NONE, 1, {{4, "t", 1}}, 1},
    {"ETag=8B", G_NONE, 1, {{4, "12345678", 8}}, 1},
    {"Max-Age=4B", G_NONE, 1, {{14, "\x01\x02\x03\x04", 4}}, 1},
    {"Size1=4B", G_NONE, 1, {{60, "\x00\x01\x00\x00", 4}}, 1},
    {"Request-Tag=(empty)", G_NONE, 1, {{292, "", 0}}, 1},
    {"Request-Tag=8B", G_NONE, 1, {{292, "12345678", 8}}, 1},
    {"Echo=1B", G_NONE, 1, {{252, "e", 1}}, 1},
    {"Echo=40B", G_NONE, 1, {{252, "0123456789012345678901234567890123456789", 40}}, 1},
};
#define N_ITEMS ((int)(sizeof items / sizeof items[0]))

struct optset {
  int n;
  int it[3];
};
static struct optset *optsets[4]; /* [k]: all subsets of size <= k */
static int n_optsets[4];

static void
build_optsets(void) {
  for (int k = 0; k <= 3; k++) {
    int cap = 1 + N_ITEMS + N_ITEMS * N_ITEMS / 2 + N_ITEMS * N_ITEMS * N_ITEMS / 6 + 8;
    optsets[k] = calloc((size_t)cap, sizeof(struct optset));
    int n = 0;
    optsets[k][n++].n = 0;
    for (int a = 0; a < N_ITEMS && k >= 1; a++) {
      optsets[k][n++] = (struct optset){1, {a, 0, 0}};
    }
    for (int a = 0; a < N_ITEMS && k >= 2; a++)
      for (int b = a + 1; b < N_ITEMS; b++) {
        if (items[a].solo || items[b].solo)
          continue;
        if (items[a].group && items[a].group == items[b].group)
          continue;
        optsets[k][n++] = (struct optset){2, {a, b, 0}};
      }
    for (int a = 0; a < N_ITEMS && k >= 3; a++)
      for (int b = a + 1; b < N_ITEMS; b++)
        for (int c = b + 1; c < N_ITEMS; c++) {
          int ga = items[a].group, gb = items[b].group, gc = items[c].group;
          if (items[a].solo || items[b].solo || items[c].solo)
            continue;
          if ((ga && (ga == gb || ga == gc)) || (gb && gb == gc))
            continue;
          optsets[k][n++] = (struct optset){3, {a, b, c}};
        }
    n_optsets[k] = n;
  }
}

/* ------------------------------------------------------------------------------------------------ */
/* resource tables                                                                                   */

struct table {
  const char *name;
  struct rs_table t;
  int mcast_only; /* quick tier: enumerate only the multicast destination for this table */
};
#define ALL 0x7f
#define GET 0x01
#define PUT 0x04
#define RES1(s0, m, b, mcf, obs) {.nseg = 1, .seg = {s0}, .methods = (m), .behaviour = (b), .mc = (mcf), .observable = (obs)}
#define RES2(s0, s1, m, b, mcf, obs) {.nseg = 2, .seg = {s0, s1}, .methods = (m), .behaviour = (b), .mc = (mcf), .observable = (obs)}
#define RICH                                                                                                           \
  RES1("a", ALL, RS_B_CONTENT, 0, 0), RES2("a", "b", ALL, RS_B_NOCODE, 0, 0), RES2("a", "", ALL, RS_B_404, 0, 0),      \
      RES1("\xc3\xa4", ALL, RS_B_INVALID, 0, 0), RES1("t:n@x", ALL, RS_B_CONTENT, 0, 0)

static struct table tables[] = {
    {"empty", {.builtin_wkc = 1}, 0},
    {"a:GET", {.builtin_wkc = 1, .nres = 1, .res = {RES1("a", GET, RS_B_CONTENT, 0, 0)}}, 0},
    {"rich(a:all:2.05,a/b:all:code0,a/'':all:4.04,ae:all:1.00)", {.builtin_wkc = 1, .nres = 5, .res = {RICH}}, 0},
    {"a:GET+unknown:PUT",
     {.builtin_wkc = 1, .nres = 1, .res = {RES1("a", GET, RS_B_CONTENT, 0, 0)}, .has_unknown = 1, .unknown = {.methods = PUT, .behaviour = RS_B_CONTENT}},
     0},
    {"rich+unknown:all", {.builtin_wkc = 1, .nres = 5, .res = {RICH}, .has_unknown = 1, .unknown = {.methods = ALL, .behaviour = RS_B_CONTENT}}, 0},
    {"rich+proxy(names=h)",
     {.builtin_wkc = 1, .nres = 5, .res = {RICH}, .has_proxy = 1, .proxy = {.methods = ALL, .behaviour = RS_B_CONTENT}, .nproxy_names = 1, .proxy_names = {"h"}},
     0},
    {"rich+proxy(names=other)+unknown:PUT",
     {.builtin_wkc = 1,
      .nres = 5,
      .res = {RICH},
      .has_proxy = 1,
      .proxy = {.methods = ALL, .behaviour = RS_B_CONTENT},
      .nproxy_names = 1,
      .proxy_names = {"other"},
      .has_unknown = 1,
      .unknown = {.methods = PUT, .behaviour = RS_B_NOCODE}},
     0},
    {"observable(a:all,a/b:GET:code0,root:GET)",
     {.builtin_wkc = 1,
      .nres = 3,
      .res = {RES1("a", ALL, RS_B_CONTENT, 0, 1), RES2("a", "b", GET, RS_B_NOCODE, 0, 1), {.nseg = 0, .methods = GET, .behaviour = RS_B_CONTENT}}},
     0},
    {"a:GET+unknown:all:takes-wkc",
     {.builtin_wkc = 1,
      .nres = 1,
      .res = {RES1("a", GET, RS_B_CONTENT, 0, 0)},
      .has_unknown = 1,
      .unknown = {.methods = ALL, .behaviour = RS_B_CONTENT},
      .unknown_takes_wkc = 1},
     0},
    /* per-resource multicast control */
    {"mc1(a:support,a/b:GET:empty2.05:supp205+send4xx+nodelay,a/'':4.04:send4xx,ae:nosupport)+unknown:all:nosupport",
     {.builtin_wkc = 1,
      .mcast_per_resource = 1,
      .nres = 4,
      .res = {RES1("a", ALL, RS_B_CONTENT, RS_MC_SUPPORT, 0),
              RES2("a", "b", GET, RS_B_CONTENT_EMPTY, RS_MC_SUPPORT | RS_MC_SUPP_205 | RS_MC_SEND_4XX | RS_MC_NODELAY, 0),
              RES2("a", "", ALL, RS_B_404, RS_MC_SUPPORT | RS_MC_SEND_4XX, 0), RES1("\xc3\xa4", ALL, RS_B_CONTENT, 0, 0)},
      .has_unknown = 1,
      .unknown = {.methods = ALL, .behaviour = RS_B_CONTENT}},
     1},
    {"mc2(a:supp2xx,a/b:5.00:send5xx,a/'':5.00,ae:nosupport+send4xx)+proxy(names=other):support+send4xx",
     {.builtin_wkc = 1,
      .mcast_per_resource = 1,
      .nres = 4,
      .res = {RES1("a", ALL, RS_B_CONTENT, RS_MC_SUPPORT | RS_MC_SUPP_2XX, 0), RES2("a", "b", ALL, RS_B_500, RS_MC_SUPPORT | RS_MC_SEND_5XX, 0),
              RES2("a", "", ALL, RS_B_500, RS_MC_SUPPORT, 0), RES1("\xc3\xa4", ALL, RS_B_CONTENT, RS_MC_SEND_4XX, 0)},
      .has_proxy = 1,
      .proxy = {.methods = ALL, .behaviour = RS_B_CONTENT, .mc = RS_MC_SUPPORT | RS_MC_SEND_4XX},
      .nproxy_names = 1,
      .proxy_names = {"other"}},
     1},
    {"mc3(a:GET:supp205,a/b:code0:support)+unknown:all:4.04:support+send4xx+send5xx",
     {.builtin_wkc = 1,
      .mcast_per_resource = 1,
      .nres = 2,
      .res = {RES1("a", GET, RS_B_CONTENT, RS_MC_SUPPORT | RS_MC_SUPP_205, 0), RES2("a", "b", ALL, RS_B_NOCODE, RS_MC_SUPPORT, 0)},
      .has_unknown = 1,
      .unknown = {.methods = ALL, .behaviour = RS_B_404, .mc = RS_MC_SUPPORT | RS_MC_SEND_4XX | RS_MC_SEND_5XX}},
     1},
};
#define N_TABLES ((int)(sizeof tables / sizeof tables[0]))

/* ------------------------------------------------------------------------------------------------ */
/* one case                                                                                          */

struct casedef {
  int table, dest, type, code, tkl, path, optset_k, optset;
  int prior; /* 1: the same peer has sent a datagram to the OTHER destination class (unicast / multicast) just before */
};

static const int edge_paths[] = {0, 1, 2, 5}; /* edge product: none, a, a/b, .well-known/core */

struct combo {
  int type, dest;
};
/* request product: a Confirmable request to a multicast group is compared on the invariants only (RFC 7252 8.1
 * forbids sending it), so that combination lives in the edge product */
static const struct combo combos_main[] = {{RS_T_CON, 0}, {RS_T_NON, 0}, {RS_T_NON, 1}};
static const struct combo combos_mc[] = {{RS_T_NON, 1}};
static const struct combo combos_edge[] = {{RS_T_CON, 0}, {RS_T_NON, 0}, {RS_T_ACK, 0}, {RS_T_RST, 0}, {RS_T_CON, 1}, {RS_T_NON, 1}, {RS_T_ACK, 1}, {RS_T_RST, 1}};

struct space {
  char name[96];
  int edge;      /* 0: request product, 1: edge product */
  int k;         /* option subsets of size <= k */
  int ntok, tok_off, ncode, npath;
  const int *codes;
  int ntab;
  int tab[16];   /* table indices */
  int both_dest_all; /* 1: every (type, destination) combination for every table */
  int prior;         /* 1: every request is preceded by a datagram of the same peer to the other destination class */
  uint64_t per_table[16], base[17];
  uint64_t total;
};

static int
space_combos(const struct space *s, int table, const struct combo **out) {
  if (s->edge) {
    *out = combos_edge;
    return 8;
  }
  if (tables[table].mcast_only && !s->both_dest_all) {
    *out = combos_mc;
    return 1;
  }
  *out = combos_main;
  return 3;
}

static void
space_finish(struct space *s) {
  uint64_t per = (uint64_t)n_optsets[s->k] * (uint64_t)s->npath * (uint64_t)s->ntok * (uint64_t)s->ncode;
  s->total = 0;
  for (int i = 0; i < s->ntab; i++) {
    const struct combo *cb;
    int ncb = space_combos(s, s->tab[i], &cb);
    s->per_table[i] = per * (uint64_t)ncb;
    s->base[i] = s->total;
    s->total += s->per_table[i];
  }
  s->base[s->ntab] = s->total;
}

static void
decode(const struct space *s, uint64_t idx, struct casedef *c) {
  int ti = 0;
  while (ti + 1 < s->ntab && idx >= s->base[ti + 1])
    ti++;
  idx -= s->base[ti];
  c->table = s->tab[ti];
  c->optset_k = s->k;
  c->optset = (int)(idx % (uint64_t)n_optsets[s->k]);
  idx /= (uint64_t)n_optsets[s->k];
  c->path = (int)(idx % (uint64_t)s->npath);
  if (s->edge)
    c->path = edge_paths[c->path];
  idx /= (uint64_t)s->npath;
  c->tkl = tok_lens[s->tok_off + (int)(idx % (uint64_t)s->ntok)];
  idx /= (uint64_t)s->ntok;
  c->code = s->codes[idx % (uint64_t)s->ncode];
  idx /= (uint64_t)s->ncode;
  const struct combo *cb;
  int ncb = space_combos(s, c->table, &cb);
  c->type = cb[idx % (uint64_t)ncb].type;
  c->dest = cb[idx % (uint64_t)ncb].dest;
  c->prior = s->prior;
}

/* --- observation --- */
struct seen_opt {
  uint32_t num;
  size_t len;
  uint8_t val[48];
};
struct hlog {
  int rid;       /* resource index, RS_H_UNKNOWN, RS_H_PROXY */
  int slot;      /* method slot the invoked function was registered in (0 = proxy: one function for all) */
  int req_code, req_type;
  int nopt;
  struct seen_opt opt[RS_MAXOPT];
  int has_query;
  char query[64];
  size_t qlen;
  size_t payload_len;
  uint8_t payload[16];
  int tkl;
  uint8_t token[16];
};
static struct hlog hlogs[4];
static int n_hlogs;

struct sent {
  size_t len;
  uint8_t b[320];
  uint64_t at;
};
static struct sent sents[6];
static int n_sents;
static uint64_t t_inject;

struct resdata {
  int rid;
  int behaviour;
};
static struct resdata resdata[RS_MAXRES + 2];

static const char *
payload_for(int rid) {
  static const char *const p[] = {"res0", "res1", "res2", "res3", "res4", "res5"};
  if (rid == RS_H_UNKNOWN)
    return "unkn";
  if (rid == RS_H_PROXY)
    return "prox";
  return p[rid];
}

static void
hnd_common(int slot, coap_resource_t *resource, const coap_pdu_t *request, const coap_string_t *query, coap_pdu_t *response) {
  struct resdata *rd = coap_resource_get_userdata(resource);
  if (n_hlogs < 4) {
    struct hlog *h = &hlogs[n_hlogs];
    memset(h, 0, sizeof *h);
    h->rid = rd ? rd->rid : -99;
    h->slot = slot;
    h->req_code = coap_pdu_get_code(request);
    h->req_type = coap_pdu_get_type(request);
    coap_opt_iterator_t oi;
    coap_opt_t *o;
    coap_option_iterator_init(request, &oi, COAP_OPT_ALL);
    while ((o = coap_option_next(&oi))) {
      if (h->nopt < RS_MAXOPT) {
        struct seen_opt *so = &h->opt[h->nopt++];
        so->num = oi.number;
        so->len = coap_opt_length(o);
        memcpy(so->val, coap_opt_value(o), so->len < sizeof so->val ? so->len : sizeof so->val);
      }
    }
    if (query) {
      h->has_query = 1;
      h->qlen = query->length;
      memcpy(h->query, query->s, query->length < sizeof h->query ? query->length : sizeof h->query);
    }
    size_t len = 0;
    const uint8_t *data = NULL;
    if (coap_get_data(request, &len, &data)) {
      h->payload_len = len;
      memcpy(h->payload, data, len < sizeof h->payload ? len : sizeof h->payload);
    }
    coap_bin_const_t tk = coap_pdu_get_token(request);
    h->tkl = (int)tk.length;
    memcpy(h->token, tk.s, tk.length < sizeof h->token ? tk.length : sizeof h->token);
  }
  n_hlogs++;
  if (!rd)
    return;
  switch (rd->behaviour) {
  case RS_B_CONTENT:
    coap_pdu_set_code(response, COAP_RESPONSE_CODE_CONTENT);
    coap_add_data(response, 4, (const uint8_t *)payload_for(rd->rid));
    break;
  case RS_B_CONTENT_EMPTY:
    coap_pdu_set_code(response, COAP_RESPONSE_CODE_CONTENT);
    break;
  case RS_B_NOCODE:
    break;
  case RS_B_404:
    coap_pdu_set_code(response, COAP_RESPONSE_CODE_NOT_FOUND);
    break;
  case RS_B_500:
    coap_pdu_set_code(response, COAP_RESPONSE_CODE_INTERNAL_ERROR);
    break;
  default:
    coap_pdu_set_code(response, (coap_pdu_code_t)0x20);
    break;
  }
}
#define HND(m)                                                                                                         \
  static void hnd_##m(coap_resource_t *r, coap_session_t *s, const coap_pdu_t *q, const coap_string_t *qs, coap_pdu_t *p) { \
    (void)s;                                                                                                           \
    hnd_common(m, r, q, qs, p);                                                                                        \
  }
HND(0) HND(1) HND(2) HND(3) HND(4) HND(5) HND(6) HND(7)
static const coap_method_handler_t hnd_by_method[8] = {hnd_0, hnd_1, hnd_2, hnd_3, hnd_4, hnd_5, hnd_6, hnd_7};

static void
on_send(const ns_dgram_t *d) {
  if (n_sents < 6) {
    struct sent *s = &sents[n_sents];
    s->len = d->len;
    memcpy(s->b, d->data, d->len < sizeof s->b ? d->len : sizeof s->b);
    s->at = ns_now();
  }
  n_sents++;
}

static int
mc_flags(unsigned mc) {
  int f = 0;
  if (mc & RS_MC_SUPPORT)
    f |= COAP_RESOURCE_FLAGS_HAS_MCAST_SUPPORT;
  if (mc & RS_MC_NODELAY)
    f |= COAP_RESOURCE_FLAGS_LIB_DIS_MCAST_DELAYS;
  if (mc & RS_MC_SUPP_205)
    f |= COAP_RESOURCE_FLAGS_LIB_ENA_MCAST_SUPPRESS_2_05;
  if (mc & RS_MC_SUPP_2XX)
    f |= COAP_RESOURCE_FLAGS_LIB_ENA_MCAST_SUPPRESS_2_XX;
  if (mc & RS_MC_SEND_4XX)
    f |= COAP_RESOURCE_FLAGS_LIB_DIS_MCAST_SUPPRESS_4_XX;
  if (mc & RS_MC_SEND_5XX)
    f |= COAP_RESOURCE_FLAGS_LIB_DIS_MCAST_SUPPRESS_5_XX;
  return f;
}

/* registration string of a resource: segments joined by '/', bytes outside 7-bit printable ASCII percent-encoded
 * (coap_resource(3): "if not 7 bit readable ASCII, binary bytes must be hex encoded") */
static size_t
reg_path(const struct rs_res *r, char *out, size_t cap) {
  size_t n = 0;
  for (int s = 0; s < r->nseg; s++) {
    if (s && n < cap)
      out[n++] = '/';
    for (const unsigned char *p = (const unsigned char *)r->seg[s]; *p; p++) {
      if (*p > 0x20 && *p < 0x7f && *p != '%' && *p != '/') {
        if (n < cap)
          out[n++] = (char)*p;
      } else if (n + 3 <= cap) {
        static const char hx[] = "0123456789ABCDEF";
        out[n++] = '%';
        out[n++] = hx[*p >> 4];
        out[n++] = hx[*p & 15];
      }
    }
  }
  return n;
}

static void
register_methods(coap_resource_t *r, unsigned methods) {
  for (int m = 1; m <= 7; m++)
    if ((methods >> (m - 1)) & 1)
      coap_register_request_handler(r, (coap_request_t)m, hnd_by_method[m]);
}

static coap_context_t *
build_server(const struct rs_table *t, const coap_address_t *srv) {
  coap_context_t *ctx = coap_new_context(NULL);
  if (!ctx)
    return NULL;
  ns_register_ctx(ctx);
  if (!coap_new_endpoint(ctx, srv, COAP_PROTO_UDP)) {
    ns_unregister_ctx(ctx);
    coap_free_context(ctx);
    return NULL;
  }
  if (t->mcast_per_resource)
    coap_mcast_per_resource(ctx);
  for (int i = 0; i < t->nres; i++) {
    char p[64];
    size_t n = reg_path(&t->res[i], p, sizeof p);
    coap_str_const_t sc = {n, (const uint8_t *)p};
    coap_resource_t *r = coap_resource_init(&sc, mc_flags(t->res[i].mc));
    register_methods(r, t->res[i].methods);
    if (t->res[i].observable)
      coap_resource_set_get_observable(r, 1);
    resdata[i] = (struct resdata){i, t->res[i].behaviour};
    coap_resource_set_userdata(r, &resdata[i]);
    coap_add_resource(ctx, r);
  }
  if (t->has_unknown) {
    int fl = mc_flags(t->unknown.mc) | (t->unknown_takes_wkc ? COAP_RESOURCE_HANDLE_WELLKNOWN_CORE : 0);
    coap_resource_t *r = coap_resource_unknown_init2((t->unknown.methods & PUT) ? hnd_3 : NULL, fl);
    register_methods(r, t->unknown.methods);
    resdata[RS_MAXRES] = (struct resdata){RS_H_UNKNOWN, t->unknown.behaviour};
    coap_resource_set_userdata(r, &resdata[RS_MAXRES]);
    coap_add_resource(ctx, r);
  }
  if (t->has_proxy) {
    const char *names[4];
    for (int i = 0; i < t->nproxy_names; i++)
      names[i] = t->proxy_names[i];
    coap_resource_t *r = coap_resource_proxy_uri_init2(hnd_0, (size_t)t->nproxy_names, names, mc_flags(t->proxy.mc));
    resdata[RS_MAXRES + 1] = (struct resdata){RS_H_PROXY, t->proxy.behaviour};
    coap_resource_set_userdata(r, &resdata[RS_MAXRES + 1]);
    coap_add_resource(ctx, r);
  }
  return ctx;
}

/* --- the request --- */
struct built {
  struct w_buf w;
  struct rs_req q;
  uint8_t token[16];
  int mid;
  char desc[400];
};

static void
build_request(const struct casedef *c, uint64_t idx, struct built *b) {
  struct rs_req *q = &b->q;
  memset(q, 0, sizeof *q);
  q->type = c->type;
  q->code = c->code;
  q->tkl = c->tkl;
  q->mcast = c->dest;
  for (int i = 0; i < c->tkl; i++)
    b->token[i] = (uint8_t)(0xA0 + i);
  b->mid = 0x1000 + (int)(idx % 0xE000u);
  if (c->prior)
    b->mid = idx & 1 ? 0x0000 : 0xFFFF; /* the third space also carries the two ends of the message id range */
  const struct path_alt *pa = &paths[c->path];
  for (int s = 0; s < pa->nseg; s++) {
    q->opt[q->nopt].num = RS_O_URI_PATH;
    q->opt[q->nopt].val = (const uint8_t *)pa->seg[s];
    q->opt[q->nopt].len = strlen(pa->seg[s]);
    q->nopt++;
  }
  const struct optset *os = &optsets[c->optset_k][c->optset];
  for (int k = 0; k < os->n; k++) {
    const struct item *it = &items[os->it[k]];
    for (int j = 0; j < it->n; j++) {
      q->opt[q->nopt].num = it->o[j].num;
      q->opt[q->nopt].val = (const uint8_t *)it->o[j].val;
      q->opt[q->nopt].len = it->o[j].len;
      q->nopt++;
    }
  }
  /* stable insertion sort by option number (wire order) */
  for (int i = 1; i < q->nopt; i++) {
    struct rs_opt x = q->opt[i];
    int j = i - 1;
    while (j >= 0 && q->opt[j].num > x.num) {
      q->opt[j + 1] = q->opt[j];
      j--;
    }
    q->opt[j + 1] = x;
  }
  int with_payload = c->code == 2 || c->code == 3 || c->code == 5 || c->code == 6 || c->code == 7;
  q->payload_len = with_payload ? 2 : 0;
  w_begin(&b->w, c->type, c->code, b->mid, b->token, c->tkl);
  for (int i = 0; i < q->nopt; i++)
    w_opt_add(&b->w, q->opt[i].num, q->opt[i].val, q->opt[i].len);
  if (with_payload)
    w_payload(&b->w, "PL", 2);
  /* description */
  static const char *const tn[] = {"CON", "NON", "ACK", "RST"};
  size_t o = (size_t)snprintf(b->desc, sizeof b->desc, "%s %d.%02d tkl=%d path=%s opts={", tn[c->type], c->code >> 5, c->code & 31, c->tkl, pa->name);
  for (int k = 0; k < os->n && o < sizeof b->desc; k++)
    o += (size_t)snprintf(b->desc + o, sizeof b->desc - o, "%s%s", k ? "," : "", items[os->it[k]].name);
  if (o < sizeof b->desc)
    snprintf(b->desc + o, sizeof b->desc - o, "} dst=%s table=%s", c->dest ? "mcast" : "unicast", tables[c->table].name);
}

/* --- reply parsing (token lengths 9..12 of RFC 8974 are tolerated) --- */
struct reply {
  int ok, type, code, mid, tkl;
  uint8_t token[16];
  struct w_msg m; /* options / payload */
  uint8_t stripped[320];
  size_t len;
  uint64_t at;
};
static int
parse_reply(const struct sent *s, struct reply *r) {
  memset(r, 0, sizeof *r);
  r->len = s->len;
  r->at = s->at;
  if (s->len < 4 || s->len > sizeof s->b || (s->b[0] >> 6) != 1)
    return 0;
  r->type = (s->b[0] >> 4) & 3;
  r->tkl = s->b[0] & 15;
  r->code = s->b[1];
  r->mid = s->b[2] << 8 | s->b[3];
  if (r->tkl > 12 || 4 + (size_t)r->tkl > s->len)
    return 0;
  memcpy(r->token, s->b + 4, (size_t)r->tkl);
  memcpy(r->stripped, s->b, 4);
  r->stripped[0] &= 0xF0;
  memcpy(r->stripped + 4, s->b + 4 + r->tkl, s->len - 4 - (size_t)r->tkl);
  if (!w_parse(r->stripped, s->len - (size_t)r->tkl, &r->m))
    return 0;
  r->ok = 1;
  return 1;
}

static const char *const type_names[] = {"CON", "NON", "ACK", "RST"};

enum { OK_NONE = RS_K_NONE, OK_RST = RS_K_RST, OK_EACK = RS_K_EMPTY_ACK, OK_RESP = RS_K_RESPONSE, OK_SEP = 4 };

static void
kind_str(char *out, size_t cap, int app_handler, int kind, int code) {
  char c[8];
  rs_code_str(code, c);
  const char *h = app_handler ? "handler/" : "";
  switch (kind) {
  case OK_NONE:
    snprintf(out, cap, "%snone", h);
    break;
  case OK_RST:
    snprintf(out, cap, "%sRST", h);
    break;
  case OK_EACK:
    snprintf(out, cap, "%sEACK", h);
    break;
  case OK_RESP:
    snprintf(out, cap, "%s%s", h, c);
    break;
  default:
    snprintf(out, cap, "%ssep/%s", h, c);
    break;
  }
}

static int
is_app_handler(int h) {
  return h != RS_H_NONE && h != RS_H_WKC;
}

/* counters (vxp_count): 0..19 = deciding rule of the matched outcome */
enum { CN_ALT = 20, CN_UNSPEC, CN_HANDLERS, CN_SENT, CN_NR, CN_MC, CN_SEP, CN_SKIP, CN_RST_TO_ACKRST, CN_ATTRIB };

struct verdict {
  int failed;
  char sig[200];
  char msg[1100];
  /* observation summary */
  int okind, ocode, ran, nh, ns;
  int hit_rule, hit_alt, hit_unspec, hit_suppress;
  int rst_to_ackrst;
  char line[1100];
};

/* Runs ONE request against a fresh server and compares with the decision table.  No vx/vxp side effects except traces. */
static void
eval_case(const struct casedef *cp, uint64_t idx, struct verdict *v) {
  const struct casedef c = *cp;
  memset(v, 0, sizeof *v);
  struct built b;
  build_request(&c, idx, &b);
  const struct table *T = &tables[c.table];
  struct rs_decision d;
  rs_decide(&T->t, &b.q, &d);

  /* ---- run the real server ---- */
  n_hlogs = 0;
  n_sents = 0;
  ns_init();
  ns_on_send = on_send;
  ns_on_deliver = NULL;
  ns_raw_rx = NULL;
  coap_address_t srv, peer, grp;
  ns_addr(&srv, 1, 5683);
  ns_addr(&peer, 50, 40001);
  ns_addr(&grp, 224, 5683);
  coap_context_t *ctx = build_server(&T->t, &srv);
  if (!ctx) {
    v->failed = 1;
    snprintf(v->sig, sizeof v->sig, "harness:server-setup");
    snprintf(v->msg, sizeof v->msg, "could not create the server context");
    ns_fini();
    return;
  }
  if (c.prior) {
    /* the peer's session exists already and was last used with the other destination address: a NON GET for a path nobody
     * serves, No-Response 26 (nothing is answered either way); then everything settles */
    struct w_buf pw;
    uint8_t ptok = 0x77;
    w_begin(&pw, 1, 1, 0x1111, &ptok, 1);
    w_opt_add(&pw, 11, "nobody-serves-this", 18);
    w_opt_add(&pw, 258, "\x1a", 1);
    ns_inject_now(&peer, c.dest ? &srv : &grp, pw.b, pw.n);
    for (int k = 0; k < 8; k++) {
      unsigned t = ns_prepare_all();
      if (!t || t > 6000)
        break;
      ns_advance(t);
    }
    ns_prepare_all();
    while (ns_inflight_count())
      ns_drop(0);
    n_hlogs = 0;
    n_sents = 0;
  }
  uint8_t *dg = malloc(b.w.n); /* exact-size copy */
  memcpy(dg, b.w.b, b.w.n);
  t_inject = ns_now();
  if (vx_in_replay()) {
    char hx[700];
    vx_hex(hx, sizeof hx, dg, b.w.n);
    vx_trace("case: %s", b.desc);
    vx_trace("request datagram: %s", hx);
  }
  ns_inject_now(&peer, c.dest ? &grp : &srv, dg, b.w.n);
  free(dg);
  ns_prepare_all();
  if (c.dest) {
    /* multicast responses are delayed by up to DEFAULT_LEISURE (5 s) */
    uint64_t spent = 0;
    for (int k = 0; k < 8; k++) {
      unsigned t = ns_prepare_all();
      if (!t || spent + t > 6000)
        break;
      ns_advance(t);
      spent += t;
    }
    ns_prepare_all();
  } else {
    ns_advance(1000); /* < ACK_TIMEOUT: nothing may be retransmitted yet */
    ns_prepare_all();
  }
  /* tear-down is not part of the observation (deleting an observed resource notifies 4.04) */
  ns_on_send = NULL;
  while (ns_inflight_count())
    ns_drop(0);
  ns_unregister_ctx(ctx);
  coap_free_context(ctx);
  ns_fini();

  /* ---- observation ---- */
  const char *rule0 = rs_rule_name(d.out[0].rule);
  const char *tyn = type_names[c.type];
  char hexreq[400];
  vx_hex(hexreq, sizeof hexreq, b.w.b, b.w.n);
  struct reply rep[6];
  int nrep = n_sents < 6 ? n_sents : 6;
  int failed = 0;
  char *sig = v->sig;
#define FAIL(...)                                                                                                      \
  do {                                                                                                                 \
    snprintf(sig, sizeof v->sig, __VA_ARGS__);                                                                         \
    failed = 1;                                                                                                        \
  } while (0)
  char detail[500] = "";
  size_t dl = 0;
  for (int i = 0; i < nrep; i++) {
    parse_reply(&sents[i], &rep[i]);
    char hx[200];
    vx_hex(hx, sizeof hx, sents[i].b, sents[i].len < 64 ? sents[i].len : 64);
    if (dl < sizeof detail)
      dl += (size_t)snprintf(detail + dl, sizeof detail - dl, " reply%d=[%s +%llums]", i, hx, (unsigned long long)(sents[i].at - t_inject));
  }
  for (int i = 0; i < n_hlogs && i < 4; i++)
    if (dl < sizeof detail)
      dl += (size_t)snprintf(detail + dl, sizeof detail - dl, " handler%d=[res=%d slot=%d code=%d]", i, hlogs[i].rid, hlogs[i].slot, hlogs[i].req_code);
  if (vx_in_replay())
    vx_trace("observed:%s%s", detail, n_sents || n_hlogs ? "" : " nothing");

  /* invariants of the statement */
  int ndirect = 0, nsep = 0, direct = -1, sep = -1;
  for (int i = 0; i < nrep && !failed; i++) {
    struct reply *r = &rep[i];
    if (!r->ok) {
      FAIL("wire:malformed-reply");
      break;
    }
    if (r->type == 0) {
      nsep++;
      sep = i;
    } else {
      ndirect++;
      if (direct < 0)
        direct = i;
    }
    if (r->code == 0 && r->len != 4)
      FAIL("wire:empty-message-not-empty");
    else if (r->type == 2 && c.type == RS_T_NON)
      FAIL("ack-for-NON");
    else if (r->type == 2 && c.type != RS_T_CON)
      FAIL("ack-for-%s", tyn);
    else if (r->type == 2 && r->mid != b.mid)
      FAIL("ack-mid-mismatch");
    else if (r->type == 3 && r->mid != b.mid)
      FAIL("rst-mid-mismatch");
    else if (r->type == 3 && r->code != 0)
      FAIL("wire:rst-with-code");
    else if (r->type == 1 && c.type == RS_T_CON)
      FAIL("non-for-CON");
    else if ((r->type == 1 || r->type == 0) && r->code == 0)
      FAIL("wire:empty-%s-sent", type_names[r->type]);
    else if (r->code != 0 && (r->tkl != c.tkl || memcmp(r->token, b.token, (size_t)c.tkl)))
      FAIL("token-not-echoed:%s", rule0);
    else if (r->type == 3 && c.type == RS_T_NON && c.dest)
      FAIL("suppression:mcast:rst-for-NON:%s", rule0);
    else if (r->code != 0 && RS_CLASS(r->code) < 2 && !(d.out[0].rule == RS_R_HANDLER && d.out[0].unspecified))
      FAIL("wire:reply-with-request-code");
  }
  if (!failed && n_sents > 6)
    FAIL("reply-count:%d:%s", n_sents, rule0);
  if (!failed && ndirect > 1)
    FAIL("reply-count:%d:%s", ndirect, rule0);
  if (!failed && nsep) {
    /* a separate (Confirmable) response: only after the Empty ACK of a CON request, and only one */
    if (nsep > 1 || c.type != RS_T_CON || ndirect != 1 || rep[direct].type != 2 || rep[direct].code != 0 || direct > sep)
      FAIL("reply-count:separate-without-empty-ack:%s", rule0);
  }
  if (!failed && n_hlogs > 1)
    FAIL("handler-ran-twice");

  /* the decision table */
  int okind = OK_NONE, ocode = 0;
  struct reply *resp = NULL;
  int ran = n_hlogs ? hlogs[0].rid : RS_H_NONE;
  if (nsep && sep >= 0 && rep[sep].ok) {
    okind = OK_SEP;
    resp = &rep[sep];
    ocode = resp->code;
  } else if (ndirect && rep[direct].ok) {
    struct reply *r = &rep[direct];
    if (r->type == 3)
      okind = OK_RST;
    else if (r->code == 0)
      okind = OK_EACK;
    else {
      okind = OK_RESP;
      resp = r;
      ocode = r->code;
    }
  }
  v->okind = okind;
  v->ocode = ocode;
  v->ran = ran;
  v->nh = n_hlogs;
  v->ns = n_sents;
  if (!failed) {
    const struct rs_outcome *hit = NULL;
    for (int i = 0; i < d.n && !hit; i++) {
      const struct rs_outcome *o = &d.out[i];
      int want_ran = is_app_handler(o->handler) ? o->handler : RS_H_NONE;
      if (o->unspecified) {
        if (o->handler_free || ran == want_ran)
          hit = o;
        continue;
      }
      if (ran != want_ran)
        continue;
      int kind_ok = okind == o->kind || (okind < 4 && ((1 << okind) & o->alt_kinds)) || (okind == OK_SEP && o->separate_ok && o->kind == RS_K_RESPONSE);
      if (!kind_ok)
        continue;
      if (resp && ocode != o->code)
        continue;
      hit = o;
    }
    if (!hit) {
      const struct rs_outcome *o = &d.out[0];
      char w[40], g[40];
      kind_str(w, sizeof w, is_app_handler(o->handler), o->kind, o->code);
      kind_str(g, sizeof g, n_hlogs > 0, okind, ocode);
      if (n_hlogs > 0 && !is_app_handler(o->handler))
        snprintf(g, sizeof g, "handler"); /* a handler ran that must not: what it answered does not matter */
      int want_sent = o->kind == RS_K_RESPONSE, got_sent = okind == OK_RESP || okind == OK_SEP;
      int same_handler = ran == (is_app_handler(o->handler) ? o->handler : RS_H_NONE);
      if (same_handler && want_sent != got_sent && d.has_noresponse && o->code && (!got_sent || ocode == o->code))
        FAIL("suppression:no-response:%u:%dxx:want-%s-got-%s", d.noresponse, RS_CLASS(o->code), w, g);
      else if (same_handler && want_sent != got_sent && c.dest && o->code && (!got_sent || ocode == o->code))
        FAIL("suppression:mcast:%s:want-%s-got-%s", rule0, w, g);
      else if (want_sent && got_sent && same_handler)
        FAIL("reply:want-%s-got-%s:%s", w, g, rule0); /* code against code: the message type does not matter */
      else
        FAIL("reply:want-%s-got-%s:%s:%s%s", w, g, rule0, tyn, c.dest ? ":mcast" : "");
    } else {
      /* what else the matched outcome fixes */
      if (hit->necho && resp) {
        for (int k = 0; k < hit->necho && !failed; k++) {
          const struct rs_opt *qo = rs_find(&b.q, hit->echo[k]);
          const struct w_opt *ro = w_find(&resp->m, hit->echo[k]);
          if (!qo || !ro || ro->len != qo->len || memcmp(ro->val, qo->val, qo->len))
            FAIL("error-response:4.02:option-not-echoed");
        }
      }
      if (!failed && hit->payload_cmp && resp && !hit->unspecified && is_app_handler(hit->handler)) {
        const struct rs_res *rr = hit->handler == RS_H_UNKNOWN ? &T->t.unknown : hit->handler == RS_H_PROXY ? &T->t.proxy : &T->t.res[hit->handler];
        size_t wl = rr->behaviour == RS_B_CONTENT ? 4 : 0;
        if (resp->m.payload_len != wl || (wl && memcmp(resp->m.payload, payload_for(hit->handler), wl)))
          FAIL("handler-reply:payload");
      }
      if (!failed && n_hlogs == 1 && is_app_handler(hit->handler)) {
        const struct hlog *h = &hlogs[0];
        /* path: the Uri-Path options the handler can read are the request's */
        int qi = 0, bad_path = 0, bad_opts = 0;
        for (int i = 0; i < h->nopt; i++)
          if (h->opt[i].num == RS_O_URI_PATH) {
            while (qi < b.q.nopt && b.q.opt[qi].num != RS_O_URI_PATH)
              qi++;
            if (qi >= b.q.nopt || b.q.opt[qi].len != h->opt[i].len || memcmp(b.q.opt[qi].val, h->opt[i].val, h->opt[i].len))
              bad_path = 1;
            qi++;
          }
        while (qi < b.q.nopt && b.q.opt[qi].num != RS_O_URI_PATH)
          qi++;
        if (qi < b.q.nopt)
          bad_path = 1;
        /* all options, in order; a Hop-Limit may have been decremented by one (RFC 8768 3) */
        if (h->nopt != b.q.nopt)
          bad_opts = 1;
        for (int i = 0; i < h->nopt && !bad_opts; i++) {
          const struct rs_opt *qo = &b.q.opt[i];
          const struct seen_opt *so = &h->opt[i];
          if (so->num != qo->num || so->len != qo->len)
            bad_opts = 1;
          else if (memcmp(so->val, qo->val, qo->len)) {
            if (!(qo->num == RS_O_HOP_LIMIT && qo->len == 1 && so->val[0] == (uint8_t)(qo->val[0] - 1)))
              bad_opts = 1;
          }
        }
        /* the query string handed to the handler: all Uri-Query options joined by '&' */
        struct rs_opt uq_joined = {0}, *uq = NULL;
        static uint8_t uq_buf[64];
        size_t uq_n = 0;
        for (int i = 0; i < b.q.nopt; i++)
          if (b.q.opt[i].num == RS_O_URI_QUERY && uq_n + b.q.opt[i].len + 1 < sizeof uq_buf) {
            if (uq)
              uq_buf[uq_n++] = '&';
            memcpy(uq_buf + uq_n, b.q.opt[i].val, b.q.opt[i].len);
            uq_n += b.q.opt[i].len;
            uq = &uq_joined;
          }
        uq_joined.num = RS_O_URI_QUERY;
        uq_joined.val = uq_buf;
        uq_joined.len = uq_n;
        if (bad_path)
          FAIL("handler-args:path");
        else if (bad_opts)
          FAIL("handler-args:options");
        else if (h->req_code != c.code || h->req_type != c.type)
          FAIL("handler-args:code-or-type");
        else if (h->slot != 0 && h->slot != c.code)
          FAIL("handler-args:method-slot");
        else if (h->tkl != c.tkl || memcmp(h->token, b.token, (size_t)c.tkl))
          FAIL("handler-args:token");
        else if (h->payload_len != b.q.payload_len || (h->payload_len && memcmp(h->payload, "PL", 2)))
          FAIL("handler-args:payload");
        else if (uq && !(h->has_query && h->qlen == uq->len && !memcmp(h->query, uq->val, uq->len)))
          FAIL("handler-args:query");
        else if (!uq && h->has_query && h->qlen)
          FAIL("handler-args:query");
      }
      if (!failed) {
        v->hit_rule = hit->rule;
        v->hit_alt = hit != &d.out[0];
        v->hit_unspec = hit->unspecified;
        v->hit_suppress = hit->suppress;
      }
    }
  }
  for (int i = 0; i < nrep; i++)
    if (rep[i].ok && rep[i].type == 3 && (c.type == RS_T_ACK || c.type == RS_T_RST))
      v->rst_to_ackrst++; /* Reset sent in reply to an ACK/RST-typed datagram (not part of the statement; informational) */
  char w[40], g[40];
  kind_str(w, sizeof w, is_app_handler(d.out[0].handler), d.out[0].kind, d.out[0].code);
  kind_str(g, sizeof g, n_hlogs > 0, okind, ocode);
  v->failed = failed;
  if (failed)
    snprintf(v->msg, sizeof v->msg, "%s | request=%s mid=%04x | reference: rule=%s want=%s (%d acceptable outcome%s) | observed:%s%s", b.desc, hexreq,
             b.mid, rule0, w, d.n, d.n == 1 ? "" : "s", detail, n_sents || n_hlogs ? "" : " no reply, no handler");
  snprintf(v->line, sizeof v->line, "idx=%llu %s | request=%s -> rule=%s want=%s got=%s%s", (unsigned long long)idx, b.desc, hexreq, rule0, w, g, detail);
#undef FAIL
}

/* The same request without its No-Response option, sent to the unicast address.  Returns 0 if the case is its own base. */
static int
base_of(const struct casedef *c, struct casedef *base) {
  *base = *c;
  base->dest = 0;
  const struct optset *os = &optsets[c->optset_k][c->optset];
  int keep[3], nk = 0;
  for (int k = 0; k < os->n; k++)
    if (items[os->it[k]].group != G_NR)
      keep[nk++] = os->it[k];
  if (nk != os->n) {
    int found = -1;
    for (int i = 0; i < n_optsets[c->optset_k] && found < 0; i++) {
      const struct optset *x = &optsets[c->optset_k][i];
      if (x->n != nk)
        continue;
      int same = 1;
      for (int k = 0; k < nk; k++)
        if (x->it[k] != keep[k])
          same = 0;
      if (same)
        found = i;
    }
    if (found < 0)
      return 0;
    base->optset = found;
  }
  return base->dest != c->dest || base->optset != c->optset;
}

struct space;
static void
one_case(uint64_t idx, void *arg) {
  const struct space *sp = arg;
  struct casedef c;
  decode(sp, idx, &c);
  /* an Empty message is the 4-byte header and nothing else; anything more is not well-formed (C03's matter) */
  if (c.code == 0 && (c.tkl || paths[c.path].nseg || optsets[c.optset_k][c.optset].n)) {
    vxp_count(CN_SKIP, 1);
    return;
  }
  static struct verdict v, vb;
  eval_case(&c, idx, &v);
  vxp_count(CN_HANDLERS, (uint64_t)v.nh);
  vxp_count(CN_SENT, (uint64_t)v.ns);
  vxp_count(CN_RST_TO_ACKRST, (uint64_t)v.rst_to_ackrst);
  if (!v.failed) {
    vxp_count(v.hit_rule, 1);
    if (v.hit_alt)
      vxp_count(CN_ALT, 1);
    if (v.hit_unspec)
      vxp_count(CN_UNSPEC, 1);
    if (v.hit_suppress == RS_S_NORESPONSE)
      vxp_count(CN_NR, 1);
    if (v.hit_suppress == RS_S_MCAST)
      vxp_count(CN_MC, 1);
    if (v.okind == OK_SEP)
      vxp_count(CN_SEP, 1);
    int key[10] = {c.table, c.type, c.code, c.path, c.dest, v.hit_rule, v.okind, v.ocode, v.ran, v.hit_suppress};
    vxp_distinct(vx_fnv(key, sizeof key, VX_FNV0));
  } else {
    /* Root-cause attribution: if the same request without No-Response, sent unicast, already deviates, and this
     * case is exactly that deviation seen through the reference's own suppression stage, it is reported under
     * the base case's signature (one defect, one signature); otherwise under its own. */
    struct casedef bc;
    if (base_of(&c, &bc)) {
      if (vx_in_replay())
        vx_trace("--- base case (no No-Response, unicast) ---");
      eval_case(&bc, idx, &vb);
      if (vb.failed && vb.nh == v.nh && vb.ran == v.ran) {
        struct built b;
        build_request(&c, idx, &b);
        int pk;
        if (vb.okind == OK_RESP || vb.okind == OK_SEP) {
          pk = rs_final_kind(&tables[c.table].t, &b.q, NULL, 0, vb.ocode);
          if (pk == RS_K_RESPONSE && vb.okind == OK_SEP)
            pk = OK_SEP;
        } else {
          pk = vb.okind;
          if (pk == OK_RST && c.dest && c.type == RS_T_NON)
            pk = OK_NONE;
        }
        int explained = pk == v.okind && ((v.okind != OK_RESP && v.okind != OK_SEP) || v.ocode == vb.ocode);
        if (explained) {
          vxp_count(CN_ATTRIB, 1);
          char m2[1100];
          snprintf(m2, sizeof m2, "[variant of the base case without No-Response/unicast] %s", v.msg);
          snprintf(v.msg, sizeof v.msg, "%s", m2);
          snprintf(v.sig, sizeof v.sig, "%s", vb.sig);
        }
      }
    }
    vx_fail(v.sig, "%s", v.msg);
  }
  if (vx_in_replay() || idx % 250007 == 0)
    vxp_sample("%s", v.line);
}

/* ------------------------------------------------------------------------------------------------ */
static struct space spaces[6];
static int n_spaces;

int
main(int argc, char **argv) {
  vx_main_init(argc, argv, "C10");
  int T = vx_is_thorough();
  build_optsets();
  int st = rs_selftest();
  if (st) {
    fprintf(stderr, "refsrv self-test failed (%d)\n", st);
    return 2;
  }

#ifdef __SANITIZE_ADDRESS__
  const int asan = 1;
#else
  const int asan = 0;
#endif
  struct space *s;
  /* stage layout: the sanitizer build carries the <=2-option request product and the edge product (both tiers);
   * the plain -O2 build carries the <=3-option request product, thorough only */
  if (!asan && !T) {
    if (vx_replay_path())
      return 2; /* nothing of this stage runs in the quick tier */
    vx_ev_rule("(fast stage: thorough tier only)");
    return vx_finish();
  }

  /* request product */
  s = &spaces[n_spaces++];
  memset(s, 0, sizeof *s);
  s->k = asan ? 2 : 3;
  snprintf(s->name, sizeof s->name, "requests:CON,NON,NON-mcast:opts<=%d:%s", s->k, T ? "full" : "quick");
  s->ntok = T ? 3 : 2;
  s->codes = req_codes;
  s->ncode = T ? N_REQ_CODES : 6;
  s->npath = N_PATHS;
  s->ntab = N_TABLES;
  for (int i = 0; i < N_TABLES; i++)
    s->tab[i] = i;
  s->both_dest_all = T;
  space_finish(s);

  /* the request product (<= 1 option item) again on a session the peer has just used with the other destination class */
  if (asan) {
    s = &spaces[n_spaces++];
    memset(s, 0, sizeof *s);
    s->k = 1;
    s->prior = 1;
    snprintf(s->name, sizeof s->name, "requests-after-a-datagram-to-the-other-destination:opts<=1:%s", T ? "full" : "quick");
    s->ntok = T ? 3 : 2;
    s->codes = req_codes;
    s->ncode = T ? N_REQ_CODES : 6;
    s->npath = N_PATHS;
    s->ntab = N_TABLES;
    for (int i = 0; i < N_TABLES; i++)
      s->tab[i] = i;
    s->both_dest_all = 1;
    space_finish(s);
  }
  /* edge product: all four types x both destinations, invalid classes, Empty, 9-byte token */
  if (asan) {
    s = &spaces[n_spaces++];
    memset(s, 0, sizeof *s);
    s->edge = 1;
    s->k = T ? 2 : 1;
    snprintf(s->name, sizeof s->name, "edge:4types:13codes:tkl0-9:opts<=%d", s->k);
    s->ntok = 4;
    s->codes = edge_codes;
    s->ncode = N_EDGE_CODES;
    s->npath = T ? 4 : 3;
    static const int et[] = {0, 2, 6, 9, 5};
    s->ntab = T ? 5 : 4;
    for (int i = 0; i < s->ntab; i++)
      s->tab[i] = et[i];
    s->both_dest_all = 1;
    space_finish(s);
  }

  for (int i = 0; i < n_spaces; i++)
    if (vxp_replay_if_match(spaces[i].name, one_case, &spaces[i]))
      return 0;
  if (vx_replay_path()) {
    fprintf(stderr, "replay file does not match any space\n");
    return 2;
  }

  uint64_t done = 0;
  for (int i = 0; i < n_spaces; i++) {
    struct vxp_config c = {.space = spaces[i].name, .total = spaces[i].total};
    struct vxp_stats xs;
    vxp_enumerate(&c, one_case, &spaces[i], &xs);
    done += xs.done;
  }
  uint64_t skipped = vxp_counter(CN_SKIP);
  vx_ev_add_states((long long)(done - skipped), (long long)(done - skipped), (long long)(done - skipped));
  vx_ev_add_evals((long long)(done - skipped), (long long)vxp_distinct_count());
  vx_ev_rule("(third space: the request product with <= 1 option item again, each request preceded by a datagram of the same peer to the other destination class - the session exists and was last used with the other local address) "
             "every case = one request datagram (type x code x token length x Uri-Path x option subset x unicast/multicast destination) "
             "injected into a fresh real libcoap server context configured with one of the resource tables; replies captured at the "
             "socket seam, handler invocations logged; compared with the refsrv decision table. distinct = distinct (table, type, code, "
             "path, destination, deciding rule, reply kind, reply code, handler, suppression reason) tuples");
  vx_ev_assumption("UDP only; default context settings (max token 8, no OSCORE context, block mode off, leisure 5 s)");
  vx_ev_assumption("the first datagram of a fresh session arrives >= 10 s after start-up (libcoap rate-limits Resets per session: last_tx_rst + 250 ms)");
  vx_ev_assumption("an Empty message carrying a token/options and response-class codes are not request datagrams (left to C03/C07)");
  vx_ev_assumption("where the statement gives no order between applicable error rules (4.04/4.12/4.05/4.15) every applicable code is accepted; "
                   "Proxy-Scheme without Uri-Host on a server with a proxy resource, Confirmable multicast requests, 9-byte tokens and handlers "
                   "that set an invalid code are compared on the invariants only");
  vx_ev_int("tables", N_TABLES);
  vx_ev_int("option_items", N_ITEMS);
  vx_ev_int("option_subsets_main", n_optsets[spaces[0].k]);
  vx_ev_int("skipped_not_wellformed", (long long)skipped);
  for (int r = 0; r < RS_R__COUNT; r++) {
    char k[64];
    snprintf(k, sizeof k, "decided_by.%s", rs_rule_name(r));
    vx_ev_int(k, (long long)vxp_counter(r));
  }
  vx_ev_int("matched_alternative_outcome", (long long)vxp_counter(CN_ALT));
  vx_ev_int("invariants_only", (long long)vxp_counter(CN_UNSPEC));
  vx_ev_int("handler_invocations", (long long)vxp_counter(CN_HANDLERS));
  vx_ev_int("datagrams_sent_by_server", (long long)vxp_counter(CN_SENT));
  vx_ev_int("withheld_by_no_response", (long long)vxp_counter(CN_NR));
  vx_ev_int("withheld_by_multicast", (long long)vxp_counter(CN_MC));
  vx_ev_int("separate_responses", (long long)vxp_counter(CN_SEP));
  vx_ev_int("info_rst_in_reply_to_ack_or_rst_typed", (long long)vxp_counter(CN_RST_TO_ACKRST));
  vx_ev_int("failures_attributed_to_base_case", (long long)vxp_counter(CN_ATTRIB));
  vx_ev_str("refsrv_selftest", "ok");
  return vx_finish();
}
