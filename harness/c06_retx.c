/* C06 -- Confirmable messages are retransmitted on schedule and end in exactly one outcome.
 *
 * Real libcoap client context against raw peers over netsim; virtual clock; every datagram, timer and
 * peer verdict is a choice point.  A trace monitor written from RFC 7252 4.2/4.8 predicts, for every
 * call of coap_io_prepare_io(), exactly which CON messages must be retransmitted or given up.
 */
#include "netsim.h"

struct cfg {
  char name[160];
  int ato_ms;     /* ACK_TIMEOUT in ms */
  int arf_milli;  /* ACK_RANDOM_FACTOR * 1000 */
  int max_retx;
  int nreq;       /* number of CON requests */
  int nsess;      /* spread over this many sessions/peers */
  int nstart;
  int with_non;   /* add a NON bystander */
  int answer_from; /* peer ignores the first k transmissions of each mid (99 = dead peer) */
  char verdict;   /* 'A' ack, 'R' rst */
  int rsel;       /* which r byte: 0 ->0, 1 ->128, 2 ->255, 3 -> differing per message */
  int stagger;    /* script inserts waits between submissions */
  int bound;
  int free_drops; /* >0: drops of the first N datagrams cost nothing (all drop subsets) */
  int late_timer; /* offer deadline-1 / deadline+1 timer alternatives */
  int verdict_choice; /* peer verdict is a choice point */
  int same_token; /* the messages of the two sessions carry the same token and the context has a resource, so that a Reset
                     makes the library withdraw queued messages by token (coap_cancel): only those of the Reset's session */
  int same_mid;   /* all sessions start from the same message id: equal mids on different sessions of one context */
  int notify;     /* >0: the context is also a server; a raw observer is registered and the script triggers this many
                     Confirmable notifications (they are created inside coap_io_prepare_io) */
};
#define OBS 3 /* "session" index of the raw observer */
static coap_resource_t *res_o;
static uint8_t last_r;
static int tearing_down;

#define MAXMSG 8
struct msg {
  int used;
  int sess;
  int is_con;
  coap_mid_t mid;
  uint8_t token;
  uint8_t bytes[64];
  size_t len;
  int ntx;            /* transmissions seen */
  uint64_t tx_at[12];
  uint64_t T;         /* drawn timeout, from r */
  uint8_t r;
  int done;           /* terminal outcome seen: 1 acked, 2 rst-nack, 3 giveup-nack */
  int nacks;
  int stopped;        /* ACK/RST for it delivered to the client */
  uint64_t next_deadline;
  int peer_rx;        /* transmissions the peer has received */
};

static struct cfg *C;
static coap_context_t *ctx;
static coap_session_t *sess[4];
static int icmp_done; /* the ICMP port-unreachable notice of this execution has been delivered */
static coap_address_t peer_addr[4];
static struct msg msgs[MAXMSG];
static int nmsgs;
static int script_pos;
static int in_prepare;
static int expect_tx[MAXMSG], expect_nack[MAXMSG];
static int cur_send_msg = -1;
static int r_draws;

static struct msg *
find_msg(int s, coap_mid_t mid) {
  for (int i = 0; i < nmsgs; i++)
    if (msgs[i].used && msgs[i].sess == s && msgs[i].mid == mid)
      return &msgs[i];
  return NULL;
}
static int
sess_index_of_peer(const coap_address_t *a) {
  for (int i = 0; i < C->nsess; i++)
    if (ns_addr_host(a) == ns_addr_host(&peer_addr[i]))
      return i;
  if (C->notify && ns_addr_host(a) == ns_addr_host(&peer_addr[OBS]))
    return OBS;
  return -1;
}

/* exact RFC 7252 timeout for random byte r, in ms, as a rational rounded to nearest (the property allows +-1 tick) */
static double
ref_T(int r) {
  return (double)C->ato_ms * (1.0 + ((double)C->arf_milli / 1000.0 - 1.0) * (double)r / 256.0);
}

static int
prng_hook(void *out, size_t len) {
  if (len != 1)
    return 0;
  uint8_t r;
  static const uint8_t tab[3] = {0, 128, 255};
  if (C->rsel < 3)
    r = tab[C->rsel];
  else
    r = tab[r_draws % 3];
  r_draws++;
  *(uint8_t *)out = r;
  last_r = r;
  if (cur_send_msg >= 0)
    msgs[cur_send_msg].r = r;
  return 1;
}

static void
on_send(const ns_dgram_t *d) {
  int s = sess_index_of_peer(&d->dst);
  if (d->len < 4 || s < 0) {
    vx_fail("wire:runt-or-unknown-dst", "client sent %zu bytes to %s", d->len, ns_addr_str(&d->dst));
    return;
  }
  int type = (d->data[0] >> 4) & 3;
  coap_mid_t mid = (coap_mid_t)(d->data[2] << 8 | d->data[3]);
  char hex[100];
  vx_hex(hex, sizeof hex, d->data, d->len > 40 ? 40 : d->len);
  struct msg *m = find_msg(s, mid);
  if (!m && cur_send_msg >= 0 && msgs[cur_send_msg].ntx == 0 && msgs[cur_send_msg].sess == s) {
    m = &msgs[cur_send_msg];
    m->mid = mid;
  }
  vx_observe("t=%llu TX s%d type=%d mid=%04x %s%s", (unsigned long long)ns_now(), s, type, mid, hex, in_prepare ? " (timer)" : "");
  if (!m && s == OBS && (type == COAP_MESSAGE_ACK || tearing_down))
    return; /* piggybacked answer to the observer's registration; 4.04 to observers when the context is freed */
  if (!m && s == OBS && type == COAP_MESSAGE_CON && nmsgs < MAXMSG) {
    /* a Confirmable notification: accepted for sending by the library itself */
    m = &msgs[nmsgs++];
    memset(m, 0, sizeof *m);
    m->used = 1;
    m->sess = OBS;
    m->is_con = 1;
    m->mid = mid;
    m->r = last_r;
  }
  if (!m) {
    vx_fail("wire:unexpected-datagram", "datagram type %d mid %04x is not one of the submitted messages", type, mid);
    return;
  }
  int mi = (int)(m - msgs);
  if (m->ntx == 0) {
    memcpy(m->bytes, d->data, d->len < sizeof m->bytes ? d->len : sizeof m->bytes);
    m->len = d->len;
    if (type != (m->is_con ? COAP_MESSAGE_CON : COAP_MESSAGE_NON))
      vx_fail("wire:type-changed", "message %d sent with type %d", mi, type);
  } else {
    if (!m->is_con)
      vx_fail("retx:NON-retransmitted", "NON message %d transmitted %d times", mi, m->ntx + 1);
    if (m->len != d->len || memcmp(m->bytes, d->data, d->len < sizeof m->bytes ? d->len : sizeof m->bytes))
      vx_fail("retx:not-byte-identical", "retransmission %d of message %d differs from the original", m->ntx, mi);
    if (m->stopped)
      vx_fail(m->stopped == 2 ? "retx:sent-after-rst" : m->stopped == 3 ? "retx:sent-after-observer-removed" : "retx:sent-after-ack",
              "message %d (mid %04x) retransmitted at t=%llu after its %s", mi, mid,
              (unsigned long long)ns_now(), m->stopped == 2 ? "RST was delivered" : m->stopped == 3 ? "observer was removed" : "ACK was delivered");
    if (m->done)
      vx_fail("retx:sent-after-outcome", "message %d retransmitted after terminal outcome %d", mi, m->done);
    if (m->ntx > C->max_retx)
      vx_fail("retx:too-many", "message %d: retransmission #%d exceeds MAX_RETRANSMIT=%d", mi, m->ntx, C->max_retx);
    if (!in_prepare)
      vx_fail("retx:outside-timer", "message %d retransmitted outside coap_io_prepare_io()", mi);
    else if (!expect_tx[mi])
      vx_fail(ns_now() < m->next_deadline ? "retx:early" : "retx:unexpected",
              "message %d retransmission #%d at t=%llu, deadline %llu (T=%llu)", mi, m->ntx, (unsigned long long)ns_now(),
              (unsigned long long)m->next_deadline, (unsigned long long)m->T);
    expect_tx[mi] = 0;
    vx_nontrivial();
  }
  if (m->ntx < 12)
    m->tx_at[m->ntx] = ns_now();
  m->ntx++;
  if (m->is_con) {
    if (m->ntx == 1) {
      /* T is drawn now; check it against the exact rational */
      double rt = ref_T(m->r);
      m->T = 0; /* filled below from libcoap's own node, then cross-checked */
      coap_queue_t *q;
      for (q = ctx->sendqueue; q; q = q->next)
        if (q->session == sess[s] && q->id == mid)
          break;
      /* the node is inserted after the send; read it lazily in after_send() */
      (void)rt;
    }
  }
}

/* after coap_send() returned: read the timeout libcoap drew for message mi and validate it */
static void
after_first_send(int mi) {
  struct msg *m = &msgs[mi];
  if (!m->is_con || m->ntx == 0)
    return;
  coap_queue_t *q;
  for (q = ctx->sendqueue; q; q = q->next)
    if ((m->sess == OBS ? ns_addr_host(&q->session->addr_info.remote) == ns_addr_host(&peer_addr[OBS]) : q->session == sess[m->sess]) && q->id == m->mid)
      break;
  if (!q) {
    vx_fail("queue:con-not-queued", "CON message %d (mid %04x) sent but not in the retransmission queue", mi, m->mid);
    return;
  }
  m->T = q->timeout;
  double rt = ref_T(m->r);
  double lo = (double)C->ato_ms, hi = (double)C->ato_ms * (double)C->arf_milli / 1000.0;
  if ((double)m->T < lo - 1.0 || (double)m->T > hi + 1.0)
    vx_fail("timeout:out-of-range", "T=%llu ms outside [ACK_TIMEOUT=%d, ACK_TIMEOUT*ARF=%.1f] (r=%d)",
            (unsigned long long)m->T, C->ato_ms, hi, m->r);
  else if (m->sess != OBS /* the r byte of a notification is not attributable: the server path draws other random bytes */ &&
           ((double)m->T < rt - (C->ato_ms / 64.0 + 2.0) || (double)m->T > rt + (C->ato_ms / 64.0 + 2.0))) /* libcoap uses Q.6 fixed point */
    vx_fail("timeout:formula", "T=%llu ms but ACK_TIMEOUT*(1+(ARF-1)*r/256)=%.2f (r=%d)", (unsigned long long)m->T, rt,
            m->r);
  m->next_deadline = m->tx_at[0] + m->T;
  vx_observe("   msg%d T=%llu r=%d", mi, (unsigned long long)m->T, m->r);
}

static void
on_deliver(const ns_dgram_t *d) {
  /* datagram about to reach the client: ACK/RST stops retransmission from now on */
  if (!d->from_raw || d->len < 4)
    return;
  int s = sess_index_of_peer(&d->src);
  int type = (d->data[0] >> 4) & 3;
  coap_mid_t mid = (coap_mid_t)(d->data[2] << 8 | d->data[3]);
  struct msg *m = s >= 0 ? find_msg(s, mid) : NULL;
  vx_observe("t=%llu RX s%d type=%d mid=%04x", (unsigned long long)ns_now(), s, type, mid);
  if (m && m->is_con && (type == COAP_MESSAGE_ACK || type == COAP_MESSAGE_RST)) {
    if (!m->stopped)
      m->stopped = type == COAP_MESSAGE_RST ? 2 : 1;
    if (!m->done && type == COAP_MESSAGE_ACK)
      m->done = 1;
    if (!m->done && type == COAP_MESSAGE_RST)
      m->done = -2; /* RST delivered: exactly one NACK(RST) must follow during this delivery */
  }
}

static void
raw_rx(const ns_dgram_t *d) {
  int s = sess_index_of_peer(&d->dst);
  if (s < 0 || d->len < 4)
    return;
  int type = (d->data[0] >> 4) & 3;
  coap_mid_t mid = (coap_mid_t)(d->data[2] << 8 | d->data[3]);
  struct msg *m = find_msg(s, mid);
  if (!m)
    return;
  m->peer_rx++;
  if (type != COAP_MESSAGE_CON)
    return;
  int verdict; /* 0 ack 1 rst 2 silent 3 ack twice */
  int def = m->peer_rx > C->answer_from ? (C->verdict == 'R' ? 1 : 0) : 2;
  verdict = def;
  if (C->verdict_choice) {
    int alts[4], n = 0;
    alts[n++] = def;
    for (int v = 0; v < 4; v++)
      if (v != def)
        alts[n++] = v;
    verdict = alts[vx_choose(vx_budget_left() > 0 ? n : 1, NULL, "verdict")];
  }
  uint8_t pkt[4] = {0, 0, (uint8_t)(mid >> 8), (uint8_t)mid};
  if (verdict == 0 || verdict == 3) {
    pkt[0] = 0x60;
    ns_inject(&d->dst, &d->src, pkt, 4);
    if (verdict == 3)
      ns_inject(&d->dst, &d->src, pkt, 4);
  } else if (verdict == 1) {
    pkt[0] = 0x70;
    ns_inject(&d->dst, &d->src, pkt, 4);
  }
  vx_observe("   peer%d verdict=%d for mid=%04x (rx#%d)", s, verdict, mid, m->peer_rx);
}

static void
nack_handler(coap_session_t *session, const coap_pdu_t *sent, const coap_nack_reason_t reason, const coap_mid_t mid) {
  int s = -1;
  for (int i = 0; i < C->nsess; i++)
    if (sess[i] == session)
      s = i;
  if (s < 0 && C->notify && ns_addr_host(coap_session_get_addr_remote(session)) == ns_addr_host(&peer_addr[OBS]))
    s = OBS;
  vx_observe("t=%llu NACK s%d reason=%d mid=%04x sent=%s", (unsigned long long)ns_now(), s, reason, mid, sent ? "pdu" : "null");
  if (!sent)
    return; /* notification about a stray RST, not the outcome of a message (see DESIGN C06) */
  if (reason == COAP_NACK_ICMP_ISSUE) {
    /* advisory: the library passes an ICMP notice on to the application, naming the first message queued for that session; the
     * message stays queued and its schedule goes on (the statement's outcomes are ACK, RST and TOO_MANY_RETRIES) */
    if (!icmp_done)
      vx_fail("nack:icmp-issue-without-icmp", "NACK(ICMP_ISSUE) for mid %04x although no ICMP notice was delivered", mid);
    return;
  }
  struct msg *m = find_msg(s, mid);
  if (!m) {
    vx_fail("nack:unknown-message", "NACK reason %d for mid %04x which was never submitted", reason, mid);
    return;
  }
  int mi = (int)(m - msgs);
  m->nacks++;
  if (m->done > 0) {
    char sig[100];
    snprintf(sig, sizeof sig, "outcome:second:%s-then-%s", m->done == 1 ? "ACK" : m->done == 2 ? "NACK_RST" : "NACK_GIVEUP",
             reason == COAP_NACK_RST ? "NACK_RST" : reason == COAP_NACK_TOO_MANY_RETRIES ? "NACK_GIVEUP" : "NACK_OTHER");
    vx_fail(sig, "message %d got NACK reason %d after terminal outcome %d", mi, reason, m->done);
    return;
  }
  if (s == OBS && (reason == COAP_NACK_RST || reason == COAP_NACK_TOO_MANY_RETRIES)) {
    /* the observation ends with this notification: the library withdraws every other notification still queued for
     * that observer (nothing may be sent to a removed observer, C11); they end without a call of their own */
    for (int i = 0; i < nmsgs; i++)
      if (&msgs[i] != m && msgs[i].used && msgs[i].sess == OBS && msgs[i].done <= 0) {
        msgs[i].done = 5;
        msgs[i].stopped = 3;
        expect_tx[i] = expect_nack[i] = 0;
      }
  }
  if (reason == COAP_NACK_RST) {
    if (m->done != -2)
      vx_fail("nack:rst-without-rst", "message %d NACK(RST) but no RST was delivered", mi);
    m->done = 2;
  } else if (reason == COAP_NACK_TOO_MANY_RETRIES) {
    if (!in_prepare || !expect_nack[mi])
      vx_fail(m->ntx <= C->max_retx ? "nack:giveup-early" : "nack:giveup-unexpected",
              "message %d given up at t=%llu after %d transmissions (MAX_RETRANSMIT=%d), deadline %llu", mi,
              (unsigned long long)ns_now(), m->ntx, C->max_retx, (unsigned long long)m->next_deadline);
    expect_nack[mi] = 0;
    m->done = 3;
    vx_nontrivial();
  } else {
    vx_fail("nack:other-reason", "message %d NACK reason %d", mi, reason);
    m->done = 4;
  }
}

static void
hnd_o(coap_resource_t *r, coap_session_t *session, const coap_pdu_t *req, const coap_string_t *q, coap_pdu_t *resp) {
  (void)r;
  (void)session;
  (void)req;
  (void)q;
  coap_pdu_set_code(resp, COAP_RESPONSE_CODE_CONTENT);
  coap_add_data(resp, 1, (const uint8_t *)"v");
}
static coap_response_t
resp_handler(coap_session_t *session, const coap_pdu_t *sent, const coap_pdu_t *received, const coap_mid_t mid) {
  (void)session;
  (void)sent;
  (void)received;
  vx_observe("t=%llu RESPONSE mid=%04x", (unsigned long long)ns_now(), mid);
  return COAP_RESPONSE_OK;
}

/* ---- script ---- */
struct op {
  int kind; /* 0 send CON, 1 send NON, 2 wait */
  int sess;
  int arg;
};
static struct op script[16];
static int nscript;

static void
build_script(void) {
  nscript = 0;
  static const int waits[] = {700, 2600, 1300};
  for (int i = 0; i < C->nreq; i++) {
    if (i > 0 && C->stagger) {
      script[nscript++] = (struct op){2, 0, waits[(i - 1) % 3]};
    }
    script[nscript++] = (struct op){0, i % C->nsess, 0};
    if (i == 0 && C->with_non)
      script[nscript++] = (struct op){1, 0, 0};
    if (i < C->notify)
      script[nscript++] = (struct op){3, OBS, 0};
  }
  for (int i = C->nreq; i < C->notify; i++) {
    if (i > 0 && C->stagger)
      script[nscript++] = (struct op){2, 0, 700};
    script[nscript++] = (struct op){3, OBS, 0};
  }
}
static int
app_ready(void *a) {
  (void)a;
  return script_pos < nscript;
}

static void monitor_before_prepare(void);
static void monitor_after_prepare(unsigned ret);

static void
app_op(void *a) {
  (void)a;
  struct op *o = &script[script_pos++];
  if (o->kind == 2) {
    /* the application sleeps without servicing the library; the next prepare is late for deadlines in between */
    ns_advance((uint64_t)o->arg);
    vx_observe("t=%llu app waited %d ms", (unsigned long long)ns_now(), o->arg);
    return;
  }
  if (o->kind == 3) {
    /* resource change: the notification is built and sent by the next coap_io_prepare_io() */
    coap_resource_notify_observers(res_o, NULL);
    vx_observe("t=%llu app: resource changed", (unsigned long long)ns_now());
    return;
  }
  int mi = nmsgs++;
  struct msg *m = &msgs[mi];
  memset(m, 0, sizeof *m);
  m->used = 1;
  m->sess = o->sess;
  m->is_con = o->kind == 0;
  m->token = C->same_token ? 0xA0 : (uint8_t)(0xA0 + mi);
  coap_pdu_t *pdu = coap_new_pdu(m->is_con ? COAP_MESSAGE_CON : COAP_MESSAGE_NON, COAP_REQUEST_CODE_GET, sess[o->sess]);
  if (!pdu) {
    vx_fail("harness:new-pdu", "coap_new_pdu failed");
    return;
  }
  coap_add_token(pdu, 1, &m->token);
  coap_add_option(pdu, COAP_OPTION_URI_PATH, 1, (const uint8_t *)"x");
  m->mid = coap_pdu_get_mid(pdu);
  cur_send_msg = mi;
  coap_mid_t r = coap_send(sess[o->sess], pdu);
  cur_send_msg = -1;
  vx_observe("t=%llu SUBMIT msg%d s%d %s mid=%04x -> %d", (unsigned long long)ns_now(), mi, o->sess, m->is_con ? "CON" : "NON",
             m->mid, r);
  if (r == COAP_INVALID_MID) {
    m->used = 0; /* not accepted for sending: outside the property */
    return;
  }
  if (m->ntx > 0)
    after_first_send(mi);
}

/* ---- monitor around every coap_io_prepare_io ---- */
static void
monitor_before_prepare(void) {
  uint64_t now = ns_now();
  for (int i = 0; i < nmsgs; i++) {
    struct msg *m = &msgs[i];
    expect_tx[i] = expect_nack[i] = 0;
    if (!m->used || !m->is_con || m->ntx == 0 || m->done > 0 || m->stopped)
      continue;
    if (m->T == 0) {
      after_first_send(i); /* held back by NSTART and released later */
      if (m->T == 0)
        continue;
    }
    if (now >= m->next_deadline) {
      if (m->ntx <= C->max_retx)
        expect_tx[i] = 1;
      else
        expect_nack[i] = 1;
    }
  }
  in_prepare = 1;
}
static void
monitor_after_prepare(unsigned ret) {
  in_prepare = 0;
  uint64_t now = ns_now();
  uint64_t earliest = 0;
  for (int i = 0; i < nmsgs; i++) {
    struct msg *m = &msgs[i];
    if (expect_tx[i])
      vx_fail("retx:late", "message %d: retransmission #%d due at %llu not sent by prepare_io at t=%llu (T=%llu)", i, m->ntx,
              (unsigned long long)m->next_deadline, (unsigned long long)now, (unsigned long long)m->T);
    if (expect_nack[i])
      vx_fail("nack:giveup-missing", "message %d: give-up due at %llu not reported at t=%llu", i,
              (unsigned long long)m->next_deadline, (unsigned long long)now);
    if (!m->used || !m->is_con || m->ntx == 0 || m->done > 0 || m->stopped || m->T == 0)
      continue;
    /* next deadline: T * 2^(ntx-1) after the latest transmission */
    m->next_deadline = m->tx_at[m->ntx - 1] + (m->T << (m->ntx - 1));
    if (!earliest || m->next_deadline < earliest)
      earliest = m->next_deadline;
  }
  if (earliest) {
    uint64_t until = earliest > now ? earliest - now : 0;
    if (ret == 0)
      vx_fail("wait:zero-with-pending", "prepare_io returned 0 (wait forever) with a retransmission due in %llu ms",
              (unsigned long long)until);
    else if (until > 0 && ret > until)
      vx_fail("wait:sleep-past-deadline", "prepare_io returned %u ms but the earliest deadline is in %llu ms", ret,
              (unsigned long long)until);
  }
  vx_trace("   prepare_io -> %u (earliest deadline in %lld)", ret, earliest ? (long long)(earliest - now) : -1LL);
}

/* our own stepper: like ns_step but with the monitor wrapped around prepare and C06-specific alternatives */
static int
step(void) {
  enum { EV_DELIVER, EV_APP, EV_TIMER, EV_TIMER_EARLY, EV_TIMER_LATE, EV_REORDER, EV_DROP, EV_DUP, EV_ICMP };
  struct {
    int kind, idx;
  } ev[VX_MAXALT];
  uint8_t cost[VX_MAXALT];
  int n = 0;
  monitor_before_prepare();
  unsigned tmo = ns_prepare_all();
  monitor_after_prepare(tmo);
  int nf = ns_inflight_count();
  int app = app_ready(NULL);
  if (nf > 0)
    ev[n].kind = EV_DELIVER, ev[n++].idx = 0;
  if (app)
    ev[n].kind = EV_APP, ev[n++].idx = 0;
  if (tmo && ns_now() < 400000)
    ev[n].kind = EV_TIMER, ev[n++].idx = (int)tmo;
  if (n == 0)
    return 0;
  for (int i = 0; i < n; i++)
    cost[i] = i ? 1 : 0;
  int budget = vx_budget_left();
  if (tmo && C->late_timer && budget > 0 && ns_now() < 400000) {
    if (tmo > 1)
      ev[n].kind = EV_TIMER_EARLY, ev[n].idx = (int)tmo - 1, cost[n++] = 1;
    ev[n].kind = EV_TIMER_LATE, ev[n].idx = (int)tmo + 1, cost[n++] = 1;
  }
  for (int j = 0; j < nf && j < 4 && n < VX_MAXALT - 3; j++) {
    ns_dgram_t *d = ns_inflight(j);
    int freed = C->free_drops && d->id < C->free_drops;
    if (freed || budget > 0)
      ev[n].kind = EV_DROP, ev[n].idx = j, cost[n++] = freed ? 0 : 1;
    if (budget > 0 && !C->free_drops) {
      if (j >= 1)
        ev[n].kind = EV_REORDER, ev[n].idx = j, cost[n++] = 1;
      if (ns_dups_done < 2)
        ev[n].kind = EV_DUP, ev[n].idx = j, cost[n++] = 1;
    }
  }
  /* environment answer: an ICMP port-unreachable notice read from the first session's socket (once per execution).  A datagram
   * session is not disconnected by it (the notice is advisory): the schedule of every queued message goes on unchanged */
  if (budget > 0 && !icmp_done && !C->free_drops && n < VX_MAXALT && sess[0] && nf == 0 /* while waiting for a timer */)
    ev[n].kind = EV_ICMP, ev[n].idx = 0, cost[n++] = 1;
  int c = vx_choose(n, cost, "step");
  switch (ev[c].kind) {
  case EV_ICMP:
    icmp_done = 1;
    vx_observe("   ICMP unreachable notice for session 0");
    ns_icmp_unreachable(coap_session_get_addr_local(sess[0]));
    break;
  case EV_DELIVER:
    ns_deliver(0);
    break;
  case EV_APP:
    app_op(NULL);
    break;
  case EV_TIMER:
  case EV_TIMER_EARLY:
  case EV_TIMER_LATE:
    ns_advance((uint64_t)ev[c].idx);
    vx_trace("-- time +%d -> %llu", ev[c].idx, (unsigned long long)ns_now());
    break;
  case EV_REORDER:
    ns_deliver(ev[c].idx);
    break;
  case EV_DROP:
    vx_observe("   drop dgram#%d", ns_inflight(ev[c].idx)->id);
    ns_drop(ev[c].idx);
    break;
  case EV_DUP:
    vx_observe("   dup dgram#%d", ns_inflight(ev[c].idx)->id);
    ns_duplicate(ev[c].idx);
    break;
  }
  if (c)
    vx_nontrivial();
  /* RST delivered => the NACK must have been raised during that delivery */
  for (int i = 0; i < nmsgs; i++)
    if (msgs[i].done == -2)
      vx_fail("nack:rst-missing", "message %d: RST delivered but no NACK(RST) raised", i), msgs[i].done = 2;
  return 1;
}

static void
run(void *arg) {
  C = arg;
  ns_init();
  icmp_done = 0;
  tearing_down = 0;
  nmsgs = 0;
  script_pos = 0;
  r_draws = 0;
  in_prepare = 0;
  cur_send_msg = -1;
  memset(msgs, 0, sizeof msgs);
  ns_prng_hook = prng_hook;
  ns_on_send = on_send;
  ns_on_deliver = on_deliver;
  ns_raw_rx = raw_rx;
  build_script();
  ctx = coap_new_context(NULL);
  ns_register_ctx(ctx);
  coap_register_nack_handler(ctx, nack_handler);
  coap_register_response_handler(ctx, resp_handler);
  for (int i = 0; i < C->nsess; i++) {
    ns_addr(&peer_addr[i], 2 + i, 5683);
    sess[i] = coap_new_client_session(ctx, NULL, &peer_addr[i], COAP_PROTO_UDP);
    coap_session_set_ack_timeout(sess[i], (coap_fixed_point_t){(uint16_t)(C->ato_ms / 1000), (uint16_t)(C->ato_ms % 1000)});
    coap_session_set_ack_random_factor(sess[i], (coap_fixed_point_t){(uint16_t)(C->arf_milli / 1000), (uint16_t)(C->arf_milli % 1000)});
    coap_session_set_max_retransmit(sess[i], (uint16_t)C->max_retx);
    coap_session_set_nstart(sess[i], (uint16_t)C->nstart);
    if (coap_session_get_max_retransmit(sess[i]) != C->max_retx)
      vx_fail("harness:setter", "max_retransmit not applied");
    if (C->same_mid && i > 0)
      sess[i]->tx_mid = sess[0]->tx_mid;
  }
  if (C->same_token && !C->notify) {
    coap_resource_t *dr = coap_resource_init(coap_make_str_const("dummy"), 0);
    coap_add_resource(ctx, dr);
  }
  if (C->notify) {
    coap_address_t la;
    ns_addr(&la, 1, 5683);
    ns_addr(&peer_addr[OBS], 2 + OBS, 5683);
    coap_endpoint_t *ep = coap_new_endpoint(ctx, &la, COAP_PROTO_UDP);
    res_o = coap_resource_init(coap_make_str_const("o"), COAP_RESOURCE_FLAGS_NOTIFY_CON);
    coap_register_request_handler(res_o, COAP_REQUEST_GET, hnd_o);
    coap_resource_set_get_observable(res_o, 1);
    coap_add_resource(ctx, res_o);
    /* the raw observer registers */
    static const uint8_t reg[] = {0x41, 0x01, 0x77, 0x01, 0xEE, 0x60, 0x51, 'o'};
    ns_inject_now(&peer_addr[OBS], &la, reg, sizeof reg);
    coap_session_t *ss = ep ? coap_session_get_by_peer(ctx, &peer_addr[OBS], 0) : NULL;
    if (!ss && ep)
      for (ss = ep->sessions; ss && ns_addr_host(&ss->addr_info.remote) != ns_addr_host(&peer_addr[OBS]); ss = ss->hh.next)
        ;
    if (ss) {
      coap_session_set_ack_timeout(ss, (coap_fixed_point_t){(uint16_t)(C->ato_ms / 1000), (uint16_t)(C->ato_ms % 1000)});
      coap_session_set_ack_random_factor(ss, (coap_fixed_point_t){(uint16_t)(C->arf_milli / 1000), (uint16_t)(C->arf_milli % 1000)});
      coap_session_set_max_retransmit(ss, (uint16_t)C->max_retx);
      coap_session_set_nstart(ss, 4);
    } else
      vx_fail("harness:observer-session", "no server session for the raw observer");
    while (ns_inflight_count())
      ns_drop(0); /* the registration response */
  }
  int steps = 0;
  while (steps++ < 400 && step())
    ;
  if (steps >= 400)
    vx_fail("horizon:steps", "scenario did not become quiescent within 400 events");
  /* quiescent: every accepted CON has exactly one terminal outcome */
  char oc[160] = "";
  size_t o = 0;
  for (int i = 0; i < nmsgs; i++) {
    struct msg *m = &msgs[i];
    if (!m->used)
      continue;
    if (m->is_con) {
      if (m->ntx == 0)
        vx_fail("outcome:never-sent", "CON message %d accepted by coap_send but never transmitted", i);
      else if (m->done <= 0)
        vx_fail("outcome:none", "CON message %d has no terminal outcome at quiescence (tx=%d stopped=%d)", i, m->ntx, m->stopped);
      if (m->nacks > 1)
        vx_fail("outcome:nack-twice", "CON message %d got %d NACKs", i, m->nacks);
    } else if (m->ntx != 1)
      vx_fail("non:tx-count", "NON message %d transmitted %d times", i, m->ntx);
    o += (size_t)snprintf(oc + o, sizeof oc - o, "%s%d:%d", i ? "," : "", m->done, m->ntx);
  }
  vx_outcome("%s", oc);
  for (int i = 0; i < C->nsess; i++)
    coap_session_release(sess[i]);
  tearing_down = 1;
  ns_unregister_ctx(ctx);
  coap_free_context(ctx);
  ns_fini();
}

static struct cfg *cfgs;
static int ncfgs;
static void
add(struct cfg c) {
  cfgs = realloc(cfgs, sizeof *cfgs * (size_t)(ncfgs + 1));
  snprintf(c.name, sizeof c.name, "c06:ato=%d,arf=%d,mr=%d,nreq=%d,nsess=%d,nstart=%d,non=%d,ans=%d%c,r=%d,stag=%d,fd=%d,late=%d,vc=%d,nfy=%d,sm=%d,st=%d,B=%d",
           c.ato_ms, c.arf_milli, c.max_retx, c.nreq, c.nsess, c.nstart, c.with_non, c.answer_from, c.verdict, c.rsel,
           c.stagger, c.free_drops, c.late_timer, c.verdict_choice, c.notify, c.same_mid, c.same_token, c.bound);
  cfgs[ncfgs++] = c;
}

int
main(int argc, char **argv) {
  vx_main_init(argc, argv, "C06");
  int T = vx_is_thorough();
  static const int atos[] = {2000, 1000, 2500};
  static const int arfs[] = {1500, 1000, 3000};
  static const int mrs[] = {4, 1, 2, 3};
  /* (1) configuration product x peer silence length, single request, no faults beyond the peer's silence */
  for (int a = 0; a < 3; a++)
    for (int f = 0; f < 3; f++)
      for (int m = 0; m < 4; m++)
        for (int r = 0; r < 3; r++) {
          int mr = mrs[m];
          for (int k = 0; k <= mr + 1; k++) {
            for (int v = 0; v < 2; v++) {
              if (k == mr + 1 && v == 1)
                continue;
              struct cfg c = {.ato_ms = atos[a], .arf_milli = arfs[f], .max_retx = mr, .nreq = 1, .nsess = 1, .nstart = 1,
                              .answer_from = k == mr + 1 ? 99 : k, .verdict = v ? 'R' : 'A', .rsel = r, .bound = T ? 1 : 0,
                              .late_timer = 1};
              if (!T && (a + f + m + r) % 2 && k != mr + 1)
                c.bound = 0;
              add(c);
            }
          }
        }
  /* (1b) large settings: ACK_TIMEOUT 45 s x 1.5 (a drawn time-out above 65.535 s for the top random bytes) */
  for (int r = 0; r < 3; r++)
    for (int k = 0; k <= 2; k++) {
      struct cfg c = {.ato_ms = 45000, .arf_milli = 1500, .max_retx = 1, .nreq = 1, .nsess = 1, .nstart = 1, .answer_from = k == 2 ? 99 : k,
                      .verdict = 'A', .rsel = r, .bound = 0, .late_timer = 1};
      add(c);
    }
  /* (2) the statement's own bound: every drop subset of the first 10 datagrams of one exchange */
  for (int v = 0; v < 2; v++)
    for (int r = 0; r < (T ? 3 : 1); r++) {
      struct cfg c = {.ato_ms = 2000, .arf_milli = 1500, .max_retx = 4, .nreq = 1, .nsess = 1, .nstart = 1, .answer_from = 0,
                      .verdict = v ? 'R' : 'A', .rsel = r == 0 ? 1 : r == 1 ? 0 : 2, .bound = 0, .free_drops = 10};
      add(c);
    }
  /* (3) several messages and sessions sharing one send queue, deviation bounded */
  for (int ns = 1; ns <= 2; ns++)
    for (int nr = 2; nr <= 3; nr++)
      for (int st = 0; st < 2; st++)
        for (int k = 0; k < 3; k++) {
          struct cfg c = {.ato_ms = 2000, .arf_milli = 1500, .max_retx = k == 2 ? 2 : 4, .nreq = nr, .nsess = ns, .nstart = ns == 1 ? 3 : 1,
                          .with_non = 1, .answer_from = k == 0 ? 0 : k == 1 ? 1 : 99, .verdict = 'A', .rsel = 3, .stagger = st,
                          .bound = 2, .late_timer = 1, .verdict_choice = 1};
          if (!T && nr == 3 && k != 0)
            c.bound = 1;
          if (T && nr == 2 && st == 0 && k == 0)
            c.bound = 3; /* (bound 3 on all 24 configurations is ~3.3 million executions more than a thorough budget holds) */
          add(c);
          if (ns == 2 && st == 0) {
            /* the two sessions use equal message ids: an ACK / RST must only ever affect its own session's message */
            c.same_mid = 1;
            add(c);
            c.same_mid = 0;
            if (nr == 2) {
              /* ... and equal tokens (every session's first token is the same): a Reset withdraws by token, on its own session only */
              c.same_token = 1;
              add(c);
              c.same_token = 0;
            }
          }
        }
  /* (4) Confirmable notifications: created inside coap_io_prepare_io() while requests share the send queue */
  for (int nr = 0; nr <= 1; nr++)
    for (int nn = 1; nn <= 2; nn++)
      for (int st = 0; st < 2; st++)
        for (int k = 0; k < 3; k++) {
          struct cfg c = {.ato_ms = 2000, .arf_milli = 1500, .max_retx = k == 2 ? 2 : 4, .nreq = nr, .nsess = 1, .nstart = 1, .with_non = 0,
                          .answer_from = k == 0 ? 0 : k == 1 ? 1 : 99, .verdict = 'A', .rsel = 3, .stagger = st, .bound = T ? 2 : 1,
                          .late_timer = 1, .verdict_choice = 1, .notify = nn};
          add(c);
        }
  vx_ev_rule("executions of a real libcoap client context against raw peers under a virtual clock; enumerated: "
             "configuration product (ACK_TIMEOUT x ACK_RANDOM_FACTOR x MAX_RETRANSMIT x r byte x peer-silence length x verdict; plus ACK_TIMEOUT 45 s x 1.5), "
             "all 2^10 drop subsets of the first 10 datagrams, and all schedules with <= bound deviations "
             "(drop/dup/reorder/timer-first/timer +-1ms/other peer verdict) for multi-message scripts (two sessions also with equal message ids, and with equal tokens on a context that has a resource), also with 1-2 Confirmable observe notifications (created inside coap_io_prepare_io by the same context acting "
             "as server for a raw observer) sharing the send queue; an execution is "
             "non-trivial when a retransmission, give-up or deviation occurred; distinct = distinct observation logs");
  vx_ev_assumption("peers are raw addresses driven by the harness; no ping_timeout configured (libcoap then deliberately caps the retransmission delay)");
  vx_ev_assumption("a nack_handler call with sent==NULL (stray RST notification) is not counted as an outcome of a message");
  vx_ev_assumption("virtual time only advances through timer events and explicit application waits; delivery latency is 0");
  for (int i = 0; i < ncfgs; i++) {
    if (vx_replay_if_match(cfgs[i].name, run, &cfgs[i]))
      return 0;
  }
  if (vx_replay_path()) {
    fprintf(stderr, "replay file does not match any scenario\n");
    return 2;
  }
  struct vx_config *vcs = calloc((size_t)ncfgs, sizeof *vcs);
  void **args = calloc((size_t)ncfgs, sizeof *args);
  for (int i = 0; i < ncfgs; i++) {
    vcs[i] = (struct vx_config){.scenario = cfgs[i].name, .bound = cfgs[i].bound, .leakcheck = 1};
    args[i] = &cfgs[i];
  }
  struct vx_scn_stats st;
  vx_explore_multi("c06:all", vcs, args, ncfgs, run, 0, &st);
  vx_ev_int("scenarios", ncfgs);
  return vx_finish();
}
