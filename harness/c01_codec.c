/* C01 -- wire codec round-trip for every API-built message on every transport (DESIGN.md 3, C01).
 *
 * Engine: vxp in-process sliced enumeration.  A case is a build script
 *     coap_pdu_init(type, code, mid, max_size) . coap_add_token(len) . coap_add_option(num,len,val)* .
 *     [late coap_add_token] . coap_add_data(len) . [coap_add_option after data] . coap_pdu_encode_header(proto)
 * decoded from the case index by a mixed-radix counter.  The refmsg list model is advanced only when the
 * API call reports success; every refusal must be explained by a reference predicate and must leave the
 * accessor dump unchanged.  After encoding: wire bytes == reference encoding, reference decoding == model,
 * coap_pdu_parse() of an exact-size heap copy succeeds and its accessor dump == model.
 *
 * Failure signatures (stable; one per class of defect):
 *   encode-mismatch:<element of the reference encoding holding the first differing byte>:<framing>
 *         element = hdr | token | opt-delta-<0-12|13-268|269+> | opt-len-<..> | opt-value-<..> | marker | payload | length
 *   encode-header-failed:<framing>            coap_pdu_encode_header() returned 0 / a wrong header size
 *   refdecode-reject:<framing>                libcoap's bytes are not well-formed for the reference decoder
 *   refdecode-mismatch:<field>:<framing>      they are well-formed but decode to another message
 *   reparse-reject:<culprit>:<framing>        coap_pdu_parse() refuses what the API built (culprit = opt-<num>-len-<len> | other)
 *   reparse-mismatch:<field>[:<opt class>]:<framing>
 *   refuse-unexplained:<op>                   API returned 0 and no reference predicate explains it
 *   refuse-disturbs:<op>:<field>              API returned 0 but the accessor dump changed
 *   accept-unexpected:<op>:<why>              API reported success although the result exceeds max_size
 *   build-mismatch:<op>:<field>[:<opt class>] API reported success but the accessor dump != model
 *   retval:<op>                               success value is not what the API documents
 */
#include <coap3/coap_internal.h>
#include <stdarg.h>
#include "vx.h"
#include "refmsg.h"

/* ------------------------------------------------------------------------------------------ */
/* alphabets                                                                                   */
struct optpair {
  uint32_t num;
  uint32_t len;
};

/* sorted neighbours give deltas 0 (11,11) 12 (first 12) 13 (1->14) 268 (14->282) 269 (14->283) 65535 (first 65535);
 * lengths 0/1/4/8/12 | 13/255/268 | 269/270(/1034); each length is inside the option's RFC range. */
static const struct optpair ALPHA_Q[] = {
    {1, 8},  {3, 1},    {4, 1},   {11, 0},  {11, 13},   {11, 255},  {12, 1},
    {14, 4}, {15, 0},   {35, 269}, {39, 12}, {282, 268}, {283, 270}, {65535, 1},
};
static const struct optpair ALPHA_T[] = {
    {1, 8},   {3, 1},   {4, 1},   {11, 0},   {11, 13},   {11, 255},  {12, 1},    {14, 4},   {15, 0},
    {35, 269}, {39, 12}, {282, 268}, {283, 270}, {65535, 1}, {1, 0},  {60, 0},    {4, 8},    {8, 255},
    {15, 14}, {17, 2},  {23, 3},  {35, 1034}, {258, 1},  {270, 14},  {2049, 0},  {65000, 13},
};
/* every option of the reference table at its smallest and largest legal length (and one inside): a message that the
 * builder serialises with such an option must re-parse */
static const struct optpair ALPHA_B[] = {
    {1, 0},    {1, 8},    {3, 1},   {3, 255},  {4, 1},    {4, 8},   {5, 0},    {6, 0},     {6, 3},   {7, 0},    {7, 2},
    {8, 0},    {8, 255},  {9, 0},   {9, 255},  {11, 0},   {11, 255}, {12, 0},  {12, 2},    {14, 0},  {14, 4},   {15, 0},
    {15, 255}, {16, 1},   {17, 0},  {17, 2},   {19, 0},   {19, 3},  {20, 0},   {20, 255},  {23, 0},  {23, 3},   {27, 0},
    {27, 3},   {28, 0},   {28, 4},  {31, 0},   {31, 3},   {35, 1},  {35, 1034}, {39, 1},   {39, 255}, {60, 0},  {60, 4},
    {252, 1},  {252, 40}, {258, 0}, {258, 1},  {292, 0},  {292, 8},
};
#define NB ((int)(sizeof ALPHA_B / sizeof ALPHA_B[0]))
#define NQ ((int)(sizeof ALPHA_Q / sizeof ALPHA_Q[0]))
#define NT ((int)(sizeof ALPHA_T / sizeof ALPHA_T[0]))

static const coap_proto_t PROTOS[] = {COAP_PROTO_UDP, COAP_PROTO_TCP, COAP_PROTO_WS,
                                      COAP_PROTO_DTLS, COAP_PROTO_TLS, COAP_PROTO_WSS};
static const char *const PROTO_NAME[] = {"UDP", "TCP", "WS", "DTLS", "TLS", "WSS"};
static enum rm_framing
framing_of(coap_proto_t p) {
  if (p == COAP_PROTO_UDP || p == COAP_PROTO_DTLS)
    return RM_UDP;
  if (p == COAP_PROTO_TCP || p == COAP_PROTO_TLS)
    return RM_TCP;
  return RM_WS;
}

static const uint32_t TOK_Q[] = {0, 1, 8, 12, 13, 14, 268, 269, 270, 600};  /* 600: the two-byte extended length with a non-zero high byte */
static const uint32_t TOK_T[] = {0, 1, 8, 12, 13, 14, 268, 269, 270, 4096, 65804};
static size_t g_api_tok_max = 65804; /* longest token coap_add_token() accepts in this build, probed at start-up */
static const uint32_t TOK_S[] = {0, 8, 13, 269};
static const uint32_t PAY_Q[] = {0, 1, 13, 256, 1024};
static const uint32_t PAY_S[] = {0, 13};
static const uint8_t CODES_OPTS[] = {0x01 /* 0.01 GET: request => Hop-Limit rule */, 0x45 /* 2.05 */};

/* byte patterns (pure functions of position); 0xFF occurs inside values and starts the payload on purpose */
#define MAXTOK 65804
#define MAXPAY 70000
#define MAXVAL 70000
static uint8_t g_tok[MAXTOK], g_pay[MAXPAY];
static void
fill_val(uint8_t *b, size_t len, int pos) {
  for (size_t j = 0; j < len; j++)
    b[j] = (uint8_t)(0x61 + pos * 16 + j * 3);
}
static void
fill_static(void) {
  for (size_t j = 0; j < MAXTOK; j++)
    g_tok[j] = (uint8_t)(0xA0 + j * 5);
  for (size_t j = 0; j < MAXPAY; j++)
    g_pay[j] = (uint8_t)(j == 0 ? 0xFF : 0x30 + j * 7);
}
static uint8_t *
heapdup(const uint8_t *p, size_t len) { /* exact-size copy so that a 1-byte overread is visible to ASan */
  uint8_t *q = malloc(len ? len : 1);
  if (len)
    memcpy(q, p, len);
  return q;
}

/* ------------------------------------------------------------------------------------------ */
/* one build script                                                                            */
#define MAXSEQ 6
struct script {
  const char *space;
  uint64_t idx;
  int proto_i;
  unsigned type, code, mid;
  uint32_t tok_len;
  int nopts;
  struct optpair opt[MAXSEQ];
  uint32_t pay_len;
  long max_size;     /* value given to coap_pdu_init */
  const char *szdesc; /* how max_size was chosen */
  int late_token;    /* try a second coap_add_token after the options */
  int late_option;   /* try coap_add_option after the payload */
};

static void
describe(const struct script *s, char *b, size_t n) {
  size_t o = (size_t)snprintf(b, n, "space=%s idx=%llu proto=%s init(type=%u,code=%u.%02u,mid=0x%04x,size=%ld[%s]) token(%u)",
                              s->space, (unsigned long long)s->idx, PROTO_NAME[s->proto_i], s->type, s->code >> 5,
                              s->code & 31, s->mid, s->max_size, s->szdesc, s->tok_len);
  for (int i = 0; i < s->nopts && o < n; i++)
    o += (size_t)snprintf(b + o, n - o, " opt(%u,len=%u)", s->opt[i].num, s->opt[i].len);
  if (o < n)
    o += (size_t)snprintf(b + o, n - o, " data(%u)", s->pay_len);
}

static void failf(const struct script *s, const char *sig, const char *fmt, ...) __attribute__((format(printf, 3, 4)));
static void
failf(const struct script *s, const char *sig, const char *fmt, ...) {
  char d[420], m[300];
  describe(s, d, sizeof d);
  va_list ap;
  va_start(ap, fmt);
  vsnprintf(m, sizeof m, fmt, ap);
  va_end(ap);
  vx_fail(sig, "%s :: %s", m, d);
}

/* accessor dump compared against the model without copying; returns first differing field or NULL */
static const char *
cmp_pdu(const coap_pdu_t *pdu, const rm_msg_t *m, int cmp_type_mid, int *opt_idx) {
  *opt_idx = -1;
  if (cmp_type_mid && (unsigned)coap_pdu_get_type(pdu) != m->type)
    return "type";
  if ((unsigned)coap_pdu_get_code(pdu) != m->code)
    return "code";
  if (cmp_type_mid && (unsigned)coap_pdu_get_mid(pdu) != m->mid)
    return "mid";
  coap_bin_const_t t = coap_pdu_get_token(pdu);
  if (t.length != m->tok_len)
    return "token-len";
  if (t.length && memcmp(t.s, m->tok, t.length))
    return "token";
  coap_opt_iterator_t oi;
  coap_opt_t *o;
  int i = 0;
  coap_option_iterator_init(pdu, &oi, COAP_OPT_ALL);
  while ((o = coap_option_next(&oi))) {
    *opt_idx = i;
    if (i >= m->nopts)
      return "opt-count";
    if (oi.number != m->opt[i].num)
      return "opt-number";
    if (coap_opt_length(o) != m->opt[i].len)
      return "opt-len";
    if (m->opt[i].len && memcmp(coap_opt_value(o), m->opt[i].val, m->opt[i].len))
      return "opt-value";
    i++;
  }
  if (i != m->nopts) {
    *opt_idx = i;
    return "opt-count";
  }
  *opt_idx = -1;
  size_t dl = 0;
  const uint8_t *dp = NULL;
  int has = coap_get_data(pdu, &dl, &dp);
  if (!has)
    dl = 0;
  if (dl != m->pay_len)
    return "payload-len";
  if (dl && memcmp(dp, m->pay, dl))
    return "payload";
  return NULL;
}

static int
fits(long max_size, size_t body) {
  return max_size == 0 || body <= (size_t)max_size;
}

/* size of the message body after inserting (num,len) at its stable position; *cons = the same without
 * crediting what the successor's header gives back (the API may ask for that much room) */
static size_t
size_after_insert(const rm_msg_t *m, uint32_t num, uint32_t len, size_t *cons) {
  int pos = 0;
  while (pos < m->nopts && m->opt[pos].num <= num)
    pos++;
  uint32_t prev = pos ? m->opt[pos - 1].num : 0;
  size_t body = rm_body_len(m);
  size_t add = rm_opt_wire_len(num - prev, len);
  size_t back = 0;
  if (pos < m->nopts) {
    const rm_opt_t *nx = &m->opt[pos];
    back = rm_opt_hdr_len(nx->num - prev, nx->len) - rm_opt_hdr_len(nx->num - num, nx->len);
  }
  *cons = body + add;
  return body + add - back;
}

static size_t
opt_size_in(const rm_msg_t *m, int i) {
  uint32_t prev = i ? m->opt[i - 1].num : 0;
  return rm_opt_wire_len(m->opt[i].num - prev, m->opt[i].len);
}

static int
is_request(unsigned code) {
  return code >= 1 && code <= 31;
}

static const uint8_t HOP_DEFAULT[1] = {16}; /* RFC 8768 section 3: default Hop-Limit value 16 */

/* counters */
enum { C_CASES, C_SKIPPED, C_ACCEPT_OPT, C_REFUSE_REPEAT, C_REFUSE_SPACE, C_REFUSE_AFTERDATA, C_REFUSE_LATETOKEN,
       C_HOPLIMIT, C_ENCODED, C_LEN0, C_LEN8, C_LEN16, C_LEN32, C_TKL13, C_TKL14, C_REALLOC, C_REFUSE_TOKEN,
       C_REFUSE_DATA, C_D269, C_D13, C_L269, C_L13 };

/* apply coap_add_option and advance the model; returns 0 when a failure was reported */
static int
step_add_option(const struct script *s, coap_pdu_t *pdu, rm_msg_t *m, uint32_t num, uint32_t len, int pos,
                const char *op) {
  static uint8_t vbuf[MAXVAL];
  fill_val(vbuf, len, pos);
  uint8_t *val = heapdup(vbuf, len);
  size_t ret = coap_add_option(pdu, (coap_option_num_t)num, len, val);
  free(val);
  vx_trace("  coap_add_option(%u, len=%u) -> %zu   [used_size=%zu alloc_size=%zu max_size=%zu]", num, len, ret, pdu->used_size,
           pdu->alloc_size, pdu->max_size);

  int hop_needed = is_request(m->code) && (num == 35 || num == 39) && rm_find(m, 16) < 0;
  int rep_present = rm_find(m, num) >= 0 && rm_opt_repeatable(num) == 0;
  int after_data = m->pay_len > 0;
  /* candidate models: M0 = model, M1 = model + implicit Hop-Limit */
  rm_msg_t m1;
  int have_m1 = 0, hop_true = 0, hop_cons = 0;
  if (hop_needed) {
    size_t c, t = size_after_insert(m, 16, 1, &c);
    hop_true = fits(s->max_size, t);
    hop_cons = fits(s->max_size, c);
    if (hop_true) {
      rm_copy(&m1, m);
      rm_insert(&m1, 16, HOP_DEFAULT, 1);
      have_m1 = 1;
    }
  }
  size_t c0, t0 = size_after_insert(m, num, len, &c0);
  size_t c1 = 0, t1 = 0;
  if (have_m1)
    t1 = size_after_insert(&m1, num, len, &c1);
  int ok = 1, oi;
  const char *d;
  if (ret == 0) {
    int expl0 = rep_present || after_data ||
                (!hop_needed && !fits(s->max_size, c0)) || (hop_needed && !hop_cons && !fits(s->max_size, c0));
    int expl1 = have_m1 && !after_data && !fits(s->max_size, c1);
    if (!expl0 && !expl1) {
      failf(s, op[0] == 'l' ? "refuse-unexplained:add_option-after-data" : "refuse-unexplained:add_option",
            "coap_add_option(%u,len=%u) returned 0: option not present as non-repeatable, body %zu + option fits max_size %ld",
            num, len, rm_body_len(m), s->max_size);
      ok = 0;
    } else {
      const char *d0 = expl0 ? cmp_pdu(pdu, m, 1, &oi) : "n/a";
      const char *d1 = expl1 ? cmp_pdu(pdu, &m1, 1, &oi) : "n/a";
      if (expl1 && !d1) {
        rm_insert(m, 16, HOP_DEFAULT, 1);
        vxp_count(C_HOPLIMIT, 1);
      } else if (!(expl0 && !d0)) {
        char sig[160];
        snprintf(sig, sizeof sig, "refuse-disturbs:add_option:%s", expl0 ? d0 : d1);
        failf(s, sig, "coap_add_option(%u,len=%u) returned 0 but the accessor dump changed (first difference: %s)", num,
              len, expl0 ? d0 : d1);
        ok = 0;
      }
      vxp_count(after_data ? C_REFUSE_AFTERDATA : rep_present ? C_REFUSE_REPEAT : C_REFUSE_SPACE, 1);
    }
  } else {
    /* allowed results: A0 = model + option (Hop-Limit not needed, or refusable for space), A1 = model + Hop-Limit + option */
    int allow0 = fits(s->max_size, t0) && (!hop_needed || !hop_cons);
    int allow1 = have_m1 && fits(s->max_size, t1);
    vxp_count(C_ACCEPT_OPT, 1);
    if (!allow0 && !allow1) {
      failf(s, "accept-unexpected:add_option:exceeds-max_size",
            "coap_add_option(%u,len=%u) returned %zu although the result (%zu bytes) exceeds max_size %ld", num, len, ret,
            have_m1 ? t1 : t0, s->max_size);
      ok = 0;
    } else if (!hop_needed) {
      int p0 = rm_insert(m, num, vbuf, len);
      if ((d = cmp_pdu(pdu, m, 1, &oi))) {
        char sig[200];
        snprintf(sig, sizeof sig, "build-mismatch:add_option:%s:%s", d, rm_opt_class(m, oi));
        failf(s, sig, "after coap_add_option(%u,len=%u) accessor dump != model at %s (option index %d)", num, len, d, oi);
        ok = 0;
      } else if (ret != opt_size_in(m, p0)) {
        failf(s, "retval:add_option", "coap_add_option(%u,len=%u) returned %zu, encoded option size is %zu", num, len, ret,
              opt_size_in(m, p0));
        ok = 0;
      }
    } else {
      rm_msg_t a0, a1;
      rm_copy(&a0, m);
      int p0 = rm_insert(&a0, num, vbuf, len), p1 = -1, oi1 = -1;
      const char *d0 = cmp_pdu(pdu, &a0, 1, &oi), *d1 = "n/a";
      if (have_m1) {
        rm_copy(&a1, &m1);
        p1 = rm_insert(&a1, num, vbuf, len);
        d1 = cmp_pdu(pdu, &a1, 1, &oi1);
      }
      if (allow1 && !d1) {
        rm_insert(m, 16, HOP_DEFAULT, 1);
        rm_insert(m, num, vbuf, len);
        vxp_count(C_HOPLIMIT, 1);
        if (ret != opt_size_in(m, p1)) {
          failf(s, "retval:add_option", "coap_add_option(%u,len=%u) returned %zu, encoded option size is %zu", num, len, ret,
                opt_size_in(m, p1));
          ok = 0;
        }
      } else if (allow0 && !d0) {
        rm_insert(m, num, vbuf, len);
        if (ret != opt_size_in(m, p0)) {
          failf(s, "retval:add_option", "coap_add_option(%u,len=%u) returned %zu, encoded option size is %zu", num, len, ret,
                opt_size_in(m, p0));
          ok = 0;
        }
      } else {
        char sig[200];
        snprintf(sig, sizeof sig, "build-mismatch:add_option+hop-limit:%s:%s", allow1 ? d1 : d0,
                 allow1 ? rm_opt_class(&a1, oi1) : rm_opt_class(&a0, oi));
        failf(s, sig, "after coap_add_option(%u,len=%u) on a request (implicit Hop-Limit %s) accessor dump != model at %s", num,
              len, allow1 ? "expected" : "not expected (no room)", allow1 ? d1 : d0);
        ok = 0;
      }
      rm_clear(&a0);
      if (have_m1)
        rm_clear(&a1);
    }
  }
  if (have_m1)
    rm_clear(&m1);
  return ok;
}

/* does coap_pdu_parse refuse a message of the same code that carries only option i of m? */
static int
single_option_rejected(const rm_msg_t *m, int i, coap_proto_t proto, enum rm_framing f) {
  rm_msg_t one;
  rm_init(&one, m->type, m->code, m->mid);
  rm_insert(&one, m->opt[i].num, m->opt[i].val, m->opt[i].len);
  size_t wl = rm_wire_len(&one, f);
  uint8_t *w = malloc(wl);
  rm_encode(&one, f, w, wl);
  coap_pdu_t *p = coap_pdu_init(0, 0, 0, wl);
  int r = p ? coap_pdu_parse(proto, w, wl, p) : 1;
  coap_delete_pdu(p);
  free(w);
  rm_clear(&one);
  return !r;
}

static void
run_script(const struct script *s) {
  coap_proto_t proto = PROTOS[s->proto_i];
  enum rm_framing f = framing_of(proto);
  int tm = f == RM_UDP;
  int oi;
  const char *d;
  vxp_count(C_CASES, 1);

  coap_pdu_t *pdu = coap_pdu_init((coap_pdu_type_t)s->type, (coap_pdu_code_t)s->code, (coap_mid_t)s->mid, (size_t)s->max_size);
  if (!pdu) {
    failf(s, "init-failed", "coap_pdu_init returned NULL");
    return;
  }
  rm_msg_t m;
  rm_init(&m, s->type, s->code, s->mid);
  const uint8_t *buf0 = pdu->token;

  /* token */
  {
    uint8_t *t = heapdup(g_tok, s->tok_len);
    int r = coap_add_token(pdu, s->tok_len, t);
    free(t);
    vx_trace("  coap_pdu_init(%u, %u, 0x%04x, %ld); coap_add_token(len=%u) -> %d   [used_size=%zu alloc_size=%zu]", s->type,
             s->code, s->mid, s->max_size, s->tok_len, r, pdu->used_size, pdu->alloc_size);
    if (r) {
      if (!fits(s->max_size, rm_tok_wire_len(s->tok_len))) {
        failf(s, "accept-unexpected:add_token:exceeds-max_size", "coap_add_token(%u) accepted with max_size %ld", s->tok_len,
              s->max_size);
        goto done;
      }
      rm_set_token(&m, g_tok, s->tok_len);
      if ((d = cmp_pdu(pdu, &m, 1, &oi))) {
        char sig[160];
        snprintf(sig, sizeof sig, "build-mismatch:add_token:%s", d);
        failf(s, sig, "after coap_add_token(%u) accessor dump != model at %s", s->tok_len, d);
        goto done;
      }
    } else {
      vxp_count(C_REFUSE_TOKEN, 1);
      if (fits(s->max_size, rm_tok_wire_len(s->tok_len)) && s->tok_len <= g_api_tok_max) {
        failf(s, "refuse-unexplained:add_token", "coap_add_token(%u) returned 0 although it fits max_size %ld", s->tok_len,
              s->max_size);
        goto done;
      }
      if ((d = cmp_pdu(pdu, &m, 1, &oi))) {
        char sig[160];
        snprintf(sig, sizeof sig, "refuse-disturbs:add_token:%s", d);
        coap_bin_const_t tk = coap_pdu_get_token(pdu);
        failf(s, sig, "coap_add_token(%u) returned 0 (%s) but the accessor dump changed at %s: coap_pdu_get_token().length=%zu",
              s->tok_len, s->tok_len > g_api_tok_max ? "longer than the API maximum" : "no room", d, tk.length);
        goto done; /* the PDU now claims a token it does not hold; nothing built on top of it is meaningful */
      }
    }
  }
  /* options, in the given insertion order */
  for (int i = 0; i < s->nopts; i++)
    if (!step_add_option(s, pdu, &m, s->opt[i].num, s->opt[i].len, i, "add_option"))
      goto done;
  /* a second token after something is present must be refused and change nothing */
  if (s->late_token && rm_body_len(&m) > 0) {
    uint8_t lt[3] = {0xEE, 0xEF, 0xF0};
    int r = coap_add_token(pdu, sizeof lt, lt);
    if (r) {
      failf(s, "accept-unexpected:add_token:after-options", "second coap_add_token accepted with %zu bytes already present",
            rm_body_len(&m));
      goto done;
    }
    vxp_count(C_REFUSE_LATETOKEN, 1);
    if ((d = cmp_pdu(pdu, &m, 1, &oi))) {
      char sig[160];
      snprintf(sig, sizeof sig, "refuse-disturbs:late_add_token:%s", d);
      failf(s, sig, "late coap_add_token returned 0 but the accessor dump changed at %s", d);
      goto done;
    }
  }
  /* payload */
  {
    uint8_t *p = heapdup(g_pay, s->pay_len);
    int r = coap_add_data(pdu, s->pay_len, p);
    free(p);
    vx_trace("  coap_add_data(len=%u) -> %d   [used_size=%zu alloc_size=%zu]", s->pay_len, r, pdu->used_size, pdu->alloc_size);
    size_t need = rm_body_len(&m) + (s->pay_len ? 1 + s->pay_len : 0);
    if (r) {
      if (!fits(s->max_size, need)) {
        failf(s, "accept-unexpected:add_data:exceeds-max_size", "coap_add_data(%u) accepted: %zu bytes > max_size %ld",
              s->pay_len, need, s->max_size);
        goto done;
      }
      rm_set_payload(&m, g_pay, s->pay_len);
      if ((d = cmp_pdu(pdu, &m, 1, &oi))) {
        char sig[160];
        snprintf(sig, sizeof sig, "build-mismatch:add_data:%s", d);
        failf(s, sig, "after coap_add_data(%u) accessor dump != model at %s", s->pay_len, d);
        goto done;
      }
    } else {
      vxp_count(C_REFUSE_DATA, 1);
      if (fits(s->max_size, need)) {
        failf(s, "refuse-unexplained:add_data", "coap_add_data(%u) returned 0 although %zu bytes fit max_size %ld", s->pay_len,
              need, s->max_size);
        goto done;
      }
      if ((d = cmp_pdu(pdu, &m, 1, &oi))) {
        char sig[160];
        snprintf(sig, sizeof sig, "refuse-disturbs:add_data:%s", d);
        failf(s, sig, "coap_add_data(%u) returned 0 but the accessor dump changed at %s", s->pay_len, d);
        goto done;
      }
    }
  }
  /* an option after the payload must be refused by coap_add_option and change nothing */
  if (s->late_option && m.pay_len > 0)
    if (!step_add_option(s, pdu, &m, 11, 1, 5, "late_option"))
      goto done;

  if (pdu->token != buf0)
    vxp_count(C_REALLOC, 1);

  /* serialise the way coap_session_send_pdu() does */
  {
    size_t hs = coap_pdu_encode_header(pdu, proto);
    if (hs == 0 || hs != pdu->hdr_size || hs != rm_hdr_len(&m, f)) {
      char sig[80];
      snprintf(sig, sizeof sig, "encode-header-failed:%s", rm_framing_name(f));
      failf(s, sig, "coap_pdu_encode_header returned %zu (hdr_size %u), reference header is %zu bytes", hs, pdu->hdr_size,
            rm_hdr_len(&m, f));
      goto done;
    }
    const uint8_t *wire = pdu->token - pdu->hdr_size;
    size_t wl = (size_t)pdu->hdr_size + pdu->used_size;
    size_t rl = rm_wire_len(&m, f);
    uint8_t *ref = malloc(rl ? rl : 1);
    if (rm_encode(&m, f, ref, rl) != rl) {
      failf(s, "harness:reference-encoder", "reference encoder failed");
      free(ref);
      goto done;
    }
    vxp_count(C_ENCODED, 1);
    if (vx_in_replay()) {
      char hx[2 * 64 + 1];
      vx_hex(hx, sizeof hx, wire, wl > 64 ? 64 : wl);
      vx_trace("  coap_pdu_encode_header(%s) -> %zu; wire (%zu bytes) %s%s", PROTO_NAME[s->proto_i], hs, wl, hx, wl > 64 ? ".." : "");
      vx_hex(hx, sizeof hx, ref, rl > 64 ? 64 : rl);
      vx_trace("  reference encoding of the model (%zu bytes) %s%s", rl, hx, rl > 64 ? ".." : "");
    }
    if (f == RM_TCP) {
      size_t rest = rm_rest_len(&m);
      vxp_count(rest <= 12 ? C_LEN0 : rest <= 268 ? C_LEN8 : rest <= 65804 ? C_LEN16 : C_LEN32, 1);
    }
    if (m.tok_len >= 13)
      vxp_count(m.tok_len >= 269 ? C_TKL14 : C_TKL13, 1);
    {
      uint32_t prev = 0;
      for (int i = 0; i < m.nopts; i++) {
        uint32_t dl = m.opt[i].num - prev;
        if (dl >= 13)
          vxp_count(dl >= 269 ? C_D269 : C_D13, 1);
        if (m.opt[i].len >= 13)
          vxp_count(m.opt[i].len >= 269 ? C_L269 : C_L13, 1);
        prev = m.opt[i].num;
      }
    }
    /* (1) byte for byte */
    size_t n = wl < rl ? wl : rl, k = 0;
    while (k < n && wire[k] == ref[k])
      k++;
    if (k < n || wl != rl) {
      char sig[160], hx[2 * 24 + 1], hr[2 * 24 + 1];
      int oix;
      const char *el = k < n ? rm_locate(&m, f, k, &oix) : "length";
      snprintf(sig, sizeof sig, "encode-mismatch:%s:%s", el, rm_framing_name(f));
      size_t from = k > 4 ? k - 4 : 0;
      vx_hex(hx, sizeof hx, wire + from, wl - from > 24 ? 24 : wl - from);
      vx_hex(hr, sizeof hr, ref + from, rl - from > 24 ? 24 : rl - from);
      failf(s, sig, "wire differs from reference at offset %zu (%s): libcoap len=%zu ..%s reference len=%zu ..%s (from offset %zu)",
            k, el, wl, hx, rl, hr, from);
      free(ref);
      goto done;
    }
    free(ref);
    /* (2) libcoap's bytes are well-formed and decode to the model */
    uint8_t *copy = heapdup(wire, wl);
    rm_msg_t dec;
    const char *why = NULL;
    if (!rm_decode(f, copy, wl, &dec, &why)) {
      char sig[80];
      snprintf(sig, sizeof sig, "refdecode-reject:%s", rm_framing_name(f));
      failf(s, sig, "reference decoder rejects libcoap's encoding: %s", why);
      free(copy);
      goto done;
    }
    if ((d = rm_diff(&dec, &m, tm, &oi))) {
      char sig[160];
      snprintf(sig, sizeof sig, "refdecode-mismatch:%s:%s", d, rm_framing_name(f));
      failf(s, sig, "reference decoding of libcoap's bytes differs from the model at %s (option index %d)", d, oi);
      rm_clear(&dec);
      free(copy);
      goto done;
    }
    rm_clear(&dec);
    /* (3) libcoap parses its own bytes back to the model */
    coap_pdu_t *back = coap_pdu_init(0, 0, 0, wl);
    if (!back) {
      failf(s, "init-failed", "coap_pdu_init for re-parse returned NULL");
      free(copy);
      goto done;
    }
    int parsed = coap_pdu_parse(proto, copy, wl, back);
    rm_msg_t red; /* model reduced by the options coap_pdu_parse refuses on their own */
    rm_copy(&red, &m);
    const rm_msg_t *cmpm = &m;
    if (!parsed) {
      /* name the option(s) that coap_pdu_parse refuses even when alone (one signature per such option, the
       * framing does not matter for them), then check that the rest of the message still round-trips */
      int nc = 0;
      char hx[2 * 40 + 1];
      vx_hex(hx, sizeof hx, copy, wl > 40 ? 40 : wl);
      for (int i = red.nopts - 1; i >= 0; i--)
        if (single_option_rejected(&red, i, proto, f)) {
          char sig[160];
          snprintf(sig, sizeof sig, "reparse-reject:opt-%u-len-%u", red.opt[i].num, red.opt[i].len);
          failf(s, sig, "coap_pdu_parse refuses a message the API built because of option %u with length %u (RFC range %s): %s%s",
                red.opt[i].num, red.opt[i].len, rm_opt_len_legal(red.code, red.opt[i].num, red.opt[i].len) ? "respected" : "violated",
                hx, wl > 40 ? ".." : "");
          nc++;
          /* drop exactly this instance */
          free(red.opt[i].val);
          for (int j = i; j + 1 < red.nopts; j++)
            red.opt[j] = red.opt[j + 1];
          red.nopts--;
          memset(&red.opt[red.nopts], 0, sizeof red.opt[0]);
        }
      if (nc) {
        size_t rl2 = rm_wire_len(&red, f);
        uint8_t *w2 = malloc(rl2);
        rm_encode(&red, f, w2, rl2);
        coap_delete_pdu(back);
        back = coap_pdu_init(0, 0, 0, rl2);
        parsed = back && coap_pdu_parse(proto, w2, rl2, back);
        free(w2);
        cmpm = &red;
      }
      if (!parsed) {
        char sig[160];
        snprintf(sig, sizeof sig, "reparse-reject:other:%s", rm_framing_name(f));
        failf(s, sig, "coap_pdu_parse refuses the bytes the API produced (no single option is the cause): %s%s", hx,
              wl > 40 ? ".." : "");
      }
    }
    if (parsed && (d = cmp_pdu(back, cmpm, tm, &oi))) {
      char sig[200];
      if (oi >= 0)
        snprintf(sig, sizeof sig, "reparse-mismatch:%s:%s:%s", d, rm_opt_class(cmpm, oi), rm_framing_name(f));
      else
        snprintf(sig, sizeof sig, "reparse-mismatch:%s:%s", d, rm_framing_name(f));
      failf(s, sig, "re-parsed PDU differs from the model at %s (option index %d)", d, oi);
    } else if (parsed) {
      uint64_t h = vx_fnv(copy, wl, VX_FNV0);
      h = vx_fnv(&s->proto_i, sizeof s->proto_i, h);
      if (m.nopts || m.tok_len || m.pay_len)
        vxp_distinct(h);
      if (cmpm == &m && (s->idx % 250007 == 0 || (s->idx % 20011 == 0 && m.nopts >= 2))) {
        char dsc[420], hx[2 * 48 + 1];
        describe(s, dsc, sizeof dsc);
        vx_hex(hx, sizeof hx, copy, wl > 48 ? 48 : wl);
        vxp_sample("%s -> %d options kept, wire %zu bytes %s%s: encode==reference, refdecode==model, reparse==model", dsc,
                   m.nopts, wl, hx, wl > 48 ? ".." : "");
      }
    }
    rm_clear(&red);
    coap_delete_pdu(back);
    free(copy);
  }
done:
  rm_clear(&m);
  coap_delete_pdu(pdu);
}

/* ------------------------------------------------------------------------------------------ */
/* spaces                                                                                      */
struct space {
  const char *name;
  int kind; /* 0 = opts, 1 = hdr, 2 = tcplen */
  const struct optpair *alpha;
  int nalpha, maxseq;
  uint64_t nseq;
  int nproto;
  const uint32_t *toks;
  int ntok;
  const uint32_t *pays;
  int npay;
  int nszv;
  uint64_t total;
};

static uint64_t
count_seqs(int nalpha, int maxseq) {
  uint64_t n = 0, p = 1;
  for (int l = 0; l <= maxseq; l++) {
    n += p;
    p *= (uint64_t)nalpha;
  }
  return n;
}

static int
decode_seq(uint64_t si, int nalpha, int maxseq, int *out) {
  uint64_t p = 1;
  for (int l = 0; l <= maxseq; l++) {
    if (si < p) {
      for (int k = l - 1; k >= 0; k--) {
        out[k] = (int)(si % (uint64_t)nalpha);
        si /= (uint64_t)nalpha;
      }
      return l;
    }
    si -= p;
    p *= (uint64_t)nalpha;
  }
  return -1;
}

/* planned body size after each build step if nothing is refused for space (used only to pick max_size) */
static void
plan_sizes(const struct script *s, size_t *need, int *nsteps) {
  rm_msg_t m;
  rm_init(&m, s->type, s->code, s->mid);
  int k = 0;
  m.tok_len = s->tok_len; /* sizes only; no bytes needed */
  need[k++] = rm_tok_wire_len(s->tok_len);
  size_t body_tok = need[0];
  for (int i = 0; i < s->nopts; i++) {
    uint32_t num = s->opt[i].num;
    int refused = m.nopts && rm_last_num(&m) == num && rm_opt_repeatable(num) == 0;
    if (!refused) {
      if (is_request(s->code) && (num == 35 || num == 39) && rm_find(&m, 16) < 0)
        rm_insert(&m, 16, NULL, 1);
      rm_insert(&m, num, NULL, s->opt[i].len);
    }
    need[k++] = body_tok + rm_opts_wire_len(&m);
  }
  need[k] = need[k - 1] + (s->pay_len ? 1 + s->pay_len : 0);
  k++;
  *nsteps = k;
  m.tok_len = 0;
  rm_clear(&m);
}

/* size variants: 0 unlimited | 1 exact | 2 exact+1 | 3 255 | 4 256 | 5 257 | 6 1200 | 7.. need[k]-1 for step k */
#define SZV_FIXED 7
static int
pick_size(struct script *s, int szv, int maxsteps) {
  size_t need[MAXSEQ + 3];
  int nsteps;
  static char desc[8][24];
  plan_sizes(s, need, &nsteps);
  size_t final = need[nsteps - 1];
  (void)maxsteps;
  switch (szv) {
  case 0:
    s->max_size = 0;
    s->szdesc = "unlimited";
    return 1;
  case 1:
    if (final == 0)
      return 0;
    s->max_size = (long)final;
    s->szdesc = "exact";
    return 1;
  case 2:
    s->max_size = (long)final + 1;
    s->szdesc = "exact+1";
    return 1;
  case 3:
  case 4:
  case 5:
    s->max_size = 252 + szv;
    s->szdesc = "256-boundary";
    return 1;
  case 6:
    s->max_size = 1200;
    s->szdesc = "generous";
    return 1;
  default: {
    int k = szv - SZV_FIXED;
    if (k >= nsteps || need[k] == 0)
      return 0;
    if (k > 0 && need[k] == need[k - 1])
      return 0; /* this step adds nothing (no payload / refused repeat): same as the previous variant */
    s->max_size = (long)need[k] - 1;
    if (s->max_size == 0)
      return 0; /* 0 means unlimited */
    snprintf(desc[k & 7], sizeof desc[0], "step%d-needs-%zu", k, need[k]);
    s->szdesc = desc[k & 7];
    return 1;
  }
  }
}

static const struct optpair HDR_SEQS[4][4] = {
    {{0, 0}},
    {{11, 1}},
    {{15, 1}, {3, 1}, {11, 0}, {11, 13}},
    {{65000, 13}, {12, 0}, {60, 4}},
};
static const int HDR_SEQ_N[4] = {0, 1, 4, 3};
static const struct optpair CSM_SEQS[4][4] = {
    {{0, 0}},
    {{2, 2}},
    {{4, 0}, {2, 4}},
    {{6, 3}, {2, 0}, {4, 0}},
};
static const int CSM_SEQ_N[4] = {0, 1, 2, 3};
static const uint8_t HDR_CODES[] = {0x00, 0x01, 0x05, 0x45, 0x84, 0xE1};
static const uint16_t HDR_MIDS[] = {0, 0x1234, 0xFFFF};

static const uint32_t LEN_TARGETS[] = {0, 1, 12, 13, 14, 268, 269, 270, 65804, 65805, 65806};
static const struct optpair LEN_PREFIX[3][2] = {{{0, 0}}, {{11, 3}}, {{11, 3}, {60, 2}}};
static const int LEN_PREFIX_N[3] = {0, 1, 2};

static void
one_case(uint64_t idx, void *arg) {
  const struct space *sp = arg;
  struct script s;
  memset(&s, 0, sizeof s);
  s.space = sp->name;
  s.idx = idx;
  uint64_t r = idx;
  if (sp->kind == 0) {
    /* fastest .. slowest: proto, code, szv, tok, pay, seq */
    s.proto_i = (int)(r % (uint64_t)sp->nproto);
    r /= (uint64_t)sp->nproto;
    s.code = CODES_OPTS[r % 2];
    r /= 2;
    int szv = (int)(r % (uint64_t)sp->nszv);
    r /= (uint64_t)sp->nszv;
    s.tok_len = sp->toks[r % (uint64_t)sp->ntok];
    r /= (uint64_t)sp->ntok;
    s.pay_len = sp->pays[r % (uint64_t)sp->npay];
    r /= (uint64_t)sp->npay;
    int sq[MAXSEQ];
    s.nopts = decode_seq(r, sp->nalpha, sp->maxseq, sq);
    for (int i = 0; i < s.nopts; i++)
      s.opt[i] = sp->alpha[sq[i]];
    s.type = (unsigned)(s.nopts & 3);
    s.mid = 0x1234;
    s.late_token = 1;
    s.late_option = 1;
    if (!pick_size(&s, szv, sp->maxseq + 2)) {
      vxp_count(C_SKIPPED, 1);
      return;
    }
  } else if (sp->kind == 1) {
    /* header product: proto, type, code, mid, token, small option sets, payload, size {unlimited, exact} */
    s.proto_i = (int)(r % (uint64_t)sp->nproto);
    r /= (uint64_t)sp->nproto;
    s.type = (unsigned)(r % 4);
    r /= 4;
    s.code = HDR_CODES[r % 6];
    r /= 6;
    s.mid = HDR_MIDS[r % 3];
    r /= 3;
    s.tok_len = sp->toks[r % (uint64_t)sp->ntok];
    r /= (uint64_t)sp->ntok;
    int q = (int)(r % 4);
    r /= 4;
    s.pay_len = (uint32_t)(r % 2);
    r /= 2;
    int szv = (int)(r % 2);
    enum rm_framing f = framing_of(PROTOS[s.proto_i]);
    if (s.code == 0xE1) {
      if (f == RM_UDP) { /* signalling codes exist on reliable transports only */
        vxp_count(C_SKIPPED, 1);
        return;
      }
      s.nopts = CSM_SEQ_N[q];
      for (int i = 0; i < s.nopts; i++)
        s.opt[i] = CSM_SEQS[q][i];
    } else {
      s.nopts = HDR_SEQ_N[q];
      for (int i = 0; i < s.nopts; i++)
        s.opt[i] = HDR_SEQS[q][i];
    }
    if (s.code == 0 && (s.tok_len || s.nopts || s.pay_len)) { /* an Empty message is just the header */
      vxp_count(C_SKIPPED, 1);
      return;
    }
    s.late_token = 1;
    s.late_option = 1;
    if (!pick_size(&s, szv, 6)) {
      vxp_count(C_SKIPPED, 1);
      return;
    }
  } else {
    /* force options+marker+payload to an exact length: proto, code, token, prefix, filler, target */
    s.proto_i = (int)(r % (uint64_t)sp->nproto);
    r /= (uint64_t)sp->nproto;
    s.code = CODES_OPTS[r % 2];
    r /= 2;
    s.tok_len = TOK_S[r % 4];
    r /= 4;
    int pf = (int)(r % 3);
    r /= 3;
    int filler = (int)(r % 2);
    r /= 2;
    uint32_t target = LEN_TARGETS[r % (sizeof LEN_TARGETS / sizeof LEN_TARGETS[0])];
    s.nopts = LEN_PREFIX_N[pf];
    for (int i = 0; i < s.nopts; i++)
      s.opt[i] = LEN_PREFIX[pf][i];
    s.type = 0;
    s.mid = 0xFFFF;
    rm_msg_t m;
    rm_init(&m, 0, s.code, 0);
    for (int i = 0; i < s.nopts; i++)
      rm_insert(&m, s.opt[i].num, NULL, s.opt[i].len);
    size_t osz = rm_opts_wire_len(&m);
    uint32_t last = rm_last_num(&m);
    rm_clear(&m);
    int okc = 0;
    if (filler == 0) {
      if (target == osz) {
        s.pay_len = 0;
        okc = 1;
      } else if (target >= osz + 2) {
        s.pay_len = (uint32_t)(target - osz - 1);
        okc = 1;
      }
    } else {
      /* one more (unknown, elective) option whose value fills the rest exactly */
      for (uint32_t v = 0; v <= target && v <= 65804 && !okc; v++)
        if (osz + rm_opt_wire_len(65000 - last, v) == target) {
          s.opt[s.nopts].num = 65000;
          s.opt[s.nopts].len = v;
          s.nopts++;
          okc = 1;
        }
    }
    if (!okc) {
      vxp_count(C_SKIPPED, 1);
      return;
    }
    s.max_size = 0;
    s.szdesc = "unlimited";
  }
  run_script(&s);
}

static void
mk_opts_space(struct space *sp, const char *name, const struct optpair *alpha, int nalpha, int maxseq, int nproto,
              const uint32_t *toks, int ntok, const uint32_t *pays, int npay) {
  memset(sp, 0, sizeof *sp);
  sp->name = name;
  sp->kind = 0;
  sp->alpha = alpha;
  sp->nalpha = nalpha;
  sp->maxseq = maxseq;
  sp->nseq = count_seqs(nalpha, maxseq);
  sp->nproto = nproto;
  sp->toks = toks;
  sp->ntok = ntok;
  sp->pays = pays;
  sp->npay = npay;
  sp->nszv = SZV_FIXED + maxseq + 2;
  sp->total = sp->nseq * (uint64_t)nproto * 2 * (uint64_t)sp->nszv * (uint64_t)ntok * (uint64_t)npay;
}

static int
selftest(void) {
  /* RFC 7252 Appendix A, Figure 16/17: CON GET /temperature mid 0x7d34, ACK 2.05 "22.3 C"; with token 0x20 */
  static const uint8_t v1[] = {0x40, 0x01, 0x7d, 0x34, 0xbb, 't', 'e', 'm', 'p', 'e', 'r', 'a', 't', 'u', 'r', 'e'};
  static const uint8_t v2[] = {0x60, 0x45, 0x7d, 0x34, 0xff, '2', '2', '.', '3', ' ', 'C'};
  static const uint8_t v3[] = {0x41, 0x01, 0x7d, 0x35, 0x20, 0xbb, 't', 'e', 'm', 'p', 'e', 'r', 'a', 't', 'u', 'r', 'e'};
  uint8_t out[64];
  rm_msg_t m;
  int ok = 1;
  rm_init(&m, 0, 0x01, 0x7d34);
  rm_insert(&m, 11, (const uint8_t *)"temperature", 11);
  ok &= rm_encode(&m, RM_UDP, out, sizeof out) == sizeof v1 && !memcmp(out, v1, sizeof v1);
  rm_set_token(&m, (const uint8_t *)"\x20", 1);
  m.mid = 0x7d35;
  ok &= rm_encode(&m, RM_UDP, out, sizeof out) == sizeof v3 && !memcmp(out, v3, sizeof v3);
  /* same message over TCP: Len = 12 (options only), TKL 1: 0xC1 code token options */
  ok &= rm_encode(&m, RM_TCP, out, sizeof out) == 2 + 1 + 12 && out[0] == 0xC1 && out[1] == 0x01 && out[2] == 0x20;
  ok &= rm_encode(&m, RM_WS, out, sizeof out) == 2 + 1 + 12 && out[0] == 0x01;
  rm_clear(&m);
  rm_init(&m, 2, 0x45, 0x7d34);
  rm_set_payload(&m, (const uint8_t *)"22.3 C", 6);
  ok &= rm_encode(&m, RM_UDP, out, sizeof out) == sizeof v2 && !memcmp(out, v2, sizeof v2);
  rm_msg_t d;
  const char *why;
  ok &= rm_decode(RM_UDP, v2, sizeof v2, &d, &why) && rm_diff(&d, &m, 1, NULL) == NULL;
  rm_clear(&d);
  /* TCP: Len 13 form: options+marker+payload = 13 -> 0xD0 0x00 code */
  rm_set_payload(&m, (const uint8_t *)"123456789012", 12);
  ok &= rm_encode(&m, RM_TCP, out, sizeof out) == 3 + 13 && out[0] == 0xD0 && out[1] == 0x00 && out[2] == 0x45;
  ok &= rm_decode(RM_TCP, out, 16, &d, &why) && rm_diff(&d, &m, 0, NULL) == NULL;
  rm_clear(&d);
  out[1] = 1; /* Len says 14, 13 present */
  ok &= !rm_decode(RM_TCP, out, 16, &d, &why);
  rm_clear(&m);
  /* option delta 269 / length 13: E0|D 00 00 00 ... */
  rm_init(&m, 1, 0x02, 1);
  uint8_t v13[13] = {0};
  rm_insert(&m, 269, v13, 13);
  ok &= rm_encode(&m, RM_UDP, out, sizeof out) == 4 + 4 + 13 && out[4] == 0xED && out[5] == 0 && out[6] == 0 && out[7] == 0;
  /* extended token 13 bytes: TKL nibble 13, one byte 0 */
  rm_set_token(&m, v13, 13);
  ok &= rm_encode(&m, RM_UDP, out, sizeof out) == 4 + 1 + 13 + 4 + 13 && (out[0] & 15) == 13 && out[4] == 0;
  ok &= rm_decode(RM_UDP, out, 35, &d, &why) && rm_diff(&d, &m, 1, NULL) == NULL;
  rm_clear(&d);
  rm_clear(&m);
  return ok;
}

int
main(int argc, char **argv) {
  vx_main_init(argc, argv, "C01");
  coap_startup();
  coap_set_log_level(COAP_LOG_EMERG);
  fill_static();
  if (!selftest()) {
    fprintf(stderr, "refmsg self-test failed\n");
    return 2;
  }
  /* alphabets must respect the RFC length ranges (so that a re-parse must accept) */
  for (int i = 0; i < NB; i++)
    if (!rm_opt_len_legal(0x01, ALPHA_B[i].num, ALPHA_B[i].len)) {
      fprintf(stderr, "alphabet pair (%u,%u) outside RFC range\n", ALPHA_B[i].num, ALPHA_B[i].len);
      return 2;
    }
  for (int i = 0; i < NT; i++)
    if (!rm_opt_len_legal(0x01, ALPHA_T[i].num, ALPHA_T[i].len)) {
      fprintf(stderr, "alphabet pair (%u,%u) outside RFC range\n", ALPHA_T[i].num, ALPHA_T[i].len);
      return 2;
    }
  {
    /* what does the API permit?  RFC 8974 allows 65804; the build may be compiled with less */
    static const size_t probe[] = {65804, 4096, 8};
    for (int i = 0; i < 3; i++) {
      coap_pdu_t *p = coap_pdu_init(0, 1, 0, 0);
      int r = coap_add_token(p, probe[i], g_tok);
      coap_delete_pdu(p);
      g_api_tok_max = probe[i];
      if (r)
        break;
    }
    vx_ev_int("api_max_token_length", (long long)g_api_tok_max);
    vx_ev_int("api_COAP_MAX_OPT_as_compiled_in_harness", (long long)COAP_MAX_OPT);
  }
  int fast_stage = 0;
  for (int i = 1; i < argc; i++)
    if (!strcmp(argv[i], "--stage-fast"))
      fast_stage = 1;
#ifdef C01_FAST
  fast_stage = 1;
#endif
  int T = vx_is_thorough();
  struct space spaces[8];
  int ns = 0;
  if (!fast_stage) {
    int np = T ? 6 : 3;
    /* header product */
    struct space *h = &spaces[ns++];
    memset(h, 0, sizeof *h);
    h->name = "hdr";
    h->kind = 1;
    h->nproto = np;
    h->toks = T ? TOK_T : TOK_Q;
    h->ntok = T ? 11 : 10;
    h->total = (uint64_t)np * 4 * 6 * 3 * (uint64_t)h->ntok * 4 * 2 * 2;
    /* forced Len */
    struct space *l = &spaces[ns++];
    memset(l, 0, sizeof *l);
    l->name = "tcplen";
    l->kind = 2;
    l->nproto = np;
    l->total = (uint64_t)np * 2 * 4 * 3 * 2 * (sizeof LEN_TARGETS / sizeof LEN_TARGETS[0]);
    /* all insertion orders */
    mk_opts_space(&spaces[ns++], "opts<=2of-length-bounds", ALPHA_B, NB, 2, np, TOK_S, 4, PAY_S, 2);
    mk_opts_space(&spaces[ns++], "opts<=3of14", ALPHA_Q, NQ, 3, np, TOK_Q, 9, PAY_Q, 5);
    if (T) /* the larger alphabet under the sanitizers too, with the four token-length forms */
      mk_opts_space(&spaces[ns++], "opts<=3of26/asan", ALPHA_T, NT, 3, np, TOK_S, 4, PAY_Q, 5);
  } else {
    if (!T && !vx_replay_path()) {
      vx_ev_rule("fast stage runs in the thorough tier only");
      return vx_finish();
    }
    mk_opts_space(&spaces[ns++], "opts<=3of26", ALPHA_T, NT, 3, 6, TOK_Q, 9, PAY_Q, 5);
    mk_opts_space(&spaces[ns++], "opts<=4of26", ALPHA_T, NT, 4, 6, TOK_S, 4, PAY_S, 2);
  }
  for (int i = 0; i < ns; i++)
    if (vxp_replay_if_match(spaces[i].name, one_case, &spaces[i]))
      return 0;
  if (vx_replay_path()) {
    fprintf(stderr, "replay file names no space of this stage\n");
    return 3;
  }
  uint64_t done = 0;
  for (int i = 0; i < ns; i++) {
    struct vxp_config c = {.space = spaces[i].name, .total = spaces[i].total};
    struct vxp_stats st;
    vxp_enumerate(&c, one_case, &spaces[i], &st);
    done += st.done;
  }
  uint64_t cases = vxp_counter(C_CASES);
  vx_ev_add_states((long long)cases, (long long)(cases + vxp_counter(C_ACCEPT_OPT)), (long long)cases);
  vx_ev_add_evals((long long)done, (long long)vxp_distinct_count());
  vx_ev_rule("every build script init(type,code,mid,max_size).add_token(len).add_option(num,len)* in every insertion order"
             ".add_data(len).encode_header(proto) over the declared alphabets (sequences with repetition, so equal numbers"
             " and non-repeatable repeats occur), max_size in {unlimited, exact, exact+1, 255/256/257, 1200, need(step k)-1"
             " for every step k}; index slots whose size variant does not exist for that script are counted as skipped;"
             " non-trivial = message has a token, an option or a payload; distinct = distinct (wire bytes, proto)");
  vx_ev_assumption("realloc never fails (allocation failure is property C18)");
  vx_ev_assumption("a refusal for lack of space may ignore the <=2 bytes the successor option's header gives back when an"
                   " option is inserted in front of it (the API asks for room for the new option as encoded)");
  vx_ev_assumption("type and message id are not compared on TCP/TLS/WS/WSS: RFC 8323 framing does not carry them");
  vx_ev_assumption("signalling code 7.01 is built with CSM options only (RFC 8323 5.3, RFC 8974), Empty (0.00) without"
                   " token/options/payload (RFC 7252 4.1)");
  vx_ev_int("scripts_run", (long long)cases);
  vx_ev_int("index_slots_skipped", (long long)vxp_counter(C_SKIPPED));
  vx_ev_int("options_accepted", (long long)vxp_counter(C_ACCEPT_OPT));
  vx_ev_int("refused_repeat", (long long)vxp_counter(C_REFUSE_REPEAT));
  vx_ev_int("refused_space_option", (long long)vxp_counter(C_REFUSE_SPACE));
  vx_ev_int("refused_space_token", (long long)vxp_counter(C_REFUSE_TOKEN));
  vx_ev_int("refused_space_data", (long long)vxp_counter(C_REFUSE_DATA));
  vx_ev_int("refused_option_after_data", (long long)vxp_counter(C_REFUSE_AFTERDATA));
  vx_ev_int("refused_late_token", (long long)vxp_counter(C_REFUSE_LATETOKEN));
  vx_ev_int("implicit_hop_limit", (long long)vxp_counter(C_HOPLIMIT));
  vx_ev_int("encoded_and_compared", (long long)vxp_counter(C_ENCODED));
  vx_ev_int("buffer_moved_by_realloc", (long long)vxp_counter(C_REALLOC));
  vx_ev_int("tcp_len_0_12", (long long)vxp_counter(C_LEN0));
  vx_ev_int("tcp_len_8bit", (long long)vxp_counter(C_LEN8));
  vx_ev_int("tcp_len_16bit", (long long)vxp_counter(C_LEN16));
  vx_ev_int("tcp_len_32bit", (long long)vxp_counter(C_LEN32));
  vx_ev_int("tkl_13", (long long)vxp_counter(C_TKL13));
  vx_ev_int("tkl_14", (long long)vxp_counter(C_TKL14));
  vx_ev_int("opt_delta_13_268", (long long)vxp_counter(C_D13));
  vx_ev_int("opt_delta_269plus", (long long)vxp_counter(C_D269));
  vx_ev_int("opt_len_13_268", (long long)vxp_counter(C_L13));
  vx_ev_int("opt_len_269plus", (long long)vxp_counter(C_L269));
  return vx_finish();
}
