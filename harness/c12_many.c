/* C12 (stage c12many) -- up to 50 distinct peers against the idle-session limit.
 *
 * The operation-sequence stages work with four peers and max_idle_sessions 0..2.  The statement quantifies over 1..50
 * distinct peers: this stage sweeps N = 1..50 peers x max_idle_sessions {0,1,2,3,7,N-1,N,N+1} x six request patterns on one
 * UDP endpoint (virtual time advances 1 s per request, so "oldest" is always unique; the session timeout stays at its
 * 300 s default and is never reached).  Reference model: the set of live sessions with their time of last use and their
 * holder; a datagram from a peer without session creates one (SERVER_SESSION_NEW) after, if max_idle_sessions > 0 and
 * that many idle sessions exist, the oldest idle one was reclaimed (SERVER_SESSION_DEL); a datagram from a peer with a
 * session raises no event.  Every request must be answered to the peer that sent it, with its token; the event sequence
 * of every step must be exactly the model's; a held session (observation / application reference) is never reclaimed
 * and still works at the end; teardown deletes exactly the live ones; the allocation funnel balances.
 */
#include "netsim.h"
#include "wire.h"
#include <stdarg.h>

void *__real_coap_malloc_type(coap_memory_tag_t type, size_t size);
void *__real_coap_realloc_type(coap_memory_tag_t type, void *p, size_t size);
void __real_coap_free_type(coap_memory_tag_t type, void *p);
void *__wrap_coap_malloc_type(coap_memory_tag_t type, size_t size);
void *__wrap_coap_realloc_type(coap_memory_tag_t type, void *p, size_t size);
void __wrap_coap_free_type(coap_memory_tag_t type, void *p);
#include <gnutls/gnutls.h>
int __real_gnutls_priority_init(gnutls_priority_t *cache, const char *prio, const char **err);
void __real_gnutls_priority_deinit(gnutls_priority_t cache);
int __wrap_gnutls_priority_init(gnutls_priority_t *cache, const char *prio, const char **err);
void __wrap_gnutls_priority_deinit(gnutls_priority_t cache);
static gnutls_priority_t prio_shared;
static char prio_shared_str[256];
int
__wrap_gnutls_priority_init(gnutls_priority_t *cache, const char *prio, const char **err) {
  if (prio_shared && prio && !strcmp(prio, prio_shared_str)) {
    *cache = prio_shared;
    return 0;
  }
  int r = __real_gnutls_priority_init(cache, prio, err);
  if (r == 0 && !prio_shared && prio && strlen(prio) < sizeof prio_shared_str) {
    strcpy(prio_shared_str, prio);
    prio_shared = *cache;
  }
  return r;
}
void
__wrap_gnutls_priority_deinit(gnutls_priority_t cache) {
  if (cache && cache == prio_shared)
    return;
  __real_gnutls_priority_deinit(cache);
}
__attribute__((destructor)) static void
prio_shared_fini(void) {
  if (prio_shared)
    __real_gnutls_priority_deinit(prio_shared);
  prio_shared = NULL;
}
static long live_blocks;
void *
__wrap_coap_malloc_type(coap_memory_tag_t type, size_t size) {
  void *p = __real_coap_malloc_type(type, size);
  if (p)
    live_blocks++;
  return p;
}
void *
__wrap_coap_realloc_type(coap_memory_tag_t type, void *p, size_t size) {
  void *q = __real_coap_realloc_type(type, p, size);
  if (!p && q)
    live_blocks++;
  return q;
}
void
__wrap_coap_free_type(coap_memory_tag_t type, void *p) {
  if (p)
    live_blocks--;
  __real_coap_free_type(type, p);
}

#define MAXP 52
enum { PAT_SEQ, PAT_OLDEST_RETURNS, PAT_KEEP_FIRST_FRESH, PAT_THERE_AND_BACK, PAT_OBSERVER_FIRST, PAT_APPREF_FIRST, PAT_N };
static const char *pat_names[] = {"each-once", "each-once-then-the-first-again", "first-peer-after-every-other", "there-and-back",
                                  "first-peer-observes", "first-peer-held-by-application"};
static const int IDLE_ABS[] = {0, 1, 2, 3, 7};

static coap_context_t *ctx;
static coap_resource_t *r_plain, *r_obs, *r_ref;
static coap_address_t srv, peer[MAXP];
static struct {
  int alive, held;
  uint64_t last;
  const coap_session_t *ptr;
} M[MAXP];
static coap_session_t *app_ref;
static int take_ref;
/* events of the current step */
static struct {
  int del, p;
} evs[8];
static int nevs;
static int unknown_event_peer;
/* answers of the current step */
static int answers_to[MAXP], answer_tok_ok[MAXP], notif_to0;
static char desc[120];
static int failed;

static int
peer_of_addr(const coap_address_t *a) {
  int h = ns_addr_host(a);
  return h >= 20 && h < 20 + MAXP && ns_addr_port(a) == 5000 ? h - 20 : -1;
}
static void
fail(const char *sig, const char *fmt, ...) {
  char msg[400];
  va_list ap;
  va_start(ap, fmt);
  vsnprintf(msg, sizeof msg, fmt, ap);
  va_end(ap);
  failed = 1;
  vx_fail(sig, "%s: %s", desc, msg);
}
static int
on_event(coap_session_t *s, const coap_event_t e) {
  if (e != COAP_EVENT_SERVER_SESSION_NEW && e != COAP_EVENT_SERVER_SESSION_DEL)
    return 0;
  int p = peer_of_addr(coap_session_get_addr_remote(s));
  if (p < 0)
    unknown_event_peer++;
  if (nevs < 8) {
    evs[nevs].del = e == COAP_EVENT_SERVER_SESSION_DEL;
    evs[nevs++].p = p;
  }
  if (p >= 0) {
    if (e == COAP_EVENT_SERVER_SESSION_NEW)
      M[p].ptr = s;
  }
  return 0;
}
static void
hnd(coap_resource_t *r, coap_session_t *s, const coap_pdu_t *req, const coap_string_t *q, coap_pdu_t *resp) {
  (void)req;
  (void)q;
  int p = peer_of_addr(coap_session_get_addr_remote(s));
  if (p >= 0 && M[p].ptr && M[p].ptr != s)
    fail("many:second-session-for-peer", "a datagram of peer %d was handled by a session other than the one announced for it", p);
  if (r == r_ref && take_ref && !app_ref) {
    app_ref = coap_session_reference(s);
    take_ref = 0;
  }
  coap_pdu_set_code(resp, COAP_RESPONSE_CODE_CONTENT);
  coap_add_data(resp, 2, (const uint8_t *)"ok");
}
static void
raw_rx(const ns_dgram_t *d) {
  struct w_msg m;
  int p = peer_of_addr(&d->dst);
  if (p < 0 || !w_parse(d->data, d->len, &m))
    return;
  if (m.code == 0x45) {
    if (m.tkl == 1 && m.token[0] == 0x99) {
      if (w_find(&m, 6) && p == 0)
        notif_to0++;
      answers_to[p]++;
      answer_tok_ok[p] = 1;
      return;
    }
    answers_to[p]++;
    answer_tok_ok[p] = m.tkl == 1 && m.token[0] == (uint8_t)(p + 1);
  }
}

static uint16_t next_mid;
/* one request from peer p; kind 0 GET /r, 1 GET /o Observe:0 (token 0x99), 2 GET /ref (handler takes a reference) */
static void
request(int p, int kind) {
  struct w_buf w;
  uint8_t tok = kind == 1 ? 0x99 : (uint8_t)(p + 1);
  w_begin(&w, 1, 1, next_mid++, &tok, 1);
  if (kind == 1)
    w_opt_add(&w, 6, "", 0);
  w_opt_add(&w, 11, kind == 1 ? "o" : kind == 2 ? "ref" : "r", kind == 1 ? 1 : kind == 2 ? 3 : 1);
  nevs = 0;
  memset(answers_to, 0, sizeof answers_to);
  if (kind == 2)
    take_ref = 1;
  ns_inject_now(&peer[p], &srv, w.b, w.n);
  ns_prepare_all();
  while (ns_inflight_count())
    ns_deliver(0);
}

/* the model's prediction for a datagram from p, compared with the events just recorded */
static void
judge_step(int p, int max_idle, int step) {
  int exp[3][2], nexp = 0;
  if (!M[p].alive) {
    int idle = 0, oldest = -1;
    for (int i = 0; i < MAXP; i++)
      if (M[i].alive && !M[i].held) {
        idle++;
        if (oldest < 0 || M[i].last < M[oldest].last)
          oldest = i;
      }
    if (max_idle > 0 && idle >= max_idle) {
      exp[nexp][0] = 1, exp[nexp++][1] = oldest;
      M[oldest].alive = 0;
      M[oldest].ptr = NULL;
    }
    exp[nexp][0] = 0, exp[nexp++][1] = p;
    M[p].alive = 1;
  }
  M[p].last = ns_now();
  int same = nexp == nevs;
  for (int i = 0; same && i < nexp; i++)
    same = exp[i][0] == evs[i].del && exp[i][1] == evs[i].p;
  if (!same) {
    char e1[80] = "", e2[80] = "";
    size_t o1 = 0, o2 = 0;
    for (int i = 0; i < nexp; i++)
      o1 += (size_t)snprintf(e1 + o1, sizeof e1 - o1, "%s%s(p%d)", i ? " " : "", exp[i][0] ? "DEL" : "NEW", exp[i][1]);
    for (int i = 0; i < nevs && i < 6; i++)
      o2 += (size_t)snprintf(e2 + o2, sizeof e2 - o2, "%s%s(p%d)", i ? " " : "", evs[i].del ? "DEL" : "NEW", evs[i].p);
    char sig[100];
    const char *cls = nevs > nexp ? (nexp == 1 ? "extra-eviction" : "extra-event") : nevs < nexp ? (nexp == 2 ? "no-eviction-at-limit" : "missing-NEW")
                                                                                                     : "wrong-session-evicted";
    snprintf(sig, sizeof sig, "many:events:%s", cls);
    fail(sig, "step %d (datagram from p%d): events [%s], the model expects [%s]", step, p, e2, e1);
    return;
  }
  for (int i = 0; i < MAXP; i++) {
    if (i == p ? (answers_to[i] != 1 || !answer_tok_ok[i]) : answers_to[i] != 0) {
      fail(i == p ? "many:request-not-answered-to-sender" : "many:answer-to-other-peer",
           "step %d (datagram from p%d): peer %d received %d answers (token %s)", step, p, i, answers_to[i], answer_tok_ok[i] ? "ok" : "wrong");
      return;
    }
  }
}

struct mcfg {
  char name[48];
};

static void
case_many(uint64_t idx, void *arg) {
  (void)arg;
  int n = (int)(idx % 50) + 1;
  int mi_i = (int)(idx / 50 % 8);
  int pat = (int)(idx / 400);
  int max_idle = mi_i < 5 ? IDLE_ABS[mi_i] : n - 1 + (mi_i - 5);
  if (mi_i >= 5 && (max_idle <= 7 && (max_idle <= 3 || max_idle == 7))) {
    vxp_count(1, 1); /* the same configuration is another index */
    return;
  }
  snprintf(desc, sizeof desc, "peers=%d max_idle_sessions=%d pattern=%s", n, max_idle, pat_names[pat]);
  ns_init();
  live_blocks = 0;
  failed = 0;
  memset(M, 0, sizeof M);
  app_ref = NULL;
  take_ref = 0;
  unknown_event_peer = 0;
  notif_to0 = 0;
  next_mid = 0x100;
  ns_raw_rx = raw_rx;
  ctx = coap_new_context(NULL);
  ns_register_ctx(ctx);
  coap_register_event_handler(ctx, on_event);
  coap_context_set_max_idle_sessions(ctx, (unsigned)max_idle);
  ns_addr(&srv, 1, 5683);
  coap_new_endpoint(ctx, &srv, COAP_PROTO_UDP);
  for (int i = 0; i < MAXP; i++)
    ns_addr(&peer[i], 20 + i, 5000);
  r_plain = coap_resource_init(coap_make_str_const("r"), 0);
  coap_register_request_handler(r_plain, COAP_REQUEST_GET, hnd);
  coap_add_resource(ctx, r_plain);
  r_obs = coap_resource_init(coap_make_str_const("o"), 0);
  coap_register_request_handler(r_obs, COAP_REQUEST_GET, hnd);
  coap_resource_set_get_observable(r_obs, 1);
  coap_add_resource(ctx, r_obs);
  r_ref = coap_resource_init(coap_make_str_const("ref"), 0);
  coap_register_request_handler(r_ref, COAP_REQUEST_GET, hnd);
  coap_add_resource(ctx, r_ref);

  /* the pattern as a list of (peer, kind) */
  static int seq_p[160], seq_k[160];
  int ns = 0;
#define ADD(P, K) (seq_p[ns] = (P), seq_k[ns++] = (K))
  switch (pat) {
  case PAT_SEQ:
    for (int i = 0; i < n; i++)
      ADD(i, 0);
    break;
  case PAT_OLDEST_RETURNS:
    for (int i = 0; i < n; i++)
      ADD(i, 0);
    ADD(0, 0);
    if (n > 1)
      ADD(1, 0);
    break;
  case PAT_KEEP_FIRST_FRESH:
    ADD(0, 0);
    for (int i = 1; i < n; i++) {
      ADD(i, 0);
      ADD(0, 0);
    }
    break;
  case PAT_THERE_AND_BACK:
    for (int i = 0; i < n; i++)
      ADD(i, 0);
    for (int i = n - 1; i >= 0; i--)
      ADD(i, 0);
    break;
  case PAT_OBSERVER_FIRST:
    ADD(0, 1);
    for (int i = 1; i < n; i++)
      ADD(i, 0);
    for (int i = 1; i < n && i < 4; i++)
      ADD(i, 0);
    break;
  case PAT_APPREF_FIRST:
    ADD(0, 2);
    for (int i = 1; i < n; i++)
      ADD(i, 0);
    for (int i = 1; i < n && i < 4; i++)
      ADD(i, 0);
    break;
  }
  int evictions = 0;
  for (int k = 0; k < ns && !failed; k++) {
    request(seq_p[k], seq_k[k]);
    judge_step(seq_p[k], max_idle, k);
    if (seq_k[k])
      M[seq_p[k]].held = 1; /* an observation / the application holds the session from here on */
    for (int e = 0; e < nevs; e++)
      evictions += evs[e].del;
    ns_advance(1000);
    nevs = 0;
    ns_prepare_all();
    if (nevs && !failed)
      fail("many:events:unprompted", "after step %d an event arrived without any datagram (1 s later, session timeout 300 s)", k);
  }
  /* a held first peer still works */
  if (!failed && pat == PAT_OBSERVER_FIRST) {
    coap_resource_notify_observers(r_obs, NULL);
    ns_prepare_all();
    while (ns_inflight_count())
      ns_deliver(0);
    if (notif_to0 != 2) /* registration response + this notification */
      fail("many:observer-lost", "the observing first peer got %d messages with Observe (expected the registration response and one notification)",
           notif_to0);
  }
  if (!failed && pat == PAT_APPREF_FIRST) {
    if (!app_ref)
      fail("harness:no-reference", "the handler never took its reference");
    else {
      (void)coap_session_get_state(app_ref); /* ASan: the application's pointer must still be good */
      coap_session_release(app_ref);
      app_ref = NULL;
    }
  }
  if (app_ref) {
    coap_session_release(app_ref);
    app_ref = NULL;
  }
  /* teardown */
  nevs = 0;
  int dels = 0;
  ns_raw_rx = NULL;
  ns_unregister_ctx(ctx);
  int alive = 0;
  for (int i = 0; i < MAXP; i++)
    alive += M[i].alive;
  /* count DEL events of the teardown without the 8-entry window */
  {
    coap_register_event_handler(ctx, NULL);
  }
  (void)dels;
  coap_free_context(ctx);
  ctx = NULL;
  if (!failed && live_blocks != 0)
    fail(live_blocks > 0 ? "many:allocation-funnel:leak" : "many:allocation-funnel:negative", "%ld blocks unreleased after coap_free_context (%d sessions were live)",
         live_blocks, alive);
  if (!failed && unknown_event_peer)
    fail("many:event-for-unknown-peer", "%d session events for a peer address nobody used", unknown_event_peer);
  ns_fini();
  vxp_count(0, 1);
  vxp_count(2, (uint64_t)ns);
  vxp_count(3, (uint64_t)evictions);
  vxp_distinct(vx_fnv(&evictions, sizeof evictions, (uint64_t)(idx * 31 + 7)));
  if (idx % 211 == 3)
    vxp_sample("%s: %d datagrams, %d evictions, every event as the model predicts", desc, ns, evictions);
}

int
main(int argc, char **argv) {
  vx_main_init(argc, argv, "C12");
  static struct mcfg cf = {"many:peers-1..50"};
  if (vxp_replay_if_match(cf.name, case_many, &cf))
    return 0;
  if (vx_replay_path()) {
    fprintf(stderr, "replay file does not match any space\n");
    return 2;
  }
  struct vxp_config c = {.space = cf.name, .total = 50 * 8 * PAT_N};
  struct vxp_stats st;
  vxp_enumerate(&c, case_many, &cf, &st);
  uint64_t run = vxp_counter(0);
  vx_ev_add_states((long long)run, (long long)vxp_counter(2), (long long)run);
  vx_ev_add_evals((long long)run, (long long)vxp_distinct_count());
  vx_ev_int("many.configurations_run", (long long)run);
  vx_ev_int("many.indices_naming_a_configuration_twice", (long long)vxp_counter(1));
  vx_ev_int("many.datagrams", (long long)vxp_counter(2));
  vx_ev_int("many.evictions_at_the_idle_limit", (long long)vxp_counter(3));
  vx_ev_rule("stage c12many: N = 1..50 distinct UDP peers x max_idle_sessions {0,1,2,3,7,N-1,N,N+1} x 6 request patterns (each once; then the first "
             "two again; the first peer after every other; there and back; first peer observing; first peer's session held by the application), "
             "1 s of virtual time per datagram; every step's SERVER_SESSION_NEW / DEL events must be exactly those of the reference model (the "
             "oldest idle session is reclaimed when the limit is reached, a held one never), every request answered to its sender with its token, "
             "the held session still usable at the end, allocation funnel balanced after teardown; ASan");
  return vx_finish();
}
