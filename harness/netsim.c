/* netsim -- see netsim.h */
#include "netsim.h"
#include <dlfcn.h>
#include <stdarg.h>
#include <sys/select.h>
#include <sys/socket.h>
#include <sys/syscall.h>
#include <sys/time.h>
#include <time.h>
#include <unistd.h>

/* ------------------------------------------------------------------------------------------ */
/* virtual clock                                                                               */
#define NS_EPOCH 1700000000L
static uint64_t g_vnow_ms;
static int g_clock_virtual;

uint64_t ns_now(void) { return g_vnow_ms; }
void ns_advance(uint64_t ms) { g_vnow_ms += ms; }
coap_tick_t
ns_ticks(void) {
  coap_tick_t t;
  coap_ticks(&t);
  return t;
}

/* ---- entropy: the (D)TLS library seeds its generator through getrandom() (again after every fork); served from a fixed
 * sequence so that every execution of a scenario sees the same handshake randoms, cookies and session ids ---- */
static uint64_t g_entropy_state = 0x9E3779B97F4A7C15ull;
static void
entropy_fill(void *buf, size_t len) {
  uint8_t *p = buf;
  for (size_t i = 0; i < len; i++) {
    g_entropy_state = g_entropy_state * 6364136223846793005ull + 1442695040888963407ull;
    p[i] = (uint8_t)(g_entropy_state >> 56);
  }
}
ssize_t
getrandom(void *buf, size_t len, unsigned flags) {
  (void)flags;
  entropy_fill(buf, len);
  return (ssize_t)len;
}
int
getentropy(void *buf, size_t len) {
  entropy_fill(buf, len);
  return 0;
}

int
clock_gettime(clockid_t clk, struct timespec *ts) {
  if (!g_clock_virtual)
    return (int)syscall(SYS_clock_gettime, clk, ts);
  ts->tv_sec = NS_EPOCH + (time_t)(g_vnow_ms / 1000);
  ts->tv_nsec = (long)(g_vnow_ms % 1000) * 1000000L;
  return 0;
}
int
gettimeofday(struct timeval *tv, void *tz) {
  (void)tz;
  if (!g_clock_virtual) {
    struct timespec ts;
    syscall(SYS_clock_gettime, CLOCK_REALTIME, &ts);
    tv->tv_sec = ts.tv_sec;
    tv->tv_usec = ts.tv_nsec / 1000;
    return 0;
  }
  tv->tv_sec = NS_EPOCH + (time_t)(g_vnow_ms / 1000);
  tv->tv_usec = (long)(g_vnow_ms % 1000) * 1000L;
  return 0;
}
time_t
time(time_t *t) {
  time_t v;
  if (!g_clock_virtual) {
    struct timespec ts;
    syscall(SYS_clock_gettime, CLOCK_REALTIME, &ts);
    v = ts.tv_sec;
  } else
    v = NS_EPOCH + (time_t)(g_vnow_ms / 1000);
  if (t)
    *t = v;
  return v;
}

/* ------------------------------------------------------------------------------------------ */
/* PRNG                                                                                        */
int (*ns_prng_hook)(void *out, size_t len);
static uint64_t g_lcg = 0x9E3779B97F4A7C15ULL;
void ns_prng_seed(uint64_t s) { g_lcg = s * 2862933555777941757ULL + 3037000493ULL; }
static int
ns_prng(void *out, size_t len) {
  if (ns_prng_hook && ns_prng_hook(out, len))
    return 1;
  uint8_t *p = out;
  for (size_t i = 0; i < len; i++) {
    g_lcg = g_lcg * 6364136223846793005ULL + 1442695040888963407ULL;
    p[i] = (uint8_t)(g_lcg >> 56);
  }
  return 1;
}

/* ------------------------------------------------------------------------------------------ */
/* addresses                                                                                   */
void
ns_addr(coap_address_t *a, int host, int port) {
  coap_address_init(a);
  a->size = sizeof(struct sockaddr_in);
  a->addr.sin.sin_family = AF_INET;
  a->addr.sin.sin_port = htons((uint16_t)port);
  uint32_t ip = host >= 224 ? (224u << 24 | 0u << 16 | 1u << 8 | (uint32_t)(host & 0xff)) : (10u << 24 | (uint32_t)(host & 0xffff));
  a->addr.sin.sin_addr.s_addr = htonl(ip);
}
int
ns_addr_host(const coap_address_t *a) {
  uint32_t ip = ntohl(a->addr.sin.sin_addr.s_addr);
  if ((ip >> 24) == 224)
    return 224;
  return (int)(ip & 0xffff);
}
int ns_addr_port(const coap_address_t *a) { return ntohs(a->addr.sin.sin_port); }
const char *
ns_addr_str(const coap_address_t *a) {
  static char b[8][48];
  static int r;
  char *s = b[r++ & 7];
  uint32_t ip = ntohl(a->addr.sin.sin_addr.s_addr);
  snprintf(s, 48, "%u.%u.%u.%u:%d", ip >> 24, (ip >> 16) & 255, (ip >> 8) & 255, ip & 255, ns_addr_port(a));
  return s;
}
static int
addr_eq(const coap_address_t *a, const coap_address_t *b) {
  return a->addr.sin.sin_addr.s_addr == b->addr.sin.sin_addr.s_addr && a->addr.sin.sin_port == b->addr.sin.sin_port;
}
static int
addr_is_any(const coap_address_t *a) {
  return a->addr.sin.sin_addr.s_addr == 0;
}
static int
addr_is_mcast(const coap_address_t *a) {
  return (ntohl(a->addr.sin.sin_addr.s_addr) >> 24) == 224;
}

/* ------------------------------------------------------------------------------------------ */
/* socket table                                                                                */
enum { SK_FREE = 0, SK_UDP_EP, SK_UDP_CLIENT, SK_TCP_LISTEN, SK_TCP_CONN };
struct ns_sock {
  int kind;
  int fd;
  coap_socket_t *sock;
  coap_context_t *ctx;
  coap_address_t local, remote;
  int stream_id, stream_side;
  int pending_accept[8];
  int npending;
};
#define NS_MAXSOCK 64
static struct ns_sock g_socks[NS_MAXSOCK];
static int g_next_fd = 600;
static int g_next_eph = 40000;

static coap_context_t *g_ctxs[8];
static int g_nctx;
unsigned ns_last_prepare[8];

void
ns_register_ctx(coap_context_t *ctx) {
  if (g_nctx < 8)
    g_ctxs[g_nctx++] = ctx;
}
void
ns_unregister_ctx(coap_context_t *ctx) {
  for (int i = 0; i < g_nctx; i++)
    if (g_ctxs[i] == ctx) {
      for (int j = i; j + 1 < g_nctx; j++)
        g_ctxs[j] = g_ctxs[j + 1];
      g_nctx--;
      return;
    }
}

static struct ns_sock *
sk_alloc(int kind, coap_socket_t *sock) {
  for (int i = 0; i < NS_MAXSOCK; i++)
    if (g_socks[i].kind == SK_FREE) {
      memset(&g_socks[i], 0, sizeof g_socks[i]);
      g_socks[i].kind = kind;
      g_socks[i].fd = g_next_fd++;
      g_socks[i].sock = sock;
      g_socks[i].stream_id = -1;
      sock->fd = g_socks[i].fd;
      return &g_socks[i];
    }
  fprintf(stderr, "VX-HARNESS: netsim-socket-table-full\n");
  abort();
}
static struct ns_sock *
sk_find(coap_socket_t *sock) {
  for (int i = 0; i < NS_MAXSOCK; i++)
    if (g_socks[i].kind != SK_FREE && g_socks[i].sock == sock)
      return &g_socks[i];
  return NULL;
}
static struct ns_sock *
sk_find_fd(int fd) {
  if (fd < 600)
    return NULL;
  for (int i = 0; i < NS_MAXSOCK; i++)
    if (g_socks[i].kind != SK_FREE && g_socks[i].fd == fd)
      return &g_socks[i];
  return NULL;
}
coap_context_t *
ns_ctx_of_socket(coap_socket_t *sock) {
  struct ns_sock *k = sk_find(sock);
  return k ? k->ctx : NULL;
}

#define container_of(ptr, type, member) ((type *)((char *)(ptr)-offsetof(type, member)))

/* ------------------------------------------------------------------------------------------ */
/* datagrams                                                                                   */
#define NS_MAXFLIGHT 256
static ns_dgram_t *g_flight[NS_MAXFLIGHT];
static int g_nflight;
static int g_next_dgram;
static int g_total_sent;
static ns_dgram_t *g_pending; /* datagram being handed to coap_socket_recv */
static int g_pending_owned;   /* epoll path: recv frees it after copying */
static struct ns_sock *g_pending_sk;
/* epoll path: datagrams that have "arrived" at their sockets and wait to be read; at most one per socket, so that a socket's
 * datagrams stay in order.  All of them are reported by one epoll_wait (up to its max), like a kernel would. */
#define NS_EPQ 16
static struct {
  ns_dgram_t *d;
  struct ns_sock *sk;
  int reported;
} g_epq[NS_EPQ];
static int g_nepq;
static void
epq_remove(int i) {
  for (int j = i; j + 1 < g_nepq; j++)
    g_epq[j] = g_epq[j + 1];
  g_nepq--;
}
int ns_send_fail_next;
void (*ns_on_send)(const ns_dgram_t *d);
void (*ns_on_deliver)(const ns_dgram_t *d);
void (*ns_raw_rx)(const ns_dgram_t *d);
int ns_dups_done;
long ns_steps;

int ns_inflight_count(void) { return g_nflight; }
ns_dgram_t *ns_inflight(int i) { return i >= 0 && i < g_nflight ? g_flight[i] : NULL; }
int ns_total_sent(void) { return g_total_sent; }

static ns_dgram_t *
dg_new(const coap_address_t *src, const coap_address_t *dst, const uint8_t *data, size_t len) {
  ns_dgram_t *d = calloc(1, sizeof *d);
  d->id = g_next_dgram++;
  d->orig = -1;
  d->src = *src;
  d->dst = *dst;
  d->len = len;
  d->data = malloc(len ? len : 1); /* exact size: overreads hit the redzone */
  memcpy(d->data, data, len);
  d->sent_at = g_vnow_ms;
  return d;
}
static void
dg_free(ns_dgram_t *d) {
  free(d->data);
  free(d);
}
static void
flight_add(ns_dgram_t *d) {
  if (g_nflight >= NS_MAXFLIGHT) {
    fprintf(stderr, "VX-HARNESS: netsim-too-many-in-flight\n");
    abort();
  }
  g_flight[g_nflight++] = d;
}
static ns_dgram_t *
flight_take(int i) {
  ns_dgram_t *d = g_flight[i];
  for (int j = i; j + 1 < g_nflight; j++)
    g_flight[j] = g_flight[j + 1];
  g_nflight--;
  return d;
}

void
ns_inject(const coap_address_t *src, const coap_address_t *dst, const uint8_t *data, size_t len) {
  ns_dgram_t *d = dg_new(src, dst, data, len);
  d->from_raw = 1;
  flight_add(d);
}

static void
do_io_ctx(coap_context_t *ctx) {
  if (!ctx)
    return;
  for (int i = 0; i < g_nctx; i++)
    if (g_ctxs[i] == ctx) {
      coap_io_do_io(ctx, ns_ticks());
      return;
    }
}

void (*ns_mutate)(ns_dgram_t *d); /* may replace d->data / d->len (data must stay an exact-size malloc block) */

static void
hand_over(ns_dgram_t *d) {
  if (ns_mutate)
    ns_mutate(d);
  if (ns_on_deliver)
    ns_on_deliver(d);
  struct ns_sock *best = NULL;
  /* connected client socket with exact 4-tuple first */
  for (int i = 0; i < NS_MAXSOCK && !best; i++) {
    struct ns_sock *k = &g_socks[i];
    if (k->kind == SK_UDP_CLIENT && addr_eq(&k->local, &d->dst) &&
        (addr_eq(&k->remote, &d->src) || addr_is_mcast(&k->remote)))
      best = k;
  }
  for (int i = 0; i < NS_MAXSOCK && !best; i++) {
    struct ns_sock *k = &g_socks[i];
    if (k->kind == SK_UDP_EP && k->local.addr.sin.sin_port == d->dst.addr.sin.sin_port &&
        (addr_is_any(&k->local) || addr_is_mcast(&d->dst) || k->local.addr.sin.sin_addr.s_addr == d->dst.addr.sin.sin_addr.s_addr))
      best = k;
  }
  if (!best) {
    if (ns_raw_rx)
      ns_raw_rx(d);
    dg_free(d);
    return;
  }
  g_pending = d;
  g_pending_sk = best;
  best->sock->flags |= COAP_SOCKET_CAN_READ;
  do_io_ctx(best->ctx);
  if (g_pending) { /* not consumed (socket no longer wanted to read) */
    if (sk_find(best->sock) == best)
      best->sock->flags &= ~COAP_SOCKET_CAN_READ;
    g_pending = NULL;
  }
  dg_free(d);
}

void
ns_deliver(int i) {
  if (i < 0 || i >= g_nflight)
    return;
  hand_over(flight_take(i));
}
void
ns_drop(int i) {
  if (i < 0 || i >= g_nflight)
    return;
  dg_free(flight_take(i));
}
void
ns_duplicate(int i) {
  if (i < 0 || i >= g_nflight)
    return;
  ns_dgram_t *o = g_flight[i];
  ns_dgram_t *c = dg_new(&o->src, &o->dst, o->data, o->len);
  c->orig = o->orig >= 0 ? o->orig : o->id;
  c->from_raw = o->from_raw;
  c->sent_at = o->sent_at;
  ns_dups_done++;
  hand_over(c);
}
void
ns_inject_now(const coap_address_t *src, const coap_address_t *dst, const uint8_t *data, size_t len) {
  ns_dgram_t *d = dg_new(src, dst, data, len);
  d->from_raw = 1;
  hand_over(d);
}

/* An ICMP "port unreachable" for a connected UDP client socket: the next coap_socket_recv() on it returns -2 (what the real
 * function makes of ECONNREFUSED); libcoap treats that as a notice (COAP_NACK_ICMP_ISSUE), not as the end of the session. */
static struct ns_sock *g_icmp_sk;
int
ns_icmp_unreachable(const coap_address_t *client_local) {
  for (int i = 0; i < NS_MAXSOCK; i++) {
    struct ns_sock *k = &g_socks[i];
    if (k->kind == SK_UDP_CLIENT && addr_eq(&k->local, client_local)) {
      g_icmp_sk = k;
      k->sock->flags |= COAP_SOCKET_CAN_READ;
      do_io_ctx(k->ctx);
      if (g_icmp_sk) { /* not consumed */
        g_icmp_sk = NULL;
        if (sk_find(k->sock) == k)
          k->sock->flags &= ~COAP_SOCKET_CAN_READ;
        return 0;
      }
      return 1;
    }
  }
  return 0;
}

/* ---- wrapped libcoap socket functions (datagram) ---- */
int ns_bind_fail_next;
int __wrap_coap_socket_bind_udp(coap_socket_t *sock, const coap_address_t *listen_addr, coap_address_t *bound_addr);
int
__wrap_coap_socket_bind_udp(coap_socket_t *sock, const coap_address_t *listen_addr, coap_address_t *bound_addr) {
  if (ns_bind_fail_next > 0) {
    ns_bind_fail_next--;
    errno = EADDRINUSE;
    return 0;
  }
  struct ns_sock *k = sk_alloc(SK_UDP_EP, sock);
  coap_endpoint_t *ep = container_of(sock, coap_endpoint_t, sock);
  k->ctx = ep->context;
  k->local = *listen_addr;
  if (k->local.addr.sin.sin_port == 0)
    k->local.addr.sin.sin_port = htons((uint16_t)g_next_eph++);
  coap_address_copy(bound_addr, &k->local);
  return 1;
}

int __wrap_coap_socket_connect_udp(coap_socket_t *sock, const coap_address_t *local_if, const coap_address_t *server,
                                   int default_port, coap_address_t *local_addr, coap_address_t *remote_addr);
int
__wrap_coap_socket_connect_udp(coap_socket_t *sock, const coap_address_t *local_if, const coap_address_t *server,
                               int default_port, coap_address_t *local_addr, coap_address_t *remote_addr) {
  sock->flags &= ~(COAP_SOCKET_CONNECTED | COAP_SOCKET_MULTICAST);
  struct ns_sock *k = sk_alloc(SK_UDP_CLIENT, sock);
  coap_session_t *se = container_of(sock, coap_session_t, sock);
  k->ctx = se->context;
  k->remote = *server;
  if (k->remote.addr.sin.sin_port == 0)
    k->remote.addr.sin.sin_port = htons((uint16_t)default_port);
  if (local_if && local_if->addr.sa.sa_family)
    k->local = *local_if;
  else
    ns_addr(&k->local, 100 + (k->fd - 600), 0);
  if (k->local.addr.sin.sin_port == 0)
    k->local.addr.sin.sin_port = htons((uint16_t)g_next_eph++);
  coap_address_copy(local_addr, &k->local);
  coap_address_copy(remote_addr, &k->remote);
  if (addr_is_mcast(server)) {
    coap_address_copy(&sock->mcast_addr, &k->remote);
    sock->flags |= COAP_SOCKET_MULTICAST;
    return 1;
  }
  sock->flags |= COAP_SOCKET_CONNECTED;
  return 1;
}

ssize_t __wrap_coap_socket_send(coap_socket_t *sock, coap_session_t *session, const uint8_t *data, size_t datalen);
ssize_t
__wrap_coap_socket_send(coap_socket_t *sock, coap_session_t *session, const uint8_t *data, size_t datalen) {
  struct ns_sock *k = sk_find(sock);
  if (!k) {
    errno = EBADF;
    return -1;
  }
  if (ns_send_fail_next > 0) {
    ns_send_fail_next--;
    errno = ENOBUFS;
    return -1;
  }
  coap_address_t src, dst;
  if (k->kind == SK_UDP_CLIENT) {
    src = k->local;
    dst = (sock->flags & COAP_SOCKET_CONNECTED) ? k->remote : session->addr_info.remote;
  } else {
    src = k->local;
    /* reply from the address the request was sent to when the endpoint is bound to ANY / for mcast use bind addr */
    if (addr_is_any(&src) && !addr_is_mcast(&session->addr_info.local))
      src.addr.sin.sin_addr = session->addr_info.local.addr.sin.sin_addr;
    dst = session->addr_info.remote;
  }
  ns_dgram_t *d = dg_new(&src, &dst, data, datalen);
  g_total_sent++;
  flight_add(d);
  if (ns_on_send)
    ns_on_send(d);
  return (ssize_t)datalen;
}

ssize_t __wrap_coap_socket_recv(coap_socket_t *sock, coap_packet_t *packet);
ssize_t
__wrap_coap_socket_recv(coap_socket_t *sock, coap_packet_t *packet) {
  if ((sock->flags & COAP_SOCKET_CAN_READ) == 0)
    return -1;
  sock->flags &= ~COAP_SOCKET_CAN_READ;
  if (g_icmp_sk && g_icmp_sk->sock == sock) {
    g_icmp_sk = NULL;
    errno = ECONNREFUSED;
    return -2;
  }
  for (int i = 0; i < g_nepq; i++)
    if (g_epq[i].sk && g_epq[i].sk->sock == sock) {
      ns_dgram_t *qd = g_epq[i].d;
      epq_remove(i);
      size_t qn = qd->len > COAP_RXBUFFER_SIZE ? COAP_RXBUFFER_SIZE : qd->len;
      memcpy(packet->payload, qd->data, qn);
      packet->length = qn;
      if (!(sock->flags & COAP_SOCKET_CONNECTED)) {
        coap_address_copy(&packet->addr_info.remote, &qd->src);
        packet->addr_info.local.addr.sin.sin_addr = qd->dst.addr.sin.sin_addr;
        packet->ifindex = 1;
      }
      dg_free(qd);
      return (ssize_t)qn;
    }
  if (!g_pending || !g_pending_sk || g_pending_sk->sock != sock) {
    errno = EAGAIN;
    return -1;
  }
  ns_dgram_t *d = g_pending;
  g_pending = NULL;
  size_t n = d->len > COAP_RXBUFFER_SIZE ? COAP_RXBUFFER_SIZE : d->len;
  memcpy(packet->payload, d->data, n);
  packet->length = n;
  if (!(sock->flags & COAP_SOCKET_CONNECTED)) {
    coap_address_copy(&packet->addr_info.remote, &d->src);
    packet->addr_info.local.addr.sin.sin_addr = d->dst.addr.sin.sin_addr;
    packet->ifindex = 1;
  }
  if (g_pending_owned) {
    g_pending_owned = 0;
    dg_free(d);
  }
  return (ssize_t)n;
}

/* ------------------------------------------------------------------------------------------ */
/* streams                                                                                     */
#define NS_MAXSTREAM 16
static ns_stream_t *g_streams[NS_MAXSTREAM];
static int g_nstreams;
int ns_stream_auto = 1;
void (*ns_stream_filter)(ns_stream_t *s, int from_side, uint8_t *data, size_t *len, size_t cap);

int ns_stream_count(void) { return g_nstreams; }
ns_stream_t *ns_stream_get(int i) { return i >= 0 && i < g_nstreams ? g_streams[i] : NULL; }

static ns_stream_t *
stream_new(const coap_address_t *from, const coap_address_t *to) {
  if (g_nstreams >= NS_MAXSTREAM) {
    fprintf(stderr, "VX-HARNESS: netsim-too-many-streams\n");
    abort();
  }
  ns_stream_t *s = calloc(1, sizeof *s);
  s->id = g_nstreams;
  s->addr[0] = *from;
  s->addr[1] = *to;
  s->side[0].fd = s->side[1].fd = -1;
  g_streams[g_nstreams++] = s;
  return s;
}
static void
side_append(struct ns_stream_side *sd, const uint8_t *data, size_t len) {
  if (sd->rx_len + len > sd->rx_cap) {
    sd->rx_cap = (sd->rx_len + len) * 2 + 64;
    sd->rx = realloc(sd->rx, sd->rx_cap);
  }
  if (len)
    memcpy(sd->rx + sd->rx_len, data, len);
  sd->rx_len += len;
  if (ns_stream_auto)
    sd->rx_avail = sd->rx_len;
}
static struct ns_sock *
listener_for(const coap_address_t *to) {
  for (int i = 0; i < NS_MAXSOCK; i++) {
    struct ns_sock *k = &g_socks[i];
    if (k->kind == SK_TCP_LISTEN && k->local.addr.sin.sin_port == to->addr.sin.sin_port &&
        (addr_is_any(&k->local) || k->local.addr.sin.sin_addr.s_addr == to->addr.sin.sin_addr.s_addr))
      return k;
  }
  return NULL;
}

int __wrap_coap_socket_bind_tcp(coap_socket_t *sock, const coap_address_t *listen_addr, coap_address_t *bound_addr);
int
__wrap_coap_socket_bind_tcp(coap_socket_t *sock, const coap_address_t *listen_addr, coap_address_t *bound_addr) {
  struct ns_sock *k = sk_alloc(SK_TCP_LISTEN, sock);
  coap_endpoint_t *ep = container_of(sock, coap_endpoint_t, sock);
  k->ctx = ep->context;
  k->local = *listen_addr;
  coap_address_copy(bound_addr, &k->local);
  return 1;
}

int __wrap_coap_socket_accept_tcp(coap_socket_t *server, coap_socket_t *new_client, coap_address_t *local_addr,
                                  coap_address_t *remote_addr, void *extra);
int
__wrap_coap_socket_accept_tcp(coap_socket_t *server, coap_socket_t *new_client, coap_address_t *local_addr,
                              coap_address_t *remote_addr, void *extra) {
  (void)extra;
  server->flags &= ~COAP_SOCKET_CAN_ACCEPT;
  struct ns_sock *l = sk_find(server);
  if (!l || l->npending == 0) {
    errno = EAGAIN;
    return 0;
  }
  int sid = l->pending_accept[0];
  for (int i = 0; i + 1 < l->npending; i++)
    l->pending_accept[i] = l->pending_accept[i + 1];
  l->npending--;
  ns_stream_t *s = g_streams[sid];
  struct ns_sock *k = sk_alloc(SK_TCP_CONN, new_client);
  coap_session_t *se = container_of(new_client, coap_session_t, sock);
  k->ctx = se->context ? se->context : l->ctx;
  k->local = s->addr[1];
  k->remote = s->addr[0];
  k->stream_id = sid;
  k->stream_side = 1;
  s->side[1].fd = k->fd;
  s->side[1].sock = new_client;
  s->accepted = 1;
  coap_address_copy(local_addr, &k->local);
  coap_address_copy(remote_addr, &k->remote);
  return 1;
}

int __wrap_coap_socket_connect_tcp1(coap_socket_t *sock, const coap_address_t *local_if, const coap_address_t *server,
                                    int default_port, coap_address_t *local_addr, coap_address_t *remote_addr);
int
__wrap_coap_socket_connect_tcp1(coap_socket_t *sock, const coap_address_t *local_if, const coap_address_t *server,
                                int default_port, coap_address_t *local_addr, coap_address_t *remote_addr) {
  sock->flags &= ~COAP_SOCKET_CONNECTED;
  struct ns_sock *k = sk_alloc(SK_TCP_CONN, sock);
  coap_session_t *se = container_of(sock, coap_session_t, sock);
  k->ctx = se->context;
  k->remote = *server;
  if (k->remote.addr.sin.sin_port == 0)
    k->remote.addr.sin.sin_port = htons((uint16_t)default_port);
  if (local_if && local_if->addr.sa.sa_family)
    k->local = *local_if;
  else
    ns_addr(&k->local, 100 + (k->fd - 600), 0);
  if (k->local.addr.sin.sin_port == 0)
    k->local.addr.sin.sin_port = htons((uint16_t)g_next_eph++);
  ns_stream_t *s = stream_new(&k->local, &k->remote);
  k->stream_id = s->id;
  k->stream_side = 0;
  s->side[0].fd = k->fd;
  s->side[0].sock = sock;
  struct ns_sock *l = listener_for(&k->remote);
  if (l && l->npending < 8)
    l->pending_accept[l->npending++] = s->id;
  coap_address_copy(local_addr, &k->local);
  coap_address_copy(remote_addr, &k->remote);
  sock->flags |= COAP_SOCKET_CONNECTED;
  return 1;
}

int __wrap_coap_socket_connect_tcp2(coap_socket_t *sock, coap_address_t *local_addr, coap_address_t *remote_addr);
int
__wrap_coap_socket_connect_tcp2(coap_socket_t *sock, coap_address_t *local_addr, coap_address_t *remote_addr) {
  (void)local_addr;
  (void)remote_addr;
  sock->flags &= ~(COAP_SOCKET_WANT_CONNECT | COAP_SOCKET_CAN_CONNECT);
  return 1;
}

#ifdef COAP_EPOLL_SUPPORT
static void ns_epoll_forget(int fd);
#endif
void __wrap_coap_socket_close(coap_socket_t *sock);
void
__wrap_coap_socket_close(coap_socket_t *sock) {
  struct ns_sock *k = sk_find(sock);
  if (k) {
    if (k->kind == SK_TCP_CONN && k->stream_id >= 0) {
      ns_stream_t *s = g_streams[k->stream_id];
      s->side[k->stream_side].closed = 1;
      s->side[k->stream_side].sock = NULL;
      s->side[k->stream_side].fd = -1;
      s->side[!k->stream_side].peer_closed = 1;
    }
    if (g_pending_sk == k)
      g_pending_sk = NULL;
    for (int i = g_nepq - 1; i >= 0; i--)
      if (g_epq[i].sk == k) {
        dg_free(g_epq[i].d);
        epq_remove(i);
      }
#ifdef COAP_EPOLL_SUPPORT
    ns_epoll_forget(k->fd);
#endif
    k->kind = SK_FREE;
    k->sock = NULL;
  }
#ifdef COAP_EPOLL_SUPPORT
  /* what the real coap_socket_close() does in epoll builds besides closing the descriptor */
#if COAP_SERVER_SUPPORT
  sock->endpoint = NULL;
#endif
  sock->session = NULL;
#endif
  sock->fd = COAP_INVALID_SOCKET;
  sock->flags = COAP_SOCKET_EMPTY;
}

/* libc recv/send for harness-owned stream descriptors; the real coap_socket_read/write stay under test */
static ssize_t (*real_recv)(int, void *, size_t, int);
static ssize_t (*real_send)(int, const void *, size_t, int);

ssize_t
recv(int fd, void *buf, size_t len, int flags) {
  struct ns_sock *k = sk_find_fd(fd);
  if (!k) {
    if (fd >= 600 && fd < 1024) {
      errno = EBADF;
      return -1;
    }
    if (!real_recv)
      real_recv = (ssize_t(*)(int, void *, size_t, int))dlsym(RTLD_NEXT, "recv");
    return real_recv(fd, buf, len, flags);
  }
  if (k->kind != SK_TCP_CONN || k->stream_id < 0) {
    errno = ENOTCONN;
    return -1;
  }
  struct ns_stream_side *sd = &g_streams[k->stream_id]->side[k->stream_side];
  if (sd->rx_avail == 0) {
    if (sd->peer_closed && sd->rx_len == 0)
      return 0;
    errno = EAGAIN;
    return -1;
  }
  size_t n = len < sd->rx_avail ? len : sd->rx_avail;
  memcpy(buf, sd->rx, n);
  memmove(sd->rx, sd->rx + n, sd->rx_len - n);
  sd->rx_len -= n;
  sd->rx_avail -= n;
  return (ssize_t)n;
}

ssize_t
send(int fd, const void *buf, size_t len, int flags) {
  struct ns_sock *k = sk_find_fd(fd);
  if (!k) {
    if (fd >= 600 && fd < 1024) {
      errno = EBADF;
      return -1;
    }
    if (!real_send)
      real_send = (ssize_t(*)(int, const void *, size_t, int))dlsym(RTLD_NEXT, "send");
    return real_send(fd, buf, len, flags);
  }
  if (k->kind != SK_TCP_CONN || k->stream_id < 0) {
    errno = ENOTCONN;
    return -1;
  }
  ns_stream_t *s = g_streams[k->stream_id];
  struct ns_stream_side *me = &s->side[k->stream_side];
  struct ns_stream_side *other = &s->side[!k->stream_side];
  if (me->peer_closed) {
    errno = EPIPE;
    return -1;
  }
  if (me->write_eagain) {
    me->write_eagain = 0;
    errno = EAGAIN;
    return -1;
  }
  size_t n = len;
  if (me->max_write && n > me->max_write)
    n = me->max_write;
  if (ns_stream_filter) {
    /* the harness may rewrite what the peer will read (hostile network / peer); the writer sees success */
    size_t m = n;
    uint8_t *tmp = malloc(n + 64);
    memcpy(tmp, buf, n);
    ns_stream_filter(s, k->stream_side, tmp, &m, n + 64);
    side_append(other, tmp, m);
    free(tmp);
  } else
    side_append(other, buf, n);
  return (ssize_t)n;
}

int
select(int nfds, fd_set *r, fd_set *w, fd_set *e, struct timeval *tv) {
  /* Only short polls on harness-owned stream descriptors are legitimate here (coap_ws_close waits up to
   * 5 x 1 ms for the peer's Close).  Answer from the simulated stream; anything that could really block
   * (no timeout, or a long one) is a harness bug and fails loudly. */
  (void)w;
  (void)e;
  if (!tv || tv->tv_sec > 0 || tv->tv_usec > 100000) {
    fprintf(stderr, "VX-HARNESS: blocking-select-reached\n");
    abort();
  }
  int ready = 0;
  if (r) {
    for (int fd = 0; fd < nfds && fd < FD_SETSIZE; fd++) {
      if (!FD_ISSET(fd, r))
        continue;
      struct ns_sock *k = sk_find_fd(fd);
      int ok = 0;
      if (k && k->kind == SK_TCP_CONN && k->stream_id >= 0) {
        struct ns_stream_side *sd = &g_streams[k->stream_id]->side[k->stream_side];
        ok = sd->rx_avail > 0 || (sd->peer_closed && sd->rx_len == 0);
      }
      if (ok)
        ready++;
      else
        FD_CLR(fd, r);
    }
  }
  return ready;
}

ns_stream_t *
ns_stream_raw_connect(const coap_address_t *from, const coap_address_t *to) {
  struct ns_sock *l = listener_for(to);
  if (!l)
    return NULL;
  ns_stream_t *s = stream_new(from, to);
  if (l->npending >= 8)
    return NULL;
  l->pending_accept[l->npending++] = s->id;
  l->sock->flags |= COAP_SOCKET_CAN_ACCEPT;
  do_io_ctx(l->ctx);
  return s;
}
void
ns_stream_raw_write(ns_stream_t *s, int from_side, const uint8_t *data, size_t len) {
  side_append(&s->side[!from_side], data, len);
}
size_t
ns_stream_raw_read(ns_stream_t *s, int side, uint8_t *buf, size_t max) {
  struct ns_stream_side *sd = &s->side[side];
  size_t n = sd->rx_len < max ? sd->rx_len : max;
  if (buf && n)
    memcpy(buf, sd->rx, n);
  if (sd->rx_len - n)
    memmove(sd->rx, sd->rx + n, sd->rx_len - n);
  sd->rx_len -= n;
  sd->rx_avail = sd->rx_avail > n ? sd->rx_avail - n : 0;
  return n;
}
void
ns_stream_release(ns_stream_t *s, int side, size_t nbytes) {
  struct ns_stream_side *sd = &s->side[side];
  sd->rx_avail += nbytes;
  if (sd->rx_avail > sd->rx_len)
    sd->rx_avail = sd->rx_len;
  /* level-triggered readiness, as select()/epoll give it: the socket stays readable while unread bytes
   * remain, so the I/O loop is entered again until a pass consumes nothing */
  for (int guard = 0; guard < 10000; guard++) {
    if (!sd->sock || sd->closed)
      break;
    struct ns_sock *k = sk_find(sd->sock);
    if (!k)
      break;
    size_t before = sd->rx_avail;
    if (before == 0 && guard > 0)
      break;
    sd->sock->flags |= COAP_SOCKET_CAN_READ;
    do_io_ctx(k->ctx);
    if (sd->rx_avail >= before)
      break;
  }
}
void
ns_stream_release_all(ns_stream_t *s, int side) {
  ns_stream_release(s, side, s->side[side].rx_len);
}
void
ns_stream_raw_close(ns_stream_t *s, int side) {
  s->side[side].closed = 1;
  s->side[!side].peer_closed = 1;
  struct ns_stream_side *o = &s->side[!side];
  if (o->sock && !o->closed) {
    struct ns_sock *k = sk_find(o->sock);
    o->sock->flags |= COAP_SOCKET_CAN_READ;
    if (k)
      do_io_ctx(k->ctx);
  }
}
int
ns_stream_pump(void) {
  int rounds = 0, progress = 1;
  while (progress && rounds < 200) {
    progress = 0;
    /* pending accepts */
    for (int i = 0; i < NS_MAXSOCK; i++) {
      struct ns_sock *k = &g_socks[i];
      if (k->kind == SK_TCP_LISTEN && k->npending > 0) {
        k->sock->flags |= COAP_SOCKET_CAN_ACCEPT;
        do_io_ctx(k->ctx);
        progress = 1;
      }
    }
    for (int i = 0; i < g_nstreams; i++) {
      ns_stream_t *s = g_streams[i];
      for (int side = 0; side < 2; side++) {
        struct ns_stream_side *sd = &s->side[side];
        if (sd->sock && !sd->closed && (sd->rx_avail > 0 || (sd->peer_closed && sd->rx_len == 0 && sd->peer_closed != 2))) {
          size_t before = sd->rx_len;
          int pc = sd->peer_closed;
          struct ns_sock *k = sk_find(sd->sock);
          sd->sock->flags |= COAP_SOCKET_CAN_READ;
          if (k)
            do_io_ctx(k->ctx);
          if (pc && before == 0)
            sd->peer_closed = 2; /* EOF delivered once */
          if (sd->rx_len != before || (pc && before == 0))
            progress = 1;
        }
      }
    }
    rounds++;
  }
  return rounds;
}

#ifdef COAP_EPOLL_SUPPORT
/* ------------------------------------------------------------------------------------------ */
/* epoll builds of libcoap (the configuration the repository's CMake emits): the epoll instance, the timerfd
 * and epoll_wait() are served by the harness.  No real descriptor is ever created.                */
#include <sys/epoll.h>
#include <sys/timerfd.h>
#define NS_EPFD_BASE 900
static struct {
  int fd;
  void *ptr;
  uint32_t events;
} g_ep[NS_MAXSOCK + 8];
static int g_nep;
static int g_next_epfd = NS_EPFD_BASE;
int (*ns_epoll_wait_hook)(int epfd, struct epoll_event *ev, int max, int timeout);

int
epoll_create1(int flags) {
  (void)flags;
  return g_next_epfd++;
}
int
timerfd_create(int clockid, int flags) {
  (void)clockid;
  (void)flags;
  return g_next_epfd++;
}
int
timerfd_settime(int fd, int flags, const struct itimerspec *nv, struct itimerspec *ov) {
  (void)fd;
  (void)flags;
  (void)nv;
  (void)ov;
  return 0;
}
static void
ns_epoll_forget(int fd) {
  for (int i = 0; i < g_nep; i++)
    if (g_ep[i].fd == fd) {
      g_ep[i] = g_ep[--g_nep];
      return;
    }
}
int
epoll_ctl(int epfd, int op, int fd, struct epoll_event *event) {
  (void)epfd;
  if (op == EPOLL_CTL_DEL) {
    for (int i = 0; i < g_nep; i++)
      if (g_ep[i].fd == fd) {
        g_ep[i] = g_ep[--g_nep];
        return 0;
      }
    errno = ENOENT;
    return -1;
  }
  for (int i = 0; i < g_nep; i++)
    if (g_ep[i].fd == fd) {
      g_ep[i].ptr = event->data.ptr;
      g_ep[i].events = event->events;
      return 0;
    }
  if (g_nep < NS_MAXSOCK + 8) {
    g_ep[g_nep].fd = fd;
    g_ep[g_nep].ptr = event->data.ptr;
    g_ep[g_nep].events = event->events;
    g_nep++;
  }
  return 0;
}
/* non-blocking: EPOLLIN events for the sockets at which datagrams have arrived: in-flight datagrams are moved, oldest
 * first, to their destination sockets (one waiting datagram per socket; the move stops at the first datagram whose socket is
 * still occupied, so order is kept), and every occupied socket is reported, up to max.  A datagram that was reported twice and
 * not read (the library did not want it) is dropped. */
int
ns_epoll_fill(struct epoll_event *ev, int max) {
  if (max < 1)
    return 0;
  for (int i = g_nepq - 1; i >= 0; i--)
    if (!g_epq[i].sk || !g_epq[i].sk->sock || g_epq[i].reported >= 2) {
      dg_free(g_epq[i].d);
      epq_remove(i);
    }
  while (g_nflight > 0 && g_nepq < NS_EPQ) {
    ns_dgram_t *d = g_flight[0];
    struct ns_sock *best = NULL;
    for (int i = 0; i < NS_MAXSOCK && !best; i++) {
      struct ns_sock *k = &g_socks[i];
      if (k->kind == SK_UDP_CLIENT && addr_eq(&k->local, &d->dst) && (addr_eq(&k->remote, &d->src) || addr_is_mcast(&k->remote)))
        best = k;
    }
    for (int i = 0; i < NS_MAXSOCK && !best; i++) {
      struct ns_sock *k = &g_socks[i];
      if (k->kind == SK_UDP_EP && k->local.addr.sin.sin_port == d->dst.addr.sin.sin_port &&
          (addr_is_any(&k->local) || addr_is_mcast(&d->dst) || k->local.addr.sin.sin_addr.s_addr == d->dst.addr.sin.sin_addr.s_addr))
        best = k;
    }
    int occupied = 0;
    for (int i = 0; i < g_nepq && best; i++)
      occupied |= g_epq[i].sk == best;
    if (occupied)
      break;
    d = flight_take(0);
    if (ns_on_deliver)
      ns_on_deliver(d);
    if (!best) {
      if (ns_raw_rx)
        ns_raw_rx(d);
      dg_free(d);
      continue;
    }
    g_epq[g_nepq].d = d;
    g_epq[g_nepq].sk = best;
    g_epq[g_nepq].reported = 0;
    g_nepq++;
  }
  int n = 0;
  for (int i = 0; i < g_nepq && n < max; i++) {
    ev[n].events = EPOLLIN;
    ev[n].data.ptr = g_epq[i].sk->sock;
    g_epq[i].reported++;
    n++;
  }
  return n;
}
int
epoll_wait(int epfd, struct epoll_event *ev, int max, int timeout) {
  if (ns_epoll_wait_hook)
    return ns_epoll_wait_hook(epfd, ev, max, timeout);
  return ns_epoll_fill(ev, max);
}
static int (*real_close)(int);
int
close(int fd) {
  if (fd >= NS_EPFD_BASE && fd < 1024)
    return 0;
  if (!real_close)
    real_close = (int (*)(int))dlsym(RTLD_NEXT, "close");
  return real_close(fd);
}
#endif /* COAP_EPOLL_SUPPORT */

/* ------------------------------------------------------------------------------------------ */
/* servicing + generic scheduler                                                               */
int ns_check_prepare = 1;
unsigned
ns_prepare_all(void) {
  unsigned best = 0;
  for (int i = 0; i < g_nctx; i++) {
    coap_socket_t *socks[64];
    unsigned n = 0;
    unsigned t = coap_io_prepare_io(g_ctxs[i], socks, 64, &n, ns_ticks());
    ns_last_prepare[i] = t;
#ifndef COAP_EPOLL_SUPPORT
    /* contract of coap_io_prepare_io(): the value returned covers every timer the library keeps; an application that
     * sleeps that long must not oversleep the next retransmission in the send queue (0 = "nothing pending") */
    if (ns_check_prepare && g_ctxs[i]->sendqueue) {
      coap_tick_t now = ns_ticks();
      coap_tick_t due = g_ctxs[i]->sendqueue_basetime + g_ctxs[i]->sendqueue->t;
      unsigned long left_ms = due > now ? (unsigned long)((due - now) * 1000 / COAP_TICKS_PER_SECOND) : 0;
      if (t == 0 || t > left_ms + 1)
        vx_fail(t == 0 ? "prepare-io:returns-0-with-queued-confirmable" : "prepare-io:timeout-later-than-next-retransmission",
                "coap_io_prepare_io() returned %u ms although the head of the send queue (mid %04x) is due in %lu ms", t,
                (unsigned)g_ctxs[i]->sendqueue->id & 0xffff, left_ms);
    }
#endif
    if (t && (!best || t < best))
      best = t;
  }
  return best;
}

int
ns_step(struct ns_sched *s) {
  enum { EV_DELIVER, EV_APP, EV_TIMER, EV_REORDER, EV_DROP, EV_DUP };
  struct {
    int kind, idx;
  } ev[VX_MAXALT];
  uint8_t cost[VX_MAXALT];
  int n = 0;
  unsigned tmo = ns_prepare_all();
  int nf = g_nflight;
  int app = s->app_ready && s->app_ready(s->app_arg);
  int budget = vx_budget_left();
  if (nf > 0) {
    ev[n].kind = EV_DELIVER;
    ev[n++].idx = 0;
  }
  if (app && (nf == 0 || s->allow_app_when_busy)) {
    ev[n].kind = EV_APP;
    ev[n++].idx = 0;
  }
  if (tmo && (nf == 0 || s->allow_timer_when_busy) && (!s->horizon_ms || g_vnow_ms + tmo <= s->horizon_ms) &&
      (!s->max_timer_ms || (int)tmo <= s->max_timer_ms)) {
    ev[n].kind = EV_TIMER;
    ev[n++].idx = (int)tmo;
  }
  if (n == 0)
    return 0;
  if (budget > 0) {
    int win = s->window && s->window < nf ? s->window : nf;
    for (int j = 0; j < win && n < VX_MAXALT; j++) {
      ns_dgram_t *d = g_flight[j];
      int ok = (!s->fault_first_n || d->id < s->fault_first_n) && (!s->may_fault || s->may_fault(d, s->app_arg));
      if (j >= 1 && s->allow_reorder && ok && n < VX_MAXALT) {
        ev[n].kind = EV_REORDER;
        ev[n++].idx = j;
      }
    }
    for (int j = 0; j < win && n < VX_MAXALT; j++) {
      ns_dgram_t *d = g_flight[j];
      int ok = (!s->fault_first_n || d->id < s->fault_first_n) && (!s->may_fault || s->may_fault(d, s->app_arg));
      if (s->allow_drop && ok && n < VX_MAXALT) {
        ev[n].kind = EV_DROP;
        ev[n++].idx = j;
      }
    }
    for (int j = 0; j < win && n < VX_MAXALT; j++) {
      ns_dgram_t *d = g_flight[j];
      int ok = (!s->fault_first_n || d->id < s->fault_first_n) && (!s->may_fault || s->may_fault(d, s->app_arg));
      if (s->allow_dup && ok && ns_dups_done < s->max_dups && n < VX_MAXALT) {
        ev[n].kind = EV_DUP;
        ev[n++].idx = j;
      }
    }
  }
  for (int i = 0; i < n; i++)
    cost[i] = i == 0 ? 0 : 1;
  static const char *names[] = {"deliver", "app", "timer", "reorder", "drop", "dup"};
  char label[24];
  snprintf(label, sizeof label, "%s|nf=%d", names[ev[0].kind], nf);
  int c = vx_choose(n, cost, label);
  ns_steps++;
  switch (ev[c].kind) {
  case EV_DELIVER:
    vx_trace("-- deliver #%d", g_flight[0]->id);
    ns_deliver(0);
    break;
  case EV_APP:
    vx_trace("-- app op");
    s->app_op(s->app_arg);
    break;
  case EV_TIMER:
    vx_trace("-- timer +%dms (t=%llu)", ev[c].idx, (unsigned long long)g_vnow_ms + (unsigned)ev[c].idx);
    ns_advance((uint64_t)ev[c].idx);
    break;
  case EV_REORDER:
    vx_trace("-- deliver out of order #%d", g_flight[ev[c].idx]->id);
    ns_deliver(ev[c].idx);
    break;
  case EV_DROP:
    vx_trace("-- drop #%d", g_flight[ev[c].idx]->id);
    ns_drop(ev[c].idx);
    break;
  case EV_DUP:
    vx_trace("-- duplicate #%d", g_flight[ev[c].idx]->id);
    ns_duplicate(ev[c].idx);
    break;
  }
  if (c)
    vx_nontrivial();
  return 1;
}

/* ------------------------------------------------------------------------------------------ */
int ns_log_to_trace;
static void
log_sink(coap_log_t level, const char *message) {
  (void)level;
  if (ns_log_to_trace) {
    size_t l = strlen(message);
    vx_trace("   [coap %d] %.*s", (int)level, (int)(l && message[l - 1] == '\n' ? l - 1 : l), message);
  }
}
void
ns_log_quiet(void) {
  coap_set_log_handler(log_sink);
}

void
ns_init(void) {
  g_entropy_state = 0x9E3779B97F4A7C15ull;
  g_clock_virtual = 1;
  g_vnow_ms = 0;
  memset(g_socks, 0, sizeof g_socks);
  g_next_fd = 600;
  g_next_eph = 40000;
  g_nflight = 0;
  g_next_dgram = 0;
  g_total_sent = 0;
  g_nctx = 0;
  g_nstreams = 0;
  g_pending = NULL;
  g_pending_sk = NULL;
  g_pending_owned = 0;
#ifdef COAP_EPOLL_SUPPORT
  g_nep = 0;
  g_next_epfd = NS_EPFD_BASE;
#endif
  ns_dups_done = 0;
  ns_bind_fail_next = 0;
  ns_stream_filter = NULL;
  ns_mutate = NULL;
  ns_stream_auto = 1;
  ns_on_send = NULL;
  ns_on_deliver = NULL;
  ns_raw_rx = NULL;
  ns_prng_hook = NULL;
  ns_steps = 0;
  ns_send_fail_next = 0;
  g_icmp_sk = NULL;
  g_lcg = 0x9E3779B97F4A7C15ULL;
  coap_startup();
  coap_set_prng(ns_prng);
  ns_log_quiet();
  ns_log_to_trace = vx_in_replay();
  coap_set_log_level(vx_in_replay() ? COAP_LOG_DEBUG : COAP_LOG_EMERG);
  g_vnow_ms = 10000; /* tick 0 is treated as "unset" in a few places; start later */
}

void
ns_fini(void) {
  if (g_pending && g_pending_owned)
    dg_free(g_pending);
  g_pending = NULL;
  while (g_nepq) {
    dg_free(g_epq[0].d);
    epq_remove(0);
  }
  while (g_nflight)
    dg_free(flight_take(0));
  for (int i = 0; i < g_nstreams; i++) {
    free(g_streams[i]->side[0].rx);
    free(g_streams[i]->side[1].rx);
    free(g_streams[i]);
  }
  g_nstreams = 0;
  coap_cleanup();
}
