/* C14 -- OSCORE protection round-trips, matches RFC 8613, and any tampering is rejected.
 *
 * In-process product enumeration (vxp) of libcoap's coap_oscore_new_pdu_encrypted_lkd() /
 * coap_oscore_decrypt_pdu(), differential against ref/refoscore.c (OpenSSL crypto, libcoap uses GnuTLS).
 *
 * Link-time seams (reg/C14.json "wraps"): coap_socket_connect_udp / _send / _close (no sockets, sends are counted and
 * dropped), coap_malloc_type / coap_free_type (only the 8 MiB OSCORE scratch buffer is served from a harness block),
 * oscore_cbor_put_bytes / oscore_generate_nonce / coap_new_bin_const (pass-through; forward (NULL, 0) with a non-NULL
 * pointer iff a start-up probe shows that the real function dies under UBSan, and report that as its own signature).
 *
 * Stage "c14" (asan) runs the first, second and fourth space; stage "c14full" (fast, -DC14_FULL, thorough only) the third.
 *
 * Spaces (all index -> case mappings are pure mixed-radix decodings):
 *   "appendix-c+msg-major"  cases 0..10 = RFC 8613 Appendix C vectors driven through libcoap, then
 *                           every message x core contexts x every Partial IV
 *   "ctx-major"             every context x every Partial IV x core messages
 *   "full-product"          every message x every context x every Partial IV   (thorough only)
 *   "tamper"                sub-product of messages; for each: every single-bit flip from the first option on,
 *                           every truncation length, every one-parameter-off context
 *
 * Oracles / signatures:
 *   protect-mismatch:<field>   libcoap's protected datagram != refoscore's        (1)
 *   roundtrip:<field>          peer libcoap / refoscore does not recover the original (2)
 *   tamper-accepted:<region>   a modification refoscore refuses is accepted by libcoap (3)
 *   tamper-altered:<field>     accepted modification changed protected content / leaked an outer Class-E option
 *   keys:<which>               derived key material differs
 */
#include <coap3/coap_internal.h>

#include "refoscore.h"
#include "vx.h"

#include <errno.h>
#include <fcntl.h>
#include <stdarg.h>
#include <unistd.h>

/* ------------------------------------------------------------------------------------------ */
/* link-time seams: no sockets.  Every datagram libcoap wants to send is counted and dropped.   */
static long g_sent;
static uint8_t g_last_sent[64];
static size_t g_last_sent_len;

int __wrap_coap_socket_connect_udp(coap_socket_t *sock, const coap_address_t *local_if, const coap_address_t *server,
                                   int default_port, coap_address_t *local_addr, coap_address_t *remote_addr);
int
__wrap_coap_socket_connect_udp(coap_socket_t *sock, const coap_address_t *local_if, const coap_address_t *server,
                               int default_port, coap_address_t *local_addr, coap_address_t *remote_addr) {
  (void)local_if;
  (void)default_port;
  sock->fd = -1;
  sock->flags |= COAP_SOCKET_CONNECTED;
  coap_address_copy(remote_addr, server);
  coap_address_copy(local_addr, server);
  local_addr->addr.sin.sin_port = htons(40000);
  return 1;
}
ssize_t __wrap_coap_socket_send(coap_socket_t *sock, coap_session_t *session, const uint8_t *data, size_t datalen);
ssize_t
__wrap_coap_socket_send(coap_socket_t *sock, coap_session_t *session, const uint8_t *data, size_t datalen) {
  (void)sock;
  (void)session;
  g_sent++;
  g_last_sent_len = datalen < sizeof g_last_sent ? datalen : sizeof g_last_sent;
  memcpy(g_last_sent, data, g_last_sent_len);
  return (ssize_t)datalen;
}
void __wrap_coap_socket_close(coap_socket_t *sock);
void
__wrap_coap_socket_close(coap_socket_t *sock) {
  sock->fd = -1;
  sock->flags = COAP_SOCKET_EMPTY;
}

/* coap_oscore_new_pdu_encrypted_lkd() allocates an 8 MiB scratch buffer (OSCORE_CRYPTO_BUFFER_SIZE) per call; under
 * ASan that is an mmap + shadow poisoning + munmap per case (~1 ms).  The buffer is served from one harness-owned
 * heap block of the same size instead; every other allocation goes to the real allocator. */
void *__real_coap_malloc_type(coap_memory_tag_t type, size_t size);
void __real_coap_free_type(coap_memory_tag_t type, void *p);
void *__wrap_coap_malloc_type(coap_memory_tag_t type, size_t size);
void __wrap_coap_free_type(coap_memory_tag_t type, void *p);
static uint8_t *g_scratch_buf;
static int g_scratch_busy;
void *
__wrap_coap_malloc_type(coap_memory_tag_t type, size_t size) {
  if (type == COAP_OSCORE_BUF && size == OSCORE_CRYPTO_BUFFER_SIZE && !g_scratch_busy) {
    if (!g_scratch_buf)
      g_scratch_buf = malloc(OSCORE_CRYPTO_BUFFER_SIZE);
    g_scratch_busy = 1;
    return g_scratch_buf;
  }
  return __real_coap_malloc_type(type, size);
}
void
__wrap_coap_free_type(coap_memory_tag_t type, void *p) {
  if (p && p == g_scratch_buf) {
    g_scratch_busy = 0;
    return;
  }
  __real_coap_free_type(type, p);
}

/* oscore_cbor_put_bytes(.., NULL, 0) ends in memcpy(dst, NULL, 0): undefined behaviour that UBSan stops on in
 * every single protect / unprotect (the empty `options` bstr of the external_aad).  So that the rest of the
 * property can be checked, the call is forwarded with a non-NULL pointer and the defect is reported once per
 * case under its own signature. */
size_t __real_oscore_cbor_put_bytes(uint8_t **buffer, size_t *buf_size, const uint8_t *bytes, size_t bytes_len);
size_t __wrap_oscore_cbor_put_bytes(uint8_t **buffer, size_t *buf_size, const uint8_t *bytes, size_t bytes_len);
static long g_null_memcpy;
/* set by probe_null_memcpy(): does the real function, as built, stop under UBSan when given (NULL, 0)?  If not
 * (fixed source, or a build without UBSan) the wrappers below are pure pass-throughs and nothing is reported. */
static int g_ub_put_bytes, g_ub_nonce, g_ub_bin_const;
size_t
__wrap_oscore_cbor_put_bytes(uint8_t **buffer, size_t *buf_size, const uint8_t *bytes, size_t bytes_len) {
  static const uint8_t nothing[1] = {0};
  if (g_ub_put_bytes && !bytes && !bytes_len) {
    g_null_memcpy++;
    bytes = nothing;
  }
  return __real_oscore_cbor_put_bytes(buffer, buf_size, bytes, bytes_len);
}

/* same class: oscore_generate_nonce() with an absent kid (key_id.s == NULL, length 0) does memcpy(dst, NULL, 0) */
void __real_oscore_generate_nonce(cose_encrypt0_t *ptr, oscore_ctx_t *ctx, uint8_t *buffer, uint8_t size);
void __wrap_oscore_generate_nonce(cose_encrypt0_t *ptr, oscore_ctx_t *ctx, uint8_t *buffer, uint8_t size);
static long g_null_memcpy_nonce;
void
__wrap_oscore_generate_nonce(cose_encrypt0_t *ptr, oscore_ctx_t *ctx, uint8_t *buffer, uint8_t size) {
  static const uint8_t nothing[1] = {0};
  const uint8_t *kid = ptr->key_id.s, *piv = ptr->partial_iv.s;
  if (g_ub_nonce && ((!kid && !ptr->key_id.length) || (!piv && !ptr->partial_iv.length))) {
    g_null_memcpy_nonce++;
    if (!kid)
      ptr->key_id.s = nothing;
    if (!piv)
      ptr->partial_iv.s = nothing;
  }
  __real_oscore_generate_nonce(ptr, ctx, buffer, size);
  ptr->key_id.s = kid;
  ptr->partial_iv.s = piv;
}

/* same class: coap_new_bin_const(NULL, 0) (association->partial_iv of a request without Partial IV) */
coap_bin_const_t *__real_coap_new_bin_const(const uint8_t *data, size_t size);
coap_bin_const_t *__wrap_coap_new_bin_const(const uint8_t *data, size_t size);
static long g_null_memcpy_bin;
coap_bin_const_t *
__wrap_coap_new_bin_const(const uint8_t *data, size_t size) {
  static const uint8_t nothing[1] = {0};
  if (g_ub_bin_const && !data && !size) {
    g_null_memcpy_bin++;
    data = nothing;
  }
  return __real_coap_new_bin_const(data, size);
}

#include <sys/wait.h>
static void
probe_put_bytes(void) {
  uint8_t b[8], *p = b;
  size_t n = sizeof b;
  __real_oscore_cbor_put_bytes(&p, &n, NULL, 0);
}
static void
probe_nonce(void) {
  cose_encrypt0_t cose[1];
  oscore_ctx_t o;
  uint8_t iv[13] = {0}, out[13];
  coap_bin_const_t civ = {13, iv};
  memset(&o, 0, sizeof o);
  o.common_iv = &civ;
  cose_encrypt0_init(cose);
  __real_oscore_generate_nonce(cose, &o, out, 13);
}
static void
probe_bin_const(void) {
  coap_delete_bin_const(__real_coap_new_bin_const(NULL, 0));
}
static int
dies(void (*fn)(void)) {
  fflush(NULL);
  pid_t pid = fork();
  if (pid == 0) {
    int fd = open("/dev/null", O_WRONLY);
    if (fd >= 0) {
      dup2(fd, 1);
      dup2(fd, 2);
    }
    fn();
    _exit(0);
  }
  int st = 0;
  while (waitpid(pid, &st, 0) < 0 && errno == EINTR)
    ;
  return !(WIFEXITED(st) && WEXITSTATUS(st) == 0);
}
static void
probe_null_memcpy(void) {
  g_ub_put_bytes = dies(probe_put_bytes);
  g_ub_nonce = dies(probe_nonce);
  g_ub_bin_const = dies(probe_bin_const);
}

/* ------------------------------------------------------------------------------------------ */
/* alphabets                                                                                   */
static const uint8_t SECRET32[32] = {0x01, 0x02, 0x03, 0x04, 0x05, 0x06, 0x07, 0x08, 0x09, 0x0a, 0x0b,
                                     0x0c, 0x0d, 0x0e, 0x0f, 0x10, 0x11, 0x12, 0x13, 0x14, 0x15, 0x16,
                                     0x17, 0x18, 0x19, 0x1a, 0x1b, 0x1c, 0x1d, 0x1e, 0x1f, 0x20};
static const uint8_t SALT8[8] = {0x9e, 0x7c, 0xa9, 0x22, 0x23, 0x78, 0x63, 0x40};
/* ID Context values are prefixes of this string; lengths 23 / 24 / 25 / 40 sit around the CBOR byte-string head that grows
 * from one to two bytes at 24 (the ID Context is a bstr in the HKDF info, RFC 8613 3.2.1, and travels in the OSCORE option) */
static const uint8_t IDCTX8[40] = {0x37, 0xcb, 0xf3, 0x21, 0x00, 0x17, 0xa2, 0xd3, 0x01, 0x02, 0x03, 0x04, 0x05, 0x06,
                                   0x07, 0x08, 0x09, 0x0a, 0x0b, 0x0c, 0x0d, 0x0e, 0x0f, 0x10, 0x11, 0x12, 0x13, 0x14,
                                   0x15, 0x16, 0x17, 0x18, 0x19, 0x1a, 0x1b, 0x1c, 0x1d, 0x1e, 0x1f, 0x20};
static const uint8_t SID7[7] = {0x00, 0xa1, 0xa2, 0xa3, 0xa4, 0xa5, 0xa6}; /* leading zero on purpose */
static const uint8_t RID7[7] = {0xb0, 0x00, 0xb2, 0xb3, 0xb4, 0xb5, 0xb6};
static const int IDLEN[4] = {0, 1, 3, 7};

#define NPIV 10
static const uint64_t PIVS[NPIV] = {0,          1,          255,           256,           65535, 65536,
                                    1ULL << 24, 1ULL << 32, (1ULL << 40) - 3, (1ULL << 40) - 2};
#define PIV_LIBCOAP_MAX ((1ULL << 40) - 3) /* libcoap refuses to send above this (see final report) */

struct ctxspec {
  int slen, rlen; /* client's sender / recipient id length */
  int idctx;      /* 0 absent, else length */
  int salt;       /* 0 absent, 8 */
  int secret;     /* 16 / 32 */
};
#define NCTX 180
static struct ctxspec CTXS[NCTX];
static int
build_ctxs(void) {
  int n = 0;
  static const int IDC[3] = {0, 1, 8}, SAL[2] = {0, 8}, SEC[2] = {16, 32};
  for (int a = 0; a < 4; a++)
    for (int b = 0; b < 4; b++) {
      if (IDLEN[a] == 0 && IDLEN[b] == 0)
        continue; /* both empty would be the same id */
      for (int c = 0; c < 3; c++)
        for (int d = 0; d < 2; d++)
          for (int e = 0; e < 2; e++)
            CTXS[n++] = (struct ctxspec){IDLEN[a], IDLEN[b], IDC[c], SAL[d], SEC[e]};
    }
  return n;
}
/* core contexts (thorough): every id length pair once, id-context / salt / secret values rotating */
static const struct ctxspec CORE_CTX[] = {
    {0, 1, 0, 8, 16}, {0, 3, 1, 0, 32}, {0, 7, 8, 8, 32}, {1, 0, 8, 0, 16}, {1, 1, 1, 8, 32}, {1, 3, 0, 0, 16},
    {1, 7, 8, 8, 16}, {3, 0, 0, 8, 16}, {3, 1, 8, 0, 32}, {3, 3, 1, 8, 16}, {3, 7, 0, 0, 16}, {7, 0, 1, 8, 32},
    {7, 1, 0, 0, 32}, {7, 3, 8, 8, 16}, {7, 7, 1, 0, 32}, {7, 7, 8, 8, 16},
    {1, 7, 23, 0, 16}, {1, 1, 24, 8, 16}, {3, 3, 25, 0, 16}, {7, 1, 40, 8, 32},
};
#define NCORE_CTX ((int)(sizeof CORE_CTX / sizeof CORE_CTX[0]))
/* quick: every id length on each side, every id-context / salt / secret value at least once */
static const struct ctxspec CORE_CTX_Q[] = {
    {0, 1, 0, 8, 16}, {1, 0, 8, 0, 16}, {1, 1, 1, 8, 32}, {3, 7, 0, 0, 16},
    {7, 3, 8, 8, 16}, {7, 7, 1, 0, 32}, {0, 7, 8, 8, 32}, {3, 0, 0, 8, 16},
    {1, 1, 24, 8, 16}, {3, 3, 25, 0, 16}, {7, 1, 40, 8, 32},
};
#define NCORE_CTX_Q ((int)(sizeof CORE_CTX_Q / sizeof CORE_CTX_Q[0]))

static void
ctx_params(const struct ctxspec *c, refoscore_params_t *p) {
  memset(p, 0, sizeof *p);
  p->master_secret = SECRET32;
  p->master_secret_len = (size_t)c->secret;
  p->master_salt = c->salt ? SALT8 : NULL;
  p->master_salt_len = (size_t)c->salt;
  p->sender_id = SID7;
  p->sender_id_len = (size_t)c->slen;
  p->recipient_id = RID7;
  p->recipient_id_len = (size_t)c->rlen;
  p->id_context = IDCTX8;
  p->id_context_len = (size_t)c->idctx;
  p->has_id_context = c->idctx != 0;
}
static void
params_mirror(const refoscore_params_t *in, refoscore_params_t *out) {
  *out = *in;
  out->sender_id = in->recipient_id;
  out->sender_id_len = in->recipient_id_len;
  out->recipient_id = in->sender_id;
  out->recipient_id_len = in->sender_id_len;
}

/* option items */
struct optdef {
  uint16_t num;
  uint8_t len;
  uint8_t val[16];
};
struct item {
  const char *name;
  int n;
  struct optdef o[2];
};
#define NITEMS 15
#define ITEM_OBSERVE 6
static const struct item ITEMS[NITEMS] = {
    {"Uri-Host", 1, {{3, 9, "h.example"}}},
    {"Uri-Path", 1, {{11, 3, "tv1"}}},
    {"Uri-Path*2", 2, {{11, 1, "a"}, {11, 13, "bcdefghijklmn"}}},
    {"Uri-Query", 1, {{15, 3, "k=v"}}},
    {"Content-Format", 1, {{12, 1, {60}}}},
    {"Accept", 1, {{17, 0, {0}}}},
    {"Observe", 1, {{6, 0, {0}}}}, /* value chosen per case, see build_message() */
    {"Block1", 1, {{27, 1, {0x0a}}}},
    {"Block2", 1, {{23, 1, {0x16}}}},
    {"Proxy-Scheme", 1, {{39, 4, "coap"}}},
    {"Max-Age", 1, {{14, 2, {0x0e, 0x10}}}},
    {"ETag", 1, {{4, 4, {0xe7, 0xa6, 0x00, 0x01}}}},
    {"No-Response", 1, {{258, 1, {0x1a}}}},
    {"Echo", 1, {{252, 8, {0xec, 0x01, 0x02, 0x03, 0x04, 0x05, 0x06, 0x07}}}},
    {"Unknown-65000", 1, {{65000, 2, {0xde, 0xad}}}},
};
/* subsets of ITEMS by size */
#define MAXSUBSETS 600
static uint16_t SUBSETS[MAXSUBSETS];
static int NSUB[4]; /* NSUB[k] = number of subsets of size <= k */
static void
build_subsets(void) {
  int n = 0;
  for (int k = 0; k <= 3; k++) {
    for (unsigned m = 0; m < (1u << NITEMS); m++)
      if (__builtin_popcount(m) == k)
        SUBSETS[n++] = (uint16_t)m;
    NSUB[k] = n;
  }
}
static const uint16_t CORE_SUBSETS[] = {
    0,
    1u << 0 | 1u << 1,              /* Uri-Host + Uri-Path */
    1u << ITEM_OBSERVE,             /* Observe */
    1u << 0 | 1u << 9,              /* Uri-Host + Proxy-Scheme */
    1u << 2 | 1u << 8 | 1u << 11,   /* Uri-Path*2 + Block2 + ETag */
    1u << 12 | 1u << 14 | 1u << 13, /* No-Response + unknown + Echo */
};
#define NCORE_SUBSETS ((int)(sizeof CORE_SUBSETS / sizeof CORE_SUBSETS[0]))

/* code variants: requests, then responses x {no own PIV requested, own PIV requested} */
struct codevar {
  uint8_t code;
  int is_response;
  int own_piv; /* OSCORE_SEND_PARTIAL_IV */
};
#define CODE(c, d) ((uint8_t)((c) << 5 | (d)))
#define NCODEVAR 13
static const struct codevar CODEVARS[NCODEVAR] = {
    {CODE(0, 1), 0, 0}, {CODE(0, 2), 0, 0}, {CODE(0, 3), 0, 0}, {CODE(0, 4), 0, 0}, {CODE(0, 5), 0, 0},
    {CODE(2, 1), 1, 0}, {CODE(2, 4), 1, 0}, {CODE(2, 5), 1, 0}, {CODE(4, 4), 1, 0},
    {CODE(2, 1), 1, 1}, {CODE(2, 4), 1, 1}, {CODE(2, 5), 1, 1}, {CODE(4, 4), 1, 1},
};
#define NPAYLEN 6
static const int PAYLENS[NPAYLEN] = {0, 1, 15, 16, 17, 1024};
static const uint8_t TOKEN8[8] = {0x7a, 0x01, 0x02, 0x03, 0x04, 0x05, 0x06, 0x80};

struct mcase {
  const struct ctxspec *ctx;
  uint64_t piv_c, piv_s; /* client / server sender sequence numbers preset through the conf */
  const struct codevar *cv;
  uint16_t subset;
  int paylen;
  int tkl;
};

static void
case_str(const struct mcase *m, char *dst, size_t n) {
  size_t k = (size_t)snprintf(dst, n, "ctx{sid=%d rid=%d idctx=%d salt=%d secret=%d} piv_c=%llu piv_s=%llu code=%u.%02u%s opts={",
                              m->ctx->slen, m->ctx->rlen, m->ctx->idctx, m->ctx->salt, m->ctx->secret,
                              (unsigned long long)m->piv_c, (unsigned long long)m->piv_s, m->cv->code >> 5,
                              m->cv->code & 31, m->cv->is_response ? (m->cv->own_piv ? "(resp,SEND_PARTIAL_IV)" : "(resp,NO_IV)") : "");
  for (int i = 0; i < NITEMS && k < n; i++)
    if (m->subset >> i & 1)
      k += (size_t)snprintf(dst + k, n - k, "%s,", ITEMS[i].name);
  if (k < n)
    snprintf(dst + k, n - k, "} paylen=%d tkl=%d", m->paylen, m->tkl);
}

static uint8_t PAYLOAD[1024];

static void
build_message(const struct mcase *m, refoscore_msg_t *msg) {
  refoscore_msg_init(msg, m->cv->code);
  for (int i = 0; i < NITEMS; i++) {
    if (!(m->subset >> i & 1))
      continue;
    if (i == ITEM_OBSERVE) {
      if (m->cv->is_response) {
        static const uint8_t seq[3] = {0x01, 0x02, 0x03};
        refoscore_msg_add_opt(msg, 6, seq, 3);
      } else if (m->tkl == 8) {
        static const uint8_t dereg[1] = {1};
        refoscore_msg_add_opt(msg, 6, dereg, 1); /* cancellation */
      } else {
        refoscore_msg_add_opt(msg, 6, NULL, 0); /* registration (0 = empty value) */
      }
      continue;
    }
    for (int j = 0; j < ITEMS[i].n; j++)
      refoscore_msg_add_opt(msg, ITEMS[i].o[j].num, ITEMS[i].o[j].val, ITEMS[i].o[j].len);
    if (ITEMS[i].o[0].num == REFOSCORE_OPT_PROXY_SCHEME && !m->cv->is_response) {
      /* an application that adds Proxy-Scheme to a request through libcoap's API gets Hop-Limit 16 added
       * (RFC 8768, coap_add_option_internal); libcoap does the same to the outer message otherwise */
      static const uint8_t hl[1] = {16};
      refoscore_msg_add_opt(msg, REFOSCORE_OPT_HOP_LIMIT, hl, 1);
    }
  }
  refoscore_msg_set_payload(msg, PAYLOAD, (size_t)m->paylen);
}

/* ------------------------------------------------------------------------------------------ */
/* libcoap endpoints                                                                           */
struct endpoint {
  coap_context_t *ctx;
  coap_session_t *s;
};

static size_t
hexcat(char *dst, size_t n, size_t k, const uint8_t *p, size_t len) {
  for (size_t i = 0; i < len && k + 2 < n; i++)
    k += (size_t)snprintf(dst + k, n - k, "%02x", p[i]);
  return k;
}

static coap_oscore_conf_t *
make_conf(const refoscore_params_t *p, uint64_t start_seq) {
  char b[600];
  size_t k = 0;
  k += (size_t)snprintf(b + k, sizeof b - k, "master_secret,hex,\"");
  k = hexcat(b, sizeof b, k, p->master_secret, p->master_secret_len);
  k += (size_t)snprintf(b + k, sizeof b - k, "\"\n");
  if (p->master_salt_len) {
    k += (size_t)snprintf(b + k, sizeof b - k, "master_salt,hex,\"");
    k = hexcat(b, sizeof b, k, p->master_salt, p->master_salt_len);
    k += (size_t)snprintf(b + k, sizeof b - k, "\"\n");
  }
  if (p->has_id_context) {
    k += (size_t)snprintf(b + k, sizeof b - k, "id_context,hex,\"");
    k = hexcat(b, sizeof b, k, p->id_context, p->id_context_len);
    k += (size_t)snprintf(b + k, sizeof b - k, "\"\n");
  }
  k += (size_t)snprintf(b + k, sizeof b - k, "sender_id,hex,\"");
  k = hexcat(b, sizeof b, k, p->sender_id, p->sender_id_len);
  k += (size_t)snprintf(b + k, sizeof b - k, "\"\nrecipient_id,hex,\"");
  k = hexcat(b, sizeof b, k, p->recipient_id, p->recipient_id_len);
  /* Appendix B.1.2 (Echo challenge of the first request) is not part of this property */
  k += (size_t)snprintf(b + k, sizeof b - k, "\"\nrfc8613_b_1_2,bool,false\n");
  coap_str_const_t conf = {k, (const uint8_t *)b};
  return coap_new_oscore_conf(conf, NULL, NULL, start_seq);
}

static void
ep_free(struct endpoint *e) {
  if (e->s)
    coap_session_release_lkd(e->s);
  if (e->ctx)
    coap_free_context(e->ctx);
  e->s = NULL;
  e->ctx = NULL;
}

/* p: parameters as seen from this endpoint */
static int
ep_build(struct endpoint *e, const refoscore_params_t *p, uint64_t start_seq, int client) {
  coap_address_t a;
  coap_address_init(&a);
  a.addr.sin.sin_family = AF_INET;
  a.addr.sin.sin_port = htons(5683);
  a.addr.sin.sin_addr.s_addr = htonl(0x7f000001);
  a.size = sizeof(struct sockaddr_in);
  e->s = NULL;
  e->ctx = coap_new_context(NULL);
  if (!e->ctx)
    return 0;
  coap_oscore_conf_t *conf = make_conf(p, start_seq);
  if (!conf) {
    ep_free(e);
    return 0;
  }
  if (client) {
    e->s = coap_new_client_session_oscore_lkd(e->ctx, NULL, &a, COAP_PROTO_UDP, conf);
  } else {
    if (!coap_context_oscore_server_lkd(e->ctx, conf)) {
      ep_free(e);
      return 0;
    }
    e->s = coap_new_client_session_lkd(e->ctx, NULL, &a, COAP_PROTO_UDP);
  }
  if (!e->s) {
    ep_free(e);
    return 0;
  }
  return 1;
}

static oscore_ctx_t *
ep_osc(struct endpoint *e) {
  return e->ctx->p_osc_ctx;
}

/* bring an endpoint back to "freshly configured with start_seq": no associations, replay window untouched */
static void
ep_reset(struct endpoint *e, uint64_t seq, int client) {
  oscore_ctx_t *o = ep_osc(e);
  coap_delete_oscore_associations(e->s);
  o->sender_context->seq = seq;
  o->sender_context->next_seq = seq;
  for (oscore_recipient_ctx_t *r = o->recipient_chain; r; r = r->next_recipient) {
    r->initial_state = 1;
    r->last_seq = 0;
    r->sliding_window = 0;
    r->rollback_last_seq = 0;
    r->rollback_sliding_window = 0;
  }
  e->s->tx_mid = 0;
  if (!client)
    e->s->recipient_ctx = NULL;
}

/* cached pair for the current (context, piv_c, piv_s) */
static struct {
  int valid;
  struct ctxspec spec;
  uint64_t piv_c, piv_s;
  struct endpoint c, s;
  refoscore_params_t pc, ps;
  refoscore_ctx_t rc, rs;
} G;

static int
keys_check(const char *who, struct endpoint *e, const refoscore_ctx_t *r, const char *cs) {
  oscore_ctx_t *o = ep_osc(e);
  int ok = 1;
  if (!o || !o->sender_context || !o->recipient_chain) {
    vx_fail("keys:no-context", "%s %s: libcoap built no OSCORE context", who, cs);
    return 0;
  }
  if (o->sender_context->sender_key->length != 16 || memcmp(o->sender_context->sender_key->s, r->sender_key, 16)) {
    vx_fail("keys:sender-key", "%s %s: Sender Key differs from HKDF reference", who, cs);
    ok = 0;
  }
  if (o->recipient_chain->recipient_key->length != 16 || memcmp(o->recipient_chain->recipient_key->s, r->recipient_key, 16)) {
    vx_fail("keys:recipient-key", "%s %s: Recipient Key differs from HKDF reference", who, cs);
    ok = 0;
  }
  if (o->common_iv->length != 13 || memcmp(o->common_iv->s, r->common_iv, 13)) {
    vx_fail("keys:common-iv", "%s %s: Common IV differs from HKDF reference", who, cs);
    ok = 0;
  }
  return ok;
}

static int
pair_get(const struct ctxspec *spec, uint64_t piv_c, uint64_t piv_s) {
  if (G.valid && !memcmp(&G.spec, spec, sizeof *spec) && G.piv_c == piv_c && G.piv_s == piv_s) {
    ep_reset(&G.c, piv_c, 1);
    ep_reset(&G.s, piv_s, 0);
    return 1;
  }
  if (G.valid) {
    ep_free(&G.c);
    ep_free(&G.s);
    G.valid = 0;
  }
  G.spec = *spec;
  G.piv_c = piv_c;
  G.piv_s = piv_s;
  ctx_params(spec, &G.pc);
  params_mirror(&G.pc, &G.ps);
  if (refoscore_derive(&G.pc, &G.rc) || refoscore_derive(&G.ps, &G.rs)) {
    fprintf(stderr, "refoscore_derive failed\n");
    _exit(2);
  }
  char cs[160];
  snprintf(cs, sizeof cs, "ctx{sid=%d rid=%d idctx=%d salt=%d secret=%d}", spec->slen, spec->rlen, spec->idctx,
           spec->salt, spec->secret);
  if (!ep_build(&G.c, &G.pc, piv_c, 1) || !ep_build(&G.s, &G.ps, piv_s, 0)) {
    vx_fail("setup:context-refused", "%s: libcoap refused the configuration", cs);
    ep_free(&G.c);
    ep_free(&G.s);
    return 0;
  }
  G.valid = 1;
  /* the start value really arrived in the sender context */
  if (ep_osc(&G.c)->sender_context->seq != piv_c || ep_osc(&G.s)->sender_context->seq != piv_s)
    vx_fail("setup:start-seq", "%s: start_seq_num not taken over", cs);
  keys_check("client", &G.c, &G.rc, cs);
  keys_check("server", &G.s, &G.rs, cs);
  return 1;
}

/* ------------------------------------------------------------------------------------------ */
/* PDU <-> bytes                                                                               */
static coap_pdu_t *
pdu_from_bytes(const uint8_t *b, size_t n) {
  /* exact-size heap copy so that an over-read of the input is visible to ASan */
  uint8_t *copy = malloc(n ? n : 1);
  memcpy(copy, b, n);
  coap_pdu_t *p = coap_pdu_init(0, 0, 0, n);
  if (p && !coap_pdu_parse(COAP_PROTO_UDP, copy, n, p)) {
    coap_delete_pdu(p);
    p = NULL;
  }
  free(copy);
  return p;
}
static size_t
pdu_bytes(coap_pdu_t *p, const uint8_t **b) {
  if (!coap_pdu_encode_header(p, COAP_PROTO_UDP))
    return 0;
  *b = p->token - p->hdr_size;
  return p->hdr_size + p->used_size;
}

#define WIRE_MAX 2600
struct wire {
  uint8_t b[WIRE_MAX];
  size_t n;
};

static const char *
hexs(const uint8_t *p, size_t n, size_t max) {
  static char bufs[4][260];
  static int rot;
  char *d = bufs[rot++ & 3];
  size_t k = 0;
  if (max > 120)
    max = 120;
  for (size_t i = 0; i < n && i < max; i++)
    k += (size_t)snprintf(d + k, 260 - k, "%02x", p[i]);
  if (n > max)
    snprintf(d + k, 260 - k, "..(%zu)", n);
  else if (!n)
    snprintf(d, 260, "<empty>");
  return d;
}

/* Observe values in responses are free (4.1.3.5.2): blank them before comparing */
static void
blank_observe(refoscore_msg_t *m) {
  for (int i = 0; i < m->nopts; i++)
    if (m->opts[i].num == REFOSCORE_OPT_OBSERVE)
      m->opts[i].len = 0;
}

static int
opts_equal_except(const refoscore_msg_t *a, const refoscore_msg_t *b, unsigned skip) {
  int i = 0, j = 0;
  for (;;) {
    while (i < a->nopts && a->opts[i].num == skip)
      i++;
    while (j < b->nopts && b->opts[j].num == skip)
      j++;
    if (i == a->nopts || j == b->nopts)
      return i == a->nopts && j == b->nopts;
    if (a->opts[i].num != b->opts[j].num || a->opts[i].len != b->opts[j].len ||
        memcmp(refoscore_opt_val(a, i), refoscore_opt_val(b, j), a->opts[i].len))
      return 0;
    i++;
    j++;
  }
}

/* ------------------------------------------------------------------------------------------ */
/* oracle (1): libcoap's protected datagram against the reference's outer message              */
static int
compare_protected(const char *cs, const struct wire *w, const refoscore_msg_t *ref, int is_response, uint8_t type,
                  uint16_t mid, const uint8_t *token, size_t tkl, int check_type_mid) {
  refoscore_msg_t lw;
  uint8_t ltype, ltok[8];
  uint16_t lmid;
  size_t ltkl;
  char s1[400], s2[400];
  int ok = 1;
  int r = refoscore_coap_decode(w->b, w->n, &lw, &ltype, &lmid, ltok, &ltkl);
  if (r) {
    vx_fail("protect-mismatch:not-coap", "%s: libcoap output is not a well-formed CoAP datagram: %s", cs, hexs(w->b, w->n, 60));
    return 0;
  }
  if (ltkl != tkl || memcmp(ltok, token, tkl)) {
    vx_fail("protect-mismatch:token", "%s: token %s, expected %s", cs, hexs(ltok, ltkl, 8), hexs(token, tkl, 8));
    ok = 0;
  }
  if (check_type_mid && (ltype != type || lmid != mid)) {
    vx_fail("protect-mismatch:type-mid", "%s: type/mid %u/%04x, expected %u/%04x", cs, ltype, lmid, type, mid);
    ok = 0;
  }
  if (lw.code != ref->code) {
    vx_fail("protect-mismatch:outer-code", "%s: outer code %u.%02u, RFC 8613 4.2 says %u.%02u", cs, lw.code >> 5,
            lw.code & 31, ref->code >> 5, ref->code & 31);
    ok = 0;
  }
  /* OSCORE option */
  int li = refoscore_msg_find(&lw, REFOSCORE_OPT_OSCORE), ri = refoscore_msg_find(ref, REFOSCORE_OPT_OSCORE);
  if (li < 0) {
    vx_fail("protect-mismatch:oscore-option:absent", "%s: no OSCORE option in %s", cs, refoscore_msg_str(&lw, s1, sizeof s1));
    return 0;
  }
  const uint8_t *lv = refoscore_opt_val(&lw, li), *rv = refoscore_opt_val(ref, ri);
  size_t ll = lw.opts[li].len, rl = ref->opts[ri].len;
  if (ll != rl || memcmp(lv, rv, ll)) {
    refoscore_optval_t a, b;
    const char *sub = "malformed";
    if (!refoscore_optval_decode(lv, ll, &a) && !refoscore_optval_decode(rv, rl, &b)) {
      if (a.has_piv != b.has_piv || a.piv_len != b.piv_len || memcmp(a.piv, b.piv, a.piv_len))
        sub = "piv";
      else if (a.has_kidctx != b.has_kidctx || a.kidctx_len != b.kidctx_len || memcmp(a.kidctx, b.kidctx, a.kidctx_len))
        sub = "kid-context";
      else if (a.has_kid != b.has_kid || a.kid_len != b.kid_len || memcmp(a.kid, b.kid, a.kid_len))
        sub = "kid";
      else
        sub = "encoding";
    }
    char sig[80];
    snprintf(sig, sizeof sig, "protect-mismatch:oscore-option:%s", sub);
    vx_fail(sig, "%s: OSCORE option value %s, reference %s", cs, hexs(lv, ll, 40), hexs(rv, rl, 40));
    ok = 0;
  }
  /* the other outer options */
  {
    refoscore_msg_t a = lw, b = *ref;
    if (is_response) {
      blank_observe(&a);
      blank_observe(&b);
    }
    if (!opts_equal_except(&a, &b, REFOSCORE_OPT_OSCORE)) {
      vx_fail("protect-mismatch:outer-options", "%s: outer message %s, reference %s", cs,
              refoscore_msg_str(&lw, s1, sizeof s1), refoscore_msg_str(ref, s2, sizeof s2));
      ok = 0;
    }
  }
  /* ciphertext || tag */
  const uint8_t *lp = refoscore_payload(&lw), *rp = refoscore_payload(ref);
  if (lw.payload_len != ref->payload_len) {
    vx_fail("protect-mismatch:ciphertext-length", "%s: ciphertext+tag %u bytes, reference %u", cs, lw.payload_len,
            ref->payload_len);
    ok = 0;
  } else if (lw.payload_len >= 8) {
    size_t cl = (size_t)lw.payload_len - 8;
    if (memcmp(lp, rp, cl)) {
      vx_fail("protect-mismatch:ciphertext", "%s: ciphertext %s, reference %s (key, nonce or plaintext differ)", cs,
              hexs(lp, cl, 24), hexs(rp, cl, 24));
      ok = 0;
    } else if (memcmp(lp + cl, rp + cl, 8)) {
      vx_fail("protect-mismatch:tag", "%s: tag %s, reference %s with equal ciphertext (AAD differs)", cs,
              hexs(lp + cl, 8, 8), hexs(rp + cl, 8, 8));
      ok = 0;
    }
  }
  if (ok) {
    /* all fields equal: the serialisation must then be the unique minimal one, except the free Observe value */
    uint8_t buf[WIRE_MAX];
    int n = refoscore_coap_encode(&lw, ltype, lmid, ltok, ltkl, buf, sizeof buf);
    if (n != (int)w->n || memcmp(buf, w->b, w->n)) {
      vx_fail("protect-mismatch:encoding", "%s: datagram %s is not the minimal encoding of its fields", cs, hexs(w->b, w->n, 60));
      ok = 0;
    }
  }
  return ok;
}

/* ------------------------------------------------------------------------------------------ */
/* oracle (2): what the peer recovers                                                          */
static int
compare_recovered(const char *cs, const char *who, const refoscore_msg_t *got_in, const refoscore_msg_t *want_in,
                  int is_response) {
  refoscore_msg_t got = *got_in, want = *want_in;
  char s1[400], s2[400], sig[80];
  if (is_response) {
    blank_observe(&got);
    blank_observe(&want);
  }
  if (refoscore_msg_equal(&got, &want))
    return 1;
  const char *f = "options";
  if (got.code != want.code)
    f = "code";
  else if (opts_equal_except(&got, &want, 0xffffffffu))
    f = "payload";
  snprintf(sig, sizeof sig, "roundtrip:%s:%s", who, f);
  vx_fail(sig, "%s: recovered %s, original %s", cs, refoscore_msg_str(got_in, s1, sizeof s1),
          refoscore_msg_str(want_in, s2, sizeof s2));
  return 0;
}

/* ------------------------------------------------------------------------------------------ */
/* one protected message in flight: everything the tamper stage needs                          */
struct flight {
  int ok;
  int is_response;
  struct wire wire;          /* the protected datagram (libcoap's, or the reference's when libcoap refused) */
  refoscore_msg_t orig;      /* original message */
  refoscore_msg_t inner;     /* reference view of the plaintext */
  refoscore_reqbind_t bind;  /* request binding (reference) */
  uint8_t token[8];
  size_t tkl;
  /* client association snapshot (responses): lets every tamper attempt start from the same client state */
  uint8_t a_aad[64], a_nonce[13], a_piv[8];
  size_t a_aad_len, a_piv_len;
  int a_observe;
};

static int
snapshot_assoc(struct flight *f, coap_session_t *s) {
  coap_bin_const_t tok = {f->tkl, f->token};
  oscore_association_t *a = oscore_find_association(s, &tok);
  if (!a || !a->aad || !a->nonce || !a->partial_iv || a->aad->length > sizeof f->a_aad || a->nonce->length != 13 ||
      a->partial_iv->length > sizeof f->a_piv)
    return 0;
  memcpy(f->a_aad, a->aad->s, a->aad->length);
  f->a_aad_len = a->aad->length;
  memcpy(f->a_nonce, a->nonce->s, 13);
  memcpy(f->a_piv, a->partial_iv->s, a->partial_iv->length);
  f->a_piv_len = a->partial_iv->length;
  f->a_observe = a->is_observe;
  return 1;
}
static int
restore_assoc(const struct flight *f, coap_session_t *s) {
  coap_bin_const_t tok = {f->tkl, f->token}, aad = {f->a_aad_len, f->a_aad}, nonce = {13, f->a_nonce},
                   piv = {f->a_piv_len, f->a_piv};
  coap_delete_oscore_associations(s);
  return oscore_new_association(s, NULL, &tok, s->recipient_ctx, &aad, &nonce, &piv, f->a_observe);
}

static int
protect_with_libcoap(coap_session_t *s, const refoscore_msg_t *msg, uint8_t type, uint16_t mid, const uint8_t *token,
                     size_t tkl, int own_piv, struct wire *out) {
  uint8_t buf[WIRE_MAX];
  int n = refoscore_coap_encode(msg, type, mid, token, tkl, buf, sizeof buf);
  if (n < 0) {
    fprintf(stderr, "harness: cannot encode original message\n");
    _exit(2);
  }
  coap_pdu_t *p = pdu_from_bytes(buf, (size_t)n);
  if (!p) {
    fprintf(stderr, "harness: libcoap cannot parse the original message %s\n", hexs(buf, (size_t)n, 60));
    _exit(2);
  }
  /* what coap_send does for a request on an OSCORE session before protecting it (src/coap_net.c): Proxy-Uri becomes Proxy-Scheme +
   * Uri-* options (RFC 8613 4.1.3.3) */
  if (COAP_PDU_IS_REQUEST(p) && !coap_rebuild_pdu_for_proxy(p)) {
    coap_delete_pdu(p);
    return 0;
  }
  coap_pdu_t *o = coap_oscore_new_pdu_encrypted_lkd(s, p, NULL, own_piv ? OSCORE_SEND_PARTIAL_IV : OSCORE_SEND_NO_IV);
  coap_delete_pdu(p);
  if (!o)
    return 0;
  const uint8_t *b;
  size_t l = pdu_bytes(o, &b);
  if (!l || l > sizeof out->b) {
    coap_delete_pdu(o);
    return 0;
  }
  memcpy(out->b, b, l);
  out->n = l;
  coap_delete_pdu(o);
  return 1;
}

/* returns 1 accepted (msg filled), 0 rejected by OSCORE, -1 dropped by the CoAP parser, -2 no OSCORE option */
static int
unprotect_with_libcoap(coap_session_t *s, const uint8_t *b, size_t n, refoscore_msg_t *msg, uint8_t *tok, size_t *tkl) {
  coap_pdu_t *p = pdu_from_bytes(b, n);
  if (!p)
    return -1;
  coap_opt_iterator_t oi;
  if (!coap_check_option(p, COAP_OPTION_OSCORE, &oi)) {
    coap_delete_pdu(p);
    return -2; /* coap_dispatch() only calls coap_oscore_decrypt_pdu() when the option is there */
  }
  coap_pdu_t *d = coap_oscore_decrypt_pdu(s, p);
  coap_delete_pdu(p);
  if (!d)
    return 0;
  const uint8_t *db;
  size_t dl = pdu_bytes(d, &db);
  int r = refoscore_coap_decode(db, dl, msg, NULL, NULL, tok, tkl);
  coap_delete_pdu(d);
  if (r) {
    vx_fail("roundtrip:not-coap", "coap_oscore_decrypt_pdu returned a PDU that is not well-formed CoAP");
    return 0;
  }
  return 1;
}

/* Run one case through libcoap and the reference: oracles (1) and (2).  Leaves the pair in the state
 * "message in flight" and fills f for the tamper stage. */
static void
run_exchange(const struct mcase *m, struct flight *f, int check_vector_bytes, const uint8_t *expect, size_t expect_len,
             uint8_t type_req, uint8_t type_resp, uint16_t mid) {
  char cs[500];
  refoscore_msg_t ref_out, lmsg, rmerged;
  static refoscore_info_t info;
  uint8_t tok[8];
  size_t tkl;
  memset(f, 0, offsetof(struct flight, wire));
  f->ok = 0;
  case_str(m, cs, sizeof cs);
  if (!pair_get(m->ctx, m->piv_c, m->piv_s))
    return;
  f->tkl = (size_t)m->tkl;
  memcpy(f->token, TOKEN8, f->tkl);
  f->is_response = m->cv->is_response;
  build_message(m, &f->orig);

  if (!m->cv->is_response) {
    vxp_count(0, 1);
    if (refoscore_protect_request(&G.rc, &f->orig, m->piv_c, &ref_out, &f->bind)) {
      fprintf(stderr, "harness: reference cannot protect request %s\n", cs);
      _exit(2);
    }
    if (!protect_with_libcoap(G.c.s, &f->orig, type_req, mid, f->token, f->tkl, 0, &f->wire)) {
      if (m->piv_c > PIV_LIBCOAP_MAX) {
        vxp_count(2, 1); /* documented: sender stops one short of 2^40-2; continue with the reference's datagram */
        int n = refoscore_coap_encode(&ref_out, type_req, mid, f->token, f->tkl, f->wire.b, sizeof f->wire.b);
        f->wire.n = (size_t)n;
      } else {
        vx_fail("protect-refused:request", "%s: coap_oscore_new_pdu_encrypted_lkd returned NULL", cs);
        return;
      }
    } else {
      if (ep_osc(&G.c)->sender_context->seq != m->piv_c + 1)
        vx_fail("protect-mismatch:ssn-not-incremented", "%s: sender sequence number %llu after protecting with %llu", cs,
                (unsigned long long)ep_osc(&G.c)->sender_context->seq, (unsigned long long)m->piv_c);
      if (!compare_protected(cs, &f->wire, &ref_out, 0, type_req, mid, f->token, f->tkl, 1))
        return;
      if (check_vector_bytes && (f->wire.n != expect_len || memcmp(f->wire.b, expect, expect_len)))
        vx_fail("protect-mismatch:rfc8613-vector", "%s: %s, RFC 8613 prints %s", cs, hexs(f->wire.b, f->wire.n, 60),
                hexs(expect, expect_len, 60));
    }
    /* (2) the server side */
    int r = unprotect_with_libcoap(G.s.s, f->wire.b, f->wire.n, &lmsg, tok, &tkl);
    if (r != 1) {
      vx_fail("roundtrip:libcoap:rejected", "%s: mirrored libcoap context rejects the genuine request %s (%d)", cs,
              hexs(f->wire.b, f->wire.n, 60), r);
      return;
    }
    if (tkl != f->tkl || memcmp(tok, f->token, tkl))
      vx_fail("roundtrip:libcoap:token", "%s: token changed", cs);
    if (!compare_recovered(cs, "libcoap", &lmsg, &f->orig, 0))
      return;
    refoscore_msg_t outer;
    refoscore_coap_decode(f->wire.b, f->wire.n, &outer, NULL, NULL, NULL, NULL);
    r = refoscore_unprotect_request(&G.rs, &outer, &rmerged, NULL, &info);
    if (r) {
      vx_fail("roundtrip:ref:rejected", "%s: reference rejects libcoap's request: %s", cs, refoscore_strerror(r));
      return;
    }
    if (!compare_recovered(cs, "ref", &rmerged, &f->orig, 0))
      return;
    f->inner = info.inner;
    vxp_count(3, 1);
    f->ok = 1;
    return;
  }

  /* ---- response: first a genuine request exchange that sets up both associations ---- */
  vxp_count(1, 1);
  refoscore_msg_t rq, rq_out;
  int observe = refoscore_msg_find(&f->orig, REFOSCORE_OPT_OBSERVE) >= 0;
  refoscore_msg_init(&rq, CODE(0, 1));
  refoscore_msg_add_opt(&rq, 11, "r", 1);
  if (observe)
    refoscore_msg_add_opt(&rq, 6, NULL, 0);
  struct wire rqw;
  if (refoscore_protect_request(&G.rc, &rq, m->piv_c, &rq_out, &f->bind)) {
    fprintf(stderr, "harness: reference cannot protect setup request\n");
    _exit(2);
  }
  if (!protect_with_libcoap(G.c.s, &rq, type_req, mid, f->token, f->tkl, 0, &rqw)) {
    if (m->piv_c > PIV_LIBCOAP_MAX) {
      vxp_count(2, 1);
      return; /* no association on the client: nothing to answer */
    }
    vx_fail("protect-refused:request", "%s: setup request refused", cs);
    return;
  }
  if (!compare_protected(cs, &rqw, &rq_out, 0, type_req, mid, f->token, f->tkl, 1))
    return;
  if (unprotect_with_libcoap(G.s.s, rqw.b, rqw.n, &lmsg, tok, &tkl) != 1) {
    vx_fail("roundtrip:libcoap:rejected", "%s: setup request rejected by the server", cs);
    return;
  }
  if (!snapshot_assoc(f, G.c.s)) {
    vx_fail("roundtrip:libcoap:no-association", "%s: client kept no association for its request", cs);
    return;
  }
  /* the server protects the response */
  uint64_t seq_before = ep_osc(&G.s)->sender_context->seq;
  if (!protect_with_libcoap(G.s.s, &f->orig, type_resp, mid, f->token, f->tkl, m->cv->own_piv, &f->wire)) {
    if ((m->cv->own_piv || observe) && m->piv_s > PIV_LIBCOAP_MAX) {
      vxp_count(2, 1);
      if (refoscore_protect_response(&G.rs, &f->bind, &f->orig, 1, m->piv_s, &ref_out))
        _exit(2);
      int n = refoscore_coap_encode(&ref_out, type_resp, mid, f->token, f->tkl, f->wire.b, sizeof f->wire.b);
      f->wire.n = (size_t)n;
    } else {
      vx_fail("protect-refused:response", "%s: coap_oscore_new_pdu_encrypted_lkd returned NULL", cs);
      return;
    }
  } else {
    /* RFC 8613 leaves it to the server whether a response carries its own Partial IV: take libcoap's choice */
    refoscore_msg_t lw;
    refoscore_optval_t ov;
    int has_piv = 0;
    if (!refoscore_coap_decode(f->wire.b, f->wire.n, &lw, NULL, NULL, NULL, NULL)) {
      int li = refoscore_msg_find(&lw, REFOSCORE_OPT_OSCORE);
      if (li >= 0 && !refoscore_optval_decode(refoscore_opt_val(&lw, li), lw.opts[li].len, &ov))
        has_piv = ov.has_piv;
    }
    if (!has_piv && (m->cv->own_piv || observe))
      vx_fail("protect-mismatch:oscore-option:response-piv-absent",
              "%s: response carries no Partial IV although %s", cs,
              observe ? "it is a notification (RFC 8613 4.1.3.5.2)" : "OSCORE_SEND_PARTIAL_IV was requested");
    uint64_t seq_after = ep_osc(&G.s)->sender_context->seq;
    if (seq_after != seq_before + (has_piv ? 1 : 0))
      vx_fail("protect-mismatch:ssn-not-incremented", "%s: server sequence number %llu -> %llu, own piv %d", cs,
              (unsigned long long)seq_before, (unsigned long long)seq_after, has_piv);
    if (refoscore_protect_response(&G.rs, &f->bind, &f->orig, has_piv, m->piv_s, &ref_out)) {
      fprintf(stderr, "harness: reference cannot protect response %s\n", cs);
      _exit(2);
    }
    int plain_ack = type_resp == COAP_MESSAGE_ACK; /* libcoap turns a piggybacked 2.xx into a separate response */
    if (!compare_protected(cs, &f->wire, &ref_out, 1, type_resp, mid, f->token, f->tkl, !plain_ack))
      return;
    if (check_vector_bytes && (f->wire.n != expect_len || memcmp(f->wire.b + 4, expect + 4, expect_len - 4) ||
                               f->wire.b[1] != expect[1]))
      vx_fail("protect-mismatch:rfc8613-vector", "%s: %s, RFC 8613 prints %s", cs, hexs(f->wire.b, f->wire.n, 60),
              hexs(expect, expect_len, 60));
  }
  /* (2) the client side */
  int r = unprotect_with_libcoap(G.c.s, f->wire.b, f->wire.n, &lmsg, tok, &tkl);
  if (r != 1) {
    vx_fail("roundtrip:libcoap:rejected", "%s: client rejects the genuine response %s (%d)", cs,
            hexs(f->wire.b, f->wire.n, 60), r);
    return;
  }
  if (tkl != f->tkl || memcmp(tok, f->token, tkl))
    vx_fail("roundtrip:libcoap:token", "%s: token changed", cs);
  if (!compare_recovered(cs, "libcoap", &lmsg, &f->orig, 1))
    return;
  refoscore_msg_t outer;
  refoscore_coap_decode(f->wire.b, f->wire.n, &outer, NULL, NULL, NULL, NULL);
  r = refoscore_unprotect_response(&G.rc, &f->bind, &outer, &rmerged, &info);
  if (r) {
    vx_fail("roundtrip:ref:rejected", "%s: reference rejects libcoap's response: %s", cs, refoscore_strerror(r));
    return;
  }
  if (!compare_recovered(cs, "ref", &rmerged, &f->orig, 1))
    return;
  if (observe && info.optval.has_piv) {
    /* informational: which Partial IV does the Observe value libcoap hands to the application come from? */
    int gi = refoscore_msg_find(&lmsg, 6), ri = refoscore_msg_find(&rmerged, 6);
    if (gi >= 0 && ri >= 0) {
      if (lmsg.opts[gi].len == rmerged.opts[ri].len &&
          !memcmp(refoscore_opt_val(&lmsg, gi), refoscore_opt_val(&rmerged, ri), lmsg.opts[gi].len))
        vxp_count(15, 1);
      size_t l = f->bind.piv_len > 3 ? 3 : f->bind.piv_len;
      if (lmsg.opts[gi].len == l && !memcmp(refoscore_opt_val(&lmsg, gi), f->bind.piv + f->bind.piv_len - l, l))
        vxp_count(16, 1);
    }
  }
  f->inner = info.inner;
  vxp_count(3, 1);
  f->ok = 1;
}

/* ------------------------------------------------------------------------------------------ */
/* oracle (3): tampering                                                                       */

/* byte offset -> region of the protected datagram */
struct regions {
  size_t first_opt;        /* offset of the first option byte */
  uint8_t kind[WIRE_MAX];  /* per byte */
  uint16_t optnum[WIRE_MAX];
};
enum { R_HDR = 0, R_OPT_HEAD, R_OPT_VALUE, R_OSC_FLAGS, R_OSC_PIV, R_OSC_KIDCTX, R_OSC_KID, R_MARKER, R_CT, R_TAG };

static void
map_regions(const struct wire *w, struct regions *rg) {
  size_t i = 4 + (w->b[0] & 15);
  unsigned num = 0;
  memset(rg->kind, R_HDR, sizeof rg->kind);
  memset(rg->optnum, 0, sizeof rg->optnum);
  rg->first_opt = i;
  while (i < w->n && w->b[i] != 0xff) {
    size_t h = i;
    unsigned d = w->b[i] >> 4, l = w->b[i] & 15;
    i++;
    if (d == 13)
      d = 13u + w->b[i++];
    else if (d == 14) {
      d = 269u + ((unsigned)w->b[i] << 8 | w->b[i + 1]);
      i += 2;
    }
    if (l == 13)
      l = 13u + w->b[i++];
    else if (l == 14) {
      l = 269u + ((unsigned)w->b[i] << 8 | w->b[i + 1]);
      i += 2;
    }
    num += d;
    for (size_t k = h; k < i; k++) {
      rg->kind[k] = R_OPT_HEAD;
      rg->optnum[k] = (uint16_t)num;
    }
    for (size_t k = i; k < i + l; k++) {
      rg->kind[k] = R_OPT_VALUE;
      rg->optnum[k] = (uint16_t)num;
    }
    if (num == REFOSCORE_OPT_OSCORE && l) {
      uint8_t fl = w->b[i];
      size_t k = i;
      rg->kind[k++] = R_OSC_FLAGS;
      for (unsigned j = 0; j < (fl & 7u); j++)
        rg->kind[k++] = R_OSC_PIV;
      if (fl & 0x10) {
        unsigned s = w->b[k];
        for (unsigned j = 0; j < s + 1; j++)
          rg->kind[k++] = R_OSC_KIDCTX;
      }
      while (k < i + l)
        rg->kind[k++] = R_OSC_KID;
    }
    i += l;
  }
  if (i < w->n) {
    rg->kind[i++] = R_MARKER;
    for (; i < w->n; i++)
      rg->kind[i] = i + 8 >= w->n ? R_TAG : R_CT;
  }
}

static void
region_name(const struct regions *rg, size_t off, char *dst, size_t n) {
  switch (rg->kind[off]) {
  case R_OPT_HEAD: snprintf(dst, n, rg->optnum[off] == REFOSCORE_OPT_OSCORE ? "oscore-option-header" : "outer-option-header"); break;
  case R_OPT_VALUE: snprintf(dst, n, "outer-option-value"); break;
  case R_OSC_FLAGS: snprintf(dst, n, "oscore-option-flags"); break;
  case R_OSC_PIV: snprintf(dst, n, "piv"); break;
  case R_OSC_KIDCTX: snprintf(dst, n, "kid-context"); break;
  case R_OSC_KID: snprintf(dst, n, "kid"); break;
  case R_MARKER: snprintf(dst, n, "payload-marker"); break;
  case R_CT: snprintf(dst, n, "ciphertext"); break;
  case R_TAG: snprintf(dst, n, "tag"); break;
  default: snprintf(dst, n, "header"); break;
  }
}

/* options of `m` whose number the recipient must take from the plaintext only */
static int
protected_part_equal(const refoscore_msg_t *got, const refoscore_msg_t *inner, int is_response, const char **field) {
  if (got->code != inner->code) {
    *field = "code";
    return 0;
  }
  if (got->payload_len != inner->payload_len || memcmp(refoscore_payload(got), refoscore_payload(inner), got->payload_len)) {
    *field = "payload";
    return 0;
  }
  /* multiset (in order) of the options with numbers marked E in Figure 5 or present in the plaintext */
  int i = 0, j = 0;
  for (;;) {
    while (i < got->nopts) {
      unsigned num = got->opts[i].num;
      if (refoscore_outer_discarded(num) || refoscore_msg_find(inner, num) >= 0)
        break;
      i++;
    }
    if (i == got->nopts || j == inner->nopts)
      break;
    if (got->opts[i].num != inner->opts[j].num) {
      *field = "class-e-options";
      return 0;
    }
    int obs_resp = is_response && got->opts[i].num == REFOSCORE_OPT_OBSERVE;
    if (!obs_resp && (got->opts[i].len != inner->opts[j].len ||
                      memcmp(refoscore_opt_val(got, i), refoscore_opt_val(inner, j), got->opts[i].len))) {
      *field = "class-e-options";
      return 0;
    }
    i++;
    j++;
  }
  if (i != got->nopts || j != inner->nopts) {
    *field = "class-e-options";
    return 0;
  }
  return 1;
}

/* One attempt: bytes b at the recipient endpoint `e` (libcoap) / context rctx (reference).
 * fresh state for both is the caller's job. */
static void
tamper_attempt(const char *cs, const struct flight *f, struct endpoint *e, const refoscore_ctx_t *rctx,
               const refoscore_reqbind_t *bind, const uint8_t *b, size_t n, const char *region, const char *what) {
  refoscore_msg_t outer, rmerged, lmsg;
  static refoscore_info_t info;
  uint8_t tok[8];
  size_t tkl;
  int ref;
  vxp_count(4, 1);
  ref = refoscore_coap_decode(b, n, &outer, NULL, NULL, NULL, NULL);
  if (!ref)
    ref = f->is_response ? refoscore_unprotect_response(rctx, bind, &outer, &rmerged, &info)
                         : refoscore_unprotect_request(rctx, &outer, &rmerged, NULL, &info);
  int must_reject = ref != REFOSCORE_OK;
  if (!must_reject && !refoscore_msg_equal(&info.inner, &f->inner))
    must_reject = 1; /* cannot happen with a sound AEAD; kept as the rule states it */
  g_last_sent_len = 0;
  int r = unprotect_with_libcoap(e->s, b, n, &lmsg, tok, &tkl);
  if (r == 0 && !f->is_response) {
    /* informational: the unprotected error reply RFC 8613 8.2 lets the server send (4.02 / 4.01 / 4.00) */
    if (g_last_sent_len >= 4) {
      uint8_t c = g_last_sent[1];
      vxp_count(c == CODE(4, 0) ? 21 : c == CODE(4, 1) ? 22 : c == CODE(4, 2) ? 23 : 24, 1);
    } else {
      vxp_count(25, 1);
    }
  }
  if (r == -1) {
    vxp_count(8, 1);
    return;
  }
  if (r == -2) {
    vxp_count(7, 1); /* no OSCORE option any more: not handed to OSCORE at all; ciphertext stays ciphertext */
    return;
  }
  if (r == 0) {
    vxp_count(5, 1);
    if (!must_reject)
      vxp_count(11, 1);
    return;
  }
  /* accepted */
  if (must_reject) {
    char sig[120], s1[300];
    snprintf(sig, sizeof sig, "tamper-accepted:%s:%s", region, refoscore_strerror(ref));
    vx_fail(sig, "%s: %s: reference refuses (%s) but coap_oscore_decrypt_pdu returned %s; datagram %s", cs, what,
            refoscore_strerror(ref), refoscore_msg_str(&lmsg, s1, sizeof s1), hexs(b, n, 48));
    return;
  }
  vxp_count(6, 1);
  const char *field = "";
  if (!protected_part_equal(&lmsg, &f->inner, f->is_response, &field)) {
    char sig[120], s1[300], s2[300];
    snprintf(sig, sizeof sig, "tamper-altered:%s:%s", field, region);
    vx_fail(sig, "%s: %s: accepted, but the application sees %s while the protected content is %s", cs, what,
            refoscore_msg_str(&lmsg, s1, sizeof s1), refoscore_msg_str(&f->inner, s2, sizeof s2));
  }
}

/* fresh recipient state for an attempt against the genuine peer context */
static void
fresh_recipient(const struct mcase *m, const struct flight *f) {
  if (f->is_response) {
    ep_reset(&G.c, m->piv_c + 1, 1);
    if (!restore_assoc(f, G.c.s)) {
      fprintf(stderr, "harness: cannot restore association\n");
      _exit(2);
    }
  } else {
    ep_reset(&G.s, m->piv_s, 0);
  }
}

struct ctxvar {
  const char *param;
  char desc[60];
  refoscore_params_t p; /* client-view parameters */
  uint8_t secret[32], salt[9], sid[8], rid[8], idctx[41];
};

static int
make_ctx_variants(const refoscore_params_t *base, struct ctxvar *v, int max) {
  int n = 0;
#define NEWVAR(name)                                                                                                   \
  struct ctxvar *x = &v[n];                                                                                            \
  if (n >= max)                                                                                                        \
    return n;                                                                                                          \
  x->param = name;                                                                                                     \
  x->p = *base;                                                                                                        \
  memcpy(x->secret, base->master_secret, base->master_secret_len);                                                     \
  memcpy(x->salt, SALT8, 8);                                                                                           \
  memcpy(x->sid, base->sender_id, base->sender_id_len);                                                                \
  memcpy(x->rid, base->recipient_id, base->recipient_id_len);                                                          \
  memcpy(x->idctx, IDCTX8, 40);                                                                                        \
  x->p.master_secret = x->secret;                                                                                      \
  if (x->p.master_salt_len)                                                                                            \
    x->p.master_salt = x->salt;                                                                                        \
  x->p.sender_id = x->sid;                                                                                             \
  x->p.recipient_id = x->rid;                                                                                          \
  x->p.id_context = x->idctx
  for (size_t i = 0; i < base->master_secret_len; i++) {
    NEWVAR("master-secret");
    x->secret[i] ^= (uint8_t)(1u << (i & 7));
    snprintf(x->desc, sizeof x->desc, "master secret byte %zu bit %zu flipped", i, i & 7);
    n++;
  }
  if (base->master_salt_len) {
    for (size_t i = 0; i < base->master_salt_len; i++) {
      NEWVAR("master-salt");
      x->salt[i] ^= (uint8_t)(0x80u >> (i & 7));
      snprintf(x->desc, sizeof x->desc, "master salt byte %zu flipped", i);
      n++;
    }
    {
      NEWVAR("master-salt");
      x->p.master_salt = NULL;
      x->p.master_salt_len = 0;
      snprintf(x->desc, sizeof x->desc, "master salt removed");
      n++;
    }
  } else {
    NEWVAR("master-salt");
    x->p.master_salt = x->salt;
    x->p.master_salt_len = 8;
    snprintf(x->desc, sizeof x->desc, "master salt added");
    n++;
  }
  for (int which = 0; which < 2; which++) {
    size_t len = which ? base->recipient_id_len : base->sender_id_len;
    const char *nm = which ? "recipient-id" : "sender-id";
    for (size_t i = 0; i < len; i++) {
      NEWVAR(nm);
      (which ? x->rid : x->sid)[i] ^= 0x01;
      snprintf(x->desc, sizeof x->desc, "%s byte %zu flipped", nm, i);
      n++;
    }
    if (len < 7) {
      NEWVAR(nm);
      (which ? x->rid : x->sid)[len] = 0x5c;
      if (which)
        x->p.recipient_id_len = len + 1;
      else
        x->p.sender_id_len = len + 1;
      snprintf(x->desc, sizeof x->desc, "%s one byte longer", nm);
      n++;
    }
    if (len > 0) {
      NEWVAR(nm);
      if (which)
        x->p.recipient_id_len = len - 1;
      else
        x->p.sender_id_len = len - 1;
      snprintf(x->desc, sizeof x->desc, "%s one byte shorter", nm);
      n++;
    }
  }
  if (base->has_id_context) {
    for (size_t i = 0; i < base->id_context_len; i++) {
      NEWVAR("id-context");
      x->idctx[i] ^= 0x10;
      snprintf(x->desc, sizeof x->desc, "id context byte %zu flipped", i);
      n++;
    }
    {
      NEWVAR("id-context");
      x->p.has_id_context = 0;
      x->p.id_context_len = 0;
      snprintf(x->desc, sizeof x->desc, "id context removed");
      n++;
    }
  } else {
    NEWVAR("id-context");
    x->p.has_id_context = 1;
    x->p.id_context_len = 1;
    snprintf(x->desc, sizeof x->desc, "id context added");
    n++;
  }
#undef NEWVAR
  /* drop variants where the two ids coincide (not a valid context) */
  int k = 0;
  for (int i = 0; i < n; i++) {
    if (v[i].p.sender_id_len == v[i].p.recipient_id_len &&
        !memcmp(v[i].p.sender_id, v[i].p.recipient_id, v[i].p.sender_id_len))
      continue;
    if (k != i) {
      v[k] = v[i];
      /* re-point into the moved copy */
      v[k].p.master_secret = v[k].secret;
      if (v[k].p.master_salt)
        v[k].p.master_salt = v[k].salt;
      v[k].p.sender_id = v[k].sid;
      v[k].p.recipient_id = v[k].rid;
      v[k].p.id_context = v[k].idctx;
    }
    k++;
  }
  return k;
}

static void
run_tamper(const struct mcase *m, struct flight *f) {
  char cs[500], what[120], region[60];
  static struct regions rg;
  static uint8_t buf[WIRE_MAX];
  case_str(m, cs, sizeof cs);
  map_regions(&f->wire, &rg);
  const refoscore_ctx_t *rctx = f->is_response ? &G.rc : &G.rs;
  struct endpoint *e = f->is_response ? &G.c : &G.s;
  /* sanity: the untouched datagram is accepted from the fresh state (otherwise every verdict below is vacuous) */
  {
    refoscore_msg_t lmsg;
    uint8_t tok[8];
    size_t tkl;
    fresh_recipient(m, f);
    if (unprotect_with_libcoap(e->s, f->wire.b, f->wire.n, &lmsg, tok, &tkl) != 1) {
      vx_fail("tamper:baseline-rejected", "%s: untouched datagram is not accepted from the restored state", cs);
      return;
    }
  }
  /* every single-bit flip from the first option on */
  for (size_t off = rg.first_opt; off < f->wire.n; off++) {
    region_name(&rg, off, region, sizeof region);
    for (int bit = 0; bit < 8; bit++) {
      memcpy(buf, f->wire.b, f->wire.n);
      buf[off] ^= (uint8_t)(1u << bit);
      snprintf(what, sizeof what, "bit %d of byte %zu (%s, option %u) flipped", bit, off, region, rg.optnum[off]);
      fresh_recipient(m, f);
      vxp_count(13, 1);
      tamper_attempt(cs, f, e, rctx, &f->bind, buf, f->wire.n, region, what);
    }
  }
  /* every truncation length (keeping header + token) */
  for (size_t len = rg.first_opt; len < f->wire.n; len++) {
    snprintf(what, sizeof what, "truncated to %zu of %zu bytes", len, f->wire.n);
    fresh_recipient(m, f);
    vxp_count(12, 1);
    tamper_attempt(cs, f, e, rctx, &f->bind, f->wire.b, len, "truncation", what);
  }
  /* contexts that differ in exactly one parameter */
  static struct ctxvar vars[96];
  /* parameters named from the point of view of the endpoint that decrypts */
  int nv = make_ctx_variants(f->is_response ? &G.pc : &G.ps, vars, 96);
  for (int i = 0; i < nv; i++) {
    struct endpoint alt = {0};
    refoscore_params_t pv;
    refoscore_ctx_t ralt;
    refoscore_reqbind_t bind = f->bind;
    pv = vars[i].p;
    if (refoscore_derive(&pv, &ralt))
      _exit(2);
    if (!ep_build(&alt, &pv, f->is_response ? m->piv_c : m->piv_s, f->is_response)) {
      vx_fail("setup:context-refused", "%s: variant context refused (%s)", cs, vars[i].desc);
      continue;
    }
    snprintf(region, sizeof region, "wrong-context:%s", vars[i].param);
    snprintf(what, sizeof what, "recipient context with %s", vars[i].desc);
    int ready = 1;
    if (f->is_response) {
      /* the other client sends its own request with the same token and then sees the genuine response */
      refoscore_msg_t rq, rq_out;
      struct wire rqw;
      refoscore_msg_init(&rq, CODE(0, 1));
      refoscore_msg_add_opt(&rq, 11, "r", 1);
      if (f->bind.observe)
        refoscore_msg_add_opt(&rq, 6, NULL, 0);
      if (refoscore_protect_request(&ralt, &rq, m->piv_c, &rq_out, &bind))
        _exit(2);
      if (!protect_with_libcoap(alt.s, &rq, COAP_MESSAGE_NON, 0x1234, f->token, f->tkl, 0, &rqw))
        ready = 0;
    }
    if (ready) {
      vxp_count(9, 1);
      tamper_attempt(cs, f, &alt, &ralt, &bind, f->wire.b, f->wire.n, region, what);
    }
    ep_free(&alt);
  }
}

/* ------------------------------------------------------------------------------------------ */
/* spaces                                                                                      */
struct space {
  const char *name;
  int nvec;                 /* leading Appendix C cases */
  const struct ctxspec *ctxs;
  int nctx;
  const uint16_t *subsets;
  int nsub;
  const int *paylens;
  int npay;
  const int *cvs;           /* indices into CODEVARS */
  int ncv;
  const int *pivs;          /* indices into PIVS */
  int npiv;
  int ntkl;                 /* 2: {1, 8}; 1: {8} */
  int tamper;
};

static uint64_t
space_total(const struct space *sp) {
  return (uint64_t)sp->nvec +
         (uint64_t)sp->nctx * sp->npiv * sp->ncv * sp->nsub * sp->npay * sp->ntkl;
}

static uint64_t
mix_hash(const struct wire *w) {
  return vx_fnv(w->b, w->n, VX_FNV0);
}

/* Appendix C vectors driven through libcoap.  0..5: key derivations C.1.1 - C.3.2; 6..10: C.4 - C.8 */
static void
vector_case(int vi) {
  const refoscore_vector_t *vecs;
  (void)refoscore_vectors(&vecs);
  if (vi < 6) {
    /* C.1 / C.2 / C.3 use the client contexts of the request vectors C.4 / C.5 / C.6; odd = the server's mirror */
    refoscore_params_t p, q;
    const refoscore_vector_t *mv = &vecs[vi / 2];
    p = mv->params;
    if (vi & 1) {
      params_mirror(&p, &q);
      p = q;
    }
    refoscore_ctx_t r;
    struct endpoint e;
    char cs[64];
    snprintf(cs, sizeof cs, "RFC 8613 C.%d.%d", vi / 2 + 1, (vi & 1) + 1);
    if (refoscore_derive(&p, &r))
      _exit(2);
    if (!ep_build(&e, &p, 0, !(vi & 1))) {
      vx_fail("setup:context-refused", "%s: libcoap refused the configuration", cs);
      return;
    }
    if (keys_check("endpoint", &e, &r, cs))
      vxp_count(17, 1);
    /* nonce for Partial IV 0 as printed in the RFC */
    {
      cose_encrypt0_t cose[1];
      uint8_t nb[13], rn[13], piv0[1] = {0};
      coap_bin_const_t pv = {1, piv0};
      cose_encrypt0_init(cose);
      cose_encrypt0_set_key_id(cose, ep_osc(&e)->sender_context->sender_id);
      cose_encrypt0_set_partial_iv(cose, &pv);
      oscore_generate_nonce(cose, ep_osc(&e), nb, 13);
      refoscore_nonce(r.sender_id, r.sender_id_len, piv0, 1, r.common_iv, rn);
      if (memcmp(nb, rn, 13))
        vx_fail("protect-mismatch:nonce", "%s: sender nonce for PIV 0 is %s, reference %s", cs, hexs(nb, 13, 13), hexs(rn, 13, 13));
    }
    ep_free(&e);
    return;
  }
  /* message vectors: the RFC's ids are {} / 00 / 01, not the alphabet's; run them with a private pair */
  const refoscore_vector_t *v = &vecs[vi - 6];
  refoscore_params_t pc, ps;
  if (v->is_response) {
    ps = v->params;
    params_mirror(&ps, &pc);
  } else {
    pc = v->params;
    params_mirror(&pc, &ps);
  }
  uint64_t piv_c = v->is_response ? vecs[v->request_vector].piv : v->piv;
  uint64_t piv_s = v->is_response ? v->piv : 0;
  /* install as the cached pair under a spec that no product case uses */
  if (G.valid) {
    ep_free(&G.c);
    ep_free(&G.s);
    G.valid = 0;
  }
  memset(&G.spec, 0xff, sizeof G.spec);
  G.pc = pc;
  G.ps = ps;
  G.piv_c = piv_c;
  G.piv_s = piv_s;
  if (refoscore_derive(&pc, &G.rc) || refoscore_derive(&ps, &G.rs))
    _exit(2);
  if (!ep_build(&G.c, &pc, piv_c, 1) || !ep_build(&G.s, &ps, piv_s, 0)) {
    vx_fail("setup:context-refused", "RFC 8613 %s: libcoap refused the configuration", v->name);
    return;
  }
  G.valid = 1;
  refoscore_msg_t orig, ref_out, lmsg;
  refoscore_reqbind_t bind;
  uint8_t type, tok[8], ltok[8];
  uint16_t mid;
  size_t tkl, ltkl;
  struct wire w;
  char cs[64];
  snprintf(cs, sizeof cs, "RFC 8613 %s", v->name);
  if (!v->is_response) {
    refoscore_coap_decode(v->unprotected, v->unprotected_len, &orig, &type, &mid, tok, &tkl);
    refoscore_protect_request(&G.rc, &orig, piv_c, &ref_out, &bind);
    if (!protect_with_libcoap(G.c.s, &orig, type, mid, tok, tkl, 0, &w)) {
      vx_fail("protect-refused:request", "%s", cs);
      return;
    }
    compare_protected(cs, &w, &ref_out, 0, type, mid, tok, tkl, 1);
    if (w.n != v->protected_len || memcmp(w.b, v->protected_, w.n))
      vx_fail("protect-mismatch:rfc8613-vector", "%s: %s, RFC prints %s", cs, hexs(w.b, w.n, 60),
              hexs(v->protected_, v->protected_len, 60));
    if (unprotect_with_libcoap(G.s.s, v->protected_, v->protected_len, &lmsg, ltok, &ltkl) != 1)
      vx_fail("roundtrip:libcoap:rejected", "%s: server rejects the RFC's protected request", cs);
    else if (compare_recovered(cs, "libcoap", &lmsg, &orig, 0))
      vxp_count(17, 1);
    return;
  }
  /* response vectors: client sends the request vector, server answers */
  const refoscore_vector_t *rq = &vecs[v->request_vector];
  refoscore_msg_t rqm;
  refoscore_coap_decode(rq->unprotected, rq->unprotected_len, &rqm, &type, &mid, tok, &tkl);
  refoscore_protect_request(&G.rc, &rqm, piv_c, &ref_out, &bind);
  if (!protect_with_libcoap(G.c.s, &rqm, type, mid, tok, tkl, 0, &w) ||
      unprotect_with_libcoap(G.s.s, w.b, w.n, &lmsg, ltok, &ltkl) != 1) {
    vx_fail("roundtrip:libcoap:rejected", "%s: request exchange failed", cs);
    return;
  }
  refoscore_coap_decode(v->unprotected, v->unprotected_len, &orig, &type, &mid, tok, &tkl);
  if (!protect_with_libcoap(G.s.s, &orig, type, mid, tok, tkl, v->has_own_piv, &w)) {
    vx_fail("protect-refused:response", "%s", cs);
    return;
  }
  refoscore_protect_response(&G.rs, &bind, &orig, v->has_own_piv, piv_s, &ref_out);
  compare_protected(cs, &w, &ref_out, 1, type, mid, tok, tkl, 0);
  /* type and message id of a piggybacked response are changed by libcoap (separate response): compare the rest */
  if (w.n != v->protected_len || w.b[1] != v->protected_[1] || memcmp(w.b + 4, v->protected_ + 4, w.n - 4))
    vx_fail("protect-mismatch:rfc8613-vector", "%s: %s, RFC prints %s", cs, hexs(w.b, w.n, 60),
            hexs(v->protected_, v->protected_len, 60));
  if (unprotect_with_libcoap(G.c.s, v->protected_, v->protected_len, &lmsg, ltok, &ltkl) != 1)
    vx_fail("roundtrip:libcoap:rejected", "%s: client rejects the RFC's protected response", cs);
  else if (compare_recovered(cs, "libcoap", &lmsg, &orig, 1))
    vxp_count(17, 1);
}

static void
one_case(uint64_t idx, void *arg) {
  const struct space *sp = arg;
  static struct flight f;
  if (idx < (uint64_t)sp->nvec) {
    vector_case((int)idx);
    return;
  }
  uint64_t i = idx - (uint64_t)sp->nvec;
  struct mcase m;
  /* fastest digit first: token, payload, subset, code variant, piv, context */
  int tk = (int)(i % sp->ntkl);
  i /= sp->ntkl;
  int pl = (int)(i % sp->npay);
  i /= sp->npay;
  int su = (int)(i % sp->nsub);
  i /= sp->nsub;
  int cv = (int)(i % sp->ncv);
  i /= sp->ncv;
  int pv = (int)(i % sp->npiv);
  i /= sp->npiv;
  int cx = (int)i;
  m.ctx = &sp->ctxs[cx];
  m.cv = &CODEVARS[sp->cvs[cv]];
  m.piv_c = PIVS[sp->pivs[pv]];
  m.piv_s = PIVS[sp->pivs[(pv + sp->npiv / 2) % sp->npiv]]; /* the responder's own number differs from the request's */
  m.subset = sp->subsets[su];
  m.paylen = sp->paylens[pl];
  m.tkl = sp->ntkl == 2 ? (tk ? 8 : 1) : 8;
  if (m.cv->is_response && m.piv_c > PIV_LIBCOAP_MAX)
    m.piv_c = PIV_LIBCOAP_MAX - 1; /* libcoap cannot send the request at 2^40-2, so there would be nothing to answer */
  run_exchange(&m, &f, 0, NULL, 0, COAP_MESSAGE_NON, COAP_MESSAGE_NON, 0x1234);
  if (f.ok)
    vxp_distinct(mix_hash(&f.wire));
  if (idx % 250007 == 11 || vx_in_replay()) {
    char cs[500];
    case_str(&m, cs, sizeof cs);
    vxp_sample("idx=%llu %s -> %s protected=%s", (unsigned long long)idx, cs, f.ok ? "ok" : "FAILED", hexs(f.wire.b, f.wire.n, 64));
  }
  if (sp->tamper && f.ok)
    run_tamper(&m, &f);
  vxp_count(14, (uint64_t)g_sent);
  g_sent = 0;
  if (g_null_memcpy) {
    vxp_count(18, (uint64_t)g_null_memcpy);
    vx_fail("ubsan:memcpy-null-len0:oscore_cbor_put_bytes",
            "oscore_cbor_put_bytes(buf, size, NULL, 0) calls memcpy(dst, NULL, 0) (src/oscore/oscore_cbor.c:109); "
            "reached from oscore_prepare_e_aad / oscore_prepare_aad on every protect and unprotect");
    g_null_memcpy = 0;
  }
  if (g_null_memcpy_nonce) {
    vxp_count(19, (uint64_t)g_null_memcpy_nonce);
    vx_fail("ubsan:memcpy-null-len0:oscore_generate_nonce",
            "oscore_generate_nonce() with an absent kid or Partial IV (s == NULL, length 0) calls memcpy(dst, NULL, 0) "
            "(src/oscore/oscore.c:349/352); reached from coap_oscore_decrypt_pdu for an OSCORE option without kid flag");
    g_null_memcpy_nonce = 0;
  }
  if (g_null_memcpy_bin) {
    vxp_count(20, (uint64_t)g_null_memcpy_bin);
    vx_fail("ubsan:memcpy-null-len0:coap_new_bin_const",
            "coap_new_bin_const(NULL, 0) calls memcpy(dst, NULL, 0) (src/coap_str.c:114); reached from "
            "coap_oscore_decrypt_pdu storing the absent Partial IV of a request in the association");
    g_null_memcpy_bin = 0;
  }
}

static int ALL_CV[NCODEVAR], ALL_PIV[NPIV];
static const int CORE_PAY[] = {0, 17, 1024};
static const int TAMPER_PAY_Q[] = {0, 1, 17};
static const int TAMPER_PAY_T[] = {0, 1, 17};
static const int TAMPER_CV[] = {0, 1, 4, 7, 8, 10, 11}; /* GET POST FETCH | 2.05 4.04 (no piv) | 2.04 2.05 (own piv) */
static const int TAMPER_PIV_Q[] = {0, 5, 8};            /* 0, 65536, 2^40-3 */
static struct ctxspec TAMPER_CTX_Q[40];
static int NTAMPER_CTX_Q;
static const int TAMPER_PIV_T[] = {0, 5, 7, 8}; /* 0, 65536, 2^32, 2^40-3 */
static const uint16_t TAMPER_SUBSETS[] = {
    0,
    1u << 0 | 1u << 1,            /* Uri-Host + Uri-Path */
    1u << ITEM_OBSERVE,           /* Observe */
    1u << 0 | 1u << 9,            /* Uri-Host + Proxy-Scheme */
    1u << ITEM_OBSERVE | 1u << 9, /* Observe + Proxy-Scheme */
    1u << 1 | 1u << 14,           /* Uri-Path + unknown */
};

static void
run_space(struct space *sp, double budget) {
  struct vxp_stats st;
  struct vxp_config c = {.space = sp->name, .total = space_total(sp), .budget_s = budget};
  if (sp->tamper)
    c.chunk = 8;
  vxp_enumerate(&c, one_case, sp, &st);
  vx_ev_add_states((long long)st.done, (long long)st.done, (long long)st.done);
}

/* ------------------------------------------------------------------------------------------ */
/* space "proxy-uri": RFC 8613 4.1.3.3 -- a request with Proxy-Uri is protected as if the application had given Proxy-Scheme,
 * Uri-Host, Uri-Port (class U, outer) and Uri-Path / Uri-Query (class E, inner).  libcoap gets the message with the Proxy-Uri
 * option, the reference the split form (split by this table, not by code).  Hop-Limit 16 is on both sides, as libcoap adds it to any
 * message with a proxy option. */
struct pucase {
  const char *uri, *scheme, *host;
  int port; /* 0: the scheme's default, no Uri-Port */
  const char *path[3], *query[2];
};
static const struct pucase PU[] = {
    {"coap://ex.org/a", "coap", "ex.org", 0, {"a"}, {0}},
    {"coap://h.example.org/tv1/x?k=v", "coap", "h.example.org", 0, {"tv1", "x"}, {"k=v"}},
    {"coap://example.com:5684/a/b", "coap", "example.com", 5684, {"a", "b"}, {0}},
    {"coaps://a-rather-long-host-name.example.net:5683/p?q=1&r=2", "coaps", "a-rather-long-host-name.example.net", 5683, {"p"}, {"q=1", "r=2"}},
    {"coap://10.0.0.1:61616/sensors/temp/outside", "coap", "10.0.0.1", 61616, {"sensors", "temp", "outside"}, {0}},
    {"coaps://h/", "coaps", "h", 0, {0}, {0}},
};
#define NPU ((int)(sizeof PU / sizeof PU[0]))
static const struct ctxspec PU_CTX[] = {{1, 1, 0, 0, 16}, {0, 1, 8, 8, 16}, {3, 7, 1, 0, 32}};
#define NPU_CTX 3
static void
proxy_case(uint64_t idx, void *arg) {
  (void)arg;
  const struct pucase *u = &PU[idx % NPU];
  const struct ctxspec *cx = &PU_CTX[(idx / NPU) % NPU_CTX];
  int con = (int)(idx / NPU / NPU_CTX) % 2, paylen = (idx / NPU / NPU_CTX / 2) % 2 ? 5 : 0;
  static const uint8_t hl[1] = {16};
  char cs[300];
  snprintf(cs, sizeof cs, "proxy-uri %s ctx{sid=%d rid=%d idctx=%d} %s paylen=%d", u->uri, cx->slen, cx->rlen, cx->idctx, con ? "CON" : "NON", paylen);
  if (!pair_get(cx, 5, 5))
    return;
  refoscore_msg_t split, prox, ref_out, lmsg;
  refoscore_reqbind_t bind;
  refoscore_msg_init(&split, paylen ? CODE(0, 2) : CODE(0, 1));
  refoscore_msg_init(&prox, paylen ? CODE(0, 2) : CODE(0, 1));
  refoscore_msg_add_opt(&split, 3, u->host, strlen(u->host));
  if (u->port) {
    uint8_t pv[2] = {(uint8_t)(u->port >> 8), (uint8_t)u->port};
    refoscore_msg_add_opt(&split, 7, pv, 2);
  }
  for (int i = 0; i < 3 && u->path[i]; i++)
    refoscore_msg_add_opt(&split, 11, u->path[i], strlen(u->path[i]));
  for (int i = 0; i < 2 && u->query[i]; i++)
    refoscore_msg_add_opt(&split, 15, u->query[i], strlen(u->query[i]));
  refoscore_msg_add_opt(&split, REFOSCORE_OPT_HOP_LIMIT, hl, 1);
  refoscore_msg_add_opt(&split, REFOSCORE_OPT_PROXY_SCHEME, u->scheme, strlen(u->scheme));
  refoscore_msg_add_opt(&prox, REFOSCORE_OPT_HOP_LIMIT, hl, 1);
  refoscore_msg_add_opt(&prox, 35, u->uri, strlen(u->uri));
  refoscore_msg_set_payload(&split, PAYLOAD, (size_t)paylen);
  refoscore_msg_set_payload(&prox, PAYLOAD, (size_t)paylen);
  static struct wire w;
  uint8_t type = con ? 0 : 1, tok[8];
  size_t tkl;
  vxp_count(26, 1);
  if (refoscore_protect_request(&G.rc, &split, 5, &ref_out, &bind)) {
    fprintf(stderr, "harness: reference cannot protect %s\n", cs);
    _exit(2);
  }
  if (!protect_with_libcoap(G.c.s, &prox, type, 0x4d4d, TOKEN8, 2, 0, &w)) {
    vx_fail("proxy-uri:protect-refused", "%s: coap_oscore_new_pdu_encrypted_lkd returned NULL", cs);
    return;
  }
  if (!compare_protected(cs, &w, &ref_out, 0, type, 0x4d4d, TOKEN8, 2, 1))
    return;
  int r = unprotect_with_libcoap(G.s.s, w.b, w.n, &lmsg, tok, &tkl);
  if (r != 1) {
    vx_fail("proxy-uri:roundtrip:rejected", "%s: mirrored libcoap context rejects the genuine request (%d)", cs, r);
    return;
  }
  if (!compare_recovered(cs, "libcoap", &lmsg, &split, 0))
    return;
  vxp_count(27, 1);
  vxp_distinct(vx_fnv(w.b, w.n, VX_FNV0));
}

int
main(int argc, char **argv) {
  vx_main_init(argc, argv, "C14");
  for (int i = 0; i < 1024; i++)
    PAYLOAD[i] = (uint8_t)(i * 7 + 3);
  for (int i = 0; i < NCODEVAR; i++)
    ALL_CV[i] = i;
  for (int i = 0; i < NPIV; i++)
    ALL_PIV[i] = i;
  build_subsets();
  if (build_ctxs() != NCTX) {
    fprintf(stderr, "context table size\n");
    return 2;
  }
  /* the reference has to reproduce RFC 8613 Appendix C before it may judge anything */
  int checks = 0;
  int nvec = refoscore_selftest(&checks);
  if (nvec != 11) {
    fprintf(stderr, "HARNESS ERROR: refoscore self-test failed at vector %d\n", -nvec);
    return 2;
  }
  coap_startup();
  coap_set_log_level(getenv("C14_LOG") ? COAP_LOG_OSCORE : COAP_LOG_EMERG);
  probe_null_memcpy();

  int thorough = vx_is_thorough();
  int k = thorough ? 3 : 2;
  struct space msg_major = {"appendix-c+msg-major", 11, thorough ? CORE_CTX : CORE_CTX_Q, thorough ? NCORE_CTX : NCORE_CTX_Q, SUBSETS, NSUB[k], PAYLENS, NPAYLEN,
                            ALL_CV, NCODEVAR, ALL_PIV, NPIV, 2, 0};
  struct space ctx_major = {"ctx-major", 0, CTXS, NCTX, CORE_SUBSETS, NCORE_SUBSETS, CORE_PAY, 3,
                            ALL_CV, NCODEVAR, ALL_PIV, NPIV, 1, 0};
  struct space full = {"full-product", 0, CTXS, NCTX, SUBSETS, NSUB[k], PAYLENS, NPAYLEN,
                       ALL_CV, NCODEVAR, ALL_PIV, NPIV, 2, 0};
  for (int a = 0; a < 4; a++)
    for (int b = 0; b < 4; b++)
      if (IDLEN[a] || IDLEN[b]) {
        /* every id length pair once, with and without ID Context alternating */
        TAMPER_CTX_Q[NTAMPER_CTX_Q] = (struct ctxspec){IDLEN[a], IDLEN[b], NTAMPER_CTX_Q & 1 ? 8 : 0, 8, 16};
        NTAMPER_CTX_Q++;
      }
  TAMPER_CTX_Q[NTAMPER_CTX_Q++] = (struct ctxspec){0, 1, 8, 8, 16};
  TAMPER_CTX_Q[NTAMPER_CTX_Q++] = (struct ctxspec){1, 1, 1, 0, 32};
  TAMPER_CTX_Q[NTAMPER_CTX_Q++] = (struct ctxspec){3, 7, 1, 0, 32};
  struct space tamper_q = {"tamper", 0, TAMPER_CTX_Q, NTAMPER_CTX_Q,
                           TAMPER_SUBSETS, (int)(sizeof TAMPER_SUBSETS / sizeof TAMPER_SUBSETS[0]), TAMPER_PAY_Q, 3,
                           TAMPER_CV, (int)(sizeof TAMPER_CV / sizeof TAMPER_CV[0]), TAMPER_PIV_Q, 3, 1, 1};
  struct space tamper_t = {"tamper", 0, CTXS, NCTX, TAMPER_SUBSETS,
                           (int)(sizeof TAMPER_SUBSETS / sizeof TAMPER_SUBSETS[0]), TAMPER_PAY_T, 3,
                           TAMPER_CV, (int)(sizeof TAMPER_CV / sizeof TAMPER_CV[0]), TAMPER_PIV_T, 4, 1, 1};
  struct space *tamper = thorough ? &tamper_t : &tamper_q;

  if (vxp_replay_if_match(msg_major.name, one_case, &msg_major) || vxp_replay_if_match(ctx_major.name, one_case, &ctx_major) ||
      vxp_replay_if_match(full.name, one_case, &full) || vxp_replay_if_match(tamper->name, one_case, tamper))
    return 0;
  if (vxp_replay_if_match("proxy-uri", proxy_case, NULL))
    return 0;
  if (vx_replay_path()) {
    fprintf(stderr, "replay file does not match any space\n");
    return 2;
  }

#ifdef C14_FULL
  /* second stage (variant "fast", thorough only): the complete product */
  (void)tamper;
  if (thorough)
    run_space(&full, 0);
#else
  /* each space gets its share of the wall budget, so that a loaded machine shortens all of them instead of
   * starving the last one */
  double B = vx_time_left();
  run_space(&msg_major, 0.45 * B);
  run_space(&ctx_major, 0.10 * B);
  run_space(tamper, 0);
  {
    struct vxp_config pc = {.space = "proxy-uri", .total = (uint64_t)NPU * NPU_CTX * 2 * 2, .chunk = 4};
    struct vxp_stats pst;
    vxp_enumerate(&pc, proxy_case, NULL, &pst);
    vx_ev_int("proxy_uri_cases", (long long)vxp_counter(26));
    vx_ev_int("proxy_uri_roundtrips_ok", (long long)vxp_counter(27));
  }
#endif

  vx_ev_add_evals((long long)(vxp_counter(0) + vxp_counter(1) + vxp_counter(4)), (long long)vxp_distinct_count());
  vx_ev_int("ref_selftest_vectors", nvec);
  vx_ev_int("ref_selftest_checks", checks);
  vx_ev_int("appendix_c_vectors_through_libcoap_ok", (long long)vxp_counter(17));
  vx_ev_int("request_cases", (long long)vxp_counter(0));
  vx_ev_int("response_cases", (long long)vxp_counter(1));
  vx_ev_int("roundtrips_ok", (long long)vxp_counter(3));
  vx_ev_int("protect_refused_above_2^40-3", (long long)vxp_counter(2));
  vx_ev_int("tamper_attempts", (long long)vxp_counter(4));
  vx_ev_int("tamper_bitflips", (long long)vxp_counter(13));
  vx_ev_int("tamper_truncations", (long long)vxp_counter(12));
  vx_ev_int("tamper_wrong_contexts", (long long)vxp_counter(9));
  vx_ev_int("tamper_rejected_by_oscore", (long long)vxp_counter(5));
  vx_ev_int("tamper_dropped_by_coap_parser", (long long)vxp_counter(8));
  vx_ev_int("tamper_no_oscore_option_left", (long long)vxp_counter(7));
  vx_ev_int("tamper_accepted_as_rfc_allows", (long long)vxp_counter(6));
  vx_ev_int("tamper_rejected_though_reference_accepts", (long long)vxp_counter(11));
  vx_ev_int("rejected_request_reply_4.00", (long long)vxp_counter(21));
  vx_ev_int("rejected_request_reply_4.01", (long long)vxp_counter(22));
  vx_ev_int("rejected_request_reply_4.02", (long long)vxp_counter(23));
  vx_ev_int("rejected_request_reply_other", (long long)vxp_counter(24));
  vx_ev_int("rejected_request_no_reply", (long long)vxp_counter(25));
  vx_ev_int("datagrams_libcoap_tried_to_send", (long long)vxp_counter(14));
  vx_ev_int("ubsan_probe_oscore_cbor_put_bytes_null_len0_dies", g_ub_put_bytes);
  vx_ev_int("ubsan_probe_oscore_generate_nonce_null_len0_dies", g_ub_nonce);
  vx_ev_int("ubsan_probe_coap_new_bin_const_null_len0_dies", g_ub_bin_const);
  vx_ev_int("memcpy_null_len0_calls_forwarded", (long long)vxp_counter(18));
  vx_ev_int("notification_observe_from_response_piv", (long long)vxp_counter(15));
  vx_ev_int("notification_observe_from_request_piv", (long long)vxp_counter(16));
  vx_ev_rule("case = (security context, client/server sender sequence number, code variant incl. response PIV mode, "
             "option subset, payload length, token length); every case is protected by libcoap and by refoscore and "
             "compared byte for byte, then unprotected by a mirrored libcoap context and by refoscore; distinct = "
             "distinct protected datagrams; tamper cases add every bit flip from the first option on, every "
             "truncation and every one-parameter-off context, verdict by refoscore");
  vx_ev_assumption("AES-CCM-16-64-128 / HKDF-SHA-256 only (the only pair libcoap's GnuTLS backend and RFC 8613 mandate)");
  vx_ev_assumption("rfc8613_b_1_2 (Echo challenge) and Appendix B.2 switched off; replay window state is reset before "
                   "every decrypt (replay protection is property C15)");
  vx_ev_assumption("Observe value of a notification and presence of a Partial IV in a non-Observe response are free in "
                   "RFC 8613 and normalised; libcoap's sender refuses sequence numbers above 2^40-3, there the "
                   "reference's datagram is used for the receive direction");
  vx_ev_assumption("header, message id and token are not covered by OSCORE and are not tampered with; datagrams whose "
                   "OSCORE option disappears through a flip are not handed to coap_oscore_decrypt_pdu (as coap_dispatch does)");
  return vx_finish();
}
