/* C16 -- URI text <-> CoAP options: exhaustive in-process string enumeration (vxp) against ref/refuri.c.
 *
 * Spaces (see DESIGN.md "### C16"):
 *   a   coap_split_uri / coap_split_proxy_uri on prefix x tail, tail in Sigma_u^{<=5|6}
 *   a2  explicit port numbers (0..70000, leading zeros, wrap-around values) and all eight schemes x default /
 *       neighbouring ports
 *   b   coap_split_path / coap_path_into_optlist / coap_split_query / coap_query_into_optlist /
 *       coap_uri_into_optlist on Sigma_p^{<=5|6|7}, every output buffer size 0..needed+1
 *   b2  the same on Sigma_d^{<=6|7|8}, Sigma_d = {% 2 5 e E / . a}: strings that can be decoded twice
 *   c   segment lists -> PDU -> coap_get_uri_path / coap_get_query -> string -> (b) functions -> list,
 *       and injectivity of list -> string over the whole enumerated set (second exact pass, c-inj)
 *
 * Overreads.  Every call runs on two copies of the input:
 *   1. a copy that ends exactly at a PROT_NONE page ("guard copy"): a read past the end faults, the
 *      SIGSEGV handler longjmps out and the case goes on, so that the ~10^4..10^6 inputs that trigger one
 *      known overread do not kill 10^4 workers (the machinery gives up after 200 crashes);
 *   2. an exact-size malloc(len) copy (no terminator) under ASan, unless the guard copy already showed an
 *      overread.  For the shortest inputs (C16_CRASH_LEN) the malloc run is done nevertheless at the end of
 *      the case so that the genuine ASan report pins the signature `asan:heap-buffer-overflow:<frame>`.
 *   Guard-copy detections are filed under the very signature ASan prints for the same access: kind
 *   heap-buffer-overflow, innermost frame (inlines resolved with addr2line -i, as ASan's symbolizer does).
 */
#ifndef _GNU_SOURCE
#define _GNU_SOURCE
#endif
#include <coap3/coap_internal.h>
#include "vx.h"
#include "refuri.h"
#include <setjmp.h>
#include <signal.h>
#include <stdarg.h>
#include <stdio.h>
#include <stdlib.h>
#include <string.h>
#include <sys/mman.h>
#include <sys/wait.h>
#include <ucontext.h>
#include <unistd.h>

#if defined(__SANITIZE_ADDRESS__)
#define C16_ASAN 1
#else
#define C16_ASAN 0
#endif

#if !C16_ASAN
/* Linked with --wrap=malloc in the non-ASan stage: fresh heap memory reads 0xBE exactly as under ASan
 * (malloc_fill_byte), so that a string libcoap leaves partly unwritten looks the same in every process and
 * in both variants, and never happens to look like valid text. */
void *__real_malloc(size_t n);
void *__wrap_malloc(size_t n);
void *
__wrap_malloc(size_t n) {
  void *p = __real_malloc(n);
  if (p && n)
    memset(p, 0xBE, n < 4096 ? n : 4096);
  return p;
}
#endif

/* ------------------------------------------------------------------------------------------ */
/* printing                                                                                   */
static const char *
show(const uint8_t *s, size_t n) {
  static char ring[12][320];
  static int k;
  char *b = ring[k++ % 12];
  size_t o = 0;
  b[o++] = '"';
  for (size_t i = 0; i < n && o + 8 < sizeof ring[0]; i++) {
    uint8_t c = s[i];
    if (c == '"' || c == '\\') {
      b[o++] = '\\';
      b[o++] = (char)c;
    } else if (c >= 0x20 && c < 0x7f)
      b[o++] = (char)c;
    else
      o += (size_t)snprintf(b + o, 6, "\\x%02x", c);
  }
  b[o++] = '"';
  b[o] = 0;
  return b;
}
static const char *
show_list(const struct ref_seglist *l) {
  static char ring[6][400];
  static int k;
  char *b = ring[k++ % 6];
  size_t o = 0;
  b[o++] = '[';
  for (int i = 0; i < l->n && o + 80 < sizeof ring[0]; i++)
    o += (size_t)snprintf(b + o, sizeof ring[0] - o, "%s%s", i ? "," : "", show(l->seg[i], l->len[i]));
  b[o++] = ']';
  b[o] = 0;
  return b;
}

/* ------------------------------------------------------------------------------------------ */
/* failures: one report per signature and process is enough (indices only grow inside a worker,  */
/* the machinery keeps the lowest index per signature)                                           */
static uint64_t g_seen[256];
static int g_nseen;
static void failx(const char *sig, const char *fmt, ...) __attribute__((format(printf, 2, 3)));
static void
failx(const char *sig, const char *fmt, ...) {
  uint64_t h = vx_fnv(sig, strlen(sig), VX_FNV0);
  if (!vx_in_replay())
    for (int i = 0; i < g_nseen; i++)
      if (g_seen[i] == h)
        return;
  char b[600];
  va_list ap;
  va_start(ap, fmt);
  vsnprintf(b, sizeof b, fmt, ap);
  va_end(ap);
  vx_fail(sig, "%s", b);
  if (g_nseen < 256)
    g_seen[g_nseen++] = h;
}

/* ------------------------------------------------------------------------------------------ */
/* guard copy + SIGSEGV recovery                                                               */
static uint8_t *g_guard; /* [one RW page][one PROT_NONE page] */
static size_t g_page;
static sigjmp_buf g_jb;
static volatile sig_atomic_t g_probing;
static volatile uintptr_t g_fault_pc, g_fault_off;
static struct sigaction g_old_segv, g_old_bus;

static void
on_fault(int sig, siginfo_t *si, void *ucv) {
  uintptr_t a = (uintptr_t)si->si_addr, g = (uintptr_t)g_guard + g_page;
  if (g_probing && a >= g && a < g + g_page) {
    ucontext_t *uc = ucv;
    g_fault_pc = (uintptr_t)uc->uc_mcontext.gregs[REG_RIP];
    g_fault_off = a - g;
    g_probing = 0;
    siglongjmp(g_jb, 1);
  }
  struct sigaction *old = sig == SIGBUS ? &g_old_bus : &g_old_segv;
  if (old->sa_flags & SA_SIGINFO) {
    old->sa_sigaction(sig, si, ucv);
    return;
  }
  if (old->sa_handler != SIG_DFL && old->sa_handler != SIG_IGN) {
    old->sa_handler(sig);
    return;
  }
  signal(sig, SIG_DFL); /* re-executes the faulting instruction and dies the default way */
}

static void
guard_setup(void) {
  g_page = (size_t)sysconf(_SC_PAGESIZE);
  g_guard = mmap(NULL, 2 * g_page, PROT_READ | PROT_WRITE, MAP_PRIVATE | MAP_ANONYMOUS, -1, 0);
  if (g_guard == MAP_FAILED || mprotect(g_guard + g_page, g_page, PROT_NONE) != 0) {
    perror("guard mmap");
    exit(2);
  }
  struct sigaction sa;
  memset(&sa, 0, sizeof sa);
  sa.sa_sigaction = on_fault;
  sa.sa_flags = SA_SIGINFO | SA_NODEFER;
  sigemptyset(&sa.sa_mask);
  sigaction(SIGSEGV, &sa, &g_old_segv);
  sigaction(SIGBUS, &sa, &g_old_bus);
}

/* innermost function (inlines resolved) at pc, as ASan's symbolizer would print it; "" if unknown */
static const char *
symbolize(uintptr_t pc) {
  static struct {
    uintptr_t pc;
    char name[80];
  } cache[32];
  static int n;
  for (int i = 0; i < n; i++)
    if (cache[i].pc == pc)
      return cache[i].name;
  char cmd[700], line[200] = "";
  /* through /proc/<pid>/exe: still readable when a concurrent build has already unlinked the executable */
  snprintf(cmd, sizeof cmd, "addr2line -f -i -e /proc/%d/exe 0x%lx 2>/dev/null", (int)getpid(), (unsigned long)pc);
  FILE *p = popen(cmd, "r");
  if (p) {
    if (!fgets(line, sizeof line, p))
      line[0] = 0;
    pclose(p);
  }
  line[strcspn(line, "\r\n")] = 0;
  if (line[0] == '?' || strchr(line, ' '))
    line[0] = 0;
  int slot = n < 32 ? n++ : 31;
  cache[slot].pc = pc;
  snprintf(cache[slot].name, sizeof cache[slot].name, "%s", line);
  return cache[slot].name;
}

/* A libcoap call under test: reads `in[0..len)`, stores self-contained results in ctx unless probe != 0
 * (then it only has to release what it allocated). */
typedef void (*call_fn)(void *ctx, const uint8_t *in, size_t len, int probe);

static struct {
  int set;
  call_fn fn;
  void *ctx;
  uint8_t in[128];
  size_t len;
} g_pending; /* first overreading call of the current case, to be re-run on the malloc copy */
static int g_crash_allowed;
static int g_skip_heap_run; /* fast stage: nothing watches the malloc copy, the guard copy is the run */

static void
heap_run(call_fn fn, void *ctx, const uint8_t *src, size_t len) {
  uint8_t *h = malloc(len); /* exact size, no terminator */
  if (len)
    memcpy(h, src, len);
  fn(ctx, h, len, 0);
  free(h);
}

/* 1: ctx holds the results; 0: the call read past the end of its input (reported, ctx invalid) */
static int
run_call(const char *api, call_fn fn, void *ctx, const uint8_t *src, size_t len) {
  uint8_t *g = g_guard + g_page - len;
  if (len)
    memcpy(g, src, len);
  g_probing = 1;
  if (sigsetjmp(g_jb, 0) == 0) {
    fn(ctx, g, len, g_skip_heap_run ? 0 : 1);
    g_probing = 0;
  } else {
    const char *fr = symbolize(g_fault_pc);
    char sig[200];
    if (fr[0])
      snprintf(sig, sizeof sig, "asan:heap-buffer-overflow:%s", fr);
    else
      snprintf(sig, sizeof sig, "overread:%s", api);
    vxp_count(31, 1);
    char where[100];
    if (fr[0])
      snprintf(where, sizeof where, "%s", fr);
    else
      snprintf(where, sizeof where, "pc=0x%lx, not symbolized", (unsigned long)g_fault_pc);
    failx(sig, "%s(%s, len=%zu) reads input[len+%lu] (READ past the end of the exact-size input, in %s)", api,
          show(src, len), len, (unsigned long)g_fault_off, where);
    if (!g_pending.set && len <= sizeof g_pending.in) {
      g_pending.set = 1;
      g_pending.fn = fn;
      g_pending.ctx = ctx;
      memcpy(g_pending.in, src, len);
      g_pending.len = len;
    }
    return 0;
  }
  if (!g_skip_heap_run)
    heap_run(fn, ctx, src, len);
  return 1;
}

static void
case_begin(int crash_allowed) {
  g_pending.set = 0;
  g_crash_allowed = crash_allowed;
}
static void
case_end(void) {
  if (g_pending.set && g_crash_allowed && C16_ASAN) {
    fflush(NULL);
    heap_run(g_pending.fn, g_pending.ctx, g_pending.in, g_pending.len); /* ASan aborts here */
  }
  g_pending.set = 0;
}

/* ------------------------------------------------------------------------------------------ */
/* the libcoap calls under test, each with a self-contained result                             */
static const char *const FN_SPLIT_URI = "coap_split_uri";
static const char *const FN_SPLIT_PROXY = "coap_split_proxy_uri";
static const char *const FN_SPLIT_PATH = "coap_split_path";
static const char *const FN_PATH_OPTLIST = "coap_path_into_optlist";
static const char *const FN_SPLIT_QUERY = "coap_split_query";
static const char *const FN_QUERY_OPTLIST = "coap_query_into_optlist";
static const char *const FN_URI_OPTLIST = "coap_uri_into_optlist";

static coap_address_t g_dst; /* 192.0.2.1:5683 -- never spelled by any enumerated host */

struct optrec {
  uint16_t num;
  uint16_t len;
  uint8_t val[288];
};
#define MAXREC 40
struct optres {
  int n, overflow;
  struct optrec o[MAXREC];
};
static void
chain_to_optres(const coap_optlist_t *chain, struct optres *r) {
  r->n = 0;
  r->overflow = 0;
  for (const coap_optlist_t *o = chain; o; o = o->next) {
    if (r->n >= MAXREC || o->length > sizeof r->o[0].val) {
      r->overflow = 1;
      return;
    }
    r->o[r->n].num = o->number;
    r->o[r->n].len = (uint16_t)o->length;
    memcpy(r->o[r->n].val, o->data, o->length);
    r->n++;
  }
}

/* coap_split_uri / coap_split_proxy_uri (+ coap_uri_into_optlist on the result) */
struct span {
  size_t off, len;
  int outside; /* the span does not lie inside the input */
};
struct ctx_uri {
  int proxy, want_opts;
  int rc, scheme;
  unsigned port;
  struct span host, path, query;
  int opt_rc; /* -1 not called */
  struct optres opts;
};
static void
span_of(struct span *sp, const coap_str_const_t *s, const uint8_t *in, size_t len) {
  sp->len = s->length;
  sp->off = 0;
  sp->outside = 0;
  if (s->length == 0)
    return;
  if (!s->s || s->s < in || s->s > in + len || s->length > (size_t)(in + len - s->s))
    sp->outside = 1;
  else
    sp->off = (size_t)(s->s - in);
}
static void
call_uri(void *cv, const uint8_t *in, size_t len, int probe) {
  struct ctx_uri *c = cv;
  coap_uri_t uri;
  coap_optlist_t *chain = NULL;
  int orc = -1;
  int rc = c->proxy ? coap_split_proxy_uri(in, len, &uri) : coap_split_uri(in, len, &uri);
  if (rc == 0 && c->want_opts)
    orc = coap_uri_into_optlist(&uri, &g_dst, &chain, 1);
  if (!probe) {
    c->rc = rc;
    c->opt_rc = orc;
    c->opts.n = 0;
    c->opts.overflow = 0;
    if (rc == 0) {
      c->scheme = (int)uri.scheme;
      c->port = uri.port;
      span_of(&c->host, &uri.host, in, len);
      span_of(&c->path, &uri.path, in, len);
      span_of(&c->query, &uri.query, in, len);
      chain_to_optres(chain, &c->opts);
    }
  }
  coap_delete_optlist(chain);
}

/* coap_split_path / coap_split_query into an exact-size output buffer */
struct ctx_split {
  int query;
  size_t size;
  int ret;
  size_t outlen;
  int overrun; /* bytes behind the buffer changed (non-ASan builds; ASan aborts instead) */
  uint8_t out[640];
};
#define CANARY 16
static void
call_split(void *cv, const uint8_t *in, size_t len, int probe) {
  struct ctx_split *c = cv;
  size_t size = c->size, bl = size;
#if C16_ASAN
  uint8_t *buf = malloc(size);
#else
  uint8_t *buf = malloc(size + CANARY);
  memset(buf + size, 0xA5, CANARY);
#endif
  int r = c->query ? coap_split_query(in, len, buf, &bl) : coap_split_path(in, len, buf, &bl);
  int overrun = 0;
#if !C16_ASAN
  for (int i = 0; i < CANARY; i++)
    if (buf[size + i] != 0xA5)
      overrun = 1;
#endif
  if (!probe) {
    c->ret = r;
    c->outlen = bl;
    c->overrun = overrun;
    size_t n = bl < size ? bl : size;
    if (n > sizeof c->out)
      n = sizeof c->out;
    memcpy(c->out, buf, n);
  }
  free(buf);
}

/* coap_path_into_optlist / coap_query_into_optlist */
struct ctx_optlist {
  int query, prechain;
  int ret;
  struct optres res;
};
static void
call_optlist(void *cv, const uint8_t *in, size_t len, int probe) {
  struct ctx_optlist *c = cv;
  coap_optlist_t *chain = NULL;
  if (c->prechain) {
    coap_insert_optlist(&chain, coap_new_optlist(COAP_OPTION_URI_HOST, 1, (const uint8_t *)"h"));
    coap_insert_optlist(&chain, coap_new_optlist(COAP_OPTION_URI_PORT, 1, (const uint8_t *)"\x09"));
  }
  int r = c->query ? coap_query_into_optlist(in, len, COAP_OPTION_URI_QUERY, &chain)
                   : coap_path_into_optlist(in, len, COAP_OPTION_URI_PATH, &chain);
  if (!probe) {
    c->ret = r;
    chain_to_optres(chain, &c->res);
  }
  coap_delete_optlist(chain);
}

/* Option pseudo-headers written by coap_split_path/_query: delta 0, RFC 7252 3.1 length encoding.
 * Own parser (not coap_opt_*).  Returns 0 when exactly `count` options fill out[0..outlen). */
static int
parse_split_output(const uint8_t *out, size_t outlen, int count, struct ref_seglist *g) {
  size_t pos = 0;
  g->n = 0;
  for (int k = 0; k < count; k++) {
    if (pos >= outlen || g->n >= REF_MAXSEG)
      return -1;
    uint8_t b = out[pos++];
    size_t l = b & 15;
    if ((b >> 4) != 0 || l == 15)
      return -1;
    if (l == 13) {
      if (pos >= outlen)
        return -1;
      l = 13u + out[pos++];
    } else if (l == 14) {
      if (pos + 1 >= outlen)
        return -1;
      l = 269u + ((size_t)out[pos] << 8) + out[pos + 1];
      pos += 2;
    }
    if (l > outlen - pos || l > REF_MAXSEGLEN)
      return -1;
    memcpy(g->seg[g->n], out + pos, l);
    g->len[g->n++] = l;
    pos += l;
  }
  return pos == outlen ? 0 : -1;
}
static size_t
opt_bytes(size_t l) {
  return l + (l < 13 ? 1 : l < 269 ? 2 : 3);
}
static int
optres_to_list(const struct optres *r, int from, uint16_t num, struct ref_seglist *g) {
  g->n = 0;
  for (int i = from; i < r->n; i++) {
    if (r->o[i].num != num || g->n >= REF_MAXSEG)
      return -1;
    memcpy(g->seg[g->n], r->o[i].val, r->o[i].len);
    g->len[g->n++] = r->o[i].len;
  }
  return 0;
}

/* class of a mismatch between the reference list R and libcoap's list G */
static const char *
classify(int is_path, const struct ref_seglist *R, const struct ref_seglist *G, int last_raw_is_dot) {
  if (is_path) {
    for (int i = 0; i < G->n; i++)
      if ((G->len[i] == 1 && G->seg[i][0] == '.') || (G->len[i] == 2 && G->seg[i][0] == '.' && G->seg[i][1] == '.'))
        return "dot-segment-emitted";
    if (last_raw_is_dot && R->n == G->n + 1 && R->len[R->n - 1] == 0) {
      int same = 1;
      for (int i = 0; i < G->n; i++)
        if (G->len[i] != R->len[i] || memcmp(G->seg[i], R->seg[i], G->len[i]) != 0)
          same = 0;
      if (same)
        return "trailing-dot-segment"; /* RFC 3986 5.2.4 2B/2C: "a/." and "a/b/.." end in "/" */
    }
  }
  return "segments";
}

/* ------------------------------------------------------------------------------------------ */
/* counters                                                                                   */
enum {
  K_A_VALID = 0, K_A_REJECT, K_A_Q_ACC, K_A_Q_REJ,
  K_Q_FRAGMENT, K_Q_USERINFO, K_Q_IPLIT_DELIM, K_Q_IPLIT_BAD, K_Q_HOST, K_Q_PATH, K_Q_QUERY,
  K_B_PATH_OK, K_B_PATH_BADPCT, K_B_QUERY_OK, K_B_QUERY_BADPCT, K_B_SPLIT_CALLS, K_B_URI_FRAGMENT, K_B_URI_OK,
  K_B_AMBIG, K_C_LISTS, K_C_DOT_LISTS, K_C_COLL_PATH, K_C_COLL_QUERY, K_C_HASH_FALSE, K_C_CANDIDATES,
  K_OVERREAD = 31
};

/* ------------------------------------------------------------------------------------------ */
/* space a: coap_split_uri / coap_split_proxy_uri                                               */
static const uint8_t SIG_U[13] = {'a', '.', '/', ':', '?', '#', '%', '2', 'e', '[', ']', '9', '@'};
static const char *const PREFIX[8] = {"coap://", "coaps://", "coap+tcp://", "coap+ws://", "http://", "coapx://", "", "/"};

static uint64_t
count_strings(unsigned A, unsigned maxlen) {
  uint64_t t = 0, c = 1;
  for (unsigned l = 0; l <= maxlen; l++) {
    t += c;
    c *= A;
  }
  return t;
}
/* index -> string, shorter strings first (so that index i means the same string for every bound) */
static size_t
decode_string(uint64_t idx, const uint8_t *alpha, unsigned A, uint8_t *out) {
  size_t L = 0;
  uint64_t cnt = 1;
  while (idx >= cnt) {
    idx -= cnt;
    cnt *= A;
    L++;
  }
  for (size_t i = L; i-- > 0;) {
    out[i] = alpha[idx % A];
    idx /= A;
  }
  return L;
}

static int
lib_scheme_of(int ref_scheme) {
  switch (ref_scheme) {
  case REF_COAP: return COAP_URI_SCHEME_COAP;
  case REF_COAPS: return COAP_URI_SCHEME_COAPS;
  case REF_COAP_TCP: return COAP_URI_SCHEME_COAP_TCP;
  case REF_COAPS_TCP: return COAP_URI_SCHEME_COAPS_TCP;
  case REF_COAP_WS: return COAP_URI_SCHEME_COAP_WS;
  case REF_COAPS_WS: return COAP_URI_SCHEME_COAPS_WS;
  case REF_HTTP: return COAP_URI_SCHEME_HTTP;
  case REF_HTTPS: return COAP_URI_SCHEME_HTTPS;
  }
  return -1;
}
static int
scheme_supported(int ref_scheme) { /* what this build of libcoap documents as available */
  switch (ref_scheme) {
  case REF_COAPS: return coap_dtls_is_supported();
  case REF_COAP_TCP: return coap_tcp_is_supported();
  case REF_COAPS_TCP: return coap_tls_is_supported();
  case REF_COAP_WS: return coap_ws_is_supported();
  case REF_COAPS_WS: return coap_wss_is_supported();
  }
  return 1;
}

struct verdict {
  char cls[160]; /* "" = nothing to report */
  char msg[420];
};
static void verdict_set(struct verdict *v, const char *cls, const char *fmt, ...) __attribute__((format(printf, 3, 4)));
static void
verdict_set(struct verdict *v, const char *cls, const char *fmt, ...) {
  if (v->cls[0])
    return; /* first finding of the call wins */
  snprintf(v->cls, sizeof v->cls, "%s", cls);
  va_list ap;
  va_start(ap, fmt);
  vsnprintf(v->msg, sizeof v->msg, fmt, ap);
  va_end(ap);
}

static int
span_is(const struct span *sp, const uint8_t *in, const uint8_t *want, size_t wn) {
  return sp->len == wn && (wn == 0 || memcmp(in + sp->off, want, wn) == 0);
}

/* class of a Uri-Host / Uri-Port difference; a libcoap-style path (no leading '/') is scanned for ".." because
 * one known defect removes earlier options when the path backs up */
static int
raw_path_has_dotdot(const uint8_t *p, size_t n) {
  for (size_t i = 0; i <= n;) {
    size_t j = i;
    while (j < n && p[j] != '/')
      j++;
    if (ref_segment_dots(p + i, j - i) == 2)
      return 1;
    i = j + 1;
  }
  return 0;
}
static const char *
optdiff_class(int got_present, int want_present, int dotdot) {
  if (got_present && !want_present)
    return "unexpected";
  if (!got_present && want_present)
    return dotdot ? "missing-after-dot-dot" : "missing";
  return "value";
}

/* One of the two split functions on one input.  Returns 1 when reference and libcoap both accept. */
static int
judge_split(int proxy, const uint8_t *in, size_t n, struct verdict *v, uint64_t *digest) {
  static struct ctx_uri cs[2];
#define c (cs[proxy])
  const char *fn = proxy ? FN_SPLIT_PROXY : FN_SPLIT_URI;
  v->cls[0] = 0;
  c.proxy = proxy;
  c.want_opts = 1;
  if (!run_call(fn, call_uri, &c, in, n))
    return 0;
  int lib_ok = c.rc == 0;

  /* reference.  libcoap's documented contract for coap_split_uri(): a string that starts with '/' is an
   * absolute path (+ query) without scheme, host or port -- the path-abempty [ "?" query ] tail of a coap
   * URI; coap_split_proxy_uri() insists on an absolute URI. */
  struct ref_uri ru;
  uint8_t synth[64];
  const uint8_t *rs = in;
  int pathonly = 0;
  uint32_t mask;
  if (!proxy && n > 0 && in[0] == '/' && n + 8 <= sizeof synth) {
    memcpy(synth, "coap://h", 8);
    memcpy(synth + 8, in, n);
    mask = ref_uri_split(synth, n + 8, 0, &ru);
    rs = synth;
    pathonly = 1;
  } else
    mask = ref_uri_split(in, n, proxy, &ru);
  (void)rs;
  if (!mask && !scheme_supported(ru.scheme))
    mask = REF_R_SCHEME_UNKNOWN;

  if (mask & REF_R_FORBIDDEN_COMPONENT || (!(mask & REF_R_STRUCTURAL) && (mask & REF_R_CHARLEVEL))) {
    /* RFC-invalid in a way libcoap's documentation does not promise to detect at this stage (userinfo,
     * fragment, delimiters inside [..], characters outside a component's ABNF): either outcome tolerated,
     * counted per class and reported to the coordinator as questions. */
    vxp_count(lib_ok ? K_A_Q_ACC : K_A_Q_REJ, 1);
    if (lib_ok) {
      int k = mask & REF_R_FRAGMENT      ? K_Q_FRAGMENT
              : mask & REF_R_USERINFO    ? K_Q_USERINFO
              : mask & REF_R_IPLIT_DELIM ? K_Q_IPLIT_DELIM
              : mask & REF_R_IPLIT_BAD   ? K_Q_IPLIT_BAD
              : mask & (REF_R_HOST_CHAR | REF_R_HOST_PCT) ? K_Q_HOST
              : mask & (REF_R_PATH_CHAR | REF_R_PATH_PCT) ? K_Q_PATH
                                                          : K_Q_QUERY;
      vxp_count(k, 1);
    }
    return 0;
  }
  if (mask & REF_R_STRUCTURAL) {
    vxp_count(K_A_REJECT, 1);
    if (lib_ok) {
      char cls[160];
      snprintf(cls, sizeof cls, "uri-mismatch:%s:accept-malformed:%s", fn, ref_first_reason(mask & REF_R_STRUCTURAL));
      verdict_set(v, cls, "%s(%s) returns 0 (host=%s port=%u), RFC 3986/7252: malformed (%s)", fn, show(in, n),
                  c.host.outside ? "?" : show(in + c.host.off, c.host.len), c.port,
                  ref_first_reason(mask & REF_R_STRUCTURAL));
    }
    return 0;
  }
  /* valid URI */
  if (!lib_ok) {
    char cls[160];
    snprintf(cls, sizeof cls, "uri-mismatch:%s:reject-valid:%s-%s-%s", fn, ru.has_port ? "port" : "noport",
             ru.path.n ? "path" : "nopath", ru.has_query ? "query" : "noquery");
    verdict_set(v, cls, "%s(%s) returns %d, but it is a valid URI: host=%s port=%u path=%s query=%s", fn, show(in, n),
                c.rc, show(ru.host.s, ru.host.n), ru.port, show(ru.path.s, ru.path.n),
                ru.has_query ? show(ru.query.s, ru.query.n) : "-");
    return 0;
  }
  vxp_count(K_A_VALID, 1);
  char cls[160];
  if (c.host.outside || c.path.outside || c.query.outside) {
    snprintf(cls, sizeof cls, "uri-mismatch:%s:span-outside-input", fn);
    verdict_set(v, cls, "%s(%s): a returned component does not lie inside the input", fn, show(in, n));
    return 0;
  }
  if (c.scheme != lib_scheme_of(ru.scheme)) {
    snprintf(cls, sizeof cls, "uri-mismatch:%s:scheme", fn);
    verdict_set(v, cls, "%s(%s): scheme=%d, expected %d (%s)", fn, show(in, n), c.scheme, lib_scheme_of(ru.scheme),
                ref_schemes[ru.scheme].name);
  }
  const uint8_t *wh = pathonly ? (const uint8_t *)"" : ru.host.s;
  size_t whn = pathonly ? 0 : ru.host.n;
  if (!span_is(&c.host, in, wh, whn)) {
    snprintf(cls, sizeof cls, "uri-mismatch:%s:host", fn);
    verdict_set(v, cls, "%s(%s): host=%s, expected %s", fn, show(in, n), show(in + c.host.off, c.host.len), show(wh, whn));
  }
  if (c.port != ru.port) {
    snprintf(cls, sizeof cls, "uri-mismatch:%s:port", fn);
    verdict_set(v, cls, "%s(%s): port=%u, expected %u (%s, default %u)", fn, show(in, n), c.port, ru.port,
                ru.has_port ? "explicit" : "default", ref_schemes[ru.scheme].default_port);
  }
  /* libcoap's representation: path without the leading '/', empty query == no query */
  const uint8_t *wp = ru.path.n ? ru.path.s + 1 : (const uint8_t *)"";
  size_t wpn = ru.path.n ? ru.path.n - 1 : 0;
  if (!span_is(&c.path, in, wp, wpn)) {
    snprintf(cls, sizeof cls, "uri-mismatch:%s:path", fn);
    verdict_set(v, cls, "%s(%s): path=%s, expected %s", fn, show(in, n), show(in + c.path.off, c.path.len), show(wp, wpn));
  }
  size_t wqn = ru.has_query ? ru.query.n : 0;
  if (!span_is(&c.query, in, ru.query.s, wqn)) {
    snprintf(cls, sizeof cls, "uri-mismatch:%s:query", fn);
    verdict_set(v, cls, "%s(%s): query=%s, expected %s", fn, show(in, n), show(in + c.query.off, c.query.len),
                show(ru.query.s, wqn));
  }
  /* RFC 7252 6.4 steps 5-7 through coap_uri_into_optlist(dst = 192.0.2.1): Uri-Host, Uri-Port */
  if (!v->cls[0]) {
    struct ref_optlist want;
    if (c.opt_rc != 1 || c.opts.overflow) {
      snprintf(cls, sizeof cls, "uri-mismatch:%s:reject-valid", FN_URI_OPTLIST);
      verdict_set(v, cls, "%s after %s(%s) returns %d for a valid URI", FN_URI_OPTLIST, fn, show(in, n), c.opt_rc);
    } else if (ref_uri_to_options(&ru, 0, &want) == 0) {
      const struct optrec *gh = NULL, *gp = NULL;
      const struct ref_opt *rh = NULL, *rp = NULL;
      int gnh = 0, gnp = 0, dd = raw_path_has_dotdot(wp, wpn);
      for (int i = 0; i < c.opts.n; i++) {
        if (c.opts.o[i].num == COAP_OPTION_URI_HOST)
          gh = &c.opts.o[i], gnh++;
        if (c.opts.o[i].num == COAP_OPTION_URI_PORT)
          gp = &c.opts.o[i], gnp++;
      }
      for (int i = 0; i < want.n; i++) {
        if (want.o[i].num == REF_OPT_URI_HOST && !pathonly)
          rh = &want.o[i];
        if (want.o[i].num == REF_OPT_URI_PORT)
          rp = &want.o[i];
      }
      if (gnh > 1 || !!gh != !!rh || (gh && (gh->len != rh->len || memcmp(gh->val, rh->val, rh->len) != 0))) {
        snprintf(cls, sizeof cls, "uri-mismatch:%s:uri-host:%s", FN_URI_OPTLIST, optdiff_class(gnh, !!rh, dd));
        verdict_set(v, cls, "%s(%s): Uri-Host %s, expected %s", FN_URI_OPTLIST, show(in, n),
                    gh ? show(gh->val, gh->len) : "absent", rh ? show(rh->val, rh->len) : "absent");
      }
      if (gnp > 1 || !!gp != !!rp || (gp && (gp->len != rp->len || memcmp(gp->val, rp->val, rp->len) != 0))) {
        snprintf(cls, sizeof cls, "uri-mismatch:%s:uri-port:%s", FN_URI_OPTLIST, optdiff_class(gnp, !!rp, dd));
        verdict_set(v, cls, "%s(%s): Uri-Port %s, expected %s (scheme %s, port %u, default %u)", FN_URI_OPTLIST,
                    show(in, n), gp ? show(gp->val, gp->len) : "absent", rp ? show(rp->val, rp->len) : "absent",
                    ref_schemes[ru.scheme].name, ru.port, ref_schemes[ru.scheme].default_port);
      }
    }
  }
  if (digest) {
    uint64_t h = vx_fnv(&c.scheme, sizeof c.scheme, VX_FNV0);
    h = vx_fnv(&c.port, sizeof c.port, h);
    h = vx_fnv(in + c.host.off, c.host.len, h);
    h = vx_fnv("/", 1, h);
    h = vx_fnv(in + c.path.off, c.path.len, h);
    h = vx_fnv("?", 1, h);
    h = vx_fnv(in + c.query.off, c.query.len, h);
    *digest = h;
  }
  return 1;
#undef c
}

/* both functions on one input; a finding shared by both (same code path) is filed once, under coap_split_uri */
static void
check_uri_input(const uint8_t *in, size_t n, uint64_t idx, const char *what) {
  struct verdict v0, v1;
  uint64_t d = 0;
  int ok0 = judge_split(0, in, n, &v0, &d);
  int ok1 = judge_split(1, in, n, &v1, NULL);
  if (v0.cls[0])
    failx(v0.cls, "%s", v0.msg);
  if (v1.cls[0]) {
    int dup = 0;
    if (v0.cls[0]) {
      const char *t0 = strchr(v0.cls + 13, ':'), *t1 = strchr(v1.cls + 13, ':'); /* behind "uri-mismatch:<fn>" */
      dup = !strcmp(v0.cls, v1.cls) || (t0 && t1 && !strcmp(t0, t1));
    }
    if (!dup)
      failx(v1.cls, "%s", v1.msg);
  }
  if (ok0)
    vxp_distinct(d);
  if (idx % 400009 == 0 || (ok0 && idx % 50021 == 0))
    vxp_sample("%s idx=%llu %s -> coap_split_uri %s, coap_split_proxy_uri %s", what, (unsigned long long)idx, show(in, n),
               ok0 ? "accepts as the reference does" : v0.cls[0] ? v0.cls : "rejects/tolerated as the reference says",
               ok1 ? "accepts as the reference does" : v1.cls[0] ? v1.cls : "rejects/tolerated as the reference says");
}

struct space_a {
  unsigned maxlen;
  uint64_t total;
  char name[64];
};
static void
case_a(uint64_t idx, void *arg) {
  (void)arg;
  uint8_t in[40];
  unsigned pi = (unsigned)(idx % 8);
  size_t pl = strlen(PREFIX[pi]);
  memcpy(in, PREFIX[pi], pl);
  size_t tl = decode_string(idx / 8, SIG_U, 13, in + pl);
  case_begin(tl <= 2);
  check_uri_input(in, pl + tl, idx, "a");
  case_end();
}

/* space a2: "coap://a:" zeros digits */
static const char *const PORT_SPECIAL[] = {"65535", "65536", "99999", "100000", "655350", "4294967376" /* 2^32+80 */,
                                           "18446744073709551696" /* 2^64+80 */, "99999999999999999999999",
                                           "000000000000000000000080", "5683x", "56 83", "+80", "-1", "0x50"};
#define PORT_N 70001u
#define PORT_SPECIALS (sizeof PORT_SPECIAL / sizeof PORT_SPECIAL[0])
#define SCHEME_GRID (REF_SCHEME_N * 2u * 9u * 3u)
static void
case_a2(uint64_t idx, void *arg) {
  (void)arg;
  char in[80];
  int n;
  static const char *const sch[3] = {"coap://a:", "coaps+tcp://[::1]:", "coap+ws://a.a:"};
  if (idx < 3ull * PORT_N)
    n = snprintf(in, sizeof in, "%s%s%u%s", sch[idx % 3], idx % 3 == 1 ? "0" : idx % 3 == 2 ? "00" : "",
                 (unsigned)(idx / 3), idx % 3 == 2 ? "/a" : "");
  else if (idx < 3ull * PORT_N + PORT_SPECIALS)
    n = snprintf(in, sizeof in, "coap://a:%s", PORT_SPECIAL[idx - 3ull * PORT_N]);
  else {
    /* every documented scheme x host form x {no port, empty port, default-1, default, default+1, 5683, 5684, 80,
     * 443} x tail: default ports recognised (split) and elided (Uri-Port) for all eight schemes */
    uint64_t g = idx - 3ull * PORT_N - PORT_SPECIALS;
    static const char *const hosts[2] = {"a.a", "[::1]"};
    static const char *const tails[3] = {"", "/", "/a?b"};
    static const int fixed[4] = {5683, 5684, 80, 443};
    int sc = (int)(g % REF_SCHEME_N), ho = (int)(g / REF_SCHEME_N % 2), pf = (int)(g / REF_SCHEME_N / 2 % 9),
        ta = (int)(g / REF_SCHEME_N / 2 / 9);
    char port[16] = "";
    int dp = ref_schemes[sc].default_port;
    if (pf == 1)
      snprintf(port, sizeof port, ":");
    else if (pf >= 2)
      snprintf(port, sizeof port, ":%d", pf <= 4 ? dp + pf - 3 : fixed[pf - 5]);
    n = snprintf(in, sizeof in, "%s://%s%s%s", ref_schemes[sc].name, hosts[ho], port, tails[ta]);
  }
  case_begin(0);
  check_uri_input((const uint8_t *)in, (size_t)n, idx, "a2");
  case_end();
}

/* ------------------------------------------------------------------------------------------ */
/* space b: path / query strings -> options                                                    */
static const uint8_t SIG_P[16] = {'a', 'A', '/', '.', '%', '2', 'e', 'E', 'F', '&', '?', '#', '=', '~', 0x00, 0xC3};

/* Three readings of a malformed input, to say in the signature what the function did with the segment that
 * has the bad escape: mode 0 = silently dropped, 1 = kept in some decoded / literal form (only the number of
 * segments is predicted), 2 = taken for a ".." (libcoap's dots() does that with "%%2e"). */
static int g_malformed_segments;
static int
malformed_reading(int mode, int query, const uint8_t *s, size_t len, struct ref_seglist *out) {
  size_t cut = 0;
  g_malformed_segments = 0;
  uint8_t sep = query ? '&' : '/';
  int n = 0;
  while (cut < len && s[cut] != '#' && (query || s[cut] != '?'))
    cut++;
  for (size_t i = 0; i <= cut;) {
    size_t j = i;
    while (j < cut && s[j] != sep)
      j++;
    int d = query ? 0 : ref_segment_dots(s + i, j - i);
    int m = d == 0 ? ref_pct_decode(s + i, j - i, out->seg[n < REF_MAXSEG ? n : 0], REF_MAXSEGLEN) : 0;
    int bad = d == REF_E_PCT || m < 0;
    g_malformed_segments += bad;
    if (d == 2 || (bad && mode == 2 && !query)) {
      if (n > 0)
        n--;
    } else if (d == 1 || (bad && mode != 1)) {
      /* nothing */
    } else if (n < REF_MAXSEG) {
      out->len[n++] = bad ? 0 : (size_t)m;
    }
    i = j + 1;
  }
  out->n = n;
  return n;
}
/* "dropped" / "kept" / "taken-as-dot-dot" / "other"; NULL when the input cannot tell: more than one reading
 * fits (e.g. the malformed segment is popped again by a later "..") or it has several malformed segments */
static const char *
bad_percent_class(int query, const uint8_t *s, size_t len, const struct ref_seglist *G) {
  struct ref_seglist D, K, T;
  int gn = (G->n == 1 && G->len[0] == 0) ? 0 : G->n;
  malformed_reading(0, query, s, len, &D);
  int kn = malformed_reading(1, query, s, len, &K);
  malformed_reading(2, query, s, len, &T);
  int md = ref_seglist_equal_mod_empty(&D, G), mk = gn == kn, mt = !query && ref_seglist_equal_mod_empty(&T, G);
  if (md + mk + mt > 1 || g_malformed_segments > 1)
    return NULL; /* several malformed segments may each be treated differently; each also occurs alone */
  return md ? "dropped" : mk ? "kept" : mt ? "taken-as-dot-dot" : "other";
}

/* coap_split_path / coap_split_query for every output buffer size need+1 .. 0.
 * ref_rc != 0: the reference rejects the input (malformed escape).  need: bytes a left-to-right
 * implementation needs at its peak (>= bytes of the final list). */
static void
check_split_fn(const char *fn, int query, const uint8_t *s, size_t len, int ref_rc, const struct ref_seglist *R,
               size_t need, int last_raw_is_dot) {
  static struct ctx_split cq[2];
  struct ctx_split *c = &cq[query];
  char sig[160];
  size_t maxsz = (ref_rc == 0 ? need : len + 1) + 1;
  int small_flagged = 0;
  c->query = query;
  for (size_t size = maxsz + 1; size-- > 0;) {
    c->size = size;
    vxp_count(K_B_SPLIT_CALLS, 1);
    if (!run_call(fn, call_split, c, s, len))
      return; /* overread reported; smaller buffers repeat it */
    if (c->overrun || c->outlen > size) {
      snprintf(sig, sizeof sig, "uri-mismatch:%s:output-overrun", fn);
      failx(sig, "%s(%s) with a %zu-byte buffer: %s", fn, show(s, len), size,
            c->overrun ? "bytes behind the buffer were written" : "reports more bytes written than the buffer holds");
      return;
    }
    if (ref_rc != 0) {
      if (c->ret >= 0) {
        struct ref_seglist G;
        if (parse_split_output(c->out, c->outlen, c->ret, &G) != 0)
          G.n = 0;
        const char *bc = bad_percent_class(query, s, len, &G);
        if (!bc) {
          vxp_count(K_B_AMBIG, 1);
          return;
        }
        snprintf(sig, sizeof sig, "uri-mismatch:%s:bad-percent-accepted:%s", fn, bc);
        failx(sig, "%s(%s, buflen=%zu) returns %d = %s (success) although a '%%' is not followed by two hex digits", fn,
              show(s, len), size, c->ret, show_list(&G));
        return;
      }
      continue;
    }
    if (c->ret < 0) {
      if (size >= need) {
        snprintf(sig, sizeof sig, "uri-mismatch:%s:reject-valid", fn);
        failx(sig, "%s(%s, buflen=%zu) returns %d, expected %s", fn, show(s, len), size, c->ret, show_list(R));
        return;
      }
      continue; /* too small and said so */
    }
    struct ref_seglist G;
    if (parse_split_output(c->out, c->outlen, c->ret, &G) != 0) {
      snprintf(sig, sizeof sig, "uri-mismatch:%s:output-encoding", fn);
      failx(sig, "%s(%s, buflen=%zu) returns %d with *buflen=%zu, but the buffer does not hold exactly that many options", fn,
            show(s, len), size, c->ret, c->outlen);
      return;
    }
    if (ref_seglist_equal_mod_empty(R, &G))
      continue;
    const char *cl = classify(!query, R, &G, last_raw_is_dot);
    if (size < need && strcmp(cl, "trailing-dot-segment")) {
      /* Oracle correction (coordinator): a too small output buffer only truncates the result.  The property statement
       * does not ask for an error here and the repository's own tests (t_parse_uri15/16) require the 0 return; what is
       * checked for short buffers is that nothing is written outside them (ASan, exact-size heap buffer) and that the
       * output is a well-formed option encoding (checked above). */
      (void)small_flagged;
      continue;
    }
    snprintf(sig, sizeof sig, "uri-mismatch:%s:%s", fn, cl);
    failx(sig, "%s(%s, buflen=%zu) gives %s, RFC 3986/7252 6.4 gives %s", fn, show(s, len), size, show_list(&G), show_list(R));
    if (strcmp(cl, "trailing-dot-segment"))
      return;
  }
}

static void
check_optlist_fn(const char *fn, int query, int prechain, const uint8_t *s, size_t len, int ref_rc,
                 const struct ref_seglist *R, int last_raw_is_dot) {
  static struct ctx_optlist cq[4];
  struct ctx_optlist *c = &cq[query * 2 + prechain];
  char sig[160];
  c->query = query;
  c->prechain = prechain;
  if (!run_call(fn, call_optlist, c, s, len))
    return;
  int from = 0;
  if (prechain && c->ret == 1 && !c->res.overflow) {
    if (c->res.n < 2 || c->res.o[0].num != COAP_OPTION_URI_HOST || c->res.o[0].len != 1 || c->res.o[0].val[0] != 'h' ||
        c->res.o[1].num != COAP_OPTION_URI_PORT || c->res.o[1].len != 1 || c->res.o[1].val[0] != 9) {
      snprintf(sig, sizeof sig, "uri-mismatch:%s:previous-options-changed", fn);
      failx(sig, "%s(%s) on a chain that already holds [Uri-Host \"h\", Uri-Port 9]: the earlier options are gone/changed "
            "(%d options left, first number %d)", fn, show(s, len), c->res.n, c->res.n ? c->res.o[0].num : -1);
      return;
    }
    from = 2;
  }
  if (ref_rc != 0) {
    if (c->ret != 0) {
      struct ref_seglist G;
      optres_to_list(&c->res, prechain ? 2 : 0, query ? COAP_OPTION_URI_QUERY : COAP_OPTION_URI_PATH, &G);
      const char *bc = bad_percent_class(query, s, len, &G);
      if (!bc) {
        vxp_count(K_B_AMBIG, 1);
        return;
      }
      snprintf(sig, sizeof sig, "uri-mismatch:%s:bad-percent-accepted:%s", fn, bc);
      failx(sig, "%s(%s) returns %d (success) with %s although a '%%' is not followed by two hex digits", fn, show(s, len),
            c->ret, show_list(&G));
    }
    return;
  }
  if (c->ret != 1 || c->res.overflow) {
    snprintf(sig, sizeof sig, "uri-mismatch:%s:reject-valid", fn);
    failx(sig, "%s(%s) returns %d, expected %s", fn, show(s, len), c->ret, show_list(R));
    return;
  }
  struct ref_seglist G;
  if (optres_to_list(&c->res, from, query ? COAP_OPTION_URI_QUERY : COAP_OPTION_URI_PATH, &G) != 0) {
    snprintf(sig, sizeof sig, "uri-mismatch:%s:option-number", fn);
    failx(sig, "%s(%s) produced an option with a number other than the one asked for", fn, show(s, len));
    return;
  }
  if (!ref_seglist_equal_mod_empty(R, &G)) {
    snprintf(sig, sizeof sig, "uri-mismatch:%s:%s", fn, classify(!query, R, &G, last_raw_is_dot));
    failx(sig, "%s(%s%s) gives %s, RFC 3986/7252 6.4 gives %s", fn, show(s, len), prechain ? ", chain not empty" : "",
          show_list(&G), show_list(R));
  }
}

/* reference view of a libcoap-style path string (no leading '/', may be followed by ?query / #fragment) */
struct pathref {
  int rc;
  struct ref_seglist R;
  size_t need;
  int last_raw_is_dot, any_dot, cut;
};
static void
path_reference(const uint8_t *s, size_t len, struct pathref *p) {
  uint8_t rp[1024];
  size_t cut = 0;
  while (cut < len && s[cut] != '?' && s[cut] != '#')
    cut++;
  p->cut = (int)cut;
  rp[0] = '/';
  memcpy(rp + 1, s, cut);
  p->rc = ref_path_to_segments(rp, cut + 1, &p->R);
  size_t final = 0, cur = 0, peak = 0, st[REF_MAXSEG + 1];
  int sp = 0;
  p->last_raw_is_dot = p->any_dot = 0;
  if (p->rc == 0) {
    for (int i = 0; i < p->R.n; i++)
      final += opt_bytes(p->R.len[i]);
    for (size_t i = 0; i <= cut;) {
      size_t j = i;
      while (j < cut && s[j] != '/')
        j++;
      int d = ref_segment_dots(s + i, j - i);
      uint8_t tmp[REF_MAXSEGLEN * 3];
      p->last_raw_is_dot = d > 0;
      if (d > 0)
        p->any_dot = 1;
      if (d == 0 && sp < REF_MAXSEG) {
        int m = ref_pct_decode(s + i, j - i, tmp, sizeof tmp);
        st[sp] = opt_bytes(m < 0 ? 0 : (size_t)m);
        cur += st[sp++];
        if (cur > peak)
          peak = cur;
      } else if (d == 2 && sp > 0)
        cur -= st[--sp];
      i = j + 1;
    }
  }
  p->need = peak > final ? peak : final;
}

static void
check_uri_optlist(const uint8_t *s, size_t len, const struct pathref *prp) {
  static struct ctx_uri c;
  uint8_t full[800];
  char sig[160];
  memcpy(full, "coap://a:9/", 11);
  memcpy(full + 11, s, len);
  size_t n = 11 + len;
  c.proxy = 0;
  c.want_opts = 1;
  if (!run_call(FN_URI_OPTLIST, call_uri, &c, full, n))
    return;
  if (memchr(s, '#', len)) { /* fragment: RFC 7252 6.4 step 4 says fail, libcoap documents nothing -> question */
    vxp_count(K_B_URI_FRAGMENT, 1);
    return;
  }
  struct ref_uri ru;
  struct ref_optlist want;
  uint32_t mask = ref_uri_split(full, n, 0, &ru);
  int rejected = c.rc != 0 || c.opt_rc != 1;
  if (mask & (REF_R_PATH_PCT | REF_R_QUERY_PCT)) {
    if (!rejected) {
      snprintf(sig, sizeof sig, "uri-mismatch:%s:bad-percent-accepted", FN_URI_OPTLIST);
      failx(sig, "coap_split_uri + %s(%s) both succeed (%d options) although a '%%' is not followed by two hex digits",
            FN_URI_OPTLIST, show(full, n), c.opts.n);
    }
    return;
  }
  if (mask & (REF_R_STRUCTURAL | REF_R_FORBIDDEN_COMPONENT) || ref_uri_to_options(&ru, 0, &want) != 0) {
    failx("harness:c16:uri-optlist-reference", "reference cannot handle %s (mask %x)", show(full, n), mask);
    return;
  }
  if (rejected || c.opts.overflow) {
    snprintf(sig, sizeof sig, "uri-mismatch:%s:reject-valid", FN_URI_OPTLIST);
    failx(sig, "%s: coap_split_uri=%d %s=%d for a valid URI", show(full, n), c.rc, FN_URI_OPTLIST, c.opt_rc);
    return;
  }
  vxp_count(K_B_URI_OK, 1);
  /* group both option lists by number (libcoap appends in the order host, port, path, query) */
  struct ref_seglist G[4], R[4]; /* host, port, path, query */
  static const uint16_t num[4] = {REF_OPT_URI_HOST, REF_OPT_URI_PORT, REF_OPT_URI_PATH, REF_OPT_URI_QUERY};
  static const char *const nm[4] = {"uri-host", "uri-port", "uri-path", "uri-query"};
  for (int k = 0; k < 4; k++)
    G[k].n = R[k].n = 0;
  for (int i = 0; i < c.opts.n; i++) {
    int k;
    for (k = 0; k < 4; k++)
      if (c.opts.o[i].num == num[k])
        break;
    if (k == 4 || G[k].n >= REF_MAXSEG) {
      snprintf(sig, sizeof sig, "uri-mismatch:%s:option-number", FN_URI_OPTLIST);
      failx(sig, "%s(%s) produced option number %u", FN_URI_OPTLIST, show(full, n), c.opts.o[i].num);
      return;
    }
    memcpy(G[k].seg[G[k].n], c.opts.o[i].val, c.opts.o[i].len);
    G[k].len[G[k].n++] = c.opts.o[i].len;
  }
  for (int i = 0; i < want.n; i++) {
    int k;
    for (k = 0; k < 4; k++)
      if (want.o[i].num == num[k])
        break;
    memcpy(R[k].seg[R[k].n], want.o[i].val, want.o[i].len);
    R[k].len[R[k].n++] = want.o[i].len;
  }
  for (int k = 0; k < 4; k++) {
    int same = k < 2 ? ref_seglist_equal(&R[k], &G[k]) : ref_seglist_equal_mod_empty(&R[k], &G[k]);
    if (same)
      continue;
    if (k < 2)
      snprintf(sig, sizeof sig, "uri-mismatch:%s:%s:%s", FN_URI_OPTLIST, nm[k],
               optdiff_class(G[k].n, R[k].n, raw_path_has_dotdot(s, (size_t)prp->cut)));
    else
      snprintf(sig, sizeof sig, "uri-mismatch:%s:%s:%s", FN_URI_OPTLIST, nm[k],
               classify(k == 2, &R[k], &G[k], k == 2 && prp->last_raw_is_dot));
    failx(sig, "coap_split_uri + %s(%s, dst=192.0.2.1, create_port_host_opt=1): %s options %s, RFC 7252 6.4 gives %s",
          FN_URI_OPTLIST, show(full, n), nm[k], show_list(&G[k]), show_list(&R[k]));
    return;
  }
}

/* b2: the escapes of Sigma_p cannot spell "%25", so nothing there can be decoded twice; a second, smaller
 * alphabet that can ("%252e", "%25%32e", ...) */
static const uint8_t SIG_D[8] = {'%', '2', '5', 'e', 'E', '/', '.', 'a'};
struct space_b {
  const uint8_t *alpha;
  unsigned A;
  unsigned maxlen;
  uint64_t total;
  char name[64];
};
static void check_pq_string(uint64_t idx, const uint8_t *s, size_t len);
static void
case_b(uint64_t idx, void *arg) {
  const struct space_b *sp = arg;
  uint8_t s[16];
  size_t len = decode_string(idx, sp->alpha, sp->A, s);
  check_pq_string(idx, s, len);
}

/* space b3: one or two long segments around the option-header size boundaries (12/13 bytes of decoded length) and the
 * 255-byte limit of Uri-Path / Uri-Query, plain or with a percent-escape at either end, through the same checks as space b -- in particular through
 * every output buffer size from "one more than needed" down to 0 on an exact-size heap buffer */
static const int B3_LEN[] = {0, 1, 2, 11, 12, 13, 14, 15, 16, 100, 254, 255};
#define B3_NLEN 12
#define B3_NSEG (B3_NLEN * 3)
#define B3_PAIRS ((uint64_t)B3_NSEG + 2ull * B3_NSEG * B3_NSEG)
/* third part: a long segment that stays, followed by segments that dot-segments remove again (the walk back over what was
 * already written has to step over the long segment's two-byte option header) */
static const char *const B3_TAILS[] = {"/x/..", "/x/../y", "/x/%2E%2E", "/x/%2e%2E/y", "/./y", "/x/../..", "/x/y/../../z", "/../y"};
#define B3_NTAIL 8
#define B3_TOTAL (B3_PAIRS + (uint64_t)B3_NSEG * B3_NTAIL * 2)
static size_t
b3_segment(uint8_t *o, unsigned code) {
  int L = B3_LEN[code % B3_NLEN], kind = (int)(code / B3_NLEN);
  size_t n = 0;
  for (int i = 0; i < L; i++) {
    if ((kind == 1 && i == 0) || (kind == 2 && i == L - 1)) {
      memcpy(o + n, "%41", 3);
      n += 3;
    } else
      o[n++] = (uint8_t)('a' + i % 23);
  }
  return n;
}
static void
case_b3(uint64_t idx, void *arg) {
  (void)arg;
  static uint8_t s[700];
  size_t len;
  if (idx >= B3_PAIRS) {
    uint64_t x = idx - B3_PAIRS;
    int lead = (int)(x % 2); /* 1: a short segment before the long one */
    x /= 2;
    len = 0;
    if (lead) {
      memcpy(s, "p/", 2);
      len = 2;
    }
    len += b3_segment(s + len, (unsigned)(x % B3_NSEG));
    const char *t = B3_TAILS[x / B3_NSEG];
    memcpy(s + len, t, strlen(t));
    len += strlen(t);
  } else if (idx < B3_NSEG)
    len = b3_segment(s, (unsigned)idx);
  else {
    uint64_t x = idx - B3_NSEG;
    int sep = (int)(x % 2);
    x /= 2;
    /* the string is read both as a path and as a query: joined by the other component's separator the two parts are
     * one segment, which must still fit an option (255 bytes) */
    if (B3_LEN[(x % B3_NSEG) % B3_NLEN] + B3_LEN[(x / B3_NSEG) % B3_NLEN] + 1 > 255)
      return;
    len = b3_segment(s, (unsigned)(x % B3_NSEG));
    s[len++] = sep ? '&' : '/';
    len += b3_segment(s + len, (unsigned)(x / B3_NSEG));
  }
  check_pq_string(idx, s, len);
}

static void
check_pq_string(uint64_t idx, const uint8_t *s, size_t len) {
  case_begin(len <= 2);

  struct pathref pr;
  path_reference(s, len, &pr);
  vxp_count(pr.rc == 0 ? K_B_PATH_OK : K_B_PATH_BADPCT, 1);
  check_split_fn(FN_SPLIT_PATH, 0, s, len, pr.rc, &pr.R, pr.need, pr.last_raw_is_dot);
  check_optlist_fn(FN_PATH_OPTLIST, 0, 0, s, len, pr.rc, &pr.R, pr.last_raw_is_dot);
  check_optlist_fn(FN_PATH_OPTLIST, 0, 1, s, len, pr.rc, &pr.R, pr.last_raw_is_dot);

  struct ref_seglist Q;
  size_t qcut = 0, qneed = 0;
  while (qcut < len && s[qcut] != '#')
    qcut++;
  int qrc = ref_query_to_segments(s, qcut, &Q);
  if (qrc == 0)
    for (int i = 0; i < Q.n; i++)
      qneed += opt_bytes(Q.len[i]);
  vxp_count(qrc == 0 ? K_B_QUERY_OK : K_B_QUERY_BADPCT, 1);
  check_split_fn(FN_SPLIT_QUERY, 1, s, len, qrc, &Q, qneed, 0);
  check_optlist_fn(FN_QUERY_OPTLIST, 1, 0, s, len, qrc, &Q, 0);
  check_optlist_fn(FN_QUERY_OPTLIST, 1, 1, s, len, qrc, &Q, 0);

  check_uri_optlist(s, len, &pr);

  if (pr.rc == 0 && (pr.any_dot || memchr(s, '%', len)))
    vxp_distinct(vx_fnv(s, len, VX_FNV0 ^ 0xb));
  if (idx % 100003 == 0)
    vxp_sample("b idx=%llu %s -> path %s (needs %zu bytes), query %s", (unsigned long long)idx, show(s, len),
               pr.rc ? "rejected (bad escape)" : show_list(&pr.R), pr.need, qrc ? "rejected (bad escape)" : show_list(&Q));
  case_end();
}

/* ------------------------------------------------------------------------------------------ */
/* space c: segment lists -> PDU -> string -> options, and injectivity of list -> string         */
static const uint8_t SIG_S2[11] = {'a', '/', '%', '&', '?', '#', '.', '=', 0x00, 0xFF, ' '};
#define SEG_FULL (1u + 256u + 121u) /* "", every single byte, Sigma_s2 x Sigma_s2 */
#define SEG_SMALL (1u + 11u + 121u) /* "", Sigma_s2, Sigma_s2 x Sigma_s2 */

struct space_c {
  int full3; /* third level over SEG_FULL (thorough/fast) or SEG_SMALL */
  uint64_t n1, n2, n3, total;
  char name[64], name_inj[64];
  uint64_t *H[2]; /* shared: hash of the path / query string of list idx (0 = not computed) */
  uint32_t *P[2]; /* shared: index of another list with the same hash, or NONE */
};
#define NONE 0xffffffffu

static size_t
seg_decode(int small, unsigned c, uint8_t *out) {
  unsigned singles = small ? 11u : 256u;
  if (c == 0)
    return 0;
  c--;
  if (c < singles) {
    out[0] = small ? SIG_S2[c] : (uint8_t)c;
    return 1;
  }
  c -= singles;
  out[0] = SIG_S2[c / 11];
  out[1] = SIG_S2[c % 11];
  return 2;
}
static void
space_c_init(struct space_c *sp, int full3) {
  uint64_t m3 = full3 ? SEG_FULL : SEG_SMALL;
  sp->full3 = full3;
  sp->n1 = SEG_FULL;
  sp->n2 = (uint64_t)SEG_FULL * SEG_FULL;
  sp->n3 = m3 * m3 * m3;
  sp->total = 1 + sp->n1 + sp->n2 + sp->n3;
  snprintf(sp->name, sizeof sp->name, "c:lists(<=2 x %u, 3 x %u)", SEG_FULL, (unsigned)m3);
  snprintf(sp->name_inj, sizeof sp->name_inj, "c-inj:lists(<=2 x %u, 3 x %u)", SEG_FULL, (unsigned)m3);
}
static void
list_decode(const struct space_c *sp, uint64_t idx, struct ref_seglist *l) {
  l->n = 0;
  if (idx == 0)
    return;
  idx -= 1;
  if (idx < sp->n1) {
    l->n = 1;
    l->len[0] = seg_decode(0, (unsigned)idx, l->seg[0]);
    return;
  }
  idx -= sp->n1;
  if (idx < sp->n2) {
    l->n = 2;
    l->len[0] = seg_decode(0, (unsigned)(idx / SEG_FULL), l->seg[0]);
    l->len[1] = seg_decode(0, (unsigned)(idx % SEG_FULL), l->seg[1]);
    return;
  }
  idx -= sp->n2;
  unsigned m = sp->full3 ? SEG_FULL : SEG_SMALL;
  int small = !sp->full3;
  l->n = 3;
  l->len[2] = seg_decode(small, (unsigned)(idx % m), l->seg[2]);
  idx /= m;
  l->len[1] = seg_decode(small, (unsigned)(idx % m), l->seg[1]);
  idx /= m;
  l->len[0] = seg_decode(small, (unsigned)idx, l->seg[0]);
}

/* Real request PDU with the list as Uri-Path options and as Uri-Query options, through
 * coap_get_uri_path() / coap_get_query().  Returns 0 on success; strings are copied out. */
static int
compose(const struct ref_seglist *l, uint8_t *ps, size_t *pn, uint8_t *qs, size_t *qn, size_t cap) {
  coap_pdu_t *pdu = coap_pdu_init(COAP_MESSAGE_CON, COAP_REQUEST_CODE_GET, 0x1234, 256);
  int rc = -1;
  if (!pdu)
    return -1;
  for (int i = 0; i < l->n; i++)
    if (!coap_add_option(pdu, COAP_OPTION_URI_PATH, l->len[i], l->seg[i]))
      goto out;
  for (int i = 0; i < l->n; i++)
    if (!coap_add_option(pdu, COAP_OPTION_URI_QUERY, l->len[i], l->seg[i]))
      goto out;
  coap_string_t *p = coap_get_uri_path(pdu);
  coap_string_t *q = coap_get_query(pdu); /* NULL = no / empty query */
  if (p && p->length <= cap && (!q || q->length <= cap)) {
    memcpy(ps, p->s, p->length);
    *pn = p->length;
    *qn = q ? q->length : 0;
    if (q)
      memcpy(qs, q->s, q->length);
    rc = 0;
  }
  if (p)
    coap_delete_string(p);
  if (q)
    coap_delete_string(q);
out:
  coap_delete_pdu(pdu);
  return rc;
}

/* Diagnosis of a reconstructed string that does not lead back to its list(s): names the class in the
 * roundtrip: / collision: signatures.  nlo / nhi: segment counts of the list(s) that produced s. */
static const char *
string_class(int query, const uint8_t *s, size_t n, int nlo, int nhi) {
  uint8_t sep = query ? '&' : '/';
  int nsep = 0;
  for (size_t i = 0; i < n; i++)
    if (s[i] == sep)
      nsep++;
  for (size_t i = 0; i < n; i++) {
    uint8_t c = s[i];
    int text = (c >= 'A' && c <= 'Z') || (c >= 'a' && c <= 'z') || (c >= '0' && c <= '9') || (c && strchr("-._~!$&'()*+,;=:@/?%", c));
    if (!text)
      return "unwritten-bytes"; /* raw byte no escaper emits: fresh heap memory (0xBE), part of the string never written */
  }
  if (nsep > (nlo > 0 ? nlo - 1 : 0))
    return query ? "&" : "/"; /* a separator byte inside a segment was not escaped */
  if (nsep < nhi - 1)
    return "separator-missing";
  for (size_t i = 0; i < n; i++)
    if (s[i] == '%' && (n - i < 3 || !ref_is_hex(s[i + 1]) || !ref_is_hex(s[i + 2])))
      return "%"; /* a literal '%' was not escaped */
  return "other";
}

static int
list_has_dot_segment(const struct ref_seglist *l) {
  for (int i = 0; i < l->n; i++)
    if ((l->len[i] == 1 && l->seg[i][0] == '.') || (l->len[i] == 2 && l->seg[i][0] == '.' && l->seg[i][1] == '.'))
      return 1;
  return 0;
}

/* string -> options through both (b) functions of one kind; must give back L ([""] == []) */
static void
roundtrip(int query, const struct ref_seglist *L, const uint8_t *s, size_t n) {
  static struct ctx_split cs[2];
  static struct ctx_optlist co[2];
  char sig[160];
  const char *kind = query ? "query" : "path";
  struct ref_seglist G;
  const char *fn = query ? FN_SPLIT_QUERY : FN_SPLIT_PATH;
  cs[query].query = query;
  cs[query].size = 64; /* 3 segments of <= 2 decoded bytes: 9 bytes suffice */
  if (run_call(fn, call_split, &cs[query], s, n)) {
    if (cs[query].ret < 0 || parse_split_output(cs[query].out, cs[query].outlen, cs[query].ret, &G) != 0 ||
        !ref_seglist_equal_mod_empty(L, &G)) {
      if (cs[query].ret < 0 || parse_split_output(cs[query].out, cs[query].outlen, cs[query].ret, &G) != 0)
        G.n = 0;
      snprintf(sig, sizeof sig, "roundtrip:%s:%s", kind, string_class(query, s, n, L->n, L->n));
      failx(sig, "Uri-%s options %s -> %s %s -> %s returns %d = %s", query ? "Query" : "Path", show_list(L),
            query ? "coap_get_query" : "coap_get_uri_path", show(s, n), fn, cs[query].ret, show_list(&G));
    }
  }
  fn = query ? FN_QUERY_OPTLIST : FN_PATH_OPTLIST;
  co[query].query = query;
  co[query].prechain = 0;
  if (run_call(fn, call_optlist, &co[query], s, n)) {
    int bad = co[query].ret != 1 || co[query].res.overflow ||
              optres_to_list(&co[query].res, 0, query ? COAP_OPTION_URI_QUERY : COAP_OPTION_URI_PATH, &G) != 0;
    if (bad || !ref_seglist_equal_mod_empty(L, &G)) {
      if (bad)
        G.n = 0;
      snprintf(sig, sizeof sig, "roundtrip:%s:%s", kind, string_class(query, s, n, L->n, L->n));
      failx(sig, "Uri-%s options %s -> %s %s -> %s returns %d = %s", query ? "Query" : "Path", show_list(L),
            query ? "coap_get_query" : "coap_get_uri_path", show(s, n), fn, co[query].ret, show_list(&G));
    }
  }
}

static uint64_t
str_hash(const uint8_t *s, size_t n) {
  uint64_t h = vx_fnv(s, n, VX_FNV0);
  h ^= h >> 29; /* spread the top bits used for bucketing */
  h *= 0xBF58476D1CE4E5B9ULL;
  h ^= h >> 32;
  return h ? h : 1;
}

static void
case_c(uint64_t idx, void *arg) {
  struct space_c *sp = arg;
  struct ref_seglist L;
  uint8_t ps[64], qs[64];
  size_t pn = 0, qn = 0;
  list_decode(sp, idx, &L);
  case_begin(L.n <= 1);
  vxp_count(K_C_LISTS, 1);
  if (compose(&L, ps, &pn, qs, &qn, sizeof ps) != 0) {
    failx("uri-mismatch:coap_get_uri_path:no-string", "no path/query string for the options %s", show_list(&L));
    case_end();
    return;
  }
  if (sp->H[0]) {
    sp->H[0][idx] = str_hash(ps, pn);
    sp->H[1][idx] = str_hash(qs, qn);
  }
  /* RFC 7252 5.10.1: a Uri-Path option MUST NOT be "." or "..": such lists have no URI to go back through */
  if (list_has_dot_segment(&L))
    vxp_count(K_C_DOT_LISTS, 1);
  else
    roundtrip(0, &L, ps, pn);
  roundtrip(1, &L, qs, qn);
  if (L.n <= 2)
    vxp_distinct(vx_fnv(qs, qn, vx_fnv(ps, pn, VX_FNV0 ^ 0xc)));
  if (idx % 1000003 == 0 || idx == 700)
    vxp_sample("c idx=%llu options %s -> path %s query %s", (unsigned long long)idx, show_list(&L), show(ps, pn), show(qs, qn));
  case_end();
}

/* exact check of one candidate pair (same 64-bit hash): same string, different lists? */
static void
verify_collision(struct space_c *sp, int query, uint64_t i, uint64_t j) {
  struct ref_seglist A, B;
  uint8_t s[2][2][64];
  size_t n[2][2];
  list_decode(sp, i, &A);
  list_decode(sp, j, &B);
  if (compose(&A, s[0][0], &n[0][0], s[0][1], &n[0][1], 64) != 0 || compose(&B, s[1][0], &n[1][0], s[1][1], &n[1][1], 64) != 0)
    return;
  if (n[0][query] != n[1][query] || memcmp(s[0][query], s[1][query], n[0][query]) != 0) {
    vxp_count(K_C_HASH_FALSE, 1); /* 64-bit hash collision only */
    return;
  }
  if (ref_seglist_equal_mod_empty(&A, &B))
    return; /* [] and [""]: the identification the property states */
  vxp_count(query ? K_C_COLL_QUERY : K_C_COLL_PATH, 1);
  char sig[160];
  snprintf(sig, sizeof sig, "collision:%s:%s", query ? "query" : "path",
           string_class(query, s[0][query], n[0][query], A.n < B.n ? A.n : B.n, A.n > B.n ? A.n : B.n));
  failx(sig, "Uri-%s option lists %s and %s both give the %s string %s (%s)", query ? "Query" : "Path", show_list(&A),
        show_list(&B), query ? "query" : "lookup-key / path", show(s[0][query], n[0][query]),
        query ? "coap_get_query" : "coap_get_uri_path");
}

static void
case_c_inj(uint64_t idx, void *arg) {
  struct space_c *sp = arg;
  if (sp->P[0]) {
    for (int k = 0; k < 2; k++)
      if (sp->P[k][idx] != NONE) {
        vxp_count(K_C_CANDIDATES, 1);
        verify_collision(sp, k, idx, sp->P[k][idx]);
      }
    return;
  }
  /* replay without the tables: compare against every other list (slow, exact) */
  struct ref_seglist A, B;
  uint8_t as[2][64], bs[2][64];
  size_t an[2], bn[2];
  list_decode(sp, idx, &A);
  if (compose(&A, as[0], &an[0], as[1], &an[1], 64) != 0)
    return;
  for (uint64_t j = 0; j < sp->total; j++) {
    if (j == idx)
      continue;
    list_decode(sp, j, &B);
    if (compose(&B, bs[0], &bn[0], bs[1], &bn[1], 64) != 0)
      continue;
    for (int k = 0; k < 2; k++)
      if (an[k] == bn[k] && memcmp(as[k], bs[k], an[k]) == 0)
        verify_collision(sp, k, idx, j);
  }
}

/* second pass, between the two enumerations: P[k][i] = some other index with the same hash.
 * 16 forked helpers, helper w owns the hashes whose top 4 bits are w; plain sort + scan. */
struct hrec {
  uint64_t h;
  uint32_t idx;
};
static int
hrec_cmp(const void *a, const void *b) {
  const struct hrec *x = a, *y = b;
  if (x->h != y->h)
    return x->h < y->h ? -1 : 1;
  return x->idx < y->idx ? -1 : x->idx > y->idx;
}
static void
find_equal_hashes(struct space_c *sp) {
  pid_t pids[16];
  fflush(NULL);
  for (int w = 0; w < 16; w++) {
    pids[w] = fork();
    if (pids[w] != 0)
      continue;
    for (int k = 0; k < 2; k++) {
      size_t cnt = 0, cap = (size_t)(sp->total / 12) + 1024;
      struct hrec *r = malloc(cap * sizeof *r);
      for (uint64_t i = 0; i < sp->total; i++) {
        uint64_t h = sp->H[k][i];
        if (h == 0 || (int)(h >> 60) != w)
          continue;
        if (cnt == cap) {
          cap *= 2;
          r = realloc(r, cap * sizeof *r);
        }
        r[cnt].h = h;
        r[cnt++].idx = (uint32_t)i;
      }
      qsort(r, cnt, sizeof *r, hrec_cmp);
      for (size_t a = 0; a < cnt;) {
        size_t b = a + 1;
        while (b < cnt && r[b].h == r[a].h)
          b++;
        if (b - a > 1) {
          sp->P[k][r[a].idx] = r[a + 1].idx; /* the lowest index reports too: it becomes the replay artefact */
          for (size_t m = a + 1; m < b; m++)
            sp->P[k][r[m].idx] = r[a].idx;
        }
        a = b;
      }
      free(r);
    }
    _exit(0);
  }
  for (int w = 0; w < 16; w++) {
    int st;
    while (waitpid(pids[w], &st, 0) < 0)
      ;
    if (!WIFEXITED(st) || WEXITSTATUS(st) != 0) {
      fprintf(stderr, "c16: hash pass helper %d died\n", w);
      exit(2);
    }
  }
}

/* ------------------------------------------------------------------------------------------ */
/* C16_PROBE='string with \xHH escapes': show what libcoap and the reference do with one input  */
static void
probe_one(const char *esc) {
  uint8_t s[100];
  size_t n = 0;
  for (const char *p = esc; *p && n < 60; p++) {
    if (p[0] == '\\' && p[1] == 'x' && p[2] && p[3]) {
      unsigned v;
      sscanf(p + 2, "%2x", &v);
      s[n++] = (uint8_t)v;
      p += 3;
    } else
      s[n++] = (uint8_t)*p;
  }
  printf("input %s (%zu bytes)\n", show(s, n), n);
  for (int proxy = 0; proxy < 2; proxy++) {
    struct ctx_uri c = {.proxy = proxy, .want_opts = 1};
    struct ref_uri ru;
    heap_run(call_uri, &c, s, n);
    uint32_t mask = ref_uri_split(s, n, proxy, &ru);
    printf(" %s: rc=%d", proxy ? FN_SPLIT_PROXY : FN_SPLIT_URI, c.rc);
    if (c.rc == 0) {
      printf(" scheme=%d host=%s port=%u path=%s query=%s optlist_rc=%d opts=", c.scheme, show(s + c.host.off, c.host.len),
             c.port, show(s + c.path.off, c.path.len), show(s + c.query.off, c.query.len), c.opt_rc);
      for (int i = 0; i < c.opts.n; i++)
        printf("%u:%s ", c.opts.o[i].num, show(c.opts.o[i].val, c.opts.o[i].len));
    }
    printf("\n   reference: ");
    if (!mask)
      printf("valid");
    for (unsigned b = 0; b < 21; b++)
      if (mask & (1u << b))
        printf("%s ", ref_reason_name(1u << b));
    if (ru.scheme >= 0 && ru.has_authority)
      printf(" | host=%s port=%u path=%s query=%s", show(ru.host.s, ru.host.n), ru.port, show(ru.path.s, ru.path.n),
             ru.has_query ? show(ru.query.s, ru.query.n) : "-");
    printf("\n");
  }
  struct pathref pr;
  path_reference(s, n, &pr);
  printf(" as path : reference %s need=%zu\n", pr.rc ? "rejects" : show_list(&pr.R), pr.need);
  for (int q = 0; q < 2; q++) {
    struct ctx_split c = {.query = q, .size = 128};
    struct ctx_optlist o = {.query = q};
    struct ref_seglist G;
    heap_run(call_split, &c, s, n);
    if (c.ret < 0 || parse_split_output(c.out, c.outlen, c.ret, &G))
      G.n = 0;
    printf(" %s: ret=%d buflen=%zu %s\n", q ? FN_SPLIT_QUERY : FN_SPLIT_PATH, c.ret, c.outlen, show_list(&G));
    heap_run(call_optlist, &o, s, n);
    if (optres_to_list(&o.res, 0, q ? COAP_OPTION_URI_QUERY : COAP_OPTION_URI_PATH, &G))
      G.n = 0;
    printf(" %s: ret=%d %s\n", q ? FN_QUERY_OPTLIST : FN_PATH_OPTLIST, o.ret, show_list(&G));
  }
  struct ref_seglist Q;
  int qrc = ref_query_to_segments(s, n, &Q);
  printf(" as query: reference %s\n", qrc ? "rejects" : show_list(&Q));
}

/* ------------------------------------------------------------------------------------------ */
static void *
shared_alloc(size_t bytes, int fill) {
  void *p = mmap(NULL, bytes ? bytes : 1, PROT_READ | PROT_WRITE, MAP_SHARED | MAP_ANONYMOUS, -1, 0);
  if (p == MAP_FAILED) {
    perror("mmap shared");
    exit(2);
  }
  if (fill)
    memset(p, fill, bytes);
  return p;
}

int
main(int argc, char **argv) {
  vx_main_init(argc, argv, "C16");
  coap_startup();
  coap_set_log_level(COAP_LOG_EMERG);
  guard_setup();
  coap_address_init(&g_dst);
  g_dst.size = sizeof(struct sockaddr_in);
  g_dst.addr.sin.sin_family = AF_INET;
  g_dst.addr.sin.sin_port = htons(5683);
  g_dst.addr.sin.sin_addr.s_addr = htonl(0xC0000201u);

  int st0 = ref_uri_selftest();
  if (st0) {
    fprintf(stderr, "VX-HARNESS: refuri self-test failed at vector %d\n", st0);
    return 2;
  }
  if (getenv("C16_PROBE")) {
    probe_one(getenv("C16_PROBE"));
    return 0;
  }

#ifdef C16_BIG
  const int big = 1;
#else
  const int big = 0;
#endif
  g_skip_heap_run = !C16_ASAN;
  const int thorough = vx_is_thorough();

  /* every space this executable may have produced a replay file for */
  struct space_a sa[2];
  struct space_b sb[3], sb2[3];
  struct space_c sc[2];
  for (int i = 0; i < 2; i++) {
    sa[i].maxlen = 5 + (unsigned)i;
    sa[i].total = 8 * count_strings(13, sa[i].maxlen);
    snprintf(sa[i].name, sizeof sa[i].name, "a:split(prefix x Sigma_u^<=%u)", sa[i].maxlen);
  }
  for (int i = 0; i < 3; i++) {
    sb[i].alpha = SIG_P;
    sb[i].A = 16;
    sb[i].maxlen = 5 + (unsigned)i;
    sb[i].total = count_strings(16, sb[i].maxlen);
    snprintf(sb[i].name, sizeof sb[i].name, "b:path-query(Sigma_p^<=%u)", sb[i].maxlen);
    sb2[i].alpha = SIG_D;
    sb2[i].A = 8;
    sb2[i].maxlen = 6 + (unsigned)i;
    sb2[i].total = count_strings(8, sb2[i].maxlen);
    snprintf(sb2[i].name, sizeof sb2[i].name, "b2:double-decode(Sigma_d^<=%u)", sb2[i].maxlen);
  }
  for (int i = 0; i < 2; i++) {
    space_c_init(&sc[i], i);
    sc[i].H[0] = sc[i].H[1] = NULL;
    sc[i].P[0] = sc[i].P[1] = NULL;
  }
  const char *name_a2 = "a2:ports+schemes";
  for (int i = 0; i < 2; i++)
    if (vxp_replay_if_match(sa[i].name, case_a, &sa[i]))
      return 0;
  if (vxp_replay_if_match(name_a2, case_a2, NULL))
    return 0;
  for (int i = 0; i < 3; i++)
    if (vxp_replay_if_match(sb[i].name, case_b, &sb[i]) || vxp_replay_if_match(sb2[i].name, case_b, &sb2[i]))
      return 0;
  if (vxp_replay_if_match("b3:long-segments", case_b3, NULL))
    return 0;
  for (int i = 0; i < 2; i++) {
    if (vxp_replay_if_match(sc[i].name, case_c, &sc[i]))
      return 0;
    if (vxp_replay_if_match(sc[i].name_inj, case_c_inj, &sc[i]))
      return 0;
  }

  if (big && !thorough) {
    vx_ev_rule("fast stage: thorough-only spaces (b: Sigma_p^<=7, c: 3 x 378 segments); nothing to do in quick");
    return vx_finish();
  }

  struct vxp_stats st;
  uint64_t evals = 0;
  struct space_a *A = big ? NULL : &sa[thorough ? 1 : 0];
  struct space_b *B = big ? &sb[2] : &sb[thorough ? 1 : 0];
  struct space_b *B2 = big ? &sb2[2] : &sb2[thorough ? 1 : 0];
  struct space_c *C = big ? &sc[1] : &sc[0];

  if (A) {
    struct vxp_config c = {.space = A->name, .total = A->total};
    vxp_enumerate(&c, case_a, A, &st);
    evals += st.done;
    struct vxp_config c2 = {.space = name_a2, .total = 3ull * PORT_N + PORT_SPECIALS + SCHEME_GRID};
    vxp_enumerate(&c2, case_a2, NULL, &st);
    evals += st.done;
  }
  if (!big) {
    struct vxp_config c3 = {.space = "b3:long-segments", .total = B3_TOTAL, .chunk = 8};
    vxp_enumerate(&c3, case_b3, NULL, &st);
    evals += st.done;
  }
  /* the cheap list space runs first so that a deadline can only cut the big string space */
  for (int pass = 0; pass < 2; pass++) {
    if (pass == 1) {
      struct vxp_config c2 = {.space = B2->name, .total = B2->total};
      vxp_enumerate(&c2, case_b, B2, &st);
      evals += st.done;
      struct vxp_config c = {.space = B->name, .total = B->total};
      vxp_enumerate(&c, case_b, B, &st);
      evals += st.done;
      continue;
    }
    for (int k = 0; k < 2; k++) {
      C->H[k] = shared_alloc(C->total * sizeof(uint64_t), 0);
      C->P[k] = shared_alloc(C->total * sizeof(uint32_t), 0xff);
    }
    struct vxp_config c = {.space = C->name, .total = C->total};
    vxp_enumerate(&c, case_c, C, &st);
    evals += st.done;
    if (vx_time_left() > 5) {
      find_equal_hashes(C);
      struct vxp_config ci = {.space = C->name_inj, .total = C->total, .chunk = 500000};
      vxp_enumerate(&ci, case_c_inj, C, &st);
    } else
      vx_ev_not_exhaustive("c-inj: no time left for the injectivity pass");
  }

  vx_ev_add_states((long long)evals, (long long)evals, (long long)evals);
  vx_ev_add_evals((long long)evals, (long long)vxp_distinct_count());
  vx_ev_rule("every string / segment list of the bounded alphabets is run through the real libcoap functions on a guard-page "
             "copy and on an exact-size malloc copy (ASan) and compared with ref/refuri.c (RFC 3986 3, 2.1, 5.2.4; RFC 7252 "
             "6.4, 6.5). distinct_nontrivial counts: (a) distinct (scheme,host,port,path,query) results of valid URIs, (b) "
             "inputs with a percent-escape or dot-segment that the reference accepts, (c) distinct (path,query) strings of "
             "lists of <= 2 segments. Injectivity: hash of every reconstructed string in a shared table, sort, every pair of "
             "equal hashes re-composed and compared byte for byte.");
  vx_ev_assumption("representation differences normalised, not flagged: libcoap's path has no leading '/'; empty query == no "
                   "query; a single empty segment == no segment; a string starting with '/' is path[?query] for "
                   "coap_split_uri (documented) and invalid for coap_split_proxy_uri; coap_split_path/_query/.._into_optlist "
                   "accept a trailing ?query / #fragment and ignore it");
  vx_ev_assumption("RFC-invalid URIs that libcoap's documentation does not promise to reject in coap_split_uri (userinfo, "
                   "fragment, '/', '?' or '#' inside [..], bytes outside a component's ABNF incl. non-IPv6 text in [..]) are "
                   "tolerated either way and counted (a.question.*); structural errors (unknown/missing scheme, empty host, "
                   "unterminated or empty [..], junk after ], non-numeric port, port > 65535) must be rejected");
  vx_ev_assumption("too-small output buffer: a truncated result is not flagged (the statement does not ask for an error and the "
                   "repository's tests t_parse_uri15/16 require the 0 return); checked for every buffer size from needed+1 down to 0: "
                   "nothing is written outside the exact-size heap buffer, *buflen never exceeds it, the output is a well-formed option "
                   "encoding; space b3 repeats this for 1-2 segments of 0,1,2,11..16,100,254,255 decoded bytes (option header size boundary, option length limit), and for such a segment followed by 8 tails whose dot-segments remove later (or all) segments again");
  vx_ev_assumption("segment lists containing a '.' or '..' Uri-Path option (forbidden by RFC 7252 5.10.1) are exempt from the "
                   "path round trip, not from the injectivity check");
#ifdef C16_BIG
#define EV(k) "big." k
#else
#define EV(k) k
#endif
  vx_ev_int(EV("a.valid_accepted"), (long long)vxp_counter(K_A_VALID));
  vx_ev_int(EV("a.malformed_checked"), (long long)vxp_counter(K_A_REJECT));
  vx_ev_int(EV("a.question.accepted"), (long long)vxp_counter(K_A_Q_ACC));
  vx_ev_int(EV("a.question.rejected"), (long long)vxp_counter(K_A_Q_REJ));
  vx_ev_int(EV("a.question.accepted.fragment"), (long long)vxp_counter(K_Q_FRAGMENT));
  vx_ev_int(EV("a.question.accepted.userinfo"), (long long)vxp_counter(K_Q_USERINFO));
  vx_ev_int(EV("a.question.accepted.delimiter-inside-brackets"), (long long)vxp_counter(K_Q_IPLIT_DELIM));
  vx_ev_int(EV("a.question.accepted.not-an-ipv6-address"), (long long)vxp_counter(K_Q_IPLIT_BAD));
  vx_ev_int(EV("a.question.accepted.host-bytes"), (long long)vxp_counter(K_Q_HOST));
  vx_ev_int(EV("a.question.accepted.path-bytes"), (long long)vxp_counter(K_Q_PATH));
  vx_ev_int(EV("a.question.accepted.query-bytes"), (long long)vxp_counter(K_Q_QUERY));
  vx_ev_int(EV("b.path.reference_accepts"), (long long)vxp_counter(K_B_PATH_OK));
  vx_ev_int(EV("b.path.reference_rejects_bad_escape"), (long long)vxp_counter(K_B_PATH_BADPCT));
  vx_ev_int(EV("b.query.reference_accepts"), (long long)vxp_counter(K_B_QUERY_OK));
  vx_ev_int(EV("b.query.reference_rejects_bad_escape"), (long long)vxp_counter(K_B_QUERY_BADPCT));
  vx_ev_int(EV("b.split_calls_over_buffer_sizes"), (long long)vxp_counter(K_B_SPLIT_CALLS));
  vx_ev_int(EV("b.bad_escape_accepted_but_segment_popped_by_dotdot"), (long long)vxp_counter(K_B_AMBIG));
  vx_ev_int(EV("b.uri_into_optlist.compared"), (long long)vxp_counter(K_B_URI_OK));
  vx_ev_int(EV("b.uri_into_optlist.skipped_fragment"), (long long)vxp_counter(K_B_URI_FRAGMENT));
  vx_ev_int(EV("c.lists"), (long long)vxp_counter(K_C_LISTS));
  vx_ev_int(EV("c.lists_with_dot_segment"), (long long)vxp_counter(K_C_DOT_LISTS));
  vx_ev_int(EV("c.equal_hash_candidates"), (long long)vxp_counter(K_C_CANDIDATES));
  vx_ev_int(EV("c.hash_only_collisions"), (long long)vxp_counter(K_C_HASH_FALSE));
  vx_ev_int(EV("c.colliding_lists.path"), (long long)vxp_counter(K_C_COLL_PATH));
  vx_ev_int(EV("c.colliding_lists.query"), (long long)vxp_counter(K_C_COLL_QUERY));
  vx_ev_int(EV("overread_detections_on_guard_copy"), (long long)vxp_counter(K_OVERREAD));
  vx_ev_int(EV("asan"), C16_ASAN);
  return vx_finish();
}
