/* C16 -- URI text <-> CoAP options: exhaustive in-process string enumeration (vxp) against ref/refuri.c.
 *
 * Spaces (see DESIGN.md "### C16"):
 *   a   coap_split_uri / coap_split_proxy_uri on prefix x tail, tail in Sigma_u^{<=5|6}
 *   a2  explicit port numbers (0..70000, leading zeros, wrap-around values)
 *   b   coap_split_path / coap_path_into_optlist / coap_split_query / coap_query_into_optlist /
 *       coap_uri_into_optlist on Sigma_p^{<=5|6|7}, every output buffer size 0..needed+1
 *   c   segment lists -> PDU -> coap_get_uri_path / coap_get_query -> string -> (b) functions -> list,
 *       and injectivity of list -> string over the whole enumerated set (second exact pass, c-inj)
 *
 * Overreads.  Every call runs on two copies of the input:
 *   1. a copy that ends exactly at a PROT_NONE page ("guard copy"): a read past the end faults, the
 *      SIGSEGV handler longjmps out and the case goes on, so that the ~10^4..10^6 inputs that trigger one
 *      known overread do not kill 10^4 workers (the machinery gives up after 200 crashes);
 *   2. an exact-size malloc(len) copy (no terminator) under ASan, unless the guard copy already showed an
 *      overread.  For the shortest inputs (C16_CRASH_LEN) the malloc run is done nevertheless at the end of
 *      the case so that the genuine ASan report pins the signature `asan:heap-buffer-overflow:<frame>`.
 *   Guard-copy detections are filed under the very signature ASan prints for the same access: kind
 *   heap-buffer-overflow, innermost frame (inlines resolved with addr2line -i, as ASan's symbolizer does).
 */
#ifndef _GNU_SOURCE
#define _GNU_SOURCE
#endif
#include <coap3/coap_internal.h>
#include "vx.h"
#include "refuri.h"
#include <setjmp.h>
#include <signal.h>
#include <stdarg.h>
#include <stdio.h>
#include <stdlib.h>
#include <string.h>
#include <sys/mman.h>
#include <sys/wait.h>
#include <ucontext.h>
#include <unistd.h>

#if defined(__SANITIZE_ADDRESS__)
#define C16_ASAN 1
#else
#define C16_ASAN 0
#endif

/* ------------------------------------------------------------------------------------------ */
/* printing                                                                                   */
static const char *
show(const uint8_t *s, size_t n) {
  static char ring[12][320];
  static int k;
  char *b = ring[k++ % 12];
  size_t o = 0;
  b[o++] = '"';
  for (size_t i = 0; i < n && o + 8 < sizeof ring[0]; i++) {
    uint8_t c = s[i];
    if (c == '"' || c == '\\') {
      b[o++] = '\\';
      b[o++] = (char)c;
    } else if (c >= 0x20 && c < 0x7f)
      b[o++] = (char)c;
    else
      o += (size_t)snprintf(b + o, 6, "\\x%02x", c);
  }
  b[o++] = '"';
  b[o] = 0;
  return b;
}
static const char *
show_list(const struct ref_seglist *l) {
  static char ring[6][400];
  static int k;
  char *b = ring[k++ % 6];
  size_t o = 0;
  b[o++] = '[';
  for (int i = 0; i < l->n && o + 80 < sizeof ring[0]; i++)
    o += (size_t)snprintf(b + o, sizeof ring[0] - o, "%s%s", i ? "," : "", show(l->seg[i], l->len[i]));
  b[o++] = ']';
  b[o] = 0;
  return b;
}

/* ------------------------------------------------------------------------------------------ */
/* failures: one report per signature and process is enough (indices only grow inside a worker,  */
/* the machinery keeps the lowest index per signature)                                           */
static uint64_t g_seen[256];
static int g_nseen;
static void failx(const char *sig, const char *fmt, ...) __attribute__((format(printf, 2, 3)));
static void
failx(const char *sig, const char *fmt, ...) {
  uint64_t h = vx_fnv(sig, strlen(sig), VX_FNV0);
  if (!vx_in_replay())
    for (int i = 0; i < g_nseen; i++)
      if (g_seen[i] == h)
        return;
  char b[600];
  va_list ap;
  va_start(ap, fmt);
  vsnprintf(b, sizeof b, fmt, ap);
  va_end(ap);
  vx_fail(sig, "%s", b);
  if (g_nseen < 256)
    g_seen[g_nseen++] = h;
}

/* ------------------------------------------------------------------------------------------ */
/* guard copy + SIGSEGV recovery                                                               */
static uint8_t *g_guard; /* [one RW page][one PROT_NONE page] */
static size_t g_page;
static sigjmp_buf g_jb;
static volatile sig_atomic_t g_probing;
static volatile uintptr_t g_fault_pc, g_fault_off;
static struct sigaction g_old_segv, g_old_bus;
static char g_exe[512];

static void
on_fault(int sig, siginfo_t *si, void *ucv) {
  uintptr_t a = (uintptr_t)si->si_addr, g = (uintptr_t)g_guard + g_page;
  if (g_probing && a >= g && a < g + g_page) {
    ucontext_t *uc = ucv;
    g_fault_pc = (uintptr_t)uc->uc_mcontext.gregs[REG_RIP];
    g_fault_off = a - g;
    g_probing = 0;
    siglongjmp(g_jb, 1);
  }
  struct sigaction *old = sig == SIGBUS ? &g_old_bus : &g_old_segv;
  if (old->sa_flags & SA_SIGINFO) {
    old->sa_sigaction(sig, si, ucv);
    return;
  }
  if (old->sa_handler != SIG_DFL && old->sa_handler != SIG_IGN) {
    old->sa_handler(sig);
    return;
  }
  signal(sig, SIG_DFL); /* re-executes the faulting instruction and dies the default way */
}

static void
guard_setup(void) {
  g_page = (size_t)sysconf(_SC_PAGESIZE);
  g_guard = mmap(NULL, 2 * g_page, PROT_READ | PROT_WRITE, MAP_PRIVATE | MAP_ANONYMOUS, -1, 0);
  if (g_guard == MAP_FAILED || mprotect(g_guard + g_page, g_page, PROT_NONE) != 0) {
    perror("guard mmap");
    exit(2);
  }
  struct sigaction sa;
  memset(&sa, 0, sizeof sa);
  sa.sa_sigaction = on_fault;
  sa.sa_flags = SA_SIGINFO | SA_NODEFER;
  sigemptyset(&sa.sa_mask);
  sigaction(SIGSEGV, &sa, &g_old_segv);
  sigaction(SIGBUS, &sa, &g_old_bus);
  ssize_t n = readlink("/proc/self/exe", g_exe, sizeof g_exe - 1);
  g_exe[n > 0 ? n : 0] = 0;
}

/* innermost function (inlines resolved) at pc, as ASan's symbolizer would print it; "" if unknown */
static const char *
symbolize(uintptr_t pc) {
  static struct {
    uintptr_t pc;
    char name[80];
  } cache[32];
  static int n;
  for (int i = 0; i < n; i++)
    if (cache[i].pc == pc)
      return cache[i].name;
  char cmd[700], line[200] = "";
  snprintf(cmd, sizeof cmd, "addr2line -f -i -e '%s' 0x%lx 2>/dev/null", g_exe, (unsigned long)pc);
  FILE *p = popen(cmd, "r");
  if (p) {
    if (!fgets(line, sizeof line, p))
      line[0] = 0;
    pclose(p);
  }
  line[strcspn(line, "\r\n")] = 0;
  if (line[0] == '?' || strchr(line, ' '))
    line[0] = 0;
  int slot = n < 32 ? n++ : 31;
  cache[slot].pc = pc;
  snprintf(cache[slot].name, sizeof cache[slot].name, "%s", line);
  return cache[slot].name;
}

/* A libcoap call under test: reads `in[0..len)`, stores self-contained results in ctx unless probe != 0
 * (then it only has to release what it allocated). */
typedef void (*call_fn)(void *ctx, const uint8_t *in, size_t len, int probe);

static struct {
  int set;
  call_fn fn;
  void *ctx;
  uint8_t in[128];
  size_t len;
} g_pending; /* first overreading call of the current case, to be re-run on the malloc copy */
static int g_crash_allowed;
static int g_skip_heap_run; /* fast stage: nothing watches the malloc copy, the guard copy is the run */

static void
heap_run(call_fn fn, void *ctx, const uint8_t *src, size_t len) {
  uint8_t *h = malloc(len); /* exact size, no terminator */
  if (len)
    memcpy(h, src, len);
  fn(ctx, h, len, 0);
  free(h);
}

/* 1: ctx holds the results; 0: the call read past the end of its input (reported, ctx invalid) */
static int
run_call(const char *api, call_fn fn, void *ctx, const uint8_t *src, size_t len) {
  uint8_t *g = g_guard + g_page - len;
  if (len)
    memcpy(g, src, len);
  g_probing = 1;
  if (sigsetjmp(g_jb, 0) == 0) {
    fn(ctx, g, len, g_skip_heap_run ? 0 : 1);
    g_probing = 0;
  } else {
    const char *fr = symbolize(g_fault_pc);
    char sig[200];
    if (fr[0])
      snprintf(sig, sizeof sig, "asan:heap-buffer-overflow:%s", fr);
    else
      snprintf(sig, sizeof sig, "overread:%s", api);
    vxp_count(31, 1);
    failx(sig, "%s(%s, len=%zu) reads input[len+%lu] (READ past the end of the exact-size input, in %s)", api,
          show(src, len), len, (unsigned long)g_fault_off, fr[0] ? fr : "?");
    if (!g_pending.set && len <= sizeof g_pending.in) {
      g_pending.set = 1;
      g_pending.fn = fn;
      g_pending.ctx = ctx;
      memcpy(g_pending.in, src, len);
      g_pending.len = len;
    }
    return 0;
  }
  if (!g_skip_heap_run)
    heap_run(fn, ctx, src, len);
  return 1;
}

static void
case_begin(int crash_allowed) {
  g_pending.set = 0;
  g_crash_allowed = crash_allowed;
}
static void
case_end(void) {
  if (g_pending.set && g_crash_allowed && C16_ASAN) {
    fflush(NULL);
    heap_run(g_pending.fn, g_pending.ctx, g_pending.in, g_pending.len); /* ASan aborts here */
  }
  g_pending.set = 0;
}
