/* C12 -- sessions map 1:1 to peers, live while referenced; everything is released.
 *
 * A real libcoap server context with two UDP endpoints receives traffic from raw peers.  Every
 * operation sequence up to depth d over {request from peer p0..p3 (distinct address / same address other
 * port / same address+port on the second endpoint), request whose handler takes an application reference,
 * release of that reference, observe registration / cancellation, async registration / trigger, resource
 * change, virtual-time jump to just before / past the session timeout} x {session_timeout 5 s} x
 * {max_idle_sessions 0,1,2} is run in-process (vxp), followed by context teardown.  A reference model of
 * session lifetime predicts every SERVER_SESSION_NEW / SERVER_SESSION_DEL event; ASan watches for use after
 * free / double free; the balance of the allocation funnel must be zero after coap_free_context().
 *
 * Enlarged alphabet ("xops" spaces, smaller depth): the same server additionally has a TCP endpoint and a second
 * observable resource.  New operations: a raw TCP client t0 (connect + CSM on demand, a fresh source port per
 * connection) that requests, requests with the handler taking an application reference, observes /o and /o2, closes
 * its connection (FIN) or sends 7.04 Release; p0 observing a second resource (/o2) and the first one a second time with
 * another token and query; the application calling coap_session_disconnected() on p0's session.  So sessions are
 * torn down by DISCONNECT (not only idle timeout / eviction / teardown) while observations, an application reference
 * or nothing hang off them, and one session holds up to three observations.  The model: a disconnect ends every
 * observation of that session (and only those); a TCP session whose connection is gone and which nobody holds MAY be
 * reclaimed at once and MUST be reclaimed once the session timeout has passed; the same holds for a UDP session the
 * application declared failed until the peer's next datagram (libcoap keeps it; dropping it early would be no
 * violation of the statement).  At every quiescent point the reclaimability
 * libcoap itself uses (session->ref == 0) must agree with the model's holder set (application, observation, async).
 */
#include "netsim.h"
#include "wire.h"
#include <stdarg.h>

void *__real_coap_malloc_type(coap_memory_tag_t type, size_t size);
void *__real_coap_realloc_type(coap_memory_tag_t type, void *p, size_t size);
void __real_coap_free_type(coap_memory_tag_t type, void *p);
void *__wrap_coap_malloc_type(coap_memory_tag_t type, size_t size);
void *__wrap_coap_realloc_type(coap_memory_tag_t type, void *p, size_t size);
void __wrap_coap_free_type(coap_memory_tag_t type, void *p);
static long live_blocks;
void *
__wrap_coap_malloc_type(coap_memory_tag_t type, size_t size) {
  void *p = __real_coap_malloc_type(type, size);
  if (p)
    live_blocks++;
  return p;
}
void *
__wrap_coap_realloc_type(coap_memory_tag_t type, void *p, size_t size) {
  void *q = __real_coap_realloc_type(type, p, size);
  if (!p && q)
    live_blocks++;
  return q;
}
void
__wrap_coap_free_type(coap_memory_tag_t type, void *p) {
  if (p)
    live_blocks--;
  __real_coap_free_type(type, p);
}

/* coap_new_context() -> coap_dtls_new_context() -> gnutls_priority_init() parses the cipher-suite string again for every
 * context: a third of the CPU time of a case, and no (D)TLS session exists in this check.  The parsed object of the
 * first call is shared by all later contexts of the process (it is immutable once built); libcoap's code is unchanged. */
#include <gnutls/gnutls.h>
int __real_gnutls_priority_init(gnutls_priority_t *cache, const char *prio, const char **err);
void __real_gnutls_priority_deinit(gnutls_priority_t cache);
int __wrap_gnutls_priority_init(gnutls_priority_t *cache, const char *prio, const char **err);
void __wrap_gnutls_priority_deinit(gnutls_priority_t cache);
static gnutls_priority_t prio_shared;
static char prio_shared_str[256];
int
__wrap_gnutls_priority_init(gnutls_priority_t *cache, const char *prio, const char **err) {
  if (prio_shared && prio && !strcmp(prio, prio_shared_str)) {
    *cache = prio_shared;
    return 0;
  }
  int r = __real_gnutls_priority_init(cache, prio, err);
  if (r == 0 && !prio_shared && prio && strlen(prio) < sizeof prio_shared_str) {
    strcpy(prio_shared_str, prio);
    prio_shared = *cache;
  }
  return r;
}
void
__wrap_gnutls_priority_deinit(gnutls_priority_t cache) {
  if (cache && cache == prio_shared)
    return;
  __real_gnutls_priority_deinit(cache);
}
__attribute__((destructor)) static void
prio_shared_fini(void) {
  if (prio_shared)
    __real_gnutls_priority_deinit(prio_shared);
  prio_shared = NULL;
}

enum {
  OP_REQ0, OP_REQ1, OP_REQ2, OP_REQ3, OP_REQREF0, OP_REL0, OP_OBS0, OP_CANCEL0, OP_ASYNC1, OP_TRIG, OP_CHG, OP_JUMP_BEFORE, OP_JUMP_PAST, OP_QUIET0, OP_QUIET2,
  OP_N_OLD,
  /* enlarged alphabet */
  OP_OBS0B = OP_N_OLD, OP_OBS0Q, OP_DISC0, OP_TREQ, OP_TREQREF, OP_TREL, OP_TOBS, OP_TOBSB, OP_TCLOSE, OP_TRELEASE,
  /* multicast alphabet */
  OP_MCAST, OP_JUMP_1S, OP_RSTCHG,
  OP_N
};
static const char *op_names[] = {"req(p0)", "req(p1)", "req(p2)", "req(p3)", "req+ref(p0)", "rel(p0)", "obs(p0)", "cancel(p0)", "async(p1)", "trig", "chg", "jump(T-1)", "jump(T+1)", "quiet(p0)", "quiet(p2)",
                                 "obs2(p0)", "obsq(p0)", "disc(p0)", "treq(t0)", "treq+ref(t0)", "rel(t0)", "tobs(t0)", "tobs2(t0)", "tclose(t0)", "trelease(t0)",
                                 "mcast(m0)", "jump(1s)", "chg+rst(p0)"};
/* the "xops" spaces: every new operation plus the old ones that interact with p0 / t0 / reclamation */
static const int xops[] = {OP_REQ0, OP_REQ1, OP_REQREF0, OP_REL0, OP_OBS0, OP_CANCEL0, OP_CHG, OP_JUMP_PAST,
                           OP_OBS0B, OP_OBS0Q, OP_DISC0, OP_TREQ, OP_TREQREF, OP_TREL, OP_TOBS, OP_TOBSB, OP_TCLOSE, OP_TRELEASE};
#define XOP_N ((int)(sizeof xops / sizeof xops[0]))
/* the "mops" spaces: a NON request of peer m0 to the multicast group the first endpoint's port listens on; its response is held
 * back for a random leisure (RFC 7252 8.2, up to 5 s) in the send queue: a queued message is the only holder of m0's session
 * until virtual time passes the leisure.  Operations that move time, create other sessions (eviction) and reclaim. */
static const int mops[] = {OP_MCAST, OP_REQ0, OP_REQ1, OP_REQ2, OP_JUMP_1S, OP_JUMP_BEFORE, OP_JUMP_PAST, OP_QUIET0,
                           /* p0 observes /o; a resource change whose notification p0 answers with a Reset (RFC 7641 3.6: the
                            * observation ends, the session loses that holder) */
                           OP_OBS0, OP_RSTCHG};
#define MOP_N ((int)(sizeof mops / sizeof mops[0]))
#define NPEER 5               /* UDP peers p0..p3, m0 (talks to the multicast group only) */
#define P_M0 4
#define MAXT 8                /* TCP connections of t0 per case (one per operation at most) */
#define NSLOT (NPEER + MAXT)  /* model slots: one per UDP peer, one per TCP connection */
#define TIMEOUT_S 5
#define T_HOST 13
#define OB_O 1  /* /o (tokens: UDP 0x30, TCP 0x63) */
#define OB_O2 2 /* /o2 (tokens: UDP 0x31, TCP 0x64) */
#define OB_OQ 4 /* /o?v=1 with another token (UDP 0x32) */

struct msess {
  int alive;
  const coap_session_t *ptr;
  uint64_t last;
  int app_refs, obs /* set of OB_* */, async;
  int queued; /* responses held back in the send queue (multicast leisure) */
  int new_events, del_events;
  int tcp;      /* slot of a TCP connection */
  int gone;     /* TCP: the connection has ended (peer closed it / sent Release); UDP: the application declared the
                 * session failed and no datagram of the peer has arrived since */
  int was_disc; /* some disconnect has hit this session (diagnostics only) */
};
static struct msess M[NSLOT];
static coap_context_t *ctx;
static coap_address_t srv[3], peer[NSLOT];
static int peer_ep[NSLOT] = {0, 0, 0, 1, 0};
static coap_address_t grp;
static coap_resource_t *r_plain, *r_obs, *r_obs2, *r_async;
static coap_session_t *held_ref;   /* the application's reference on p0's session */
static coap_session_t *held_ref_t; /* the application's reference on a session of t0 */
static int held_t_slot;
static coap_async_t *pend_async;
static int take_ref_next, take_ref_next_t;
static int max_idle;
static int ext; /* enlarged alphabet: TCP endpoint and /o2 exist */
static uint16_t next_mid;
static ns_stream_t *tst[MAXT];
static int ntcp;  /* TCP connections made so far */
static int tcur;  /* slot of t0's latest connection, -1 = never connected */
static char trace[900];
static size_t trace_len;
static int failed;
static char opseq[240];

/* trace text is appended without printf: the sanitizer's vsnprintf interceptor is slow and this runs per event */
static void
tr_s(const char *t) {
  size_t n = strlen(t);
  if (n > sizeof trace - 1 - trace_len)
    n = sizeof trace - 1 - trace_len;
  memcpy(trace + trace_len, t, n);
  trace_len += n;
  trace[trace_len] = 0;
}
static void
tr4(const char *a, const char *b, const char *c, const char *d) {
  tr_s(a);
  tr_s(b);
  tr_s(c);
  tr_s(d);
}
static void
fail(const char *sig, const char *fmt, ...) {
  char msg[500];
  va_list ap;
  va_start(ap, fmt);
  vsnprintf(msg, sizeof msg, fmt, ap);
  va_end(ap);
  failed = 1;
  vx_fail(sig, "ops=[%s] max_idle=%d: %s | trace: %s", opseq, max_idle, msg, trace);
}

static int
nslots(void) {
  return NPEER + ntcp;
}
static const char *
pname(int p) {
  static const char *const n[NSLOT] = {"p0", "p1", "p2", "p3", "m0", "t0#0", "t0#1", "t0#2", "t0#3", "t0#4", "t0#5", "t0#6", "t0#7"};
  return p >= 0 && p < NSLOT ? n[p] : "?";
}
static int
peer_of_session(const coap_session_t *s) {
  const coap_address_t *ra = coap_session_get_addr_remote(s);
  const coap_address_t *la = coap_session_get_addr_local(s);
  int tcp = coap_session_get_proto(s) == COAP_PROTO_TCP;
  for (int p = 0; p < nslots(); p++)
    if (ns_addr_host(ra) == ns_addr_host(&peer[p]) && ns_addr_port(ra) == ns_addr_port(&peer[p]) &&
        ns_addr_port(la) == ns_addr_port(&srv[peer_ep[p]]) && tcp == (p >= NPEER))
      return p;
  return -1;
}
static int
held(const struct msess *m) {
  return m->app_refs || m->obs || m->async || m->queued;
}
static const char *
holders(const struct msess *m) {
  static char b[80];
  snprintf(b, sizeof b, "%s%s%s%s", m->app_refs ? "app-reference," : "", m->obs ? "observation," : "", m->async ? "async-entry," : "",
           m->queued ? "queued-message," : "");
  if (!b[0])
    snprintf(b, sizeof b, "none");
  return b;
}

/* expected events of the step in progress */
static int exp_new[NSLOT], exp_del[NSLOT];
static const char *exp_del_why[NSLOT];

static int
event_handler(coap_session_t *s, const coap_event_t e) {
  if (e != COAP_EVENT_SERVER_SESSION_NEW && e != COAP_EVENT_SERVER_SESSION_DEL)
    return 0;
  int p = peer_of_session(s);
  tr4(e == COAP_EVENT_SERVER_SESSION_NEW ? " NEW(" : " DEL(", p < 0 ? "?" : pname(p), ")", "");
  if (p < 0) {
    fail("event:unknown-peer", "session event for an address no peer uses");
    return 0;
  }
  struct msess *m = &M[p];
  if (e == COAP_EVENT_SERVER_SESSION_NEW) {
    m->new_events++;
    if (!exp_new[p]) {
      fail(m->alive ? "event:second-NEW-for-live-peer" : "event:unexpected-NEW", "SERVER_SESSION_NEW for %s not predicted (model alive=%d)", pname(p), m->alive);
    }
    exp_new[p] = 0;
    m->ptr = s;
    for (int q = 0; q < nslots(); q++)
      if (q != p && M[q].alive && M[q].ptr == s)
        fail("identity:pointer-shared", "new session of %s has the same object as the live session of %s", pname(p), pname(q));
  } else {
    m->del_events++;
    if (m->ptr != s)
      fail("event:DEL-of-other-object", "SERVER_SESSION_DEL for %s names a different session object than NEW did", pname(p));
    if (!exp_del[p]) {
      if (m->alive && m->gone && !held(m)) {
        /* the connection is gone (TCP) / the application declared the session failed and the peer has not been heard
         * since (UDP), and nobody holds the session: reclaiming it before the timeout is allowed */
        m->alive = 0;
        vxp_count(3, 1);
      } else {
        char sig[120];
        if (held(m))
          snprintf(sig, sizeof sig, "session-freed-while-held-by:%s", holders(m));
        else
          snprintf(sig, sizeof sig, "event:unexpected-DEL:%s", ns_now() - m->last < TIMEOUT_S * 1000 ? "before-timeout" : "after-timeout");
        fail(sig, "SERVER_SESSION_DEL for %s not predicted (idle for %llu ms, holders: %s)", pname(p), (unsigned long long)(ns_now() - m->last), holders(m));
      }
    }
    exp_del[p] = 0;
  }
  return 0;
}

static void
hnd(coap_resource_t *r, coap_session_t *s, const coap_pdu_t *req, const coap_string_t *q, coap_pdu_t *resp) {
  (void)q;
  int p = peer_of_session(s);
  if (p < 0 || !M[p].ptr || M[p].ptr != s)
    fail("identity:handler-session-differs", "request from %s handled on a session object other than the one announced by SERVER_SESSION_NEW", p < 0 ? "?" : pname(p));
  if (p >= 0 && M[p].new_events == M[p].del_events)
    fail("identity:handler-on-deleted-session", "request from %s handled on a session after its SERVER_SESSION_DEL / before NEW", pname(p));
  if (r == r_async) {
    coap_bin_const_t tok = coap_pdu_get_token(req);
    if (!coap_find_async(s, tok)) {
      pend_async = coap_register_async(s, req, 0);
      if (pend_async)
        return;
    } else
      pend_async = NULL;
  }
  if (take_ref_next && p == 0) {
    take_ref_next = 0;
    if (!held_ref)
      held_ref = coap_session_reference(s);
  }
  if (take_ref_next_t && p >= NPEER) {
    take_ref_next_t = 0;
    if (!held_ref_t) {
      held_ref_t = coap_session_reference(s);
      held_t_slot = p;
    }
  }
  coap_pdu_set_code(resp, COAP_RESPONSE_CODE_CONTENT);
  coap_add_data(resp, 2, (const uint8_t *)"ok");
}

static int rst_next_notif; /* p0 answers the next notification it receives with a Reset */
static void
raw_rx(const ns_dgram_t *d) {
  struct w_msg m;
  if (!w_parse(d->data, d->len, &m))
    return;
  /* responses / notifications arriving at a peer: the session was active at this instant */
  for (int p = 0; p < NPEER; p++)
    if (ns_addr_host(&d->dst) == ns_addr_host(&peer[p]) && ns_addr_port(&d->dst) == ns_addr_port(&peer[p]) &&
        ns_addr_port(&d->src) == ns_addr_port(&srv[peer_ep[p]])) {
      M[p].last = d->sent_at;
      if (p == P_M0 && M[p].queued && m.tkl == 1 && m.token[0] == 0x70) {
        M[p].queued--; /* the held-back response has left the send queue */
        vxp_count(12, 1);
      }
    }
  if (rst_next_notif && m.code == 69 && m.tkl == 1 && m.token[0] >= 0x30 && m.token[0] <= 0x32 && w_find(&m, 6) &&
      ns_addr_host(&d->dst) == ns_addr_host(&peer[0]) && ns_addr_port(&d->dst) == ns_addr_port(&peer[0])) {
    /* p0 rejects this notification: Reset with its message id; the observation it belongs to is over */
    uint8_t rst[4] = {0x70, 0, (uint8_t)(m.mid >> 8), (uint8_t)m.mid};
    rst_next_notif = 0;
    M[0].obs &= ~(m.token[0] == 0x30 ? OB_O : m.token[0] == 0x31 ? OB_O2 : OB_OQ);
    vxp_count(13, 1);
    ns_inject(&d->dst, &d->src, rst, 4);
    return;
  }
  if (m.type == 0) { /* Confirmable notification / separate response: acknowledge */
    uint8_t ack[4] = {0x60, 0, (uint8_t)(m.mid >> 8), (uint8_t)m.mid};
    ns_inject(&d->dst, &d->src, ack, 4);
  }
}

static void
pump(void) {
  for (int i = 0; i < 200; i++) {
    ns_prepare_all();
    if (ns_inflight_count() == 0)
      break;
    ns_dgram_t *d = ns_inflight(0);
    /* an ACK reaching the server is receive activity too */
    for (int p = 0; p < NPEER; p++)
      if (d->from_raw && ns_addr_host(&d->src) == ns_addr_host(&peer[p]) && ns_addr_port(&d->src) == ns_addr_port(&peer[p]) &&
          ns_addr_port(&d->dst) == ns_addr_port(&srv[peer_ep[p]]) && M[p].alive)
        M[p].last = ns_now();
    ns_deliver(0);
  }
  /* what the server wrote to t0's connections (CSM, responses, notifications): transmit activity at this instant
   * (virtual time only moves at the start of an operation, before anything is written) */
  for (int k = 0; k < ntcp; k++)
    if (tst[k] && ns_stream_raw_read(tst[k], 0, NULL, (size_t)-1) > 0 && M[NPEER + k].alive) {
      M[NPEER + k].last = ns_now();
      vxp_count(4, 1);
    }
}

/* model: a datagram from peer p arrives now */
static void
model_arrival(int p) {
  if (!M[p].alive) {
    if (max_idle > 0) {
      int idle = 0, oldest = -1;
      for (int q = 0; q < NPEER; q++)
        if (M[q].alive && peer_ep[q] == peer_ep[p] && !held(&M[q])) {
          idle++;
          if (oldest < 0 || M[q].last < M[oldest].last)
            oldest = q;
        }
      if (idle >= max_idle && oldest >= 0) {
        exp_del[oldest] = 1;
        exp_del_why[oldest] = "eviction";
        M[oldest].alive = 0;
      }
    }
    exp_new[p] = 1;
    M[p].alive = 1;
    M[p].app_refs = M[p].obs = M[p].async = M[p].queued = 0;
    M[p].was_disc = 0;
  }
  M[p].gone = 0; /* traffic on a session the application had declared failed: it is in use again */
  M[p].last = ns_now();
}

/* model: coap_io_prepare_io() reclaims idle, unreferenced server sessions whose timeout has passed */
static void
model_reclaim(void) {
  for (int p = 0; p < nslots(); p++)
    if (M[p].alive && !held(&M[p]) && ns_now() - M[p].last >= TIMEOUT_S * 1000) {
      exp_del[p] = 1;
      exp_del_why[p] = "idle-timeout";
      M[p].alive = 0;
    }
}

static void
build_req(struct w_buf *w, const char *path, int observe, uint8_t tok, const char *query) {
  w_begin(w, 0, 1, next_mid++, &tok, 1);
  if (observe >= 0)
    w_opt_uint(w, 6, (uint32_t)observe);
  w_opt_add(w, 11, path, strlen(path));
  if (query)
    w_opt_add(w, 15, query, strlen(query));
}
static void
send_req_q(int p, const char *path, int observe, uint8_t tok, const char *query) {
  struct w_buf w;
  build_req(&w, path, observe, tok, query);
  ns_inject(&peer[p], &srv[peer_ep[p]], w.b, w.n);
}
static void
send_req(int p, const char *path, int observe, uint8_t tok) {
  send_req_q(p, path, observe, tok, NULL);
}

/* ---- t0: a raw TCP client ---- */
static int
t_open(void) {
  return tcur >= 0 && M[tcur].alive && !M[tcur].gone;
}
/* the connection t0 talks on; a new one (fresh source port, CSM first) if it has none */
static int
t_ensure(void) {
  if (t_open())
    return tcur;
  if (ntcp >= MAXT) {
    fail("harness:too-many-connections", "more than %d TCP connections in one case", MAXT);
    return -1;
  }
  int k = ntcp, slot = NPEER + k;
  ns_addr(&peer[slot], T_HOST, 7000 + k);
  peer_ep[slot] = 2;
  memset(&M[slot], 0, sizeof M[slot]);
  M[slot].tcp = 1;
  M[slot].alive = 1;
  M[slot].last = ns_now();
  exp_new[slot] = 1;
  ntcp++;
  tcur = slot;
  tst[k] = ns_stream_raw_connect(&peer[slot], &srv[2]);
  if (!tst[k]) {
    fail("harness:stream-connect", "TCP connect failed");
    return -1;
  }
  static const uint8_t csm[2] = {0x00, 0xE1};
  ns_stream_raw_write(tst[k], 0, csm, 2);
  ns_stream_release_all(tst[k], 1);
  vxp_count(5, 1);
  return slot;
}
static void
t_req(const char *path, int observe, uint8_t tok) {
  int slot = t_ensure();
  if (slot < 0)
    return;
  struct w_buf w;
  uint8_t f[64];
  build_req(&w, path, observe, tok, NULL);
  /* RFC 8323 framing of the same message: Len|TKL, code, token, options (Len = bytes after the token, < 13 here) */
  size_t rest = w.n - 5;
  f[0] = (uint8_t)(rest << 4 | 1);
  f[1] = w.b[1];
  f[2] = tok;
  memcpy(f + 3, w.b + 5, rest);
  M[slot].last = ns_now();
  ns_stream_raw_write(tst[slot - NPEER], 0, f, 3 + rest);
  ns_stream_release_all(tst[slot - NPEER], 1);
}
/* model: a disconnect ends every observation of the session; what else hangs off it stays */
static void
model_disconnect(int p) {
  if (M[p].obs & (M[p].obs - 1))
    vxp_count(9, 1); /* the session held two or three observations */
  if (M[p].app_refs)
    vxp_count(10, 1);
  M[p].obs = 0;
  M[p].was_disc = 1;
}

/* quiescent point: libcoap reclaims a server session iff session->ref == 0 (and never frees one with ref > 0), so
 * "somebody holds it" in the model and in libcoap must agree -- a stuck reference means the session is never
 * reclaimed, a missing one that it can be freed under its holder */
static int
audit_refs(const char *opname) {
  for (int p = 0; p < nslots(); p++) {
    struct msess *m = &M[p];
    if (!m->alive || !m->ptr)
      continue;
    unsigned ref = m->ptr->ref;
    if (!held(m) && ref != 0) {
      char sig[100];
      snprintf(sig, sizeof sig, "refcount:stuck-reference-on-unheld-session:%s", m->was_disc ? "after-disconnect" : "no-disconnect");
      fail(sig, "after %s: session of %s has ref=%u although no application reference, observation or async entry refers to it: it can never be reclaimed", opname, pname(p), ref);
      return 0;
    }
    if (held(m) && ref == 0) {
      char sig[120];
      snprintf(sig, sizeof sig, "refcount:no-reference-for-holder:%s", holders(m));
      fail(sig, "after %s: session of %s has ref=0 although it is held by %s: it can be reclaimed under its holder", opname, pname(p), holders(m));
      return 0;
    }
  }
  return 1;
}

static void
check_step(const char *opname) {
  for (int p = 0; p < nslots(); p++) {
    if (exp_new[p]) {
      fail("event:missing-NEW", "after %s: SERVER_SESSION_NEW for %s predicted but not raised", opname, pname(p));
      exp_new[p] = 0;
    }
    if (exp_del[p]) {
      char sig[100];
      snprintf(sig, sizeof sig, "event:missing-DEL:%s%s", exp_del_why[p], M[p].was_disc ? ":after-disconnect" : "");
      fail(sig, "after %s: SERVER_SESSION_DEL for %s predicted (idle, unreferenced) but not raised", opname, pname(p));
      exp_del[p] = 0;
      M[p].alive = 1; /* resynchronise with the implementation */
    }
  }
  if (failed)
    return;
  if (!audit_refs(opname))
    return;
  /* the server must not have closed a connection whose session the model still has connected */
  if (t_open() && tst[tcur - NPEER]->side[0].peer_closed)
    fail("tcp:server-closed-live-connection", "after %s: the server closed the connection of %s (holders: %s, idle %llu ms)", opname, pname(tcur), holders(&M[tcur]),
         (unsigned long long)(ns_now() - M[tcur].last));
}

static void
do_op(int op) {
  memset(exp_new, 0, sizeof exp_new);
  memset(exp_del, 0, sizeof exp_del);
  ns_advance(10); /* distinct time stamps: "oldest idle session" is unambiguous */
  tr4(" | ", op_names[op], ":", "");
  switch (op) {
  case OP_REQ0:
  case OP_REQ1:
  case OP_REQ2:
  case OP_REQ3:
    model_arrival(op - OP_REQ0);
    send_req(op - OP_REQ0, "r", -1, (uint8_t)(0x10 + op));
    pump();
    break;
  case OP_QUIET0:
  case OP_QUIET2: {
    /* a datagram the server hears but does not answer (NON GET with No-Response: all classes suppressed): receive
     * activity without any transmission on the session */
    int p = op == OP_QUIET0 ? 0 : 2;
    struct w_buf w;
    uint8_t tok = (uint8_t)(0x50 + p);
    model_arrival(p);
    w_begin(&w, 1, 1, next_mid++, &tok, 1);
    w_opt_add(&w, 11, "r", 1);
    w_opt_uint(&w, 258, 26);
    int before = ns_total_sent();
    ns_inject(&peer[p], &srv[peer_ep[p]], w.b, w.n);
    pump();
    if (ns_total_sent() != before)
      tr_s("(answered!)");
    else
      vxp_count(2, 1);
    break;
  }
  case OP_REQREF0:
    model_arrival(0);
    take_ref_next = 1;
    if (!held_ref)
      M[0].app_refs = 1;
    send_req(0, "r", -1, 0x20);
    pump();
    take_ref_next = 0;
    break;
  case OP_REL0:
    if (held_ref) {
      coap_session_release(held_ref);
      held_ref = NULL;
      M[0].app_refs = 0;
    }
    model_reclaim();
    pump();
    break;
  case OP_OBS0:
    model_arrival(0);
    M[0].obs |= OB_O;
    send_req(0, "o", 0, 0x30);
    pump();
    break;
  case OP_CANCEL0:
    model_arrival(0);
    M[0].obs &= ~OB_O;
    send_req(0, "o", 1, 0x30);
    pump();
    break;
  case OP_OBS0B: /* a second resource */
    model_arrival(0);
    M[0].obs |= OB_O2;
    send_req(0, "o2", 0, 0x31);
    pump();
    break;
  case OP_OBS0Q: /* the first resource again: other token, other query -> a second observation of its own */
    model_arrival(0);
    M[0].obs |= OB_OQ;
    send_req_q(0, "o", 0, 0x32, "v=1");
    pump();
    break;
  case OP_DISC0:
    /* the application declares p0's session failed (it knows the session from SERVER_SESSION_NEW and has not seen its
     * DEL).  A UDP server session stays in place for the peer's next datagram; its observations are gone. */
    if (M[0].alive && M[0].ptr) {
      coap_session_disconnected((coap_session_t *)(uintptr_t)M[0].ptr, COAP_NACK_NOT_DELIVERABLE);
      model_disconnect(0);
      M[0].gone = 1;
      vxp_count(6, 1);
    }
    model_reclaim(); /* it may have been idle past the timeout and held by its observations only */
    pump();
    break;
  case OP_ASYNC1:
    model_arrival(1);
    if (!M[1].async && !pend_async)
      M[1].async = 1;
    send_req(1, "a", -1, 0x40);
    pump();
    break;
  case OP_TRIG:
    if (pend_async) {
      coap_async_t *a = pend_async;
      coap_async_trigger(a);
      pump();
      pend_async = NULL;
      M[1].async = 0;
    }
    break;
  case OP_CHG:
    coap_resource_notify_observers(r_obs, NULL);
    if (r_obs2)
      coap_resource_notify_observers(r_obs2, NULL);
    pump();
    break;
  case OP_RSTCHG:
    rst_next_notif = 1;
    coap_resource_notify_observers(r_obs, NULL);
    pump();
    rst_next_notif = 0;
    model_reclaim(); /* the session may have been held by that observation only, and idle past the timeout */
    pump();
    break;
  case OP_MCAST: {
    struct w_buf w;
    uint8_t tok = 0x70;
    model_arrival(P_M0);
    M[P_M0].queued++;
    w_begin(&w, 1, 1, next_mid++, &tok, 1);
    w_opt_add(&w, 11, "r", 1);
    ns_inject(&peer[P_M0], &grp, w.b, w.n);
    pump();
    break;
  }
  case OP_JUMP_1S:
  case OP_JUMP_BEFORE:
  case OP_JUMP_PAST: {
    uint64_t dt = op == OP_JUMP_1S ? 1000 : op == OP_JUMP_BEFORE ? TIMEOUT_S * 1000 - 1000 : TIMEOUT_S * 1000 + 1000;
    ns_advance(dt);
    model_reclaim();
    pump();
    break;
  }
  case OP_TREQ:
    t_req("r", -1, 0x61);
    pump();
    break;
  case OP_TREQREF: {
    int slot = t_ensure();
    take_ref_next_t = 1;
    if (slot >= 0 && !held_ref_t)
      M[slot].app_refs = 1;
    t_req("r", -1, 0x62);
    pump();
    take_ref_next_t = 0;
    break;
  }
  case OP_TREL:
    if (held_ref_t) {
      coap_session_release(held_ref_t);
      held_ref_t = NULL;
      M[held_t_slot].app_refs = 0;
    }
    model_reclaim();
    pump();
    break;
  case OP_TOBS: {
    int slot = t_ensure();
    if (slot >= 0)
      M[slot].obs |= OB_O;
    t_req("o", 0, 0x63);
    pump();
    break;
  }
  case OP_TOBSB: {
    int slot = t_ensure();
    if (slot >= 0)
      M[slot].obs |= OB_O2;
    t_req("o2", 0, 0x64);
    pump();
    break;
  }
  case OP_TCLOSE:
  case OP_TRELEASE:
    if (t_open()) {
      ns_stream_t *st = tst[tcur - NPEER];
      if (op == OP_TRELEASE) { /* 7.04 Release, then the client closes its end as well */
        static const uint8_t rel[2] = {0x00, 0xE4};
        ns_stream_raw_write(st, 0, rel, 2);
        ns_stream_release_all(st, 1);
      }
      M[tcur].gone = 1;
      model_disconnect(tcur);
      ns_stream_raw_close(st, 0);
      vxp_count(7, 1);
    }
    model_reclaim();
    pump();
    break;
  }
  check_step(op_names[op]);
}

struct space {
  char name[48];
  int depth;
  int max_idle;
  int ext;
};

static void
one_case(uint64_t idx, void *arg) {
  struct space *sp = arg;
  int ops[8];
  uint64_t x = idx;
  opseq[0] = 0;
  size_t ol = 0;
  int nalpha = sp->ext == 2 ? MOP_N : sp->ext ? XOP_N : OP_N_OLD, any_new = 0;
  for (int i = 0; i < sp->depth; i++) {
    ops[i] = (int)(x % (uint64_t)nalpha);
    if (sp->ext)
      ops[i] = sp->ext == 2 ? mops[ops[i]] : xops[ops[i]];
    any_new |= sp->ext == 2 ? ops[i] == OP_MCAST || ops[i] == OP_RSTCHG : ops[i] >= OP_N_OLD;
    x /= (uint64_t)nalpha;
    size_t nl = strlen(op_names[ops[i]]);
    if (i)
      opseq[ol++] = ' ';
    memcpy(opseq + ol, op_names[ops[i]], nl + 1); /* 8 names of <= 12 characters fit */
    ol += nl;
  }
  if (sp->ext && !any_new) {
    vxp_count(1, 1); /* a sequence of old operations only: run in the "ops" spaces */
    return;
  }
  max_idle = sp->max_idle;
  ext = sp->ext == 1;
  failed = 0;
  rst_next_notif = 0;
  trace_len = 0;
  trace[0] = 0;
  memset(M, 0, sizeof M);
  held_ref = held_ref_t = NULL;
  held_t_slot = 0;
  pend_async = NULL;
  take_ref_next = take_ref_next_t = 0;
  next_mid = 0x100;
  live_blocks = 0;
  ntcp = 0;
  tcur = -1;
  memset(tst, 0, sizeof tst);
  r_obs2 = NULL;
  ns_init();
  ns_raw_rx = raw_rx;
  ctx = coap_new_context(NULL);
  ns_register_ctx(ctx);
  coap_context_set_session_timeout(ctx, TIMEOUT_S);
  coap_context_set_max_idle_sessions(ctx, (unsigned)max_idle);
  coap_register_event_handler(ctx, event_handler);
  ns_addr(&srv[0], 1, 5683);
  ns_addr(&srv[1], 1, 5684);
  ns_addr(&srv[2], 1, 5685);
  coap_new_endpoint(ctx, &srv[0], COAP_PROTO_UDP);
  coap_new_endpoint(ctx, &srv[1], COAP_PROTO_UDP);
  if (ext && !coap_new_endpoint(ctx, &srv[2], COAP_PROTO_TCP))
    fail("harness:setup", "no TCP endpoint");
  ns_addr(&peer[0], 11, 6001);
  ns_addr(&peer[1], 12, 6001);
  ns_addr(&peer[2], 11, 6002);
  ns_addr(&peer[3], 11, 6001);
  ns_addr(&peer[P_M0], 14, 6001);
  ns_addr(&grp, 224, 5683);
  r_plain = coap_resource_init(coap_make_str_const("r"), 0);
  coap_register_request_handler(r_plain, COAP_REQUEST_GET, hnd);
  coap_add_resource(ctx, r_plain);
  r_obs = coap_resource_init(coap_make_str_const("o"), 0);
  coap_register_request_handler(r_obs, COAP_REQUEST_GET, hnd);
  coap_resource_set_get_observable(r_obs, 1);
  coap_add_resource(ctx, r_obs);
  if (ext) {
    r_obs2 = coap_resource_init(coap_make_str_const("o2"), 0);
    coap_register_request_handler(r_obs2, COAP_REQUEST_GET, hnd);
    coap_resource_set_get_observable(r_obs2, 1);
    coap_add_resource(ctx, r_obs2);
  }
  r_async = coap_resource_init(coap_make_str_const("a"), 0);
  coap_register_request_handler(r_async, COAP_REQUEST_GET, hnd);
  coap_add_resource(ctx, r_async);
  for (int i = 0; i < sp->depth && !failed; i++)
    do_op(ops[i]);
  /* teardown at this point: a well-behaved application drops its own references first */
  memset(exp_new, 0, sizeof exp_new);
  memset(exp_del, 0, sizeof exp_del);
  int app_released = 0;
  if (held_ref) {
    coap_session_release(held_ref);
    held_ref = NULL;
    M[0].app_refs = 0;
    app_released = 1;
  }
  if (held_ref_t) {
    coap_session_release(held_ref_t);
    held_ref_t = NULL;
    M[held_t_slot].app_refs = 0;
    app_released = 1;
  }
  if (!failed && (app_released))
    audit_refs("the application's release before teardown");
  tr_s(" | teardown:");
  int disc_case = 0;
  for (int p = 0; p < nslots(); p++) {
    if (M[p].alive) {
      exp_del[p] = 1;
      exp_del_why[p] = "teardown";
    }
    disc_case |= M[p].was_disc;
  }
  ns_unregister_ctx(ctx);
  if (failed) {
    /* the model and libcoap disagree already (reported above).  If a session still carries a reference,
     * coap_free_context() would only add libcoap's own assert(ref == 0) to that report: leave the context alone.
     * On a run without failure the assert stays live. */
    coap_endpoint_t *e;
    coap_session_t *s, *stmp;
    int stuck = 0;
    LL_FOREACH(ctx->endpoint, e) {
      SESSIONS_ITER_SAFE(e->sessions, s, stmp) {
        stuck |= s->ref != 0;
      }
    }
    if (stuck) {
      ns_fini();
      vxp_count(0, 1);
      vxp_count(11, (uint64_t)sp->depth);
      return;
    }
  }
  coap_free_context(ctx);
  if (!failed) {
    for (int p = 0; p < nslots(); p++) {
      if (M[p].new_events != M[p].del_events) {
        char sig[80];
        snprintf(sig, sizeof sig, "event:NEW-DEL-imbalance:%s", M[p].new_events > M[p].del_events ? "missing-DEL-at-teardown" : "extra-DEL");
        fail(sig, "%s: %d SERVER_SESSION_NEW but %d SERVER_SESSION_DEL events after the context was freed", pname(p), M[p].new_events, M[p].del_events);
        break;
      }
    }
  }
  ns_fini();
  if (!failed && live_blocks != 0)
    fail(live_blocks > 0 ? "leak:funnel-balance" : "double-free:funnel-balance", "%ld blocks from coap_malloc_type live after coap_free_context()", live_blocks);
  vxp_count(0, 1);
  vxp_count(11, (uint64_t)sp->depth);
  if (disc_case)
    vxp_count(8, 1);
  int nontrivial = 0;
  for (int p = 0; p < nslots(); p++)
    nontrivial += M[p].del_events;
  if (nontrivial)
    vxp_distinct(vx_fnv(trace, trace_len, VX_FNV0));
  if (idx % 9973 == 17)
    vxp_sample("%smax_idle=%d ops=[%s] events:%s", sp->ext ? "x " : "", max_idle, opseq, trace);
}

static uint64_t
ipow(uint64_t b, int e) {
  uint64_t n = 1;
  while (e-- > 0)
    n *= b;
  return n;
}

#define MAXSPACE 64
int
main(int argc, char **argv) {
  vx_main_init(argc, argv, "C12");
  int T = vx_is_thorough();
  static struct space sp[MAXSPACE];
  int nsp = 0;
  /* bounds.  old alphabet (15 operations): every depth 1..5 (thorough 1..6) x max_idle_sessions {0,1,2}
   * (3 x 15^6 = 34 M cases in thorough; measured: 165 s wall, 42 CPU-minutes, on a moderately busy 16-core machine).
   * enlarged alphabet (18 operations): every depth 1..4 (thorough 1..5) x max_idle_sessions {0,1,2}.
   * Run order: small spaces first, the largest last, so a slow machine loses the tail of the largest space only. */
  const int d_old = 5, d_ext = T ? 5 : 4;
  /* multicast alphabet (8 operations): every depth 1..5 (thorough 1..6) x max_idle_sessions {0,1,2} */
  for (int d = 1; d <= (T ? 6 : 5); d++)
    for (int mi = 0; mi < 3; mi++) {
      snprintf(sp[nsp].name, sizeof sp[nsp].name, "mops:depth=%d:max_idle=%d", d, mi);
      sp[nsp].depth = d;
      sp[nsp].max_idle = mi;
      sp[nsp].ext = 2;
      nsp++;
    }
  for (int pass = 0; pass < 4; pass++)
    for (int d = 1; d <= 6; d++)
      for (int mi = 0; mi < 3; mi++) {
        int is_ext = pass == 0 || pass == 2;
        int dmax = is_ext ? d_ext : d_old;
        /* pass 0: enlarged, below its maximum depth; 1: old, below its maximum depth; 2: enlarged at maximum depth;
         * 3: old at maximum depth (and thorough: depth 6) */
        int take;
        if (pass < 2)
          take = d < dmax;
        else if (is_ext)
          take = d == dmax;
        else
          take = d == dmax || (T && d == 6);
        if (!take)
          continue;
        if (nsp >= MAXSPACE) {
          fprintf(stderr, "VX-HARNESS: c12-space-table-overflow\n");
          abort();
        }
        snprintf(sp[nsp].name, sizeof sp[nsp].name, "%s:depth=%d:max_idle=%d", is_ext ? "xops" : "ops", d, mi);
        sp[nsp].depth = d;
        sp[nsp].max_idle = mi;
        sp[nsp].ext = is_ext;
        nsp++;
      }
  for (int i = 0; i < nsp; i++)
    if (vxp_replay_if_match(sp[i].name, one_case, &sp[i]))
      return 0;
  if (vx_replay_path()) {
    fprintf(stderr, "replay file does not match any space\n");
    return 2;
  }
  uint64_t total = 0;
  for (int i = 0; i < nsp; i++) {
    uint64_t n = ipow(sp[i].ext == 2 ? (uint64_t)MOP_N : sp[i].ext ? (uint64_t)XOP_N : OP_N_OLD, sp[i].depth);
    struct vxp_config c = {.space = sp[i].name, .total = n};
    struct vxp_stats st;
    vxp_enumerate(&c, one_case, &sp[i], &st);
    total += st.done;
  }
  uint64_t run = vxp_counter(0);
  vx_ev_add_states((long long)run, (long long)vxp_counter(11), (long long)run);
  vx_ev_int("indices_enumerated", (long long)total);
  vx_ev_add_evals((long long)run, (long long)vxp_distinct_count());
  vx_ev_int("unanswered_datagrams_delivered", (long long)vxp_counter(2));
  vx_ev_int("xops_indices_without_new_operation_skipped", (long long)vxp_counter(1));
  vx_ev_int("tcp_connections_accepted", (long long)vxp_counter(5));
  vx_ev_int("tcp_disconnects_by_peer", (long long)vxp_counter(7));
  vx_ev_int("udp_disconnects_by_application", (long long)vxp_counter(6));
  vx_ev_int("disconnects_of_a_session_with_2_or_3_observations", (long long)vxp_counter(9));
  vx_ev_int("disconnects_of_a_session_with_application_reference", (long long)vxp_counter(10));
  vx_ev_int("cases_with_a_disconnect", (long long)vxp_counter(8));
  vx_ev_int("sessions_reclaimed_before_timeout_after_disconnect", (long long)vxp_counter(3));
  vx_ev_int("multicast_responses_released_after_leisure", (long long)vxp_counter(12));
  vx_ev_int("notifications_answered_with_reset", (long long)vxp_counter(13));
  vx_ev_str("mops", T ? "(mops) all sequences of depth 1..6 x max_idle_sessions {0,1,2} over 10 operations: {NON request of peer m0 to "
                        "the multicast group (the response waits for a random leisure of up to 5 s in the send queue: a queued message is the only holder of "
                        "the session), request p0 / p1 / p2, jump 1 s / timeout-1s / timeout+1s, unanswered datagram from p0, p0 observes /o, resource change whose "
                        "notification p0 answers with a Reset (the observation ends)} that contain mcast or the Reset operation; the model counts a queued "
                        "response as a holder until it is seen on the wire"
                      : "(mops) as in thorough, depth 1..5");
  vx_ev_rule(T ? "(ops) all operation sequences of depth 1..6 x max_idle_sessions {0,1,2} "
                 "over 15 operations {request from 4 UDP peers (distinct address, same address other port, "
                 "same address+port on a second endpoint), request whose handler takes an application reference, release, observe register/cancel, "
                 "async register/trigger, resource change, time jump to timeout-1s / timeout+1s, a datagram from p0 / p2 that is heard but not answered "
                 "(NON with No-Response)}; (xops) all sequences of depth 1..5 x max_idle_sessions {0,1,2} over 18 operations that contain at least one of the "
                 "10 new ones: {p0 observes a second resource, p0 observes the first resource again with another token+query, the application calls "
                 "coap_session_disconnected() on p0's session, raw TCP client t0 (connect+CSM on demand, fresh source port per connection): request, request "
                 "whose handler takes an application reference, release of it, observe /o, observe /o2, close the connection, send 7.04 Release and close} "
                 "+ 8 old ones {request p0, request p1, request+reference p0, release p0, observe p0, cancel p0, resource change (both resources), "
                 "jump timeout+1s}; session_timeout 5 s; each sequence is followed by context teardown; a reference model predicts every "
                 "SERVER_SESSION_NEW/DEL (a disconnect ends all observations of that session; a disconnected session without holder may be reclaimed "
                 "at once and must be after the timeout; a UDP session that survives is the peer's session again with its next datagram), at every quiescent point session->ref==0 must agree with "
                 "'no application reference, observation or async entry' in the model, after teardown NEW/DEL balance and allocation-funnel balance are zero, "
                 "ASan watches throughout; non-trivial = at least one session was deleted; distinct = distinct event traces"
               : "(ops) all operation sequences of depth 1..5 x max_idle_sessions {0,1,2} "
                 "over 15 operations {request from 4 UDP peers (distinct address, same address other port, "
                 "same address+port on a second endpoint), request whose handler takes an application reference, release, observe register/cancel, "
                 "async register/trigger, resource change, time jump to timeout-1s / timeout+1s, a datagram from p0 / p2 that is heard but not answered "
                 "(NON with No-Response)}; (xops) all sequences of depth 1..4 x max_idle_sessions {0,1,2} over 18 operations that contain at least one of the "
                 "10 new ones: {p0 observes a second resource, p0 observes the first resource again with another token+query, the application calls "
                 "coap_session_disconnected() on p0's session, raw TCP client t0 (connect+CSM on demand, fresh source port per connection): request, request "
                 "whose handler takes an application reference, release of it, observe /o, observe /o2, close the connection, send 7.04 Release and close} "
                 "+ 8 old ones {request p0, request p1, request+reference p0, release p0, observe p0, cancel p0, resource change (both resources), "
                 "jump timeout+1s}; session_timeout 5 s; each sequence is followed by context teardown; a reference model predicts every "
                 "SERVER_SESSION_NEW/DEL (a disconnect ends all observations of that session; a disconnected session without holder may be reclaimed "
                 "at once and must be after the timeout; a UDP session that survives is the peer's session again with its next datagram), at every quiescent point session->ref==0 must agree with "
                 "'no application reference, observation or async entry' in the model, after teardown NEW/DEL balance and allocation-funnel balance are zero, "
                 "ASan watches throughout; non-trivial = at least one session was deleted; distinct = distinct event traces");
  vx_ev_assumption("no network faults in this check (C06-C11 cover schedules); peers acknowledge Confirmable notifications; TCP bytes arrive unsegmented "
                   "(C02/C05 cover segmentation)");
  vx_ev_assumption("the application releases its own session references before coap_free_context()");
  vx_ev_assumption("enlarged alphabet: one TCP client with at most one open connection at a time (earlier connections may still have a session held by "
                   "the application), no async on TCP, no application disconnect of a TCP session, no disconnect discovered by a failing write; "
                   "old operations req(p2), req(p3), async, trigger, jump(T-1), quiet are not combined with the new ones");
  return vx_finish();
}
