/* C12 -- sessions map 1:1 to peers, live while referenced; everything is released.
 *
 * A real libcoap server context with two UDP endpoints receives traffic from raw peers.  Every
 * operation sequence up to depth d over {request from peer p0..p3 (distinct address / same address other
 * port / same address+port on the second endpoint), request whose handler takes an application reference,
 * release of that reference, observe registration / cancellation, async registration / trigger, resource
 * change, virtual-time jump to just before / past the session timeout} x {session_timeout 5 s} x
 * {max_idle_sessions 0,1,2} is run in-process (vxp), followed by context teardown.  A reference model of
 * session lifetime predicts every SERVER_SESSION_NEW / SERVER_SESSION_DEL event; ASan watches for use after
 * free / double free; the balance of the allocation funnel must be zero after coap_free_context().
 */
#include "netsim.h"
#include "wire.h"
#include <stdarg.h>

void *__real_coap_malloc_type(coap_memory_tag_t type, size_t size);
void *__real_coap_realloc_type(coap_memory_tag_t type, void *p, size_t size);
void __real_coap_free_type(coap_memory_tag_t type, void *p);
void *__wrap_coap_malloc_type(coap_memory_tag_t type, size_t size);
void *__wrap_coap_realloc_type(coap_memory_tag_t type, void *p, size_t size);
void __wrap_coap_free_type(coap_memory_tag_t type, void *p);
static long live_blocks;
void *
__wrap_coap_malloc_type(coap_memory_tag_t type, size_t size) {
  void *p = __real_coap_malloc_type(type, size);
  if (p)
    live_blocks++;
  return p;
}
void *
__wrap_coap_realloc_type(coap_memory_tag_t type, void *p, size_t size) {
  void *q = __real_coap_realloc_type(type, p, size);
  if (!p && q)
    live_blocks++;
  return q;
}
void
__wrap_coap_free_type(coap_memory_tag_t type, void *p) {
  if (p)
    live_blocks--;
  __real_coap_free_type(type, p);
}

enum { OP_REQ0, OP_REQ1, OP_REQ2, OP_REQ3, OP_REQREF0, OP_REL0, OP_OBS0, OP_CANCEL0, OP_ASYNC1, OP_TRIG, OP_CHG, OP_JUMP_BEFORE, OP_JUMP_PAST, OP_QUIET0, OP_QUIET2, OP_N };
static const char *op_names[] = {"req(p0)", "req(p1)", "req(p2)", "req(p3)", "req+ref(p0)", "rel(p0)", "obs(p0)", "cancel(p0)", "async(p1)", "trig", "chg", "jump(T-1)", "jump(T+1)", "quiet(p0)", "quiet(p2)"};
#define NPEER 4
#define TIMEOUT_S 5

struct msess {
  int alive;
  const coap_session_t *ptr;
  uint64_t last;
  int app_refs, observer, async;
  int new_events, del_events;
  int ep; /* endpoint index */
};
static struct msess M[NPEER];
static coap_context_t *ctx;
static coap_address_t srv[2], peer[NPEER];
static const int peer_ep[NPEER] = {0, 0, 0, 1};
static coap_resource_t *r_plain, *r_obs, *r_async;
static coap_session_t *held_ref; /* the application's reference on p0's session */
static coap_async_t *pend_async;
static int take_ref_next;
static int max_idle;
static uint16_t next_mid;
static char trace[600];
static size_t trace_len;
static int failed;
static char opseq[200];

static void
tr(const char *fmt, ...) {
  va_list ap;
  va_start(ap, fmt);
  if (trace_len < sizeof trace - 1)
    trace_len += (size_t)vsnprintf(trace + trace_len, sizeof trace - trace_len, fmt, ap);
  va_end(ap);
  if (trace_len >= sizeof trace)
    trace_len = sizeof trace - 1;
}
static void
fail(const char *sig, const char *fmt, ...) {
  char msg[500];
  va_list ap;
  va_start(ap, fmt);
  vsnprintf(msg, sizeof msg, fmt, ap);
  va_end(ap);
  failed = 1;
  vx_fail(sig, "ops=[%s] max_idle=%d: %s | trace: %s", opseq, max_idle, msg, trace);
}

static int
peer_of_session(const coap_session_t *s) {
  const coap_address_t *ra = coap_session_get_addr_remote(s);
  const coap_address_t *la = coap_session_get_addr_local(s);
  for (int p = 0; p < NPEER; p++)
    if (ns_addr_host(ra) == ns_addr_host(&peer[p]) && ns_addr_port(ra) == ns_addr_port(&peer[p]) &&
        ns_addr_port(la) == ns_addr_port(&srv[peer_ep[p]]))
      return p;
  return -1;
}
static const char *
holders(const struct msess *m) {
  static char b[60];
  snprintf(b, sizeof b, "%s%s%s", m->app_refs ? "app-reference," : "", m->observer ? "observation," : "", m->async ? "async-entry," : "");
  if (!b[0])
    snprintf(b, sizeof b, "none");
  return b;
}

/* expected events of the step in progress */
static int exp_new[NPEER], exp_del[NPEER];

static int
event_handler(coap_session_t *s, const coap_event_t e) {
  if (e != COAP_EVENT_SERVER_SESSION_NEW && e != COAP_EVENT_SERVER_SESSION_DEL)
    return 0;
  int p = peer_of_session(s);
  tr(" %s(p%d)", e == COAP_EVENT_SERVER_SESSION_NEW ? "NEW" : "DEL", p);
  if (p < 0) {
    fail("event:unknown-peer", "session event for an address no peer uses");
    return 0;
  }
  struct msess *m = &M[p];
  if (e == COAP_EVENT_SERVER_SESSION_NEW) {
    m->new_events++;
    if (!exp_new[p]) {
      fail(m->alive ? "event:second-NEW-for-live-peer" : "event:unexpected-NEW", "SERVER_SESSION_NEW for p%d not predicted (model alive=%d)", p, m->alive);
    }
    exp_new[p] = 0;
    m->ptr = s;
    for (int q = 0; q < NPEER; q++)
      if (q != p && M[q].alive && M[q].ptr == s)
        fail("identity:pointer-shared", "new session of p%d has the same object as the live session of p%d", p, q);
  } else {
    m->del_events++;
    if (m->ptr != s)
      fail("event:DEL-of-other-object", "SERVER_SESSION_DEL for p%d names a different session object than NEW did", p);
    if (!exp_del[p]) {
      char sig[120];
      if (m->app_refs || m->observer || m->async)
        snprintf(sig, sizeof sig, "session-freed-while-held-by:%s", holders(m));
      else
        snprintf(sig, sizeof sig, "event:unexpected-DEL:%s", ns_now() - m->last < TIMEOUT_S * 1000 ? "before-timeout" : "after-timeout");
      fail(sig, "SERVER_SESSION_DEL for p%d not predicted (idle for %llu ms, holders: %s)", p, (unsigned long long)(ns_now() - m->last), holders(m));
    }
    exp_del[p] = 0;
  }
  return 0;
}

static void
hnd(coap_resource_t *r, coap_session_t *s, const coap_pdu_t *req, const coap_string_t *q, coap_pdu_t *resp) {
  (void)q;
  int p = peer_of_session(s);
  if (p < 0 || !M[p].ptr || M[p].ptr != s)
    fail("identity:handler-session-differs", "request from p%d handled on a session object other than the one announced by SERVER_SESSION_NEW", p);
  if (p >= 0 && M[p].new_events == M[p].del_events)
    fail("identity:handler-on-deleted-session", "request from p%d handled on a session after its SERVER_SESSION_DEL / before NEW", p);
  if (r == r_async) {
    coap_bin_const_t tok = coap_pdu_get_token(req);
    if (!coap_find_async(s, tok)) {
      pend_async = coap_register_async(s, req, 0);
      if (pend_async)
        return;
    } else
      pend_async = NULL;
  }
  if (take_ref_next && p == 0) {
    take_ref_next = 0;
    if (!held_ref)
      held_ref = coap_session_reference(s);
  }
  coap_pdu_set_code(resp, COAP_RESPONSE_CODE_CONTENT);
  coap_add_data(resp, 2, (const uint8_t *)"ok");
}

static void
raw_rx(const ns_dgram_t *d) {
  struct w_msg m;
  if (!w_parse(d->data, d->len, &m))
    return;
  /* responses / notifications arriving at a peer: the session was active at this instant */
  for (int p = 0; p < NPEER; p++)
    if (ns_addr_host(&d->dst) == ns_addr_host(&peer[p]) && ns_addr_port(&d->dst) == ns_addr_port(&peer[p]) &&
        ns_addr_port(&d->src) == ns_addr_port(&srv[peer_ep[p]]))
      M[p].last = d->sent_at;
  if (m.type == 0) { /* Confirmable notification / separate response: acknowledge */
    uint8_t ack[4] = {0x60, 0, (uint8_t)(m.mid >> 8), (uint8_t)m.mid};
    ns_inject(&d->dst, &d->src, ack, 4);
  }
}

static void
pump(void) {
  for (int i = 0; i < 200; i++) {
    ns_prepare_all();
    if (ns_inflight_count() == 0)
      break;
    ns_dgram_t *d = ns_inflight(0);
    /* an ACK reaching the server is receive activity too */
    for (int p = 0; p < NPEER; p++)
      if (d->from_raw && ns_addr_host(&d->src) == ns_addr_host(&peer[p]) && ns_addr_port(&d->src) == ns_addr_port(&peer[p]) &&
          ns_addr_port(&d->dst) == ns_addr_port(&srv[peer_ep[p]]) && M[p].alive)
        M[p].last = ns_now();
    ns_deliver(0);
  }
}

/* model: a datagram from peer p arrives now */
static void
model_arrival(int p) {
  if (!M[p].alive) {
    if (max_idle > 0) {
      int idle = 0, oldest = -1;
      for (int q = 0; q < NPEER; q++)
        if (M[q].alive && peer_ep[q] == peer_ep[p] && !M[q].app_refs && !M[q].observer && !M[q].async) {
          idle++;
          if (oldest < 0 || M[q].last < M[oldest].last)
            oldest = q;
        }
      if (idle >= max_idle && oldest >= 0) {
        exp_del[oldest] = 1;
        M[oldest].alive = 0;
      }
    }
    exp_new[p] = 1;
    M[p].alive = 1;
    M[p].app_refs = M[p].observer = M[p].async = 0;
  }
  M[p].last = ns_now();
}

/* model: coap_io_prepare_io() reclaims idle, unreferenced server sessions whose timeout has passed */
static void
model_reclaim(void) {
  for (int p = 0; p < NPEER; p++)
    if (M[p].alive && !M[p].app_refs && !M[p].observer && !M[p].async && ns_now() - M[p].last >= TIMEOUT_S * 1000) {
      exp_del[p] = 1;
      M[p].alive = 0;
    }
}

static void
send_req(int p, const char *path, int observe, uint8_t tok) {
  struct w_buf w;
  w_begin(&w, 0, 1, next_mid++, &tok, 1);
  if (observe >= 0)
    w_opt_uint(&w, 6, (uint32_t)observe);
  w_opt_add(&w, 11, path, strlen(path));
  ns_inject(&peer[p], &srv[peer_ep[p]], w.b, w.n);
}

static void
check_step(const char *opname) {
  for (int p = 0; p < NPEER; p++) {
    if (exp_new[p]) {
      fail("event:missing-NEW", "after %s: SERVER_SESSION_NEW for p%d predicted but not raised", opname, p);
      exp_new[p] = 0;
    }
    if (exp_del[p]) {
      char sig[100];
      snprintf(sig, sizeof sig, "event:missing-DEL:%s", !strncmp(opname, "jump", 4) ? "idle-timeout" : "eviction");
      fail(sig, "after %s: SERVER_SESSION_DEL for p%d predicted (idle, unreferenced) but not raised", opname, p);
      exp_del[p] = 0;
      M[p].alive = 1; /* resynchronise with the implementation */
    }
  }
}

static void
do_op(int op) {
  memset(exp_new, 0, sizeof exp_new);
  memset(exp_del, 0, sizeof exp_del);
  ns_advance(10); /* distinct time stamps: "oldest idle session" is unambiguous */
  tr(" | %s:", op_names[op]);
  switch (op) {
  case OP_REQ0:
  case OP_REQ1:
  case OP_REQ2:
  case OP_REQ3:
    model_arrival(op - OP_REQ0);
    send_req(op - OP_REQ0, "r", -1, (uint8_t)(0x10 + op));
    pump();
    break;
  case OP_QUIET0:
  case OP_QUIET2: {
    /* a datagram the server hears but does not answer (NON GET with No-Response: all classes suppressed): receive
     * activity without any transmission on the session */
    int p = op == OP_QUIET0 ? 0 : 2;
    struct w_buf w;
    uint8_t tok = (uint8_t)(0x50 + p);
    model_arrival(p);
    w_begin(&w, 1, 1, next_mid++, &tok, 1);
    w_opt_add(&w, 11, "r", 1);
    w_opt_uint(&w, 258, 26);
    int before = ns_total_sent();
    ns_inject(&peer[p], &srv[peer_ep[p]], w.b, w.n);
    pump();
    if (ns_total_sent() != before)
      tr("(answered!)");
    else
      vxp_count(2, 1);
    break;
  }
  case OP_REQREF0:
    model_arrival(0);
    take_ref_next = 1;
    if (!held_ref)
      M[0].app_refs = 1;
    send_req(0, "r", -1, 0x20);
    pump();
    take_ref_next = 0;
    break;
  case OP_REL0:
    if (held_ref) {
      coap_session_release(held_ref);
      held_ref = NULL;
      M[0].app_refs = 0;
    }
    model_reclaim();
    pump();
    break;
  case OP_OBS0:
    model_arrival(0);
    M[0].observer = 1;
    send_req(0, "o", 0, 0x30);
    pump();
    break;
  case OP_CANCEL0:
    model_arrival(0);
    M[0].observer = 0;
    send_req(0, "o", 1, 0x30);
    pump();
    break;
  case OP_ASYNC1:
    model_arrival(1);
    if (!M[1].async && !pend_async)
      M[1].async = 1;
    send_req(1, "a", -1, 0x40);
    pump();
    break;
  case OP_TRIG:
    if (pend_async) {
      coap_async_t *a = pend_async;
      coap_async_trigger(a);
      pump();
      pend_async = NULL;
      M[1].async = 0;
    }
    break;
  case OP_CHG:
    coap_resource_notify_observers(r_obs, NULL);
    pump();
    break;
  case OP_JUMP_BEFORE:
  case OP_JUMP_PAST: {
    uint64_t dt = op == OP_JUMP_BEFORE ? TIMEOUT_S * 1000 - 1000 : TIMEOUT_S * 1000 + 1000;
    ns_advance(dt);
    model_reclaim();
    pump();
    break;
  }
  }
  check_step(op_names[op]);
}

struct space {
  char name[40];
  int depth;
  int max_idle;
};

static void
one_case(uint64_t idx, void *arg) {
  struct space *sp = arg;
  int ops[8];
  uint64_t x = idx;
  opseq[0] = 0;
  size_t ol = 0;
  for (int i = 0; i < sp->depth; i++) {
    ops[i] = (int)(x % OP_N);
    x /= OP_N;
    ol += (size_t)snprintf(opseq + ol, sizeof opseq - ol, "%s%s", i ? " " : "", op_names[ops[i]]);
  }
  max_idle = sp->max_idle;
  failed = 0;
  trace_len = 0;
  trace[0] = 0;
  memset(M, 0, sizeof M);
  held_ref = NULL;
  pend_async = NULL;
  take_ref_next = 0;
  next_mid = 0x100;
  live_blocks = 0;
  ns_init();
  ns_raw_rx = raw_rx;
  ctx = coap_new_context(NULL);
  ns_register_ctx(ctx);
  coap_context_set_session_timeout(ctx, TIMEOUT_S);
  coap_context_set_max_idle_sessions(ctx, (unsigned)max_idle);
  coap_register_event_handler(ctx, event_handler);
  ns_addr(&srv[0], 1, 5683);
  ns_addr(&srv[1], 1, 5684);
  coap_new_endpoint(ctx, &srv[0], COAP_PROTO_UDP);
  coap_new_endpoint(ctx, &srv[1], COAP_PROTO_UDP);
  ns_addr(&peer[0], 11, 6001);
  ns_addr(&peer[1], 12, 6001);
  ns_addr(&peer[2], 11, 6002);
  ns_addr(&peer[3], 11, 6001);
  r_plain = coap_resource_init(coap_make_str_const("r"), 0);
  coap_register_request_handler(r_plain, COAP_REQUEST_GET, hnd);
  coap_add_resource(ctx, r_plain);
  r_obs = coap_resource_init(coap_make_str_const("o"), 0);
  coap_register_request_handler(r_obs, COAP_REQUEST_GET, hnd);
  coap_resource_set_get_observable(r_obs, 1);
  coap_add_resource(ctx, r_obs);
  r_async = coap_resource_init(coap_make_str_const("a"), 0);
  coap_register_request_handler(r_async, COAP_REQUEST_GET, hnd);
  coap_add_resource(ctx, r_async);
  for (int i = 0; i < sp->depth && !failed; i++)
    do_op(ops[i]);
  /* teardown at this point: a well-behaved application drops its own references first */
  memset(exp_new, 0, sizeof exp_new);
  memset(exp_del, 0, sizeof exp_del);
  if (held_ref) {
    coap_session_release(held_ref);
    held_ref = NULL;
    M[0].app_refs = 0;
  }
  tr(" | teardown:");
  for (int p = 0; p < NPEER; p++)
    if (M[p].alive)
      exp_del[p] = 1;
  ns_unregister_ctx(ctx);
  coap_free_context(ctx);
  if (!failed) {
    for (int p = 0; p < NPEER; p++) {
      if (M[p].new_events != M[p].del_events) {
        char sig[80];
        snprintf(sig, sizeof sig, "event:NEW-DEL-imbalance:%s", M[p].new_events > M[p].del_events ? "missing-DEL-at-teardown" : "extra-DEL");
        fail(sig, "p%d: %d SERVER_SESSION_NEW but %d SERVER_SESSION_DEL events after the context was freed", p, M[p].new_events, M[p].del_events);
        break;
      }
    }
  }
  ns_fini();
  if (!failed && live_blocks != 0)
    fail(live_blocks > 0 ? "leak:funnel-balance" : "double-free:funnel-balance", "%ld blocks from coap_malloc_type live after coap_free_context()", live_blocks);
  vxp_count(0, 1);
  int nontrivial = 0;
  for (int p = 0; p < NPEER; p++)
    nontrivial += M[p].del_events;
  if (nontrivial)
    vxp_distinct(vx_fnv(trace, trace_len, VX_FNV0));
  if (idx % 9973 == 17)
    vxp_sample("max_idle=%d ops=[%s] events:%s", max_idle, opseq, trace);
}

int
main(int argc, char **argv) {
  vx_main_init(argc, argv, "C12");
  int T = vx_is_thorough();
  struct space sp[16];
  int nsp = 0;
  for (int d = 1; d <= (T ? 6 : 5); d++)
    for (int mi = 0; mi < 3; mi++) {
      if (d < (T ? 6 : 5) && d > 2)
        continue; /* shorter sequences are prefixes followed by teardown: depth 1,2 and the maximum are run explicitly */
      snprintf(sp[nsp].name, sizeof sp[nsp].name, "ops:depth=%d:max_idle=%d", d, mi);
      sp[nsp].depth = d;
      sp[nsp].max_idle = mi;
      nsp++;
    }
  /* intermediate depths too (teardown after every prefix length) */
  for (int d = 3; d < (T ? 6 : 5); d++)
    for (int mi = 0; mi < 3; mi++) {
      snprintf(sp[nsp].name, sizeof sp[nsp].name, "ops:depth=%d:max_idle=%d", d, mi);
      sp[nsp].depth = d;
      sp[nsp].max_idle = mi;
      nsp++;
    }
  for (int i = 0; i < nsp; i++)
    if (vxp_replay_if_match(sp[i].name, one_case, &sp[i]))
      return 0;
  if (vx_replay_path()) {
    fprintf(stderr, "replay file does not match any space\n");
    return 2;
  }
  uint64_t total = 0;
  for (int i = 0; i < nsp; i++) {
    uint64_t n = 1;
    for (int k = 0; k < sp[i].depth; k++)
      n *= OP_N;
    struct vxp_config c = {.space = sp[i].name, .total = n};
    struct vxp_stats st;
    vxp_enumerate(&c, one_case, &sp[i], &st);
    total += st.done;
  }
  vx_ev_add_states((long long)total, (long long)total * 4, (long long)total);
  vx_ev_add_evals((long long)total, (long long)vxp_distinct_count());
  vx_ev_int("unanswered_datagrams_delivered", (long long)vxp_counter(2));
  vx_ev_rule("all operation sequences of depth 1..5 (thorough: ..6) over 15 operations {request from 4 peers (distinct address, same address other port, "
             "same address+port on a second endpoint), request whose handler takes an application reference, release, observe register/cancel, "
             "async register/trigger, resource change, time jump to timeout-1s / timeout+1s, a datagram from p0 / p2 that is heard but not answered "
             "(NON with No-Response)} x max_idle_sessions {0,1,2}, session_timeout 5 s, each "
             "followed by context teardown; a reference model predicts every SERVER_SESSION_NEW/DEL; non-trivial = at least one session was deleted; "
             "distinct = distinct event traces");
  vx_ev_assumption("no network faults in this check (C06-C11 cover schedules); peers acknowledge Confirmable notifications");
  vx_ev_assumption("the application releases its own session references before coap_free_context()");
  return vx_finish();
}
