/* netsim -- real libcoap endpoints and a hostile network in one process (DESIGN.md 2.4).
 *
 * Link-time seams (no source change in libcoap):
 *   --wrap=coap_socket_bind_udp,coap_socket_connect_udp,coap_socket_send,coap_socket_recv,
 *          coap_socket_close,coap_socket_bind_tcp,coap_socket_accept_tcp,coap_socket_connect_tcp1,
 *          coap_socket_connect_tcp2
 *   clock_gettime / gettimeofday / time / recv / send / select defined in the executable.
 */
#ifndef NETSIM_H
#define NETSIM_H
#include <coap3/coap_internal.h>
#include "vx.h"

#define NS_WRAPS                                                                                                       \
  "coap_socket_bind_udp", "coap_socket_connect_udp", "coap_socket_send", "coap_socket_recv", "coap_socket_close",    \
      "coap_socket_bind_tcp", "coap_socket_accept_tcp", "coap_socket_connect_tcp1", "coap_socket_connect_tcp2"

typedef struct ns_dgram {
  int id;         /* creation index */
  int orig;       /* id of the datagram this one is a copy of, or -1 */
  coap_address_t src, dst;
  size_t len;
  uint8_t *data;
  uint64_t sent_at; /* virtual ms */
  int from_raw;     /* injected by the harness (raw peer), not sent by libcoap */
} ns_dgram_t;

/* ---- lifecycle ---- */
void ns_init(void);  /* virtual clock, PRNG, tables; calls coap_startup() */
void ns_fini(void);  /* frees in-flight data; calls coap_cleanup() */
void ns_register_ctx(coap_context_t *ctx);
void ns_unregister_ctx(coap_context_t *ctx);

/* ---- virtual time (ms == libcoap ticks) ---- */
uint64_t ns_now(void);
void ns_advance(uint64_t ms);
coap_tick_t ns_ticks(void); /* what coap_ticks() returns now */

/* ---- PRNG ---- */
extern int (*ns_prng_hook)(void *out, size_t len); /* return 1 if handled, else LCG fills */
void ns_prng_seed(uint64_t s);

/* ---- addresses ---- */
void ns_addr(coap_address_t *a, int host, int port); /* 10.0.0.host:port; host>=224 -> 224.0.1.host mcast */
int ns_addr_host(const coap_address_t *a);
int ns_addr_port(const coap_address_t *a);
const char *ns_addr_str(const coap_address_t *a); /* static buffers, rotating */

/* ---- datagrams in flight ---- */
int ns_inflight_count(void);
ns_dgram_t *ns_inflight(int i); /* i-th oldest */
void ns_deliver(int i);         /* remove and hand to destination */
void ns_drop(int i);
void ns_duplicate(int i);       /* deliver a copy, original stays in flight */
void ns_inject(const coap_address_t *src, const coap_address_t *dst, const uint8_t *data, size_t len);
void ns_inject_now(const coap_address_t *src, const coap_address_t *dst, const uint8_t *data, size_t len);
int ns_total_sent(void);        /* datagrams sent by libcoap sockets so far */
extern int ns_bind_fail_next;   /* >0: the next coap_socket_bind_udp fails with EADDRINUSE (decremented) */
int ns_icmp_unreachable(const coap_address_t *client_local); /* ICMP port-unreachable notice for a connected UDP client socket; 1 = read by libcoap */
extern int ns_send_fail_next;   /* >0: the next coap_socket_send returns -1/ENOBUFS (decremented) */

/* hooks */
extern void (*ns_mutate)(ns_dgram_t *d);       /* just before delivery: may rewrite the bytes (hostile network) */
extern void (*ns_on_send)(const ns_dgram_t *d);    /* every datagram a libcoap socket sends */
extern void (*ns_on_deliver)(const ns_dgram_t *d); /* just before a datagram is handed over */
extern void (*ns_raw_rx)(const ns_dgram_t *d);     /* delivery to an address without libcoap socket */

/* ---- I/O servicing ---- */
extern int ns_check_prepare; /* 1 (default): ns_prepare_all() checks the returned timeout against the send queue */
unsigned ns_prepare_all(void); /* coap_io_prepare_io() on every context; min positive timeout in ms, 0 = none */
extern unsigned ns_last_prepare[8]; /* per registered ctx: last value returned */

/* ---- generic one-step scheduler ---- */
struct ns_sched {
  int allow_drop, allow_dup, allow_reorder;
  int allow_timer_when_busy; /* offer "fire timer" while datagrams are in flight (delay >= timeout) */
  int allow_app_when_busy;   /* offer next app op while datagrams are in flight */
  int window;                /* only the first `window` in-flight datagrams get drop/dup/reorder alternatives (0 = all) */
  int fault_first_n;         /* only datagrams with id < fault_first_n may be dropped/duplicated/reordered (0 = all) */
  int max_dups;              /* total duplications allowed per execution */
  uint64_t horizon_ms;       /* stop offering timers beyond this virtual time */
  int max_timer_ms;          /* do not fire timers further away than this (0 = any) */
  int (*app_ready)(void *);  /* non-NULL: returns 1 if an app op can run now */
  void (*app_op)(void *);
  void *app_arg;
  int (*may_fault)(const ns_dgram_t *d, void *arg); /* optional filter for drop/dup/reorder */
};
/* returns 0 when nothing is enabled (quiescent), else 1 after performing one event */
int ns_step(struct ns_sched *s);
extern int ns_dups_done;
extern long ns_steps;

/* ---- streams (TCP / WS over harness-owned descriptors) ---- */
typedef struct ns_stream ns_stream_t;
struct ns_stream_side {
  int fd;
  coap_socket_t *sock; /* libcoap socket attached, or NULL (raw side) */
  uint8_t *rx;         /* bytes written by the other side, not yet read */
  size_t rx_len, rx_cap;
  size_t rx_avail;     /* how many of rx_len may be returned by recv() now */
  int peer_closed;     /* other side closed */
  int closed;
  size_t max_write;    /* 0 = unlimited; else send() accepts at most this many bytes */
  int write_eagain;    /* next send() gives EAGAIN */
};
struct ns_stream {
  int id;
  coap_address_t addr[2]; /* [0] = connector (client), [1] = listener side */
  struct ns_stream_side side[2];
  int accepted;
};
int ns_stream_count(void);
ns_stream_t *ns_stream_get(int i);
/* raw client connects to a libcoap TCP listener: creates the stream, marks the endpoint CAN_ACCEPT and runs do_io */
ns_stream_t *ns_stream_raw_connect(const coap_address_t *from, const coap_address_t *to);
void ns_stream_raw_write(ns_stream_t *s, int from_side, const uint8_t *data, size_t len); /* append to the other side's rx */
size_t ns_stream_raw_read(ns_stream_t *s, int side, uint8_t *buf, size_t max);          /* consume what the libcoap side wrote */
void ns_stream_release(ns_stream_t *s, int side, size_t nbytes); /* make nbytes more readable, set CAN_READ, run do_io */
void ns_stream_release_all(ns_stream_t *s, int side);
void ns_stream_raw_close(ns_stream_t *s, int side);
int ns_stream_pump(void); /* deliver everything pending between libcoap stream sides until quiet; returns #rounds */
extern int ns_stream_auto; /* 1 (default): bytes written are immediately readable by the other side */
/* optional rewrite of bytes a libcoap side writes before the other side can read them (cap >= *len + 64) */
extern void (*ns_stream_filter)(ns_stream_t *s, int from_side, uint8_t *data, size_t *len, size_t cap);

/* ---- epoll builds (COAP_EPOLL_SUPPORT): epoll_create1/epoll_ctl/epoll_wait/timerfd_* are served by netsim ---- */
struct epoll_event;
int ns_epoll_fill(struct epoll_event *ev, int max); /* non-blocking: EPOLLIN for the destination of the oldest datagram */
extern int (*ns_epoll_wait_hook)(int epfd, struct epoll_event *ev, int max, int timeout);

/* ---- misc ---- */
void ns_log_quiet(void); /* installs a log handler that formats (walks PDUs) but discards */
extern int ns_log_to_trace; /* 1: forward libcoap log lines to vx_trace (replay mode) */
coap_context_t *ns_ctx_of_socket(coap_socket_t *sock);

#endif
