/* C19 -- (D)TLS sessions exchange application data only after an authenticated handshake.
 *
 * Real GnuTLS-backed DTLS client and server contexts of libcoap over netsim with the virtual clock
 * (GnuTLS' DTLS retransmission timers read clock_gettime(), which the harness executable defines).
 * Product of credential configurations x queued requests, every handshake / record datagram can be lost,
 * duplicated or reordered within the deviation bound; cleartext CoAP is injected at the DTLS endpoint.
 */
#include "netsim.h"
#include "wire.h"

enum { SV_SINGLE, SV_TABLE, SV_SNI };
enum { CL_MATCH, CL_WRONG_KEY, CL_PREFIX_KEY, CL_LONGER_KEY, CL_UNKNOWN_ID, CL_REJECT_HINT, CL_MATCH_ID2, CL_NCLASSES };
static const char *cl_names[] = {"match", "wrong-key", "prefix-key", "longer-key", "unknown-identity", "client-rejects-hint", "match-id2"};

struct cfg {
  char name[160];
  int sv, cl;
  int ncon;       /* CON requests queued before the handshake completes */
  int with_non;   /* plus a NON */
  int inject;     /* 0 none, 1 cleartext GET from the client's address, 2 from a third address; injected at step inject_at */
  int inject_at;
  int release_at; /* >=0: the application releases the session after this many events */
  int sni;
  int nohint;     /* the server is configured without an identity hint */
  int tls;        /* TLS over a (simulated) TCP stream instead of DTLS: no loss, the stream is pumped until quiet */
  int lose_first; /* the network loses the first k datagrams the client sends (copies of its first handshake flight) */
  int maxretx;    /* >0: MAX_RETRANSMIT of the client session (also the number of handshake retransmissions libcoap makes) */
  int sni_case;   /* SV_SNI only: which name / key the second client uses (see sni_cases) */
  int refused_first; /* SV_SNI: before the client under test, a client from the same address and port is refused for its name */
  int blk;        /* the client context does block-wise transfers for the application (COAP_BLOCK_USE_LIBCOAP) and the last queued
                   * Confirmable is an Observe registration: libcoap keeps its own copy of such a request besides the queued one */
  int bound;
  int free_drops; /* drops of the first N datagrams cost nothing */
};

static struct cfg *C;
static coap_context_t *cc, *sc;
static coap_session_t *cs;
static coap_address_t srv_addr, cli_addr, third_addr;
static const uint8_t K1[] = "0123456789abcdef", K2[] = "fedcba9876543210";
static uint8_t keybuf[40];
static coap_dtls_cpsk_t cpsk;
static coap_dtls_spsk_t spsk;
static coap_bin_const_t k1c = {16, K1}, k2c = {16, K2};

#define MAXQ 5
static struct {
  uint8_t tok;
  int con;
  int accepted;
  int srv_calls, resp_calls, nacks;
  int srv_order;
} Q[MAXQ];
static int nq, srv_seq;
static int ev_connected_c, ev_connected_s, ev_closed, ev_error;
static int established_seen_c;
static int matching;
static int injected_calls;
static int events_done;
static int released;
static int faults_taken, drops_taken;

/* SV_SNI: the server chooses the key by the client's SNI (callback): "gw.example.net" -> K2, "gw.example" -> K3, any other
 * name -> refused; without SNI the default key K1 applies.  A first client completes a handshake as gw.example.net (so the
 * server has that name in its cache of SNI credentials) before the client under test starts. */
static const uint8_t K3[] = "0f1e2d3c4b5a6978";
static coap_bin_const_t k3c = {16, K3};
static const struct {
  const char *sni;
  const uint8_t *key;
  int match;
  const char *label;
} sni_cases[] = {
    {"gw.example", K3, 1, "second-name:own-key"},      {"gw.example", K2, 0, "prefix-of-cached-name:cached-key"},
    {NULL, K1, 1, "no-sni:default-key"},               {NULL, K2, 0, "no-sni:cached-key"},
    {"gw.example.net", K2, 1, "cached-name:its-key"},  {"GW.EXAMPLE.NET", K2, 1, "cached-name-other-case:its-key"},
    {"gw.example.net", K3, 0, "cached-name:other-key"}, {"gw.example.netx", K2, 0, "longer-than-cached-name:cached-key"},
    {"gw", K2, 0, "short-prefix:cached-key"},
};
#define N_SNI_CASES ((int)(sizeof sni_cases / sizeof sni_cases[0]))
static int prephase, prephase_calls;
static coap_dtls_spsk_info_t sni_info;
static const coap_dtls_spsk_info_t *
validate_sni(const char *sni, coap_session_t *session, void *arg) {
  (void)session;
  (void)arg;
  memset(&sni_info, 0, sizeof sni_info);
  sni_info.hint.s = (const uint8_t *)"h";
  sni_info.hint.length = 1;
  if (!strcasecmp(sni, "gw.example.net"))
    sni_info.key = k2c;
  else if (!strcasecmp(sni, "gw.example"))
    sni_info.key = k3c;
  else if (!sni[0])
    sni_info.key = k1c; /* no SNI extension: libcoap passes the empty name; this application answers with its default key */
  else
    return NULL;
  return &sni_info;
}

static int
is_matching(void) {
  if (C->sv == SV_SNI)
    return sni_cases[C->sni_case].match;
  if (C->cl == CL_MATCH)
    return 1;
  if (C->cl == CL_MATCH_ID2)
    return C->sv == SV_TABLE; /* single-key server: identity is ignored, key K2 != K */
  return 0;
}

/* ---- server ---- */
static const coap_bin_const_t *
validate_id(coap_bin_const_t *identity, coap_session_t *session, void *arg) {
  (void)session;
  (void)arg;
  if (identity->length == 3 && !memcmp(identity->s, "id1", 3))
    return &k1c;
  if (identity->length == 3 && !memcmp(identity->s, "id2", 3))
    return &k2c;
  return NULL;
}
static void
hnd(coap_resource_t *r, coap_session_t *s, const coap_pdu_t *req, const coap_string_t *q, coap_pdu_t *resp) {
  (void)r;
  (void)q;
  coap_bin_const_t t = coap_pdu_get_token(req);
  int qi = -1;
  for (int i = 0; i < nq; i++)
    if (t.length == 1 && t.s[0] == Q[i].tok)
      qi = i;
  vx_observe("t=%llu SRV-HANDLER q=%d proto=%d state=%d", (unsigned long long)ns_now(), qi, coap_session_get_proto(s), coap_session_get_state(s));
  if (t.length == 1 && t.s[0] == 0xEE) {
    injected_calls++;
    char sig[100];
    snprintf(sig, sizeof sig, "cleartext-accepted:%s", C->inject == 2 ? "third-party" : "client-address");
    vx_fail(sig, "a cleartext CoAP datagram injected at the DTLS endpoint reached the request handler");
  } else if (prephase) {
    prephase_calls++; /* the first client of an SV_SNI scenario */
  } else if (!matching) {
    char sig[100];
    snprintf(sig, sizeof sig, "handler-without-auth:server:%s", C->sv == SV_SNI ? sni_cases[C->sni_case].label : cl_names[C->cl]);
    vx_fail(sig, "server request handler ran although client and server credentials differ (%s)", cl_names[C->cl]);
  }
  if (qi >= 0) {
    Q[qi].srv_calls++;
    if (Q[qi].srv_calls == 1)
      Q[qi].srv_order = srv_seq++;
  }
  coap_pdu_set_code(resp, COAP_RESPONSE_CODE_CONTENT);
  coap_add_data(resp, 6, (const uint8_t *)"secret");
}
static int
ev_s(coap_session_t *s, const coap_event_t e) {
  (void)s;
  if (e == COAP_EVENT_DTLS_CONNECTED)
    ev_connected_s++;
  return 0;
}

/* ---- client ---- */
static const coap_dtls_cpsk_info_t *
validate_ih(coap_str_const_t *hint, coap_session_t *s, void *arg) {
  (void)hint;
  (void)s;
  (void)arg;
  return NULL; /* the client does not accept this server's hint */
}
static coap_response_t
resp_handler(coap_session_t *s, const coap_pdu_t *sent, const coap_pdu_t *rcv, const coap_mid_t mid) {
  (void)s;
  (void)sent;
  (void)mid;
  coap_bin_const_t t = coap_pdu_get_token(rcv);
  int qi = -1;
  for (int i = 0; i < nq; i++)
    if (t.length == 1 && t.s[0] == Q[i].tok)
      qi = i;
  vx_observe("t=%llu CLI-RESP q=%d code=%d", (unsigned long long)ns_now(), qi, coap_pdu_get_code(rcv));
  if (!matching) {
    char sig[100];
    snprintf(sig, sizeof sig, "handler-without-auth:client:%s", cl_names[C->cl]);
    vx_fail(sig, "client response handler ran although credentials differ");
  }
  if (qi >= 0)
    Q[qi].resp_calls++;
  return COAP_RESPONSE_OK;
}
static void
nack_handler(coap_session_t *s, const coap_pdu_t *sent, const coap_nack_reason_t reason, const coap_mid_t mid) {
  (void)s;
  (void)mid;
  int qi = -1;
  if (sent) {
    coap_bin_const_t t = coap_pdu_get_token(sent);
    for (int i = 0; i < nq; i++)
      if (t.length == 1 && t.s[0] == Q[i].tok)
        qi = i;
  }
  vx_observe("t=%llu CLI-NACK q=%d reason=%d", (unsigned long long)ns_now(), qi, reason);
  if (qi >= 0)
    Q[qi].nacks++;
}
static int
ev_c(coap_session_t *s, const coap_event_t e) {
  (void)s;
  if (e == COAP_EVENT_DTLS_CONNECTED)
    ev_connected_c++;
  if (e == COAP_EVENT_DTLS_CLOSED)
    ev_closed++;
  if (e == COAP_EVENT_DTLS_ERROR)
    ev_error++;
  vx_observe("t=%llu CLI-EVENT %x", (unsigned long long)ns_now(), e);
  return 0;
}

/* ---- wire ---- */
static void
on_send(const ns_dgram_t *d) {
  int from_client = ns_addr_host(&d->src) == ns_addr_host(&cli_addr);
  int ct = d->len ? d->data[0] : -1;
  vx_observe("t=%llu %s TX len=%zu ct=%d", (unsigned long long)ns_now(), from_client ? "C" : "S", d->len, ct);
  if (d->len < 13 || ct < 20 || ct > 25) {
    /* not a DTLS record: is it CoAP in the clear? */
    struct w_msg m;
    char sig[100];
    int coapish = w_parse(d->data, d->len, &m);
    snprintf(sig, sizeof sig, "cleartext-on-wire:%s:%s", from_client ? "client" : "server", coapish ? "coap" : "other");
    vx_fail(sig, "%s emitted a %zu-byte datagram that is not a DTLS record (first byte %d)%s", from_client ? "client" : "server", d->len, ct,
            coapish ? " and parses as a CoAP message" : "");
    return;
  }
  /* application strings must never be visible */
  static const char *needles[] = {"secret", "s3cr3t-path"};
  for (unsigned k = 0; k < 2; k++) {
    size_t nl = strlen(needles[k]);
    for (size_t i = 0; i + nl <= d->len; i++)
      if (!memcmp(d->data + i, needles[k], nl)) {
        vx_fail("cleartext-on-wire:application-bytes", "application bytes '%s' visible in a datagram", needles[k]);
        return;
      }
  }
}

/* TLS: every byte either side writes to the stream */
static void
tls_filter(ns_stream_t *st, int from_side, uint8_t *data, size_t *len, size_t cap) {
  (void)st;
  (void)cap;
  vx_observe("t=%llu %s stream write len=%zu first=%d", (unsigned long long)ns_now(), from_side == 0 ? "C" : "S", *len, *len ? data[0] : -1);
  static const char *needles[] = {"secret", "s3cr3t-path"};
  for (unsigned k = 0; k < 2; k++) {
    size_t nl = strlen(needles[k]);
    for (size_t i = 0; i + nl <= *len; i++)
      if (!memcmp(data + i, needles[k], nl)) {
        vx_fail("cleartext-on-wire:application-bytes:tls", "application bytes '%s' visible on the TLS stream", needles[k]);
        return;
      }
  }
}

static void
submit_all(void) {
  nq = 0;
  for (int i = 0; i < C->ncon + C->with_non; i++) {
    int con = i < C->ncon;
    if (C->with_non && i == 1 && C->ncon > 1)
      con = 0; /* NON in second position */
    else if (C->with_non && C->ncon > 1 && i > 1)
      con = 1;
    Q[nq].tok = (uint8_t)(0x41 + nq);
    Q[nq].con = con;
    coap_pdu_t *p = coap_new_pdu(con ? COAP_MESSAGE_CON : COAP_MESSAGE_NON, COAP_REQUEST_CODE_GET, cs);
    coap_add_token(p, 1, &Q[nq].tok);
    if (C->blk && con && i == C->ncon + C->with_non - 1)
      coap_add_option(p, COAP_OPTION_OBSERVE, 0, NULL);
    coap_add_option(p, COAP_OPTION_URI_PATH, 11, (const uint8_t *)"s3cr3t-path");
    coap_mid_t r = coap_send(cs, p);
    Q[nq].accepted = r != COAP_INVALID_MID;
    vx_observe("t=%llu SUBMIT q=%d %s -> %d (session state %d)", (unsigned long long)ns_now(), nq, con ? "CON" : "NON", r,
               coap_session_get_state(cs));
    nq++;
  }
}

static void
inject_cleartext(void) {
  struct w_buf w;
  uint8_t tok = 0xEE;
  w_begin(&w, 0, 1, 0x4242, &tok, 1);
  w_opt_add(&w, 11, "s3cr3t-path", 11);
  vx_observe("t=%llu INJECT cleartext GET from %s", (unsigned long long)ns_now(), C->inject == 2 ? "third party" : "client address");
  ns_on_send = NULL; /* the injected datagram itself is not library output */
  ns_inject_now(C->inject == 2 ? &third_addr : &cli_addr, &srv_addr, w.b, w.n);
  ns_on_send = on_send;
}

static int
step(void) {
  enum { EV_DELIVER, EV_TIMER, EV_REORDER, EV_DROP, EV_DUP };
  struct {
    int kind, idx;
  } ev[VX_MAXALT];
  uint8_t cost[VX_MAXALT];
  int n = 0;
  /* inject_at < 0: a persistent attacker, one cleartext datagram before every step (also between the library's decision to
   * abandon a handshake and the moment the dead session is reclaimed, and after it) */
  if (C->inject && (events_done == C->inject_at || C->inject_at < 0))
    inject_cleartext();
  if (C->release_at >= 0 && events_done == C->release_at && !released) {
    vx_observe("t=%llu APP releases the session", (unsigned long long)ns_now());
    released = 1;
    coap_session_release(cs);
    cs = NULL;
  }
  unsigned tmo = ns_prepare_all();
  if (cs && coap_session_get_state(cs) == COAP_SESSION_STATE_ESTABLISHED)
    established_seen_c = 1;
  int nf = ns_inflight_count();
  if (nf > 0)
    ev[n].kind = EV_DELIVER, ev[n++].idx = 0;
  else if (tmo && tmo < 400000 && ns_now() < 2000000)
    ev[n].kind = EV_TIMER, ev[n++].idx = (int)tmo;
  if (n == 0)
    return 0;
  if (C->lose_first && nf > 0) {
    ns_dgram_t *d0 = ns_inflight(0);
    if (d0->id < C->lose_first && ns_addr_host(&d0->src) == ns_addr_host(&cli_addr)) {
      vx_observe("   (copy %d of the client's first flight lost)", d0->id);
      ns_drop(0);
      return 1;
    }
  }
  cost[0] = 0;
  int budget = vx_budget_left();
  for (int j = 0; j < nf && j < 3 && n < VX_MAXALT - 3; j++) {
    ns_dgram_t *d = ns_inflight(j);
    if (d->id >= 14)
      continue;
    int freed = C->free_drops && d->id < C->free_drops;
    if (freed || budget > 0)
      ev[n].kind = EV_DROP, ev[n].idx = j, cost[n++] = freed ? 0 : 1;
    if (budget > 0 && !C->free_drops) {
      if (j >= 1)
        ev[n].kind = EV_REORDER, ev[n].idx = j, cost[n++] = 1;
      if (ns_dups_done < 2)
        ev[n].kind = EV_DUP, ev[n].idx = j, cost[n++] = 1;
    }
  }
  int c = vx_choose(n, cost, "step");
  events_done++;
  switch (ev[c].kind) {
  case EV_DELIVER:
    ns_deliver(0);
    break;
  case EV_REORDER:
    vx_observe("   reorder dgram#%d first", ns_inflight(ev[c].idx)->id);
    ns_deliver(ev[c].idx);
    break;
  case EV_DUP:
    vx_observe("   dup dgram#%d", ns_inflight(ev[c].idx)->id);
    ns_duplicate(ev[c].idx);
    break;
  case EV_DROP:
    vx_observe("   drop dgram#%d", ns_inflight(ev[c].idx)->id);
    ns_drop(ev[c].idx);
    drops_taken++;
    break;
  case EV_TIMER:
    ns_advance((uint64_t)ev[c].idx);
    break;
  }
  if (c) {
    vx_nontrivial();
    faults_taken++;
  }
  return 1;
}

/* a complete client life before the one under test: context, one DTLS session with the given name and key, one request, fault
 * free delivery until quiet, release */
static void
prephase_client(const coap_address_t *from, const char *sni, coap_bin_const_t key, int expect_ok) {
  coap_context_t *pc = coap_new_context(NULL);
  ns_register_ctx(pc);
  coap_dtls_cpsk_t pp;
  memset(&pp, 0, sizeof pp);
  pp.version = COAP_DTLS_CPSK_SETUP_VERSION;
  pp.client_sni = (char *)(uintptr_t)sni;
  pp.psk_info.identity.s = (const uint8_t *)"id1";
  pp.psk_info.identity.length = 3;
  pp.psk_info.key = key;
  coap_session_t *ps = coap_new_client_session_psk2(pc, from, &srv_addr, COAP_PROTO_DTLS, &pp);
  prephase = 1;
  prephase_calls = 0;
  if (ps) {
    coap_pdu_t *p = coap_new_pdu(COAP_MESSAGE_CON, COAP_REQUEST_CODE_GET, ps);
    uint8_t t = 0x70;
    coap_add_token(p, 1, &t);
    coap_add_option(p, COAP_OPTION_URI_PATH, 11, (const uint8_t *)"s3cr3t-path");
    coap_send(ps, p);
    for (int i = 0; i < 200; i++) {
      ns_prepare_all();
      if (!ns_inflight_count())
        break;
      ns_deliver(0);
    }
    coap_session_release(ps);
  }
  for (int i = 0; i < 50 && ns_inflight_count(); i++) {
    ns_deliver(0);
    ns_prepare_all();
  }
  ns_unregister_ctx(pc);
  coap_free_context(pc);
  while (ns_inflight_count())
    ns_deliver(0);
  ns_prepare_all();
  while (ns_inflight_count())
    ns_drop(0);
  prephase = 0;
  if (expect_ok && !prephase_calls)
    vx_fail("harness:sni-first-client", "the first client (%s with its key) did not complete its handshake", sni);
  if (!expect_ok && prephase_calls)
    vx_fail("handler-without-auth:server:refused-name", "a client whose server name the server refuses reached the request handler");
}

static void
run(void *arg) {
  C = arg;
  ns_init();
  memset(Q, 0, sizeof Q);
  nq = srv_seq = 0;
  ev_connected_c = ev_connected_s = ev_closed = ev_error = 0;
  established_seen_c = 0;
  injected_calls = 0;
  events_done = 0;
  released = 0;
  faults_taken = 0;
  drops_taken = 0;
  matching = is_matching();
  ns_on_send = on_send;
  ns_addr(&srv_addr, 1, 5684);
  ns_addr(&cli_addr, 50, 40001);
  ns_addr(&third_addr, 66, 40002);
  /* server */
  sc = coap_new_context(NULL);
  ns_register_ctx(sc);
  memset(&spsk, 0, sizeof spsk);
  spsk.version = COAP_DTLS_SPSK_SETUP_VERSION;
  spsk.psk_info.hint.s = (const uint8_t *)"h";
  spsk.psk_info.hint.length = C->nohint ? 0 : 1;
  spsk.psk_info.key.s = K1;
  spsk.psk_info.key.length = 16;
  if (C->sv == SV_TABLE)
    spsk.validate_id_call_back = validate_id;
  if (C->sv == SV_SNI)
    spsk.validate_sni_call_back = validate_sni;
  if (!coap_context_set_psk2(sc, &spsk)) {
    vx_fail("harness:set-psk2", "coap_context_set_psk2 failed");
    return;
  }
  coap_register_event_handler(sc, ev_s);
  coap_new_endpoint(sc, &srv_addr, C->tls ? COAP_PROTO_TLS : COAP_PROTO_DTLS);
  coap_resource_t *r = coap_resource_init(coap_make_str_const("s3cr3t-path"), 0);
  coap_register_request_handler(r, COAP_REQUEST_GET, hnd);
  coap_add_resource(sc, r);
  if (C->sv == SV_SNI) {
    /* first client: gw.example.net with its key, fault free, to completion */
    coap_address_t pa;
    ns_addr(&pa, 51, 40003);
    prephase_client(&pa, "gw.example.net", k2c, 1);
    if (C->refused_first)
      /* ... and then a client from the very address and port the client under test will use, with a name the server refuses:
       * what that attempt leaves behind at the server must not stand in the way of the next one */
      prephase_client(&cli_addr, "unknown.example", k2c, 0);
    ev_connected_c = ev_connected_s = ev_closed = ev_error = 0;
    established_seen_c = 0;
  }
  /* client */
  cc = coap_new_context(NULL);
  ns_register_ctx(cc);
  coap_register_response_handler(cc, resp_handler);
  coap_register_nack_handler(cc, nack_handler);
  coap_register_event_handler(cc, ev_c);
  if (C->blk)
    coap_context_set_block_mode(cc, COAP_BLOCK_USE_LIBCOAP);
  memset(&cpsk, 0, sizeof cpsk);
  cpsk.version = COAP_DTLS_CPSK_SETUP_VERSION;
  const char *id = "id1";
  size_t kl = 16;
  memcpy(keybuf, K1, 16);
  switch (C->cl) {
  case CL_WRONG_KEY:
    memcpy(keybuf, K2, 16);
    break;
  case CL_PREFIX_KEY:
    kl = 12;
    break;
  case CL_LONGER_KEY:
    keybuf[16] = 'x';
    kl = 17;
    break;
  case CL_UNKNOWN_ID:
    id = "id3";
    if (C->sv == SV_SINGLE)
      memcpy(keybuf, K2, 16); /* single-key servers ignore the identity: make the key differ too */
    break;
  case CL_REJECT_HINT:
    cpsk.validate_ih_call_back = validate_ih;
    break;
  case CL_MATCH_ID2:
    id = "id2";
    memcpy(keybuf, K2, 16);
    break;
  default:
    break;
  }
  cpsk.psk_info.identity.s = (const uint8_t *)id;
  cpsk.psk_info.identity.length = strlen(id);
  cpsk.psk_info.key.s = keybuf;
  cpsk.psk_info.key.length = kl;
  if (C->sni)
    cpsk.client_sni = "server.example";
  if (C->sv == SV_SNI) {
    cpsk.client_sni = (char *)(uintptr_t)sni_cases[C->sni_case].sni;
    memcpy(keybuf, sni_cases[C->sni_case].key, 16);
  }
  cs = coap_new_client_session_psk2(cc, &cli_addr, &srv_addr, C->tls ? COAP_PROTO_TLS : COAP_PROTO_DTLS, &cpsk);
  if (!cs) {
    vx_fail("harness:client-session", "coap_new_client_session_psk2 failed");
    return;
  }
  if (C->maxretx)
    coap_session_set_max_retransmit(cs, (uint16_t)C->maxretx);
  if (C->tls)
    ns_stream_filter = tls_filter;
  submit_all();
  int steps = 0;
  if (C->tls) {
    /* reliable transport: everything written is delivered in order; timers fire when nothing else can happen */
    for (; steps < 400; steps++) {
      unsigned tmo = ns_prepare_all();
      int moved = ns_stream_pump();
      if (moved > 1)
        continue;
      if (tmo && tmo < 200000 && ns_now() < 900000)
        ns_advance(tmo);
      else
        break;
    }
  } else {
    while (steps++ < 800 && step())
      ;
  }
  if (steps >= (C->tls ? 400 : 800))
    vx_fail("horizon:steps", "scenario did not become quiescent within the event horizon");
  if (C->tls && !matching && cs) {
    /* a stream has no retransmission time-outs: a handshake that cannot succeed ends, at the latest, when the application
     * releases the session -- which is where the statement wants the NACKs at the latest */
    coap_session_release(cs);
    cs = NULL;
    for (int k = 0; k < 20; k++) {
      ns_prepare_all();
      if (ns_stream_pump() <= 1)
        break;
    }
  }
  /* verdicts */
  char oc[120] = "";
  size_t o = 0;
  if (!matching && !C->inject) {
    if (ev_connected_c || ev_connected_s || established_seen_c) {
      char sig[100];
      snprintf(sig, sizeof sig, "established-without-auth:%s", C->sv == SV_SNI ? sni_cases[C->sni_case].label : cl_names[C->cl]);
      vx_fail(sig, "session became established / DTLS_CONNECTED raised (client %d, server %d) although credentials differ", ev_connected_c,
              ev_connected_s);
    }
  }
  for (int i = 0; i < nq; i++) {
    char sig[120];
    if (!Q[i].accepted)
      continue;
    if (matching && C->release_at < 0 && C->lose_first && !faults_taken) {
      /* nothing but the loss of the first copies of the client's first flight, no more of them than MAX_RETRANSMIT: the
       * handshake (whose flights libcoap retransmits MAX_RETRANSMIT times) must not be given up */
      if (Q[i].con && (Q[i].nacks || Q[i].resp_calls != 1)) {
        snprintf(sig, sizeof sig, "queued:given-up-within-max-retransmit:%s", established_seen_c ? "after-handshake" : "handshake-abandoned");
        vx_fail(sig, "request %d: %d responses, %d NACKs although only the first %d copies of the first handshake flight were lost (MAX_RETRANSMIT %d)",
                i, Q[i].resp_calls, Q[i].nacks, C->lose_first, C->maxretx);
      }
    } else if (matching && C->release_at < 0 && (faults_taken || C->lose_first)) {
      /* datagrams were lost / duplicated / reordered: the handshake may legitimately be abandoned and CoAP-level
       * retransmissions may reach the handler again; what remains: exactly one conclusion per Confirmable request */
      if (Q[i].con && Q[i].resp_calls + Q[i].nacks != 1) {
        snprintf(sig, sizeof sig, "queued:conclusions=%d:under-faults", Q[i].resp_calls + Q[i].nacks);
        vx_fail(sig, "request %d: %d responses + %d NACKs (server handler calls %d)", i, Q[i].resp_calls, Q[i].nacks, Q[i].srv_calls);
      }
      if (Q[i].resp_calls && !Q[i].srv_calls)
        vx_fail("queued:response-without-request", "request %d got a response although the server handler never ran", i);
    } else if (matching && C->release_at < 0) {
      if (Q[i].srv_calls != 1 && Q[i].con) {
        snprintf(sig, sizeof sig, "queued:delivered-%d-times:%s", Q[i].srv_calls, Q[i].con ? "CON" : "NON");
        vx_fail(sig, "request %d queued during the handshake reached the server handler %d times", i, Q[i].srv_calls);
      }
      if (Q[i].con && Q[i].resp_calls != 1) {
        snprintf(sig, sizeof sig, "queued:responses-%d", Q[i].resp_calls);
        vx_fail(sig, "request %d: %d responses at the client (nacks %d)", i, Q[i].resp_calls, Q[i].nacks);
      }
      if (Q[i].nacks) {
        vx_fail("queued:nack-despite-matching-credentials", "request %d was NACKed although the handshake can succeed", i);
      }
      for (int j = 0; j < i; j++)
        if (Q[j].accepted && Q[j].srv_calls && Q[i].srv_calls && Q[j].srv_order > Q[i].srv_order)
          vx_fail("queued:out-of-order", "request %d reached the server before earlier-submitted request %d", i, j);
    } else if (!matching) {
      if (Q[i].con && Q[i].nacks != 1) {
        snprintf(sig, sizeof sig, "nack-count=%d:%s%s", Q[i].nacks, C->sv == SV_SNI ? sni_cases[C->sni_case].label : cl_names[C->cl], C->release_at >= 0 ? ":released" : "");
        vx_fail(sig, "Confirmable request %d queued on a session whose handshake cannot succeed got %d NACKs (expected exactly 1)", i, Q[i].nacks);
      }
      if (!Q[i].con && Q[i].nacks && !C->tls)
        vx_fail("nack-for-NON", "NON request %d was NACKed", i);
    } else if (C->release_at >= 0) {
      /* released by the application: every CON either completed before or is reported by exactly one NACK */
      if (Q[i].con && Q[i].resp_calls + Q[i].nacks != 1) {
        snprintf(sig, sizeof sig, "released:outcomes=%d", Q[i].resp_calls + Q[i].nacks);
        vx_fail(sig, "request %d: %d responses + %d NACKs after the application released the session", i, Q[i].resp_calls, Q[i].nacks);
      }
    }
    o += (size_t)snprintf(oc + o, sizeof oc - o, "%ss%dr%dn%d", i ? "," : "", Q[i].srv_calls, Q[i].resp_calls, Q[i].nacks);
  }
  vx_outcome("%s conn=%d/%d", oc, ev_connected_c, ev_connected_s);
  if (cs)
    coap_session_release(cs);
  ns_unregister_ctx(cc);
  coap_free_context(cc);
  ns_unregister_ctx(sc);
  coap_free_context(sc);
  ns_fini();
}

static struct cfg *cfgs;
static int ncfgs;
static void
add(struct cfg c) {
  cfgs = realloc(cfgs, sizeof *cfgs * (size_t)(ncfgs + 1));
  snprintf(c.name, sizeof c.name, "c19:sv=%d,cl=%s,ncon=%d,non=%d,inj=%d@%d,rel=%d,sni=%d/%d,nh=%d,mr=%d,lf=%d,tls=%d,blk=%d,rf=%d,fd=%d,B=%d", c.sv, cl_names[c.cl], c.ncon, c.with_non, c.inject,
           c.inject_at, c.release_at, c.sni, c.sni_case, c.nohint, c.maxretx, c.lose_first, c.tls, c.blk, c.refused_first, c.free_drops, c.bound);
  cfgs[ncfgs++] = c;
}

int
main(int argc, char **argv) {
  vx_main_init(argc, argv, "C19");
  int T = vx_is_thorough();
  for (int sv = 0; sv < 2; sv++)
    for (int cl = 0; cl < CL_NCLASSES; cl++)
      for (int q = 0; q < 2; q++) {
        struct cfg c = {.sv = sv, .cl = cl, .ncon = q ? 3 : 1, .with_non = q, .release_at = -1, .sni = (sv + cl) % 2, .bound = 2};
        if (T && !q && (cl == CL_MATCH || cl == CL_WRONG_KEY))
          c.bound = 3;
        if (!T && q && cl != CL_MATCH && cl != CL_WRONG_KEY)
          c.bound = 1;
        add(c);
      }
  /* the credential product over TLS (CoAP over TCP with the same PSK machinery) */
  for (int sv = 0; sv < 2; sv++)
    for (int cl = 0; cl < CL_NCLASSES; cl++)
      for (int q = 0; q < 2; q++) {
        struct cfg c = {.sv = sv, .cl = cl, .ncon = q ? 3 : 1, .with_non = q, .release_at = -1, .sni = (sv + cl) % 2, .tls = 1, .bound = 0};
        add(c);
      }
  /* the client library does block-wise transfers for the application and the last queued Confirmable registers an observation */
  for (int sv = 0; sv < 2; sv++)
    for (int cl = 0; cl < CL_NCLASSES; cl++)
      for (int q = 1; q <= 2; q++) {
        struct cfg c = {.sv = sv, .cl = cl, .ncon = q, .release_at = -1, .sni = (sv + cl) % 2, .blk = 1, .bound = T ? 2 : 1};
        add(c);
        if (q == 2 && sv == 0) {
          c.tls = 1;
          c.bound = 0;
          add(c);
          c.tls = 0;
          c.release_at = 4;
          c.bound = T ? 2 : 1;
          add(c);
        }
      }
  /* matching credentials, MAX_RETRANSMIT 2: the loss of the first one or two copies of the client's first flight must be survived */
  {
    for (int k = 1; k <= 2; k++) {
      struct cfg c = {.sv = SV_SINGLE, .cl = CL_MATCH, .ncon = 1, .release_at = -1, .maxretx = 2, .lose_first = k, .bound = T ? 1 : 0};
      add(c);
    }
  }
  /* a server without identity hint: the client's hint callback still decides (it sees the empty hint) */
  for (int sv = 0; sv < 2; sv++)
    for (int cl = 0; cl < CL_NCLASSES; cl++) {
      struct cfg c = {.sv = sv, .cl = cl, .ncon = 1, .release_at = -1, .nohint = 1, .bound = T ? 2 : 1};
      add(c);
    }
  /* key chosen by SNI; a first client has put one name into the server's SNI credential cache */
  for (int k = 0; k < N_SNI_CASES; k++) {
    struct cfg c = {.sv = SV_SNI, .cl = CL_MATCH, .ncon = 1, .release_at = -1, .sni_case = k, .bound = T ? 2 : 1};
    add(c);
  }
  /* the same after a refused attempt from the very address and port of the client under test */
  for (int k = 0; k < N_SNI_CASES; k++) {
    struct cfg c = {.sv = SV_SNI, .cl = CL_MATCH, .ncon = 2, .release_at = -1, .sni_case = k, .refused_first = 1, .bound = T ? 1 : 0};
    add(c);
  }
  /* cleartext injection at every step of the handshake */
  for (int who = 1; who <= 2; who++)
    for (int at = 0; at <= 10; at += (T ? 1 : 2)) {
      struct cfg c = {.sv = SV_SINGLE, .cl = CL_MATCH, .ncon = 1, .inject = who, .inject_at = at, .release_at = -1, .bound = T ? 2 : 1};
      add(c);
      c.cl = CL_WRONG_KEY;
      add(c);
    }
  /* a persistent attacker: cleartext before every step of the whole scenario (matching / mismatching credentials, to the end) */
  for (int who = 1; who <= 2; who++)
    for (int cl = 0; cl < 2; cl++)
      for (int mr = 0; mr <= 1; mr++) {
        /* fault-free in both tiers: with loss on top, an attacker who never stops keeps the handshake timers of both peers busy and
         * the scenario does not reach quiescence inside the event horizon - a liveness question the statement does not pose */
        struct cfg c = {.sv = SV_SINGLE, .cl = cl, .ncon = 1, .inject = who, .inject_at = -1, .release_at = -1, .maxretx = mr, .bound = 0};
        add(c);
      }
  /* the application releases the session mid-handshake */
  for (int at = 0; at <= 8; at += (T ? 1 : 2))
    for (int cl = 0; cl < 2; cl++) {
      struct cfg c = {.sv = SV_SINGLE, .cl = cl, .ncon = 2, .release_at = at, .bound = T ? 2 : 1};
      add(c);
    }
  /* every drop subset of the first 10 datagrams */
  if (T) {
    for (int cl = 0; cl < 2; cl++) {
      struct cfg c = {.sv = SV_SINGLE, .cl = cl, .ncon = 1, .release_at = -1, .bound = 0, .free_drops = 10};
      add(c);
    }
  } else {
    struct cfg c = {.sv = SV_SINGLE, .cl = CL_MATCH, .ncon = 1, .release_at = -1, .bound = 0, .free_drops = 8};
    add(c);
    c.cl = CL_WRONG_KEY;
    add(c);
  }
  vx_ev_rule("real GnuTLS DTLS-PSK client and server contexts of libcoap over the simulated network with a virtual clock; product of server key "
             "table {single key, identity table} x client credentials {match, wrong key, prefix key, longer key, unknown identity, client rejects "
             "hint, second identity} x queued requests {1 CON, 3 CON + 1 NON} x SNI; the product again with a client context in COAP_BLOCK_USE_LIBCOAP mode whose last queued Confirmable is an Observe registration (1 or 2 CON; DTLS, TLS, released mid-handshake); the same product with a server that sends no identity hint; a server choosing the key by SNI callback (two names with own keys, default key without SNI) "
             "after a first client has completed a handshake under one name, x 9 (name, key) combinations of the second client incl. prefix / "
             "longer / other-case / absent names, also after a refused attempt (unknown name) from the same address and port; all schedules with <= bound drop/duplicate/reorder deviations "
             "over the first 14 datagrams; cleartext CoAP injected from the client's and a third address at each step; application release "
             "mid-handshake; every drop subset of the first 6 (quick) / 10 (thorough) datagrams; non-trivial = deviation taken");
  vx_ev_assumption("PSK only, GnuTLS back-end; TLS over the simulated TCP stream is driven for the credential product without faults (a stream does not lose data), judged after the application released a session whose handshake cannot succeed");
  vx_ev_assumption("every emitted datagram must start with a DTLS record content type 20..25 and must not contain the application's path/payload bytes");
  for (int i = 0; i < ncfgs; i++)
    if (vx_replay_if_match(cfgs[i].name, run, &cfgs[i]))
      return 0;
  if (vx_replay_path()) {
    fprintf(stderr, "replay file does not match any scenario\n");
    return 2;
  }
  struct vx_config *vcs = calloc((size_t)ncfgs, sizeof *vcs);
  void **args = calloc((size_t)ncfgs, sizeof *args);
  for (int i = 0; i < ncfgs; i++) {
    vcs[i] = (struct vx_config){.scenario = cfgs[i].name, .bound = cfgs[i].bound, .leakcheck = 1, .exec_timeout_s = 40};
    args[i] = &cfgs[i];
  }
  struct vx_scn_stats st;
  vx_explore_multi("c19:all", vcs, args, ncfgs, run, 0, &st);
  vx_ev_int("scenarios", ncfgs);
  return vx_finish();
}
