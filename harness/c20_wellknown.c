/* C20 -- /.well-known/core lists exactly the registered resources in any window / filter.
 *
 * In-process product enumeration (vxp) over the real coap_print_wellknown_lkd() / coap_print_link():
 *
 *   space "tables x filters": index = table * NFILTERS + filter
 *     tables             : every subset of the 12-shape catalogue of size 0..3 (quick) / 0..12 = all 4096 subsets (thorough),
 *                          ordered by size then mask, and (after size 3) the table of all 12 shapes,
 *                          registered in reverse catalogue order (so quick is a prefix of thorough)
 *     filter             : Uri-Query option value (or none), turned into the coap_string_t exactly as
 *                          the library's GET handler gets it: request PDU -> coap_get_query()
 *     inside one case    : the size probe of hnd_get_wellknown_lkd (offset UINT_MAX, length 0), the full
 *                          listing, and ALL windows 0 <= offset <= L+2, 0 <= buflen <= L+2, each into an
 *                          exact-size heap buffer (asan sees any write outside)
 *   space "links": index = catalogue shape; all windows of coap_print_link() for that resource.
 *
 * Oracle (ref/reflink.c, written from RFC 6690):
 *   listing:*   full listing parses as RFC 6690 link-value-list; every link is a registered resource with
 *               exactly its attributes (+ obs / osc markers), compared as a set (order of links and of
 *               link-params is not compared); no resource twice; an application resource registered at
 *               ".well-known/core" at most once (libcoap documents that it is skipped)
 *   filter:*    with a filter the listed set is exactly the resources passing the RFC 6690 4.1 reference
 *               filter; cases the RFC leaves open (RL_UNSPEC) are not compared
 *               signature filter:<href|rt|if|rel|other>:<exact|prefix>[-no-leading-slash][-token][-unquoted][-pct]:<missed|overmatch>
 *               (-pct: the search value holds a byte that must be percent-encoded in a URI query)
 *   window:*    bytes written == full[offset, offset+buflen) cut to [0,L); length bits of the status ==
 *               number of bytes written; *buflen on return == L (the total length; the header comment says
 *               both "bytes actually written" and "length of the well-known response" -- the property
 *               statement says total, and so does the @param text)
 *   trunc-flag:* for buflen > 0: COAP_PRINT_STATUS_TRUNC set <=> offset + written < L.  Not checked for
 *               buflen == 0 (the statement restricts the clause to non-empty buffers)
 *   status:error COAP_PRINT_STATUS_ERROR never set
 *   link:*      the same clauses for coap_print_link(), plus *offset consumed by min(offset, link length)
 *               for a non-empty buffer ("offset is updated during output as it is consumed")
 *   position / window classes in signatures: first-byte-of-link, last-byte-of-link, inside-link, separator;
 *   zero-buffer, offset-past-end, short-window, exact-end, beyond-end.
 *
 * Not covered here: the block-wise GET part of the property: stage c20get (harness/c20_get.c).
 */
#include <coap3/coap_internal.h>
#include <limits.h>
#include <stdio.h>
#include <stdlib.h>
#include <string.h>
#include "reflink.h"
#include "vx.h"

/* ------------------------------------------------------------------------------------------ */
/* catalogue                                                                                   */

#define LONG60 "a123456789b123456789c123456789d123456789e123456789f123456789"
#define WKC ".well-known/core"

static const struct rl_res CAT[] = {
    /* path, nattr, attrs (registration order), observable, oscore_only */
    {"a", 0, {{0}}, 0, 0},
    {"a/b", 1, {{"rt", "\"x\""}}, 1, 0},
    {"sensors/t", 2, {{"rt", "\"x y\""}, {"if", "\"i\""}}, 0, 0},
    {LONG60, 1, {{"ct", "40"}}, 0, 0},
    {"b", 1, {{"rt", "x"}}, 0, 1},
    {"c", 2, {{"title", "\"\""}, {"flag", NULL}}, 0, 0},
    {"d", 1, {{"rel", "\"r s\""}}, 1, 1},
    {WKC, 1, {{"rt", "\"x\""}}, 0, 0},
    {"ab", 2, {{"rt", "\"xy\""}, {"if", "\"i j\""}}, 0, 0},
    {"e", 3, {{"rt", "\"y x\""}, {"ct", "40"}, {"rel", "\"s\""}}, 0, 0},
    {"f/g/h", 2, {{"if", "\"i\""}, {"rt", "\"u#v\""}}, 1, 0}, /* ext-rel-type (a URI) with a character that needs %-encoding in a query */
    {"g", 6, {{"rt", "\"x\""}, {"if", "i"}, {"rel", "s"}, {"ct", "40"}, {"title", "\"t t\""}, {"sz", "10"}}, 1, 1},
};
#define NCAT ((int)(sizeof CAT / sizeof CAT[0]))

/* Uri-Query option values; NULL = no query option */
static const char *const FILTERS[] = {
    NULL,        "href=/a",  "href=/a*",    "href=a", "rt=x",   "rt=x*",  "rt=y",           "rt=x y", "rt=\"x y\"",
    "if=i",      "rel=s",    "ct=40",       "unknown=1", "rt",  "=x",     "rt=",
    /* a few more of the same kinds */
    "rt=xy",     "rt=y*",    "if=i*",       "rel=r*", "href=/a/b", "href=/sensors/*", "ct=4*", "ct=4",
    /* Complete Value String with a byte that travels percent-encoded in a URI (the option carries it decoded) */
    "rt=u#v",
};
#define NFILTERS ((int)(sizeof FILTERS / sizeof FILTERS[0]))

#define MAXTAB 4200
static uint16_t g_tab[MAXTAB]; /* bitmask over CAT */
static uint8_t g_tab_rev[MAXTAB];
static int g_ntab;

static int
popcount16(unsigned v) {
  int n = 0;
  for (; v; v &= v - 1)
    n++;
  return n;
}

static void
add_table(unsigned mask, int rev) {
  if (g_ntab >= MAXTAB) {
    fprintf(stderr, "table list overflow\n");
    exit(2);
  }
  g_tab_rev[g_ntab] = (uint8_t)rev;
  g_tab[g_ntab++] = (uint16_t)mask;
}

/* order: subsets of size 0..3 (ascending mask within a size), the table of all 12, then sizes 4..maxsize.
 * The quick list is a prefix of the thorough list, and the smallest tables have the smallest indices
 * (the lowest failing index per signature is the one that is kept). */
static void
build_tables(int maxsize) {
  g_ntab = 0;
  for (int sz = 0; sz <= maxsize; sz++) {
    if (sz == 4)
      add_table((1u << NCAT) - 1, 1);
    for (unsigned m = 0; m < (1u << NCAT); m++)
      if (popcount16(m) == sz)
        add_table(m, 0);
  }
  if (maxsize < 4)
    add_table((1u << NCAT) - 1, 1);
}

/* ------------------------------------------------------------------------------------------ */
/* libcoap side                                                                                */

static coap_context_t *g_ctx;

static coap_resource_t *
register_shape(coap_context_t *ctx, const struct rl_res *m) {
  coap_str_const_t path = {strlen(m->path), (const uint8_t *)m->path};
  coap_resource_t *r = coap_resource_init(&path, m->oscore_only ? COAP_RESOURCE_FLAGS_OSCORE_ONLY : 0);
  if (!r) {
    fprintf(stderr, "coap_resource_init failed\n");
    exit(2);
  }
  for (int i = 0; i < m->nattr; i++) {
    coap_str_const_t name = {strlen(m->attr[i].name), (const uint8_t *)m->attr[i].name};
    coap_str_const_t val = {0, NULL};
    if (m->attr[i].value) {
      val.length = strlen(m->attr[i].value);
      val.s = (const uint8_t *)m->attr[i].value;
    }
    if (!coap_add_attr(r, &name, m->attr[i].value ? &val : NULL, 0)) {
      fprintf(stderr, "coap_add_attr failed\n");
      exit(2);
    }
  }
  if (m->observable)
    coap_resource_set_get_observable(r, 1);
  /* what an application does next with a resource it serves: choose the notification type and hang a handler on it.
   * Neither is part of the listing, and neither may change it (the markers come from the flags given at creation). */
  coap_resource_set_mode(r, strlen(m->path) & 1 ? COAP_RESOURCE_FLAGS_NOTIFY_CON : COAP_RESOURCE_FLAGS_NOTIFY_NON);
  coap_resource_set_userdata(r, (void *)m);
  coap_add_resource(ctx, r);
  return r;
}

/* the query string exactly as the GET handler receives it */
static coap_string_t *
make_query(const char *f) {
  if (!f)
    return NULL;
  coap_pdu_t *pdu = coap_pdu_init(COAP_MESSAGE_CON, COAP_REQUEST_CODE_GET, 0x1234, 256);
  if (!pdu || !coap_add_option(pdu, COAP_OPTION_URI_PATH, 11, (const uint8_t *)".well-known") ||
      !coap_add_option(pdu, COAP_OPTION_URI_PATH, 4, (const uint8_t *)"core") ||
      !coap_add_option(pdu, COAP_OPTION_URI_QUERY, strlen(f), (const uint8_t *)f)) {
    fprintf(stderr, "cannot build request pdu\n");
    exit(2);
  }
  coap_string_t *q = coap_get_query(pdu);
  coap_delete_pdu(pdu);
  if (!q) {
    fprintf(stderr, "coap_get_query returned NULL for '%s'\n", f);
    exit(2);
  }
  return q;
}

/* ------------------------------------------------------------------------------------------ */
/* classes for signatures                                                                      */

static const char *
win_class(size_t offset, size_t buflen, size_t L) {
  if (buflen == 0)
    return "zero-buffer";
  if (offset >= L)
    return "offset-past-end";
  if (offset + buflen < L)
    return "short-window";
  if (offset + buflen == L)
    return "exact-end";
  return "beyond-end";
}

static const char *
pos_class(const struct rl_doc *d, int parsed, size_t pos) {
  if (!parsed)
    return "unparsed";
  for (int i = 0; i < d->nlinks; i++) {
    const struct rl_link *l = &d->link[i];
    if (pos == l->start)
      return "first-byte-of-link";
    if (pos + 1 == l->end)
      return "last-byte-of-link";
    if (pos > l->start && pos < l->end)
      return "inside-link";
    if (pos == l->end)
      return "separator";
  }
  return "past-end";
}

struct where {
  char text[300];
};

static void
describe_table(struct where *w, int t, int f) {
  size_t n = 0;
  n += (size_t)snprintf(w->text + n, sizeof w->text - n, "table#%d{", t);
  for (int k = 0; k < NCAT && n < sizeof w->text - 24; k++) {
    int i = g_tab_rev[t] ? NCAT - 1 - k : k;
    if (g_tab[t] & (1u << i))
      n += (size_t)snprintf(w->text + n, sizeof w->text - n, "%d:/%.12s ", i, CAT[i].path);
  }
  snprintf(w->text + n, sizeof w->text - n, "} filter=%s%s%s", FILTERS[f] ? "'" : "", FILTERS[f] ? FILTERS[f] : "none",
           FILTERS[f] ? "'" : "");
}

static void
printable(char *dst, size_t dstlen, const uint8_t *p, size_t n) {
  size_t k = 0;
  for (size_t i = 0; i < n && k + 5 < dstlen; i++) {
    if (p[i] >= 0x20 && p[i] < 0x7f)
      dst[k++] = (char)p[i];
    else
      k += (size_t)snprintf(dst + k, dstlen - k, "\\x%02x", p[i]);
  }
  dst[k] = 0;
}

/* ------------------------------------------------------------------------------------------ */
/* the window oracle, shared by listing and single link                                        */

typedef coap_print_status_t (*print_fn)(void *obj, unsigned char *buf, size_t *len, size_t offset, size_t *offset_out);

struct wk_obj {
  coap_context_t *ctx;
  const coap_string_t *q;
};
static coap_print_status_t
print_wk(void *obj, unsigned char *buf, size_t *len, size_t offset, size_t *offset_out) {
  struct wk_obj *o = obj;
  *offset_out = 0;
  return coap_print_wellknown_lkd(o->ctx, buf, len, offset, o->q);
}
static coap_print_status_t
print_lk(void *obj, unsigned char *buf, size_t *len, size_t offset, size_t *offset_out) {
  size_t ofs = offset;
  coap_print_status_t r = coap_print_link((const coap_resource_t *)obj, buf, len, &ofs);
  *offset_out = ofs;
  return r;
}

#define FILL 0xA5

/* all windows of one object whose full text is full[0..L) */
static void
check_windows(const char *pfx, int is_link, print_fn fn, void *obj, const uint8_t *full, size_t L, const struct rl_doc *d,
              int parsed, const struct where *w, int cnt_windows) {
  char sig[160], got[80], want[80];
  uint64_t nwin = 0, ntrunc = 0, nzero = 0;
  for (size_t buflen = 0; buflen <= L + 2; buflen++) {
    size_t alloc = buflen ? buflen : 1;
    unsigned char *buf = malloc(alloc); /* exact size: asan reports any write outside */
    if (!buf)
      exit(2);
    for (size_t offset = 0; offset <= L + 2; offset++) {
      memset(buf, FILL, alloc);
      size_t len = buflen, ofs_out = 0;
      coap_print_status_t res = fn(obj, buf, &len, offset, &ofs_out);
      const char *wc = win_class(offset, buflen, L);
      nwin++;
      if (res & COAP_PRINT_STATUS_ERROR) {
        snprintf(sig, sizeof sig, "%sstatus:error:%s", pfx, wc);
        vx_fail(sig, "%s offset=%zu buflen=%zu L=%zu: COAP_PRINT_STATUS_ERROR set (0x%08x)", w->text, offset, buflen, L,
                (unsigned)res);
        continue;
      }
      size_t exp = offset >= L ? 0 : (L - offset < buflen ? L - offset : buflen);
      size_t outlen = COAP_PRINT_OUTPUT_LENGTH(res);
      if (outlen != exp) {
        snprintf(sig, sizeof sig, "%swindow:written-length:%s", pfx, wc);
        vx_fail(sig, "%s offset=%zu buflen=%zu L=%zu: status says %zu bytes written, window holds %zu", w->text, offset,
                buflen, L, outlen, exp);
      }
      size_t cmp = exp < buflen ? exp : buflen;
      for (size_t j = 0; j < cmp; j++)
        if (buf[j] != full[offset + j]) {
          snprintf(sig, sizeof sig, "%swindow:bytes:%s", pfx, pos_class(d, parsed, offset + j));
          printable(got, sizeof got, buf, cmp < 24 ? cmp : 24);
          printable(want, sizeof want, full + offset, cmp < 24 ? cmp : 24);
          vx_fail(sig, "%s offset=%zu buflen=%zu L=%zu: byte %zu of the window (listing position %zu) differs: got '%s' want '%s'",
                  w->text, offset, buflen, L, j, offset + j, got, want);
          break;
        }
      for (size_t j = cmp; j < buflen; j++)
        if (buf[j] != FILL) {
          snprintf(sig, sizeof sig, "%swindow:bytes:written-beyond-window:%s", pfx, wc);
          vx_fail(sig, "%s offset=%zu buflen=%zu L=%zu: buffer byte %zu modified although only %zu bytes belong to the window",
                  w->text, offset, buflen, L, j, cmp);
          break;
        }
      if (len != L) {
        snprintf(sig, sizeof sig, "%swindow:total-length:%s", pfx, wc);
        vx_fail(sig, "%s offset=%zu buflen=%zu: reported total length %zu, listing length is %zu", w->text, offset, buflen, len,
                L);
      }
      if (buflen > 0) {
        int want_trunc = offset + exp < L;
        int got_trunc = (res & COAP_PRINT_STATUS_TRUNC) != 0;
        if (want_trunc != got_trunc) {
          snprintf(sig, sizeof sig, "%strunc-flag:%s", pfx, wc);
          vx_fail(sig, "%s offset=%zu buflen=%zu L=%zu written=%zu: TRUNC %s but listing %s beyond the window", w->text, offset,
                  buflen, L, outlen, got_trunc ? "set" : "clear", want_trunc ? "remains" : "does not remain");
        }
        if (is_link) {
          size_t consumed = offset < L ? offset : L;
          if (ofs_out != offset - consumed) {
            snprintf(sig, sizeof sig, "%soffset-consumed:%s", pfx, wc);
            vx_fail(sig, "%s offset=%zu buflen=%zu L=%zu: *offset on return %zu, expected %zu", w->text, offset, buflen, L,
                    ofs_out, offset - consumed);
          }
        }
      }
      if (res & COAP_PRINT_STATUS_TRUNC)
        ntrunc++;
      if (outlen == 0)
        nzero++;
    }
    free(buf);
  }
  vxp_count(cnt_windows, nwin);
  vxp_count(2, ntrunc);
  vxp_count(3, nzero);
}

/* obtain the full text the way hnd_get_wellknown_lkd does: probe the size, then print into an
 * exact-size buffer.  Returns malloc'ed text (1 byte for L == 0). */
static uint8_t *
full_text(const char *pfx, print_fn fn, void *obj, size_t probe_offset, size_t *Lout, const struct where *w) {
  char sig[160];
  unsigned char tiny[4] = {FILL, FILL, FILL, FILL};
  size_t L = 0, ofs_out;
  coap_print_status_t res = fn(obj, tiny, &L, probe_offset, &ofs_out);
  if (res & COAP_PRINT_STATUS_ERROR) {
    snprintf(sig, sizeof sig, "%sstatus:error:size-probe", pfx);
    vx_fail(sig, "%s: size probe (offset=%zu, buflen=0) returned 0x%08x", w->text, probe_offset, (unsigned)res);
    L = 0;
  } else if (COAP_PRINT_OUTPUT_LENGTH(res) != 0 || tiny[0] != FILL) {
    snprintf(sig, sizeof sig, "%swindow:written-length:size-probe", pfx);
    vx_fail(sig, "%s: size probe (offset=%zu, buflen=0) wrote %u bytes", w->text, probe_offset,
            (unsigned)COAP_PRINT_OUTPUT_LENGTH(res));
  }
  uint8_t *full = malloc(L ? L : 1);
  if (!full)
    exit(2);
  memset(full, FILL, L ? L : 1);
  size_t len = L;
  res = fn(obj, full, &len, 0, &ofs_out);
  if (res & COAP_PRINT_STATUS_ERROR) {
    snprintf(sig, sizeof sig, "%sstatus:error:full-listing", pfx);
    vx_fail(sig, "%s: printing into a buffer of the probed size %zu returned 0x%08x", w->text, L, (unsigned)res);
  } else {
    if (len != L) {
      snprintf(sig, sizeof sig, "%swindow:total-length:size-probe", pfx);
      vx_fail(sig, "%s: size probe said %zu, full print says %zu", w->text, L, len);
      if (len < L)
        L = len; /* go on with what is certainly initialised */
    }
    if (COAP_PRINT_OUTPUT_LENGTH(res) != L) {
      snprintf(sig, sizeof sig, "%swindow:written-length:full-listing", pfx);
      vx_fail(sig, "%s: full print into %zu bytes wrote %u", w->text, L, (unsigned)COAP_PRINT_OUTPUT_LENGTH(res));
      if (COAP_PRINT_OUTPUT_LENGTH(res) < L)
        L = COAP_PRINT_OUTPUT_LENGTH(res);
    }
    if (L > 0 && (res & COAP_PRINT_STATUS_TRUNC)) {
      snprintf(sig, sizeof sig, "%strunc-flag:full-listing", pfx);
      vx_fail(sig, "%s: full print into a buffer of exactly the total length %zu has TRUNC set", w->text, L);
    }
  }
  *Lout = L;
  return full;
}

/* ------------------------------------------------------------------------------------------ */
/* space 1: tables x filters                                                                   */

static void
filter_sig(char *sig, size_t siglen, const struct rl_query *Q, const struct rl_res *m, const char *dir) {
  const char *nm = Q->is_href ? "href" : Q->is_reltypes ? Q->name : "other";
  int noslash = Q->is_href && Q->val[0] != '/';
  int multi = 0, unq = 0, pct = 0;
  /* bytes outside RFC 3986 query = *( unreserved / sub-delims / ":" / "@" / "/" / "?" ) need %-encoding in a URI */
  for (size_t i = 0; i < Q->vlen; i++) {
    int c = Q->val[i];
    if (!((c >= 'a' && c <= 'z') || (c >= 'A' && c <= 'Z') || (c >= '0' && c <= '9') || (c && strchr("-._~!$&'()*+,;=:@/?", c))))
      pct = 1;
  }
  if (!Q->is_href)
    for (int i = 0; i < m->nattr; i++)
      if (strcmp(m->attr[i].name, Q->name) == 0 && m->attr[i].value) {
        multi = Q->is_reltypes && strchr(m->attr[i].value, ' ') != NULL;
        unq = m->attr[i].value[0] != '"';
        break;
      }
  snprintf(sig, siglen, "filter:%s:%s%s%s%s%s:%s", nm, Q->prefix ? "prefix" : "exact", noslash ? "-no-leading-slash" : "",
           multi ? "-token" : "", unq ? "-unquoted" : "", pct ? "-pct" : "", dir);
}

static void
case_table(uint64_t idx, void *arg) {
  (void)arg;
  int t = (int)(idx / NFILTERS), f = (int)(idx % NFILTERS);
  struct where w;
  char sig[160], txt[260], err[120];
  describe_table(&w, t, f);

  const struct rl_res *model[NCAT];
  int n = 0;
  for (int k = 0; k < NCAT; k++) {
    int i = g_tab_rev[t] ? NCAT - 1 - k : k;
    if (g_tab[t] & (1u << i)) {
      register_shape(g_ctx, &CAT[i]);
      model[n++] = &CAT[i];
    }
  }
  coap_string_t *q = make_query(FILTERS[f]);
  struct wk_obj o = {g_ctx, q};

  /* size probe exactly as the handler does it, then the full listing */
  size_t L;
  uint8_t *full = full_text("", print_wk, &o, UINT_MAX, &L, &w);
  printable(txt, sizeof txt, full, L < 200 ? L : 200);

  /* the public entry point gives the same */
  {
    unsigned char *b2 = malloc(L + 8);
    size_t l2 = L + 8;
    coap_print_status_t r2 = coap_print_wellknown(g_ctx, b2, &l2, 0, q);
    if ((r2 & COAP_PRINT_STATUS_ERROR) || COAP_PRINT_OUTPUT_LENGTH(r2) != L || l2 != L || memcmp(b2, full, L) != 0)
      vx_fail("window:public-api-differs", "%s: coap_print_wellknown() status 0x%08x total %zu vs _lkd listing of %zu bytes",
              w.text, (unsigned)r2, l2, L);
    free(b2);
  }

  /* (i) the listing against the reference */
  static struct rl_doc d;
  int parsed = rl_parse(full, L, &d, err, sizeof err) == 0;
  if (!parsed) {
    vx_fail("listing:parse", "%s: listing '%s' is not an RFC 6690 link-value-list: %s", w.text, txt, err);
  } else {
    int listed[NCAT];
    memset(listed, 0, sizeof listed);
    for (int j = 0; j < d.nlinks; j++) {
      const struct rl_link *g = &d.link[j];
      int hit = -1;
      struct rl_link m;
      for (int k = 0; k < n; k++) {
        rl_model_link(model[k], &m);
        if (m.tlen == g->tlen && memcmp(m.target, g->target, m.tlen) == 0) {
          hit = k;
          break;
        }
      }
      if (hit < 0) {
        vx_fail("listing:unregistered-link", "%s: listing '%s' contains <%s> which is not registered", w.text, txt, g->target);
        continue;
      }
      listed[hit]++;
      if (listed[hit] == 2) {
        snprintf(sig, sizeof sig, "listing:%s", strcmp(model[hit]->path, WKC) == 0 ? "wellknown-core-listed-twice" : "duplicate");
        vx_fail(sig, "%s: listing '%s' contains <%s> more than once", w.text, txt, g->target);
      }
      char nm[RL_MAXNAME];
      if (rl_link_attr_diff(&m, g, nm, sizeof nm)) {
        snprintf(sig, sizeof sig, "listing:attr:%s", nm);
        vx_fail(sig, "%s: link <%s> in '%s' does not carry exactly the registered attributes (first difference: %s)", w.text,
                g->target, txt, nm);
      }
    }
    vxp_count(4, (uint64_t)d.nlinks);
    struct rl_query Q;
    memset(&Q, 0, sizeof Q);
    if (FILTERS[f])
      rl_query_split((const uint8_t *)FILTERS[f], strlen(FILTERS[f]), &Q);
    for (int k = 0; k < n; k++) {
      int is_wkc = strcmp(model[k]->path, WKC) == 0;
      int ref = FILTERS[f] ? rl_filter((const uint8_t *)FILTERS[f], strlen(FILTERS[f]), model[k]) : RL_MATCH;
      if (ref == RL_UNSPEC) {
        vxp_count(6, 1);
        continue;
      }
      vxp_count(5, 1);
      if (ref == RL_MATCH && !listed[k] && !is_wkc) {
        if (!FILTERS[f])
          snprintf(sig, sizeof sig, "listing:missing-resource");
        else
          filter_sig(sig, sizeof sig, &Q, model[k], "missed");
        vx_fail(sig, "%s: registered resource </%s> %s but is not in the listing '%s'", w.text, model[k]->path,
                FILTERS[f] ? "passes the RFC 6690 4.1 filter" : "must be listed", txt);
      }
      if (ref == RL_NOMATCH && listed[k]) {
        filter_sig(sig, sizeof sig, &Q, model[k], "overmatch");
        vx_fail(sig, "%s: resource </%s> does not pass the RFC 6690 4.1 filter but is in the listing '%s'", w.text,
                model[k]->path, txt);
      }
    }
  }

  /* (ii) every window */
  check_windows("", 0, print_wk, &o, full, L, &d, parsed, &w, 1);

  /* the handler's probe shape with a non-empty buffer as well */
  {
    unsigned char *b4 = malloc(4);
    size_t l4 = 4;
    memset(b4, FILL, 4);
    coap_print_status_t r4 = coap_print_wellknown_lkd(g_ctx, b4, &l4, UINT_MAX, q);
    if ((r4 & COAP_PRINT_STATUS_ERROR) || COAP_PRINT_OUTPUT_LENGTH(r4) != 0 || l4 != L || (r4 & COAP_PRINT_STATUS_TRUNC) ||
        b4[0] != FILL)
      vx_fail("window:offset-uint-max", "%s: offset=UINT_MAX buflen=4 -> status 0x%08x total %zu (L=%zu)", w.text, (unsigned)r4,
              l4, L);
    free(b4);
  }

  vxp_count(0, 1);
  if (L == 0)
    vxp_count(8, 1);
  else
    vxp_distinct(vx_fnv(full, L, vx_fnv(&f, sizeof f, VX_FNV0)));
  if (idx % 997 == 3 || idx == 0)
    vxp_sample("idx=%llu %s -> L=%zu listing='%s' windows=%zu", (unsigned long long)idx, w.text, L, txt, (L + 3) * (L + 3));

  free(full);
  coap_delete_string(q);
  coap_delete_all_resources(g_ctx);
}

/* ------------------------------------------------------------------------------------------ */
/* space 2: coap_print_link per catalogue shape                                                */

static void
case_link(uint64_t idx, void *arg) {
  (void)arg;
  int i = (int)idx;
  struct where w;
  char sig[160], txt[260], err[120];
  snprintf(w.text, sizeof w.text, "coap_print_link shape#%d </%.20s>", i, CAT[i].path);
  coap_resource_t *r = register_shape(g_ctx, &CAT[i]);

  size_t L;
  uint8_t *full = full_text("link:", print_lk, r, 0, &L, &w);
  printable(txt, sizeof txt, full, L < 200 ? L : 200);

  static struct rl_doc d;
  int parsed = rl_parse(full, L, &d, err, sizeof err) == 0;
  if (!parsed || d.nlinks != 1) {
    vx_fail("link:listing:parse", "%s: '%s' is not one RFC 6690 link-value: %s", w.text, txt, parsed ? "link count" : err);
    parsed = 0;
  } else {
    struct rl_link m;
    char nm[RL_MAXNAME];
    rl_model_link(&CAT[i], &m);
    if (m.tlen != d.link[0].tlen || memcmp(m.target, d.link[0].target, m.tlen) != 0)
      vx_fail("link:listing:target", "%s: printed '%s', target should be <%s>", w.text, txt, m.target);
    else if (rl_link_attr_diff(&m, &d.link[0], nm, sizeof nm)) {
      snprintf(sig, sizeof sig, "link:listing:attr:%s", nm);
      vx_fail(sig, "%s: '%s' does not carry exactly the registered attributes (first difference: %s)", w.text, txt, nm);
    }
  }
  check_windows("link:", 1, print_lk, r, full, L, &d, parsed, &w, 7);
  vxp_count(9, 1);
  vxp_distinct(vx_fnv(full, L, VX_FNV0));
  vxp_sample("%s -> L=%zu '%s'", w.text, L, txt);
  free(full);
  coap_delete_all_resources(g_ctx);
}

/* ------------------------------------------------------------------------------------------ */

#define THOROUGH_MAX 12
#define SPACE_TABLES "tables x filters"
#define SPACE_LINKS "links"

int
main(int argc, char **argv) {
  vx_main_init(argc, argv, "C20");
  coap_startup();
  coap_set_log_level(COAP_LOG_EMERG);

  char err[200];
  if (rl_selftest(err, sizeof err) != 0) {
    fprintf(stderr, "%s\n", err);
    return 2;
  }
  g_ctx = coap_new_context(NULL);
  if (!g_ctx) {
    fprintf(stderr, "coap_new_context failed\n");
    return 2;
  }

  /* replay: the quick table list is a prefix of the thorough one, so decode against the long list */
  if (vx_replay_path()) {
    build_tables(THOROUGH_MAX);
    if (vxp_replay_if_match(SPACE_TABLES, case_table, NULL))
      return 0;
    if (vxp_replay_if_match(SPACE_LINKS, case_link, NULL))
      return 0;
    fprintf(stderr, "replay file does not match any space of C20\n");
    return 2;
  }

  int T = vx_is_thorough();
  build_tables(T ? THOROUGH_MAX : 3);

  struct vxp_stats st1, st2;
  struct vxp_config c2 = {.space = SPACE_LINKS, .total = NCAT, .chunk = 1};
  vxp_enumerate(&c2, case_link, NULL, &st2);
  struct vxp_config c1 = {.space = SPACE_TABLES, .total = (uint64_t)g_ntab * NFILTERS, .chunk = 1};
  vxp_enumerate(&c1, case_table, NULL, &st1);

  uint64_t windows = vxp_counter(1) + vxp_counter(7);
  vx_ev_add_states((long long)(st1.done + st2.done), (long long)windows, (long long)windows);
  vx_ev_add_evals((long long)windows, (long long)vxp_distinct_count());
  vx_ev_rule("real coap_print_wellknown_lkd()/coap_print_link() on real resources in a real context; enumerated: resource "
             "tables (all subsets of size 0..3 quick / every subset (0..12) thorough of a 12-shape catalogue + the table of all 12) x "
             "Uri-Query filters (through a request PDU and coap_get_query, as the GET handler) x ALL windows 0<=offset<=L+2, "
             "0<=buflen<=L+2 into exact-size heap buffers; evaluations = window calls compared byte for byte; "
             "distinct = distinct non-empty (filter, full listing) texts and distinct link texts");
  vx_ev_assumption("the filter reaches coap_print_wellknown_lkd as the string coap_get_query() builds from one Uri-Query option");
  vx_ev_assumption("RFC 6690 leaves malformed filters ('rt', '=x', 'rt='), a search value containing a space that equals the whole "
                   "multi-valued attribute, and name-only attributes open: those (resource, filter) decisions are not compared, "
                   "the listing must still consist of registered resources only");
  vx_ev_assumption("order of links and of link-params within a link is not compared (RFC 6690 gives it no meaning)");
  vx_ev_assumption("COAP_PRINT_STATUS_TRUNC is not checked for buflen == 0 (statement: 'for a non-empty buffer')");
  vx_ev_assumption("the block-wise GET clause of C20 is checked by stage c20get (harness/c20_get.c)");
  vx_ev_str("reflink_selftest", "ok");
  vx_ev_int("tables", g_ntab);
  vx_ev_int("filters", NFILTERS);
  vx_ev_int("table_filter_cases", (long long)vxp_counter(0));
  vx_ev_int("wellknown_windows", (long long)vxp_counter(1));
  vx_ev_int("link_windows", (long long)vxp_counter(7));
  vx_ev_int("windows_with_trunc", (long long)vxp_counter(2));
  vx_ev_int("windows_with_zero_bytes", (long long)vxp_counter(3));
  vx_ev_int("links_listed", (long long)vxp_counter(4));
  vx_ev_int("filter_decisions_compared", (long long)vxp_counter(5));
  vx_ev_int("filter_decisions_unspecified", (long long)vxp_counter(6));
  vx_ev_int("empty_listings", (long long)vxp_counter(8));
  return vx_finish();
}
