/* C08 -- NSTART bounds in-flight Confirmables; held messages go out in order, none lost.
 *
 * Real libcoap client context, one session (plus a bystander session) to raw peers that only
 * acknowledge or reset messages they actually received (an RST for a NON is legal peer behaviour).
 */
#include "netsim.h"
#include "wire.h"

struct cfg {
  char name[160];
  int nstart;
  int k;            /* messages in the script */
  char types[24];   /* 'C' / 'N' per message */
  int split;        /* second burst starts at this index (0 = single burst) */
  int bystander;    /* a CON on a second session of the same context */
  int peer_mode;    /* 0: ACK every CON, silent on NON; 1: verdicts are choice points incl. RST for NON */
  int bound;
  int max_retx;
  int same_mid;     /* the bystander session uses the same message ids as the main session */
  int mid_wrap;     /* >0: the session's message id counter starts this many steps before it wraps to 0 */
};

#define MAXM 24
struct msg {
  int submitted, accepted, is_con;
  int mid;
  uint8_t tok;
  int first_tx_order; /* global order of first transmissions, -1 = not yet */
  int ntx;
  int freed;          /* ACK/RST delivered, or NACKed */
  int nacks;
  int sess;
  int in_submit_tx;   /* transmitted during its own coap_send() */
};

static struct cfg *C;
static coap_context_t *ctx;
static coap_session_t *sess[2];
static coap_address_t peer[2], cli[2];
static struct msg msgs[MAXM];
static int nmsgs, script_pos, tx_order;
static int cur_submit = -1;
static const char *last_event = "start";
static int in_prepare, suspect[2];
static int icmp_done;
static char suspect_event[2][64];
static char last_event_buf[64];

static struct msg *
find(int s, int mid) {
  for (int i = 0; i < nmsgs; i++)
    if (msgs[i].submitted && msgs[i].sess == s && msgs[i].mid == mid)
      return &msgs[i];
  return NULL;
}
static int
inflight(int s) {
  int n = 0;
  for (int i = 0; i < nmsgs; i++)
    if (msgs[i].accepted && msgs[i].is_con && msgs[i].sess == s && msgs[i].ntx > 0 && !msgs[i].freed)
      n++;
  return n;
}
static int
nstart_of(int s) {
  return s == 0 ? C->nstart : 1;
}

static void
on_send(const ns_dgram_t *d) {
  struct w_msg m;
  if (!w_parse(d->data, d->len, &m)) {
    vx_fail("wire:malformed", "client emitted a malformed datagram");
    return;
  }
  int s = ns_addr_host(&d->dst) == ns_addr_host(&peer[0]) ? 0 : 1;
  vx_observe("t=%llu TX s%d type=%d mid=%04x", (unsigned long long)ns_now(), s, m.type, m.mid);
  struct msg *x = find(s, m.mid);
  if (!x && cur_submit >= 0 && msgs[cur_submit].ntx == 0) {
    x = &msgs[cur_submit];
    x->mid = m.mid;
  }
  if (!x) {
    vx_fail("wire:unexpected-datagram", "datagram type %d mid %04x is not a submitted message", m.type, m.mid);
    return;
  }
  int xi = (int)(x - msgs);
  if (x->ntx == 0) {
    x->first_tx_order = tx_order++;
    if (cur_submit == xi)
      x->in_submit_tx = 1;
    if (x->is_con) {
      /* order: every earlier-submitted CON of the session must already have been transmitted */
      for (int j = 0; j < xi; j++)
        if (msgs[j].accepted && msgs[j].is_con && msgs[j].sess == s && msgs[j].ntx == 0)
          vx_fail("order:held-overtaken", "CON #%d first transmitted before earlier-submitted CON #%d (event: %s)", xi, j, last_event);
      int fl = inflight(s) + 1;
      if (fl > nstart_of(s)) {
        if (in_prepare) {
          /* inside coap_io_prepare_io() a give-up frees the slot before its NACK callback is made: judge when the call
           * has returned (the given-up message is marked by the NACK handler) */
          suspect[s] = xi + 1;
          snprintf(suspect_event[s], sizeof suspect_event[s], "%s", last_event);
        } else {
          char sig[100];
          snprintf(sig, sizeof sig, "over-nstart:after:%s", last_event);
          vx_fail(sig, "session %d: %d Confirmables in flight with NSTART=%d when CON #%d was first transmitted (event: %s)", s, fl,
                  nstart_of(s), xi, last_event);
        }
      }
    }
  } else {
    vx_nontrivial();
    if (x->freed)
      vx_fail("retx:after-freed", "message #%d retransmitted after it was acknowledged/reset/given up", xi);
    if (!x->is_con)
      vx_fail("retx:NON", "NON #%d transmitted twice", xi);
  }
  x->ntx++;
}

static void
on_deliver(const ns_dgram_t *d) {
  if (!d->from_raw)
    return;
  struct w_msg m;
  if (!w_parse(d->data, d->len, &m))
    return;
  int s = ns_addr_host(&d->src) == ns_addr_host(&peer[0]) ? 0 : 1;
  struct msg *x = find(s, m.mid);
  vx_observe("t=%llu RX s%d type=%d mid=%04x", (unsigned long long)ns_now(), s, m.type, m.mid);
  snprintf(last_event_buf, sizeof last_event_buf, "%s-for-%s%s", m.type == 2 ? "ACK" : "RST",
           !x ? "unknown" : x->is_con ? "CON" : "NON", x && x->freed ? "(dup)" : "");
  last_event = last_event_buf;
  if (x && x->is_con && (m.type == 2 || m.type == 3))
    x->freed = 1;
}

static void
raw_rx(const ns_dgram_t *d) {
  struct w_msg m;
  if (!w_parse(d->data, d->len, &m))
    return;
  if (m.type > 1)
    return;
  int verdict = m.type == 0 ? 0 : 2; /* 0 ACK, 1 RST, 2 nothing */
  if (C->peer_mode == 2 && m.type == 0) {
    /* the peer never receives the first Confirmable of the script (every copy is lost): it ends by give-up while
     * later ones are held */
    struct msg *x0 = NULL;
    for (int i = 0; i < nmsgs && !x0; i++)
      if (msgs[i].submitted && msgs[i].is_con && msgs[i].sess == 0)
        x0 = &msgs[i];
    if (x0 && x0->mid == (int)m.mid && ns_addr_host(&d->dst) == ns_addr_host(&peer[0])) {
      vx_observe("   peer: copy of mid=%04x lost", m.mid);
      return;
    }
  }
  if (C->peer_mode == 1 && vx_budget_left() > 0) {
    if (m.type == 0) {
      static const int alts[3] = {0, 1, 2};
      verdict = alts[vx_choose(3, NULL, "verdictCON")];
    } else {
      static const int alts[2] = {2, 1};
      verdict = alts[vx_choose(2, NULL, "verdictNON")];
    }
  }
  uint8_t pkt[4] = {0, 0, (uint8_t)(m.mid >> 8), (uint8_t)m.mid};
  vx_observe("   peer got type=%d mid=%04x verdict=%d", m.type, m.mid, verdict);
  if (verdict == 0)
    pkt[0] = 0x60;
  else if (verdict == 1)
    pkt[0] = 0x70;
  else
    return;
  ns_inject(&d->dst, &d->src, pkt, 4);
}

static void
nack_handler(coap_session_t *session, const coap_pdu_t *sent, const coap_nack_reason_t reason, const coap_mid_t mid) {
  int s = session == sess[0] ? 0 : 1;
  vx_observe("t=%llu NACK s%d reason=%d mid=%04x sent=%s", (unsigned long long)ns_now(), s, reason, mid, sent ? "pdu" : "null");
  if (!sent)
    return;
  if (reason == COAP_NACK_ICMP_ISSUE)
    return; /* a notice about the path, not a conclusion: the message stays queued and goes on being retransmitted */
  struct msg *x = find(s, mid);
  if (!x)
    return;
  x->nacks++;
  x->freed = 1;
  if (reason == COAP_NACK_TOO_MANY_RETRIES) {
    last_event = "give-up";
    vx_nontrivial();
  }
}

static int
app_ready(void) {
  return script_pos < C->k + (C->bystander ? 1 : 0);
}
static void
app_op(void) {
  int i = script_pos++;
  int s = 0;
  char t;
  if (C->bystander && i == 1) {
    s = 1;
    t = 'C';
  } else {
    int j = C->bystander && i > 1 ? i - 1 : i;
    t = C->types[j];
  }
  int mi = nmsgs++;
  struct msg *x = &msgs[mi];
  memset(x, 0, sizeof *x);
  x->submitted = 1;
  x->is_con = t == 'C';
  x->sess = s;
  x->tok = (uint8_t)(0xB0 + mi);
  x->first_tx_order = -1;
  coap_pdu_t *pdu = coap_new_pdu(x->is_con ? COAP_MESSAGE_CON : COAP_MESSAGE_NON, COAP_REQUEST_CODE_GET, sess[s]);
  coap_add_token(pdu, 1, &x->tok);
  x->mid = coap_pdu_get_mid(pdu);
  cur_submit = mi;
  last_event = "submit";
  /* environment answer: the socket refuses this one transmission (ENOBUFS); coap_send() then reports failure and the
   * message is no business of the session any more - in particular it occupies no NSTART slot */
  int refused = 0;
  if (s == 0 && vx_budget_left() > 0 && vx_choose(2, NULL, "socket-refuses") == 1) {
    ns_send_fail_next = 1;
    refused = 1;
    vx_nontrivial();
  }
  coap_mid_t r = coap_send(sess[s], pdu);
  if (refused) {
    if (ns_send_fail_next == 0)
      last_event = "submit-refused-by-socket";
    ns_send_fail_next = 0; /* (the message was held back instead: nothing was refused) */
  }
  cur_submit = -1;
  x->accepted = r != COAP_INVALID_MID;
  vx_observe("t=%llu SUBMIT #%d s%d %c mid=%04x -> %d", (unsigned long long)ns_now(), mi, s, t, x->mid, r);
  if (x->accepted && !x->is_con && !x->in_submit_tx)
    vx_fail("non:delayed", "NON #%d was not transmitted inside coap_send() on an established session (in flight: %d, NSTART %d)", mi,
            inflight(s), nstart_of(s));
}

/* after every event: a free slot and a held CON must not coexist */
static void
check_no_idle_slot(void) {
  for (int s = 0; s < 2; s++) {
    int fl = inflight(s);
    if (fl >= nstart_of(s))
      continue;
    for (int i = 0; i < nmsgs; i++)
      if (msgs[i].accepted && msgs[i].is_con && msgs[i].sess == s && msgs[i].ntx == 0) {
        char sig[100];
        snprintf(sig, sizeof sig, "held:not-released-after:%s", last_event);
        vx_fail(sig, "session %d: CON #%d still held although only %d of NSTART=%d are in flight (after event: %s)", s, i, fl,
                nstart_of(s), last_event);
        return;
      }
  }
}

static int
step(void) {
  enum { EV_DELIVER, EV_APP, EV_TIMER, EV_REORDER, EV_DROP, EV_DUP, EV_ICMP };
  struct {
    int kind, idx;
  } ev[VX_MAXALT];
  uint8_t cost[VX_MAXALT];
  int n = 0;
  last_event = "timer-service";
  in_prepare = 1;
  suspect[0] = suspect[1] = 0;
  unsigned tmo = ns_prepare_all();
  in_prepare = 0;
  for (int s = 0; s < 2; s++)
    if (suspect[s] && inflight(s) > nstart_of(s)) {
      char sig[100];
      snprintf(sig, sizeof sig, "over-nstart:after:%s", suspect_event[s]);
      vx_fail(sig, "session %d: %d Confirmables in flight with NSTART=%d after CON #%d was first transmitted (event: %s)", s, inflight(s),
              nstart_of(s), suspect[s] - 1, suspect_event[s]);
    }
  check_no_idle_slot();
  int nf = ns_inflight_count();
  int app = app_ready();
  int burst_gate = C->split && script_pos == C->split + (C->bystander && C->split > 1 ? 1 : 0);
  /* default order: within a burst the application submits everything before the network moves */
  if (app && !burst_gate)
    ev[n].kind = EV_APP, ev[n++].idx = 0;
  if (nf > 0)
    ev[n].kind = EV_DELIVER, ev[n++].idx = 0;
  if (app && burst_gate)
    ev[n].kind = EV_APP, ev[n++].idx = 0;
  if (tmo && tmo < 200000 && ns_now() < 3000000)
    ev[n].kind = EV_TIMER, ev[n++].idx = (int)tmo;
  if (n == 0)
    return 0;
  for (int i = 0; i < n; i++)
    cost[i] = i ? 1 : 0;
  int budget = vx_budget_left();
  if (budget > 0)
    for (int j = 0; j < nf && j < 5 && n < VX_MAXALT - 3; j++) {
      if (j >= 1)
        ev[n].kind = EV_REORDER, ev[n].idx = j, cost[n++] = 1;
      ev[n].kind = EV_DROP, ev[n].idx = j, cost[n++] = 1;
      if (ns_dups_done < 2)
        ev[n].kind = EV_DUP, ev[n].idx = j, cost[n++] = 1;
    }
  /* environment answer: an ICMP port-unreachable notice for the main session's socket (once per execution) */
  if (budget > 0 && !icmp_done && n < VX_MAXALT && C->peer_mode != 1 && C->k <= 4)
    ev[n].kind = EV_ICMP, ev[n].idx = 0, cost[n++] = 1;
  int c = vx_choose(n, cost, "step");
  switch (ev[c].kind) {
  case EV_ICMP:
    icmp_done = 1;
    vx_observe("   ICMP unreachable notice for session 0");
    ns_icmp_unreachable(&cli[0]);
    last_event = "icmp-notice";
    break;
  case EV_DELIVER:
    ns_deliver(0);
    break;
  case EV_REORDER:
    ns_deliver(ev[c].idx);
    break;
  case EV_DUP:
    vx_observe("   dup dgram#%d", ns_inflight(ev[c].idx)->id);
    ns_duplicate(ev[c].idx);
    break;
  case EV_DROP:
    vx_observe("   drop dgram#%d", ns_inflight(ev[c].idx)->id);
    ns_drop(ev[c].idx);
    last_event = "drop";
    break;
  case EV_APP:
    app_op();
    break;
  case EV_TIMER:
    ns_advance((uint64_t)ev[c].idx);
    last_event = "timer";
    return 1; /* the timer is serviced by the prepare at the start of the next step */
  }
  if (c)
    vx_nontrivial();
  check_no_idle_slot();
  return 1;
}

static void
run(void *arg) {
  C = arg;
  ns_init();
  memset(msgs, 0, sizeof msgs);
  nmsgs = script_pos = tx_order = 0;
  icmp_done = 0;
  cur_submit = -1;
  ns_on_send = on_send;
  ns_on_deliver = on_deliver;
  ns_raw_rx = raw_rx;
  ctx = coap_new_context(NULL);
  ns_register_ctx(ctx);
  coap_register_nack_handler(ctx, nack_handler);
  for (int s = 0; s < 2; s++) {
    ns_addr(&peer[s], 2 + s, 5683);
    ns_addr(&cli[s], 60 + s, 41000 + s);
    sess[s] = coap_new_client_session(ctx, &cli[s], &peer[s], COAP_PROTO_UDP);
    coap_session_set_max_retransmit(sess[s], (uint16_t)C->max_retx);
    if (s == 0)
      coap_session_set_nstart(sess[s], (uint16_t)C->nstart);
    if (s == 1 && C->same_mid)
      sess[1]->tx_mid = sess[0]->tx_mid;
    if (s == 0 && C->mid_wrap)
      sess[0]->tx_mid = (uint16_t)(0x10000 - C->mid_wrap);
  }
  int steps = 0;
  while (steps++ < 600 && step())
    ;
  if (steps >= 600)
    vx_fail("horizon:steps", "scenario did not become quiescent within 600 events");
  char oc[120] = "";
  size_t o = 0;
  for (int i = 0; i < nmsgs; i++) {
    struct msg *x = &msgs[i];
    if (!x->accepted)
      continue;
    if (x->ntx == 0)
      vx_fail(x->is_con ? "lost:held-never-sent" : "lost:non-never-sent", "message #%d accepted by coap_send but never transmitted", i);
    if (x->is_con && !x->freed)
      vx_fail("outcome:none", "CON #%d neither acknowledged, reset nor given up at quiescence", i);
    if (x->nacks > 1)
      vx_fail("outcome:nack-twice", "CON #%d: %d NACKs", i, x->nacks);
    o += (size_t)snprintf(oc + o, sizeof oc - o, "%s%d/%d", i ? "," : "", x->first_tx_order, x->ntx);
  }
  vx_outcome("%s", oc);
  coap_session_release(sess[0]);
  coap_session_release(sess[1]);
  ns_unregister_ctx(ctx);
  coap_free_context(ctx);
  ns_fini();
}

static struct cfg *cfgs;
static int ncfgs;
static void
add(struct cfg c) {
  cfgs = realloc(cfgs, sizeof *cfgs * (size_t)(ncfgs + 1));
  snprintf(c.name, sizeof c.name, "c08:nstart=%d,k=%d,t=%s,split=%d,by=%d,pm=%d,mr=%d,sm=%d,wrap=%d,B=%d", c.nstart, c.k, c.types, c.split, c.bystander,
           c.peer_mode, c.max_retx, c.same_mid, c.mid_wrap, c.bound);
  cfgs[ncfgs++] = c;
}

int
main(int argc, char **argv) {
  vx_main_init(argc, argv, "C08");
  int T = vx_is_thorough();
  for (int ns = 1; ns <= 3; ns++)
    for (int k = 1; k <= (T ? 5 : 4); k++)
      for (int v = 0; v < (1 << k); v++) {
        char t[8] = "";
        int ncon = 0;
        for (int b = 0; b < k; b++) {
          t[b] = (v >> b) & 1 ? 'N' : 'C';
          ncon += t[b] == 'C';
        }
        if (k == 5 && ncon < 3)
          continue;
        for (int pm = 0; pm < 2; pm++) {
          struct cfg c = {.nstart = ns, .k = k, .split = 0, .bystander = 0, .peer_mode = pm, .max_retx = 2};
          strcpy(c.types, t);
          c.bound = pm == 0 ? (k <= 3 ? 2 : 1) : (k <= 2 ? 2 : 1);
          if (T && (k <= 2 || (pm == 1 && k <= 3)))
            c.bound++; /* (one more deviation on every vector is ~2 million executions more than a thorough budget holds) */
          if (k >= 4 && pm == 1 && !T)
            c.bound = 1;
          add(c);
          if (k >= 3 && pm == 1) {
            c.split = 2;
            c.bystander = k == 3;
            add(c);
            if (c.bystander) {
              /* both sessions use equal message ids: an ACK / RST must only ever free a slot of its own session */
              c.same_mid = 1;
              add(c);
              c.same_mid = 0;
            }
          }
        }
      }
  /* long bursts (the statement's 1..20) and NSTART 4: all Confirmable, alternating, and a NON after every third CON */
  for (int ns = 1; ns <= 4; ns++)
    for (int ki = 0; ki < 3; ki++)
      for (int pat = 0; pat < 3; pat++) {
        int k = ki == 0 ? 8 : ki == 1 ? 13 : 20;
        if (!T && k == 13)
          continue;
        struct cfg c = {.nstart = ns, .k = k, .split = pat == 2 ? 5 : 0, .bystander = 0, .peer_mode = pat == 1, .max_retx = 2, .bound = k == 8 && T ? 2 : 1};
        for (int b = 0; b < k; b++)
          c.types[b] = pat == 0 ? 'C' : pat == 1 ? (b & 1 ? 'N' : 'C') : (b % 4 == 3 ? 'N' : 'C');
        add(c);
      }
  /* NSTART 4 with the short bursts that can exceed it */
  for (int v = 0; v < 8; v++) {
    struct cfg c = {.nstart = 4, .k = 6, .split = v & 4 ? 3 : 0, .bystander = 0, .peer_mode = v & 1, .max_retx = 2, .bound = T ? 2 : 1};
    memset(c.types, 'C', 6);
    if (v & 2)
      c.types[4] = 'N';
    add(c);
  }
  /* the message id counter wraps inside the burst: every position of the message that gets id 0x0000 (in flight, held) */
  for (int ns = 1; ns <= 2; ns++)
    for (int w = 1; w <= 4; w++) {
      struct cfg c = {.nstart = ns, .k = 4, .split = 0, .bystander = 0, .peer_mode = 0, .max_retx = 2, .mid_wrap = w, .bound = T ? 2 : 1};
      memset(c.types, 'C', 4);
      add(c);
    }
  /* the first Confirmable is given up (all its copies lost) while later messages wait for its slot */
  for (int ns = 1; ns <= 2; ns++)
    for (int k = ns + 1; k <= (T ? 5 : 4); k++)
      for (int v = 0; v < 2; v++) {
        struct cfg c = {.nstart = ns, .k = k, .split = v ? 2 : 0, .bystander = 0, .peer_mode = 2, .max_retx = 2, .bound = T ? 2 : 1};
        memset(c.types, 'C', (size_t)k);
        if (v && k >= 3)
          c.types[k - 1] = 'N';
        add(c);
      }
  vx_ev_rule("executions of a real libcoap client session against a raw peer that ACKs / RSTs only what it received; enumerated: NSTART 1..3 x "
             "all CON/NON type vectors of bursts of 1..4 (thorough 5) messages x one or two bursts x bystander session (also with the same message ids as the main session), and all schedules with "
             "<= bound deviations (drop / duplicate / reorder of any datagram, timer before delivery, peer verdict RST or silence for CON, RST for NON, the socket refusing the transmission inside coap_send(), an ICMP port-unreachable notice read from the socket), plus long bursts of 8 / 13 / 20 messages (all CON, alternating CON/NON, a NON after every third CON) and bursts of 6 with NSTART 1..4 under <= 1 (2) deviations, bursts inside which the message id counter wraps to 0 and bursts whose first Confirmable loses every copy and is given up while later ones are held; "
             "non-trivial = deviation taken or retransmission; distinct = distinct observation logs");
  vx_ev_assumption("datagram (UDP) session; the 'before the session is established' clause is exercised with DTLS in the C19 harness");
  for (int i = 0; i < ncfgs; i++)
    if (vx_replay_if_match(cfgs[i].name, run, &cfgs[i]))
      return 0;
  if (vx_replay_path()) {
    fprintf(stderr, "replay file does not match any scenario\n");
    return 2;
  }
  struct vx_config *vcs = calloc((size_t)ncfgs, sizeof *vcs);
  void **args = calloc((size_t)ncfgs, sizeof *args);
  for (int i = 0; i < ncfgs; i++) {
    vcs[i] = (struct vx_config){.scenario = cfgs[i].name, .bound = cfgs[i].bound, .leakcheck = 1};
    args[i] = &cfgs[i];
  }
  struct vx_scn_stats st;
  vx_explore_multi("c08:all", vcs, args, ncfgs, run, 0, &st);
  vx_ev_int("scenarios", ncfgs);
  return vx_finish();
}
