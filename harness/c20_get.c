/* C20 (stage c20get) -- the block-wise GET clause: "a block-wise GET of the resource reassembles to the same listing;
 * all Block2 sizes for the GET".
 *
 * A real libcoap server (COAP_BLOCK_USE_LIBCOAP) on the simulated network with a table of resources from the catalogue of
 * c20_wellknown.c; a raw client fetches /.well-known/core block by block.  Enumerated: tables (every subset of size <= 2 of
 * the 12 shapes + the table of all 12) x every filter of the catalogue x requested Block2 size {none, 16 .. 1024} x
 * {one size throughout, switch to the smallest size after the first block}.  Oracle (differential, no hand-written
 * expectation): the re-assembled body equals, byte for byte, what coap_print_wellknown_lkd() prints in-process for the same
 * table and query (that listing itself is judged against RFC 6690 by the main stage); every block carries the Block2 option
 * with the requested number, a size not larger than requested, M set exactly when bytes remain, a payload of exactly the
 * block size except for the last one, and Content-Format 40; a block beyond the end is refused with an error code.
 */
#include <stdarg.h>
#define main c20_wellknown_main_unused
#include "c20_wellknown.c"
#undef main
#include "netsim.h"
#include "wire.h"

struct gcfg {
  int dummy;
};
static uint8_t g_reply[1400];
static size_t g_reply_len;
static void
get_on_send(const ns_dgram_t *d) {
  g_reply_len = d->len < sizeof g_reply ? d->len : sizeof g_reply;
  memcpy(g_reply, d->data, g_reply_len);
}

#define NSZX 8 /* 0 = no Block2 option in the first request, 1..7 = SZX 0..6 */
static int g_get_ntab;
static uint16_t g_get_tab[100];

static void
gfail(const char *what, int ti, int fi, int szx, int sw, const char *fmt, ...) {
  char msg[300], sig[120];
  va_list ap;
  va_start(ap, fmt);
  vsnprintf(msg, sizeof msg, fmt, ap);
  va_end(ap);
  snprintf(sig, sizeof sig, "get:%s:%s%s", what, szx < 0 ? "no-block2-requested" : "block2-requested", sw ? ":size-switched" : "");
  vx_fail(sig, "table mask 0x%03x filter=%s requested SZX %d%s: %s", g_get_tab[ti], FILTERS[fi] ? FILTERS[fi] : "none", szx,
          sw ? " then SZX 0" : "", msg);
}

/* an application that also serves unknown paths itself (PUT creates resources, GET answers 4.04 with its own text) and
 * has NOT asked to handle /.well-known/core (no COAP_RESOURCE_HANDLE_WELLKNOWN_CORE): discovery stays libcoap's job */
static void
unk_hnd(coap_resource_t *r, coap_session_t *s, const coap_pdu_t *req, const coap_string_t *q, coap_pdu_t *resp) {
  (void)r;
  (void)s;
  (void)q;
  coap_pdu_set_code(resp, coap_pdu_get_code(req) == COAP_REQUEST_CODE_GET ? COAP_RESPONSE_CODE_NOT_FOUND : COAP_RESPONSE_CODE_CREATED);
  coap_add_data(resp, 3, (const uint8_t *)"app");
}

static void
case_get(uint64_t idx, void *arg) {
  (void)arg;
  uint64_t x = idx;
  int unk = (int)(x % 2);
  x /= 2;
  int sw = (int)(x % 2);
  x /= 2;
  int szi = (int)(x % NSZX);
  x /= NSZX;
  int fi = (int)(x % NFILTERS);
  x /= NFILTERS;
  int ti = (int)x;
  int szx = szi - 1; /* -1: none */
  if (g_get_tab[ti] & (1u << 7))
    return; /* shape 7 is an application resource at ".well-known/core": it replaces the built-in handler */
  if (sw && szx < 1)
    return; /* nothing smaller to switch to */
  ns_init();
  ns_on_send = get_on_send;
  coap_context_t *ctx = coap_new_context(NULL);
  ns_register_ctx(ctx);
  coap_context_set_block_mode(ctx, COAP_BLOCK_USE_LIBCOAP);
  coap_address_t sa, ca;
  ns_addr(&sa, 1, 5683);
  ns_addr(&ca, 44, 5001);
  coap_new_endpoint(ctx, &sa, COAP_PROTO_UDP);
  for (int i = NCAT - 1; i >= 0; i--)
    if (g_get_tab[ti] & (1u << i))
      register_shape(ctx, &CAT[i]);
  if (unk) {
    coap_resource_t *u = coap_resource_unknown_init2(unk_hnd, 0);
    coap_register_request_handler(u, COAP_REQUEST_GET, unk_hnd);
    coap_add_resource(ctx, u);
  }
  /* reference: the listing as the in-process API prints it for this query */
  static uint8_t want[8192], got[8192];
  size_t wl = sizeof want;
  coap_string_t *q = make_query(FILTERS[fi]);
  coap_lock_lock(ctx, return);
  coap_print_status_t st = coap_print_wellknown_lkd(ctx, want, &wl, 0, q);
  coap_lock_unlock(ctx);
  if (q)
    coap_delete_string(q);
  if (st & COAP_PRINT_STATUS_ERROR || wl > sizeof want) {
    vx_fail("harness:get:reference-listing", "coap_print_wellknown_lkd failed for the reference listing");
    goto out;
  }
  size_t gl = 0, etag_len = 0;
  int etag_have = 0;
  uint8_t etag_val[8];
  int cur_szx = szx;
  unsigned num = 0;
  for (int round = 0; round < 600; round++) {
    struct w_buf w;
    uint8_t tok[2] = {0x33, (uint8_t)round};
    w_begin(&w, 0, 1, (uint16_t)(0x5000 + round), tok, 2);
    w_opt_add(&w, 11, ".well-known", 11);
    w_opt_add(&w, 11, "core", 4);
    if (FILTERS[fi])
      w_opt_add(&w, 15, FILTERS[fi], strlen(FILTERS[fi]));
    if (cur_szx >= 0)
      w_opt_uint(&w, 23, num << 4 | (unsigned)cur_szx);
    g_reply_len = 0;
    ns_inject_now(&ca, &sa, w.b, w.n);
    ns_prepare_all();
    while (ns_inflight_count())
      ns_drop(0);
    struct w_msg m;
    if (!g_reply_len || !w_parse(g_reply, g_reply_len, &m)) {
      gfail("no-reply", ti, fi, szx, sw, "no (well-formed) reply to the request for block %u", num);
      goto out;
    }
    if (m.code != 0x45 && sw && round == 1 && (m.code >> 5) == 4) {
      /* libcoap refuses a change of the block size inside a transfer ("Changing blocksize during request invalid"): an
       * explicit refusal, the clause does not ask for late re-negotiation */
      vxp_count(22, 1);
      goto out;
    }
    if (m.code != 0x45) {
      gfail("error-code", ti, fi, szx, sw, "block %u answered %d.%02d (listing has %zu bytes, %zu re-assembled so far)", num, m.code >> 5,
            m.code & 31, wl, gl);
      goto out;
    }
    const struct w_opt *cf = w_find(&m, 12), *b2 = w_find(&m, 23);
    if ((wl > 0 || cf) && (!cf || w_uint(cf) != 40)) {
      gfail("content-format", ti, fi, szx, sw, "block %u: Content-Format %s", num, cf ? "is not 40" : "missing");
      goto out;
    }
    if (!b2) {
      if (cur_szx >= 0 && num > 0) {
        gfail("block2-missing", ti, fi, szx, sw, "reply to the request for block %u carries no Block2 option", num);
        goto out;
      }
      /* whole body in one message */
      if (gl + m.payload_len > sizeof got)
        goto out;
      if (m.payload_len)
        memcpy(got + gl, m.payload, m.payload_len);
      gl += m.payload_len;
      break;
    }
    /* all blocks of one transfer describe one representation: the ETag (RFC 7959 2.4) of the first block is the ETag of
     * every block - a client that re-assembles (libcoap's does) gives up on a transfer whose blocks disagree */
    {
      const struct w_opt *et = w_find(&m, 4);
      if (round == 0) {
        etag_len = et ? et->len : 0;
        etag_have = et != NULL;
        if (et && et->len <= sizeof etag_val)
          memcpy(etag_val, et->val, et->len);
      } else if ((et != NULL) != etag_have || (et && (et->len != etag_len || memcmp(et->val, etag_val, et->len)))) {
        gfail("block2-etag-changes", ti, fi, szx, sw, "block %u carries %s ETag, block 0 carried %s", num, et ? "another" : "no", etag_have ? "one" : "none");
        goto out;
      }
    }
    unsigned v = w_uint(b2), rnum = v >> 4, rm = (v >> 3) & 1, rszx = v & 7, bs = 16u << rszx;
    if (cur_szx >= 0 && (int)rszx > cur_szx) {
      gfail("block2-larger-than-requested", ti, fi, szx, sw, "block %u: SZX %u in the reply, %d requested", num, rszx, cur_szx);
      goto out;
    }
    /* the server may answer with a smaller size: continue in that size (block number rescaled by the offset) */
    size_t off = (size_t)rnum * bs;
    if (off != gl) {
      gfail("block2-offset", ti, fi, szx, sw, "reply Block2 %u/%u/%u starts at offset %zu, %zu bytes re-assembled so far", rnum, rm, bs, off, gl);
      goto out;
    }
    if (rm ? m.payload_len != bs : (m.payload_len > bs || (m.payload_len == 0 && wl != gl))) {
      gfail("block2-payload-size", ti, fi, szx, sw, "reply Block2 %u/%u/%u carries %zu payload bytes", rnum, rm, bs, m.payload_len);
      goto out;
    }
    if (gl + m.payload_len > sizeof got)
      goto out;
    if (m.payload_len)
      memcpy(got + gl, m.payload, m.payload_len);
    gl += m.payload_len;
    if (rm != (gl < wl)) {
      gfail("block2-more-flag", ti, fi, szx, sw, "reply Block2 %u/%u/%u: M=%u but %zu of %zu listing bytes delivered", rnum, rm, bs, rm, gl, wl);
      goto out;
    }
    if (!rm)
      break;
    cur_szx = (int)rszx;
    if (sw && round == 0)
      cur_szx = 0;
    num = (unsigned)(gl / (16u << cur_szx));
    vxp_count(21, 1);
  }
  if (gl != wl || memcmp(got, want, wl)) {
    size_t d = 0;
    while (d < gl && d < wl && got[d] == want[d])
      d++;
    gfail("body-differs", ti, fi, szx, sw, "re-assembled body has %zu bytes, the listing %zu; first difference at byte %zu", gl, wl, d);
    goto out;
  }
  /* a block beyond the end */
  if (wl > 0) {
    struct w_buf w;
    uint8_t tok[2] = {0x34, 0};
    int s2 = cur_szx >= 0 ? cur_szx : 0;
    unsigned beyond = (unsigned)((wl + (16u << s2) - 1) / (16u << s2)) + 1;
    w_begin(&w, 0, 1, 0x5fff, tok, 2);
    w_opt_add(&w, 11, ".well-known", 11);
    w_opt_add(&w, 11, "core", 4);
    if (FILTERS[fi])
      w_opt_add(&w, 15, FILTERS[fi], strlen(FILTERS[fi]));
    w_opt_uint(&w, 23, beyond << 4 | (unsigned)s2);
    g_reply_len = 0;
    ns_inject_now(&ca, &sa, w.b, w.n);
    ns_prepare_all();
    while (ns_inflight_count())
      ns_drop(0);
    struct w_msg m;
    if (g_reply_len && w_parse(g_reply, g_reply_len, &m) && m.code == 0x45 && m.payload_len > 0)
      gfail("beyond-end-served", ti, fi, szx, sw, "block %u (past the end of a %zu-byte listing) answered 2.05 with %zu payload bytes", beyond, wl,
            m.payload_len);
  }
  vxp_count(20, 1);
  if (gl > 16)
    vxp_distinct(vx_fnv(got, gl, (uint64_t)(szi * 2 + sw)));
  if (idx % 2003 == 7)
    vxp_sample("get: table 0x%03x filter=%s SZX %d%s: %zu bytes re-assembled == in-process listing", g_get_tab[ti], FILTERS[fi] ? FILTERS[fi] : "none",
               szx, sw ? " then 0" : "", gl);
out:
  ns_unregister_ctx(ctx);
  coap_free_context(ctx);
  ns_fini();
}

int
main(int argc, char **argv) {
  vx_main_init(argc, argv, "C20");
  int T = vx_is_thorough();
  g_get_ntab = 0;
  for (int sz = 0; sz <= (T ? 3 : 2); sz++)
    for (unsigned m = 0; m < (1u << NCAT); m++)
      if (popcount16(m) == sz && g_get_ntab < 99 - 1 && (sz < 3 || m % 7 == 0))
        g_get_tab[g_get_ntab++] = (uint16_t)m;
  g_get_tab[g_get_ntab++] = (uint16_t)((1u << NCAT) - 1);
  if (vxp_replay_if_match("get:tables x filters x block2", case_get, NULL))
    return 0;
  if (vx_replay_path()) {
    fprintf(stderr, "replay file does not match any space\n");
    return 2;
  }
  struct vxp_stats st;
  struct vxp_config c = {.space = "get:tables x filters x block2", .total = (uint64_t)g_get_ntab * NFILTERS * NSZX * 2 * 2, .chunk = 16};
  vxp_enumerate(&c, case_get, NULL, &st);
  vx_ev_add_states((long long)st.done, (long long)vxp_counter(21), (long long)st.done);
  vx_ev_add_evals((long long)st.done, (long long)vxp_distinct_count());
  vx_ev_int("get.transfers_compared", (long long)vxp_counter(20));
  vx_ev_int("get.follow_up_block_requests", (long long)vxp_counter(21));
  vx_ev_int("get.tables", g_get_ntab);
  vx_ev_int("get.size_switch_refused_explicitly", (long long)vxp_counter(22));
  vx_ev_rule("stage c20get: block-wise GET of /.well-known/core from a real libcoap server (COAP_BLOCK_USE_LIBCOAP) by a raw client: tables (all "
             "subsets of size <= 2 of the 12 shapes, thorough: + every 7th subset of size 3; + the table of all 12) x all catalogue filters x "
             "requested Block2 size {none, 16..1024} x {same size throughout, smallest size after the first block} x {no unknown-resource handler, an unknown-resource handler serving GET and PUT that has not asked for /.well-known/core}; re-assembled body compared "
             "byte for byte with the in-process listing of the same table and query; Block2 number / M / size / payload length / Content-Format / same ETag "
             "of every block; a block past the end must not be served; tables holding the application's own .well-known/core resource are left out; a size switch "
             "that the server refuses with 4.xx counts as an explicit refusal; distinct = distinct re-assembled bodies longer than one smallest block");
  vx_ev_assumption("without COAP_BLOCK_USE_LIBCOAP the handler does no block-wise transfer at all (it truncates to the PDU size): not part of this clause");
  return vx_finish();
}
