/* C15 -- OSCORE never accepts a replay or reuses a nonce; forgeries leave no trace.
 *
 * Recipient: a real libcoap server context with an OSCORE configuration on the simulated network.  Protected
 * requests are manufactured by the independent reference implementation (ref/refoscore.c) with any Partial IV,
 * so late, replayed and forged messages are first-class.  All delivery histories up to depth d over
 * {fresh(+gap), late(-j) never delivered before, replay of an earlier delivery, forgery with a claimed PIV and a
 * wrong tag} x replay window sizes x Appendix B.1.2 on/off x first PIV are enumerated (vxp).
 * Oracles: (1) at most once: a PIV that was accepted is never accepted again; (2) forgeries leave no trace:
 * the accept/reject answers to every depth-1 continuation are the same with and without the forgery in the
 * history, and a genuine fresh message after a forgery is still accepted; (3) UBSan (shift >= 64).
 * Sender: a real client session with a save_seq_num callback; every crash point (after send i, inside the
 * callback) x ssn_freq x start value x restart from the last value handed to the callback: no Partial IV is
 * ever visible twice on the wire.
 */
#include "netsim.h"
#include "vx.h"
#include "wire.h"
#include "refoscore.h"
#include <stdarg.h>

static const uint8_t MS[16] = {1, 2, 3, 4, 5, 6, 7, 8, 9, 10, 11, 12, 13, 14, 15, 16};
static const uint8_t SALT[8] = {0x9e, 0x7c, 0xa9, 0x22, 0x23, 0x78, 0x63, 0x40};

/* ------------------------------------------------------------------------------------------ */
/* recipient                                                                                   */
enum { K_FRESH, K_LATE, K_REPLAY, K_FORGE };
struct op {
  int kind, arg;
};
static struct op ALPHA[40];
static int nalpha;
static void
build_alpha(int thorough) {
  static const int gaps_q[] = {1, 2, 3, 32, 33, 64, 65}, gaps_t[] = {1, 2, 3, 31, 32, 33, 63, 64, 65, 200};
  static const int late_q[] = {1, 2, 31, 32, 33}, late_t[] = {1, 2, 3, 31, 32, 33, 63, 64};
  const int *g = thorough ? gaps_t : gaps_q, *l = thorough ? late_t : late_q;
  int ng = thorough ? 10 : 7, nl = thorough ? 8 : 5;
  for (int i = 0; i < ng; i++)
    ALPHA[nalpha++] = (struct op){K_FRESH, g[i]};
  for (int i = 0; i < nl; i++)
    ALPHA[nalpha++] = (struct op){K_LATE, l[i]};
  /* replay(i): 0 = the most recent delivery, 1 = the one before, 2 = the delivery with the highest PIV, 3 = the first */
  for (int i = 0; i < 4; i++)
    ALPHA[nalpha++] = (struct op){K_REPLAY, i};
  /* forge(p): 0 -> PIV 0, 1 -> PIV 1, 2 -> highest PIV so far, 3 -> highest+1, 4 -> highest+70, 5 -> forged response */
  /* 6 -> highest+70 with a ciphertext shorter than the authentication tag (4 bytes) */
  for (int i = 0; i < 7; i++)
    ALPHA[nalpha++] = (struct op){K_FORGE, i}; /* 5: a forged RESPONSE (no Partial IV) to a request this node sent on the same context */
}
static const char *
opname(struct op o, char *b, size_t n) {
  static const char *k[] = {"fresh+", "late-", "replay#", "forge@"};
  snprintf(b, n, "%s%d", k[o.kind], o.arg);
  return b;
}

struct rcfg {
  char name[80];
  int window;
  int b12;
  int first_piv;
  int depth;
  int pre_forge; /* 0 none; 1: a forgery claiming the first PIV arrives before the first genuine message; 2: claiming first+70 */
};

static coap_context_t *sctx;
static coap_address_t srv, cli;
static refoscore_ctx_t rc;
static int handler_calls;
static coap_session_t *last_session; /* the server-side session of the peer (valid while the context lives) */
static uint8_t last_reply[256];
static size_t last_reply_len;
static uint16_t next_mid;

static void
hnd(coap_resource_t *r, coap_session_t *s, const coap_pdu_t *req, const coap_string_t *q, coap_pdu_t *resp) {
  (void)r;
  (void)req;
  (void)q;
  handler_calls++;
  last_session = s;
  coap_pdu_set_code(resp, COAP_RESPONSE_CODE_CONTENT);
  coap_add_data(resp, 2, (const uint8_t *)"ok");
}
static int resp_handler_calls;
static coap_response_t
resp_hnd(coap_session_t *s, const coap_pdu_t *sent, const coap_pdu_t *rcv, const coap_mid_t mid) {
  (void)s;
  (void)sent;
  (void)rcv;
  (void)mid;
  resp_handler_calls++;
  return COAP_RESPONSE_OK;
}
/* Nonce uniqueness of what the node under test emits (RFC 8613 5.2 / 8.3: under one sender key a nonce protects one message; a
 * response may borrow the request's nonce, once).  Every protected datagram is filed under the nonce it uses - its own Partial IV,
 * or, without one, the (kid, Partial IV) of the request being answered - and two different ciphertexts under one nonce fail. */
static struct {
  uint64_t key, cth;
} nonces_used[64];
static int nnonces;
static uint64_t cur_req_nonce; /* of the datagram being delivered; 0 = not an OSCORE request */
static char nonce_fail[160];
static uint64_t
osc_nonce_key(const refoscore_msg_t *m, int *has_piv) {
  int oi = refoscore_msg_find(m, 9);
  *has_piv = 0;
  if (oi < 0)
    return 0;
  const uint8_t *v = refoscore_opt_val(m, oi);
  size_t l = m->opts[oi].len;
  unsigned n = l ? (v[0] & 7u) : 0;
  if (!n || 1 + n > l)
    return 1; /* protected, no Partial IV */
  uint64_t piv = 0;
  for (unsigned i = 0; i < n; i++)
    piv = piv << 8 | v[1 + i];
  *has_piv = 1;
  return piv + 2;
}
static void
on_send(const ns_dgram_t *d) {
  last_reply_len = d->len < sizeof last_reply ? d->len : sizeof last_reply;
  memcpy(last_reply, d->data, last_reply_len);
  refoscore_msg_t outer;
  if (refoscore_coap_decode(d->data, d->len, &outer, NULL, NULL, NULL, NULL) != REFOSCORE_OK)
    return;
  int has_piv;
  uint64_t k = osc_nonce_key(&outer, &has_piv);
  if (!k)
    return; /* not protected */
  uint64_t key = has_piv ? (k | 1ull << 62) : (cur_req_nonce | 1ull << 63);
  if (!has_piv && !cur_req_nonce)
    return;
  uint64_t cth = vx_fnv(refoscore_payload(&outer), outer.payload_len, VX_FNV0);
  for (int i = 0; i < nnonces; i++)
    if (nonces_used[i].key == key) {
      if (nonces_used[i].cth != cth && !nonce_fail[0])
        snprintf(nonce_fail, sizeof nonce_fail, "%s", has_piv ? "own-partial-iv-twice" : "request-nonce-borrowed-for-two-different-responses");
      return;
    }
  if (nnonces < 64) {
    nonces_used[nnonces].key = key;
    nonces_used[nnonces++].cth = cth;
  }
}

static int
server_start(const struct rcfg *c) {
  char conf[600];
  snprintf(conf, sizeof conf,
           "master_secret,hex,\"0102030405060708090a0b0c0d0e0f10\"\n"
           "master_salt,hex,\"9e7ca92223786340\"\n"
           "sender_id,hex,\"01\"\n"
           "recipient_id,hex,\"02\"\n"
           "replay_window,integer,%d\n"
           "rfc8613_b_1_2,bool,%s\n",
           c->window, c->b12 ? "true" : "false");
  coap_str_const_t cm = {strlen(conf), (const uint8_t *)conf};
  coap_oscore_conf_t *oc = coap_new_oscore_conf(cm, NULL, NULL, 0);
  if (!oc)
    return 0;
  sctx = coap_new_context(NULL);
  ns_register_ctx(sctx);
  if (!coap_context_oscore_server(sctx, oc))
    return 0;
  ns_addr(&srv, 1, 5683);
  ns_addr(&cli, 40, 5000);
  coap_new_endpoint(sctx, &srv, COAP_PROTO_UDP);
  coap_register_response_handler(sctx, resp_hnd);
  last_session = NULL;
  resp_handler_calls = 0;
  coap_resource_t *r = coap_resource_init(coap_make_str_const("t"), COAP_RESOURCE_FLAGS_OSCORE_ONLY);
  coap_register_request_handler(r, COAP_REQUEST_GET, hnd);
  coap_add_resource(sctx, r);
  /* the peer (client) context of the reference: sender id 02, recipient id 01 */
  refoscore_params_t p = {MS, 16, SALT, 8, (const uint8_t *)"\x02", 1, (const uint8_t *)"\x01", 1, NULL, 0, 0};
  return refoscore_derive(&p, &rc) == REFOSCORE_OK;
}

/* builds the protected datagram for GET /t with Partial IV piv (optionally an inner Echo option); returns length */
static size_t
make_request(uint64_t piv, const uint8_t *echo, size_t echo_len, int forge, uint8_t *buf, size_t cap, refoscore_reqbind_t *bind) {
  refoscore_msg_t in, out;
  refoscore_msg_init(&in, 0x01);
  refoscore_msg_add_opt(&in, 11, "t", 1);
  if (echo)
    refoscore_msg_add_opt(&in, 252, echo, echo_len);
  if (refoscore_protect_request(&rc, &in, piv, &out, bind) != REFOSCORE_OK)
    return 0;
  if (forge && out.payload_len)
    out.store[out.payload_off + out.payload_len - 1] ^= 0x5a; /* wrong tag */
  uint8_t tok[2] = {(uint8_t)(piv >> 8), (uint8_t)piv};
  int n = refoscore_coap_encode(&out, 0 /* CON */, next_mid++, tok, 2, buf, cap);
  return n > 0 ? (size_t)n : 0;
}

/* delivers one datagram; returns 1 if the application handler ran */
static int
deliver(const uint8_t *b, size_t n) {
  int before = handler_calls;
  last_reply_len = 0;
  {
    refoscore_msg_t rq;
    int hp;
    cur_req_nonce = 0;
    if (refoscore_coap_decode(b, n, &rq, NULL, NULL, NULL, NULL) == REFOSCORE_OK) {
      uint64_t k = osc_nonce_key(&rq, &hp);
      cur_req_nonce = hp ? k : 0;
    }
  }
  ns_inject_now(&cli, &srv, b, n);
  ns_prepare_all();
  while (ns_inflight_count())
    ns_drop(0);
  return handler_calls > before;
}

/* Appendix B.1.2: the first request is answered 4.01 + Echo; repeat it with the Echo value and a new PIV */
static int
echo_roundtrip(uint64_t *piv_io) {
  uint8_t buf[300];
  refoscore_reqbind_t bind;
  size_t n = make_request(*piv_io, NULL, 0, 0, buf, sizeof buf, &bind);
  if (!n)
    return 0;
  if (deliver(buf, n))
    return 2; /* accepted without challenge */
  if (!last_reply_len)
    return 0;
  /* the network duplicates that first request: a second challenge, which must not be an accept (and, see on_send, must not be
   * protected under the nonce of the first one); the client goes on with the newest Echo value */
  if (deliver(buf, n))
    return 0;
  if (!last_reply_len)
    return 0;
  refoscore_msg_t outer, merged;
  if (refoscore_coap_decode(last_reply, last_reply_len, &outer, NULL, NULL, NULL, NULL) != REFOSCORE_OK)
    return 0;
  refoscore_info_t info;
  int echo_i = -1;
  if (refoscore_unprotect_response(&rc, &bind, &outer, &merged, &info) == REFOSCORE_OK)
    echo_i = refoscore_msg_find(&merged, 252);
  else {
    /* plain 4.01 with Echo (not protected) */
    echo_i = refoscore_msg_find(&outer, 252);
    merged = outer;
  }
  if (echo_i < 0)
    return 0;
  uint8_t ev[40];
  size_t el = merged.opts[echo_i].len;
  memcpy(ev, refoscore_opt_val(&merged, echo_i), el);
  (*piv_io)++;
  n = make_request(*piv_io, ev, el, 0, buf, sizeof buf, NULL);
  if (!n)
    return 0;
  return deliver(buf, n) ? 1 : 0;
}

/* model of what was sent / delivered / accepted */
#define MAXH 10
struct hist {
  uint64_t piv[MAXH];
  uint8_t bytes[MAXH][200];
  size_t len[MAXH];
  int accepted[MAXH];
  int forged[MAXH];
  int n;
  uint64_t maxpiv; /* highest PIV of any genuine message created so far */
};
static uint64_t used[64];
static int nused;
static int
piv_used(uint64_t p) {
  for (int i = 0; i < nused; i++)
    if (used[i] == p)
      return 1;
  return 0;
}

struct outcome {
  int ok;          /* history could be executed */
  int accepted;    /* last op accepted */
  char sig[120];
  char msg[300];
};

/* runs history ops[0..n) on a fresh recipient; fills accept vector; returns 0 if an op was not applicable */
static int
run_history(const struct rcfg *c, const struct op *ops, int n, int *acc, struct hist *H, char *fail_sig, size_t fsl, char *fail_msg, size_t fml) {
  memset(H, 0, sizeof *H);
  nused = 0;
  nnonces = 0;
  nonce_fail[0] = 0;
  handler_calls = 0;
  next_mid = 0x2000;
  fail_sig[0] = 0;
  ns_init();
  ns_on_send = on_send;
  if (!server_start(c)) {
    snprintf(fail_sig, fsl, "harness:server-start");
    snprintf(fail_msg, fml, "could not start the OSCORE server");
    return -1;
  }
  uint64_t piv = (uint64_t)c->first_piv;
  if (c->pre_forge) {
    uint8_t b[200];
    size_t l = make_request(piv + (c->pre_forge == 2 ? 70 : 0), NULL, 0, 1, b, sizeof b, NULL);
    if (deliver(b, l)) {
      snprintf(fail_sig, fsl, "forgery-accepted");
      snprintf(fail_msg, fml, "a message with a wrong tag arriving first reached the handler");
      return -1;
    }
  }
  /* first genuine message (with the Echo round trip when B.1.2 is on) */
  if (c->b12) {
    int r = echo_roundtrip(&piv);
    used[nused++] = piv - (r == 1 ? 1 : 0);
    if (r != 2)
      used[nused++] = piv;
    if (r == 0) {
      snprintf(fail_sig, fsl, c->pre_forge ? "forge-trace:b12=1:first-message-forged:echo-roundtrip-failed" : "liveness:echo-roundtrip-failed");
      snprintf(fail_msg, fml, "B.1.2: request repeated with the server's Echo value was not accepted");
      return -1;
    }
    H->maxpiv = piv;
    /* record the accepted message as delivery 0 */
    H->piv[0] = piv;
    H->accepted[0] = 1;
    H->len[0] = make_request(piv, NULL, 0, 0, H->bytes[0], sizeof H->bytes[0], NULL); /* same PIV, used as "replay" material */
    H->n = 1;
  } else {
    uint8_t b[200];
    size_t l = make_request(piv, NULL, 0, 0, b, sizeof b, NULL);
    int a = deliver(b, l);
    used[nused++] = piv;
    H->piv[0] = piv;
    memcpy(H->bytes[0], b, l);
    H->len[0] = l;
    H->accepted[0] = a;
    H->n = 1;
    H->maxpiv = piv;
    if (!a) {
      snprintf(fail_sig, fsl, c->pre_forge ? "forge-trace:b12=0:first-message-forged:first-genuine-rejected" : "liveness:first-message-rejected");
      snprintf(fail_msg, fml, "the very first genuine request (PIV %d) was rejected", c->first_piv);
      return -1;
    }
  }
  for (int i = 0; i < n; i++) {
    struct op o = ops[i];
    uint8_t b[200];
    size_t l = 0;
    uint64_t p = 0;
    int forged = 0;
    switch (o.kind) {
    case K_FRESH:
      p = H->maxpiv + (uint64_t)o.arg;
      l = make_request(p, NULL, 0, 0, b, sizeof b, NULL);
      H->maxpiv = p;
      used[nused++] = p;
      break;
    case K_LATE:
      if ((uint64_t)o.arg > H->maxpiv)
        return 0;
      p = H->maxpiv - (uint64_t)o.arg;
      if (piv_used(p))
        return 0; /* not "never delivered before" */
      l = make_request(p, NULL, 0, 0, b, sizeof b, NULL);
      used[nused++] = p;
      break;
    case K_REPLAY: {
      int k;
      if (o.arg == 0)
        k = H->n - 1;
      else if (o.arg == 1)
        k = H->n - 2;
      else if (o.arg == 3)
        k = 0;
      else {
        k = 0;
        for (int q = 1; q < H->n; q++)
          if (!H->forged[q] && H->piv[q] > H->piv[k])
            k = q;
      }
      if (k < 0 || H->forged[k])
        return 0;
      if (o.arg == 2 && k == H->n - 1)
        return 0; /* same as replay#0 */
      if (o.arg == 3 && (H->n - 1 == 0 || H->n - 2 == 0))
        return 0;
      p = H->piv[k];
      l = H->len[k];
      memcpy(b, H->bytes[k], l);
      break;
    }
    case K_FORGE:
      if (o.arg == 5) {
        /* the node under test also acts as client on the same security context: it sends a request on the peer's session,
         * and a forged response (right token, empty OSCORE option = no Partial IV, arbitrary ciphertext) comes back */
        if (!last_session)
          return 0;
        coap_pdu_t *rq = coap_new_pdu(COAP_MESSAGE_NON, COAP_REQUEST_CODE_GET, last_session);
        uint8_t tk = (uint8_t)(0x90 + i);
        if (!rq)
          return 0;
        coap_add_token(rq, 1, &tk);
        coap_add_option(rq, COAP_OPTION_URI_PATH, 1, (const uint8_t *)"x");
        if (coap_send(last_session, rq) == COAP_INVALID_MID)
          return 0;
        ns_prepare_all();
        while (ns_inflight_count())
          ns_drop(0);
        uint8_t fr[] = {0x51, 0x44, 0x77, (uint8_t)i, tk, 0x90, 0xFF, 1, 2, 3, 4, 5, 6, 7, 8, 9, 10, 11, 12};
        memcpy(b, fr, sizeof fr);
        l = sizeof fr;
        int rb = resp_handler_calls;
        p = 0xFFFFFFFFull;
        forged = 2;
        (void)rb;
        break;
      }
      p = o.arg == 0 ? 0 : o.arg == 1 ? 1 : o.arg == 2 ? H->maxpiv : o.arg == 3 ? H->maxpiv + 1 : H->maxpiv + 70;
      l = make_request(p, NULL, 0, 1, b, sizeof b, NULL);
      if (o.arg == 6 && l > 20)
        l -= 7; /* GET /t: 3 bytes of plaintext + 8 bytes of tag; 4 bytes are left */
      forged = 1;
      break;
    }
    if (!l || H->n >= MAXH)
      return 0;
    int rbefore = resp_handler_calls;
    int a = deliver(b, l);
    if (forged == 2 && resp_handler_calls > rbefore)
      a = 1;
    acc[i] = a;
    /* verdicts on this delivery */
    if (forged && a) {
      snprintf(fail_sig, fsl, "forgery-accepted");
      snprintf(fail_msg, fml, "a message with a wrong tag (claimed PIV %llu) reached the handler", (unsigned long long)p);
      return -1;
    }
    if (!forged && a) {
      for (int q = 0; q < H->n; q++)
        if (!H->forged[q] && H->accepted[q] && H->piv[q] == p) {
          char shape[80] = "";
          size_t so = 0;
          for (int z = 0; z <= i && so < sizeof shape - 12; z++) {
            char t[16];
            so += (size_t)snprintf(shape + so, sizeof shape - so, "%s%s", z ? "," : "", opname(ops[z], t, sizeof t));
          }
          /* class: which kind of gap separates the replayed PIV from the highest accepted one */
          uint64_t top = 0;
          for (int z = 0; z < H->n; z++)
            if (!H->forged[z] && H->accepted[z] && H->piv[z] > top)
              top = H->piv[z];
          uint64_t dist = top - p;
          snprintf(fail_sig, fsl, "replay-accepted:b12=%d:%s", c->b12,
                   dist == 0 ? "highest-piv" : dist == 1 ? "highest-minus-1" : dist < (uint64_t)c->window ? "inside-window" : "outside-window");
          snprintf(fail_msg, fml, "PIV %llu accepted a second time (window %d, B.1.2 %s, first PIV %d); history after the first message: [%s]",
                   (unsigned long long)p, c->window, c->b12 ? "on" : "off", c->first_piv, shape);
          return -1;
        }
    }
    H->piv[H->n] = p;
    memcpy(H->bytes[H->n], b, l);
    H->len[H->n] = l;
    H->accepted[H->n] = a;
    H->forged[H->n] = forged;
    H->n++;
  }
  return 1;
}
static void
end_history(void) {
  ns_unregister_ctx(sctx);
  coap_free_context(sctx);
  sctx = NULL;
  ns_fini();
}

static void
case_recipient(uint64_t idx, void *arg) {
  struct rcfg *c = arg;
  struct op ops[8];
  uint64_t x = idx;
  for (int i = 0; i < c->depth; i++) {
    ops[i] = ALPHA[x % (uint64_t)nalpha];
    x /= (uint64_t)nalpha;
  }
  int acc[8] = {0};
  struct hist H;
  char sig[160], msg[400];
  int r = run_history(c, ops, c->depth, acc, &H, sig, sizeof sig, msg, sizeof msg);
  end_history();
  if (nonce_fail[0]) {
    char ns[200];
    snprintf(ns, sizeof ns, "nonce-reuse:b12=%d:%s", c->b12, nonce_fail);
    vx_fail(ns, "the node protected two different messages under one nonce (%s; window %d, B.1.2 %s, first PIV %d)", nonce_fail, c->window,
            c->b12 ? "on" : "off", c->first_piv);
    return;
  }
  if (r < 0) {
    vx_fail(sig, "%s", msg);
    return;
  }
  if (r == 0) {
    vxp_count(1, 1); /* not applicable */
    return;
  }
  vxp_count(0, 1);
  int nacc = 0;
  for (int i = 0; i < c->depth; i++)
    nacc += acc[i];
  vxp_count(2, (uint64_t)nacc);
  vxp_count(3, (uint64_t)c->depth);
  vxp_distinct(vx_fnv(acc, sizeof acc, vx_fnv(ops, sizeof(struct op) * (size_t)c->depth, (uint64_t)(c->window * 4 + c->b12 * 2 + c->first_piv))));
  if (c->pre_forge) {
    struct rcfg c0 = *c;
    c0.pre_forge = 0;
    int acc0[8] = {0};
    struct hist H0;
    char s0[160], m0[400];
    int r0 = run_history(&c0, ops, c->depth, acc0, &H0, s0, sizeof s0, m0, sizeof m0);
    end_history();
    if (r0 == 1)
      for (int i = 0; i < c->depth; i++)
        if (acc[i] != acc0[i]) {
          char t2[16], fs[160];
          snprintf(fs, sizeof fs, "forge-trace:b12=%d:first-message-forged:%s", c->b12, acc[i] ? "accepted-only-with-forgery" : "rejected-only-with-forgery");
          vx_fail(fs, "window %d, B.1.2 %s, first PIV %d: op %d (%s) is %s when a forgery preceded the first genuine message but %s without it", c->window,
                  c->b12 ? "on" : "off", c->first_piv, i, opname(ops[i], t2, sizeof t2), acc[i] ? "accepted" : "rejected", acc0[i] ? "accepted" : "rejected");
          return;
        }
  }
  /* (2) forgeries leave no trace: drop each forge from the history and compare the answers of all later genuine ops,
   *     plus: a fresh+1 continuation must be accepted after a history that contains a forgery */
  for (int f = 0; f < c->depth; f++) {
    if (ops[f].kind != K_FORGE)
      continue;
    struct op ops2[8];
    int n2 = 0;
    for (int i = 0; i < c->depth; i++)
      if (i != f)
        ops2[n2++] = ops[i];
    int acc2[8] = {0};
    struct hist H2;
    char s2[160], m2[400];
    int r2 = run_history(c, ops2, n2, acc2, &H2, s2, sizeof s2, m2, sizeof m2);
    end_history();
    if (r2 != 1)
      continue;
    for (int i = 0, j = 0; i < c->depth; i++) {
      if (i == f)
        continue;
      if (ops[i].kind != K_FORGE && i > f && acc[i] != acc2[j]) {
        char t1[16], t2[16], fs[160];
        snprintf(fs, sizeof fs, "forge-trace:b12=%d:%s-then-%s:%s", c->b12, opname(ops[f], t1, sizeof t1),
                 ops[i].kind == K_FRESH ? "fresh" : ops[i].kind == K_LATE ? "late" : "replay", acc[i] ? "accepted-only-with-forgery" : "rejected-only-with-forgery");
        vx_fail(fs, "window %d, B.1.2 %s, first PIV %d: op %d (%s) is %s after the forgery %s at position %d but %s without it", c->window,
                c->b12 ? "on" : "off", c->first_piv, i, opname(ops[i], t2, sizeof t2), acc[i] ? "accepted" : "rejected", t1, f,
                acc2[j] ? "accepted" : "rejected");
        return;
      }
      j++;
    }
  }
  if (idx % 4099 == 3) {
    char d[120] = "";
    size_t o = 0;
    for (int i = 0; i < c->depth; i++) {
      char t[16];
      o += (size_t)snprintf(d + o, sizeof d - o, "%s%s:%s", i ? " " : "", opname(ops[i], t, sizeof t), acc[i] ? "acc" : "rej");
    }
    vxp_sample("recipient window=%d b12=%d first=%d: %s", c->window, c->b12, c->first_piv, d);
  }
}

/* ------------------------------------------------------------------------------------------ */
/* sender: crash points                                                                         */
static uint64_t saved_val;
static int save_calls, kill_at_save, killed;
static uint64_t wire_pivs[64];
static int nwire;
static int
save_cb(uint64_t v, void *p) {
  (void)p;
  save_calls++;
  if (kill_at_save > 0 && save_calls == kill_at_save) {
    killed = 1; /* the process dies inside the callback: the value is NOT durably stored */
    return 0;
  }
  saved_val = v;
  return 1;
}
static void
sender_on_send(const ns_dgram_t *d) {
  struct w_msg m;
  if (killed || !w_parse(d->data, d->len, &m))
    return;
  const struct w_opt *o = w_find(&m, 9);
  if (!o || o->len < 1)
    return;
  int n = o->val[0] & 7;
  uint64_t piv = 0;
  for (int i = 0; i < n && (size_t)(1 + i) < o->len; i++)
    piv = piv << 8 | o->val[1 + i];
  if (n == 0)
    return;
  if (nwire < 64)
    wire_pivs[nwire++] = piv;
}
/* one life of the sender: nsend protected sends starting from start_seq; dies after `die_after` sends (or inside the
 * k-th save callback) */
static void
sender_life(int ssn_freq, uint64_t start_seq, int nsend, int die_after, int die_in_save) {
  ns_init();
  ns_on_send = sender_on_send;
  char conf[400];
  snprintf(conf, sizeof conf,
           "master_secret,hex,\"0102030405060708090a0b0c0d0e0f10\"\nsender_id,hex,\"01\"\nrecipient_id,hex,\"02\"\nssn_freq,integer,%d\n", ssn_freq);
  coap_str_const_t cm = {strlen(conf), (const uint8_t *)conf};
  save_calls = 0;
  kill_at_save = die_in_save;
  killed = 0;
  coap_oscore_conf_t *oc = coap_new_oscore_conf(cm, save_cb, NULL, start_seq);
  coap_context_t *cc = coap_new_context(NULL);
  ns_register_ctx(cc);
  coap_address_t sa, ca;
  ns_addr(&sa, 2, 5683);
  ns_addr(&ca, 41, 5001);
  coap_session_t *s = coap_new_client_session_oscore(cc, &ca, &sa, COAP_PROTO_UDP, oc);
  for (int i = 0; s && i < nsend && !killed; i++) {
    if (die_after >= 0 && i == die_after)
      break;
    coap_pdu_t *p = coap_new_pdu(COAP_MESSAGE_NON, COAP_REQUEST_CODE_GET, s);
    uint8_t tok = (uint8_t)i;
    coap_add_token(p, 1, &tok);
    coap_add_option(p, COAP_OPTION_URI_PATH, 1, (const uint8_t *)"x");
    coap_send(s, p);
    s->doing_first = 0; /* the peer never answers: do not wait for the first response before the next request */
    while (ns_inflight_count())
      ns_drop(0);
  }
  if (s)
    coap_session_release(s);
  ns_unregister_ctx(cc);
  coap_free_context(cc);
  ns_fini();
}
struct scfg {
  int dummy;
};
static void
case_sender(uint64_t idx, void *arg) {
  (void)arg;
  static const int freqs[] = {1, 2, 3, 5};
  /* the last two lineages reach the end of the 40-bit Partial IV space (RFC 8613 7.2.1: the sender must stop there) */
  static const uint64_t starts[] = {0, 4, (1ull << 40) - 6, (1ull << 40) - 2};
  int f = freqs[idx % 4];
  uint64_t x = idx / 4;
  uint64_t st = starts[x % 4];
  x /= 4;
  int crash1 = (int)(x % 10); /* 0..7: die after that many sends; 8: die inside the 1st save callback; 9: inside the 2nd */
  x /= 10;
  int crash2 = (int)(x % 10); /* second life, same coding; 9 = no second crash (run 8 sends) */
  nwire = 0;
  saved_val = st; /* what non-volatile memory holds before the first life */
  sender_life(f, st, 8, crash1 < 8 ? crash1 : -1, crash1 == 8 ? 1 : crash1 == 9 ? 2 : 0);
  uint64_t resume = saved_val;
  sender_life(f, resume, 8, crash2 < 8 ? crash2 : -1, crash2 == 8 ? 1 : 0);
  uint64_t resume2 = saved_val;
  sender_life(f, resume2, 4, -1, 0);
  /* a lineage that starts at st > 0 stands for an earlier history that was handed st by the save callback: every number below
   * st may have been used by it */
  for (int i = 0; i < nwire; i++)
    if (wire_pivs[i] < st) {
      vx_fail("piv-reuse:below-start-of-lineage", "Partial IV %llu on the wire although the sender was started from %llu (ssn_freq %d): numbers below the "
              "start value belong to earlier lives", (unsigned long long)wire_pivs[i], (unsigned long long)st, f);
      return;
    }
  for (int i = 0; i < nwire; i++)
    for (int j = i + 1; j < nwire; j++)
      if (wire_pivs[i] == wire_pivs[j]) {
        char sig[100];
        snprintf(sig, sizeof sig, "piv-reuse:freq=%d:%s", f, crash1 >= 8 ? "crash-in-save-callback" : "crash-after-send");
        vx_fail(sig, "Partial IV %llu visible twice on the wire: ssn_freq %d, start %llu, life 1 %s, resumed at %llu, life 2 resumed at %llu",
                (unsigned long long)wire_pivs[i], f, (unsigned long long)st, crash1 < 8 ? "killed after some sends" : "killed inside the save callback",
                (unsigned long long)resume, (unsigned long long)resume2);
        return;
      }
  vxp_count(4, 1);
  vxp_count(5, (uint64_t)nwire);
  vxp_distinct(vx_fnv(wire_pivs, sizeof(uint64_t) * (size_t)nwire, VX_FNV0));
  if (idx % 97 == 1)
    vxp_sample("sender ssn_freq=%d start=%llu crash1=%d crash2=%d: %d PIVs on the wire, resumed at %llu then %llu, all distinct", f, (unsigned long long)st, crash1, crash2,
               nwire, (unsigned long long)resume, (unsigned long long)resume2);
}

int
main(int argc, char **argv) {
  vx_main_init(argc, argv, "C15");
  int T = vx_is_thorough();
  build_alpha(T);
  int checks = 0;
  if (refoscore_selftest(&checks) < 0) {
    fprintf(stderr, "refoscore self-test failed\n");
    return 2;
  }
  vx_ev_int("ref_selftest_checks", checks);
  static struct rcfg rc_[200];
  int nrc = 0;
  static const int wins[] = {32, 63, 2, 1, 3, 33, 64}; /* the first two at every depth */
  for (int d = 1; d <= (T ? 4 : 3); d++)
    for (int wi = 0; wi < 7; wi++)
      for (int b = 0; b < 2; b++)
        for (int fp = 0; fp < 2; fp++) {
          if (d == 4 && (fp || wi > 1))
            continue;
          if (d == 3 && !T && wi > 1)
            continue;
          if (d == 3 && T && wi > 3)
            continue;
          struct rcfg c = {.window = wins[wi], .b12 = b, .first_piv = fp ? 5 : 0, .depth = d};
          snprintf(c.name, sizeof c.name, "recipient:d=%d:w=%d:b12=%d:first=%d", d, c.window, b, c.first_piv);
          rc_[nrc++] = c;
          if (d <= 2 && wi < 2)
            for (int pf = 1; pf <= 2; pf++) {
              c.pre_forge = pf;
              snprintf(c.name, sizeof c.name, "recipient:d=%d:w=%d:b12=%d:first=%d:preforge=%d", d, c.window, b, c.first_piv, pf);
              rc_[nrc++] = c;
            }
        }
  for (int i = 0; i < nrc; i++)
    if (vxp_replay_if_match(rc_[i].name, case_recipient, &rc_[i]))
      return 0;
  if (vxp_replay_if_match("sender-crash-points", case_sender, NULL))
    return 0;
  if (vx_replay_path()) {
    fprintf(stderr, "replay file does not match any space\n");
    return 2;
  }
  uint64_t total = 0;
  struct vxp_stats st;
  {
    struct vxp_config c = {.space = "sender-crash-points", .total = 4 * 4 * 10 * 10, .chunk = 4};
    vxp_enumerate(&c, case_sender, NULL, &st);
    total += st.done;
  }
  for (int i = 0; i < nrc; i++) {
    uint64_t n = 1;
    for (int k = 0; k < rc_[i].depth; k++)
      n *= (uint64_t)nalpha;
    struct vxp_config c = {.space = rc_[i].name, .total = n, .chunk = 32};
    vxp_enumerate(&c, case_recipient, &rc_[i], &st);
    total += st.done;
  }
  vx_ev_add_states((long long)total, (long long)vxp_counter(3) + (long long)vxp_counter(5), (long long)total);
  vx_ev_add_evals((long long)total, (long long)vxp_distinct_count());
  vx_ev_int("recipient_histories_run", (long long)vxp_counter(0));
  vx_ev_int("recipient_histories_not_applicable", (long long)vxp_counter(1));
  vx_ev_int("recipient_deliveries", (long long)vxp_counter(3));
  vx_ev_int("recipient_deliveries_accepted", (long long)vxp_counter(2));
  vx_ev_int("sender_histories", (long long)vxp_counter(4));
  vx_ev_int("sender_pivs_seen", (long long)vxp_counter(5));
  vx_ev_rule("(every protected datagram the node emits is filed under the nonce it uses - own Partial IV, or the request's - and two different ciphertexts under one nonce fail; with B.1.2 the first request is delivered twice before the Echo round trip completes) recipient: all delivery histories of depth 1..3 (thorough 4) after one accepted message over {fresh(+gap in 1,2,3,[31],32,33,[63],64,65,"
             "[200]), late(-j) never delivered, replay of the last / previous / highest-PIV / first delivery, forgery claiming PIV 0, 1, highest, "
             "highest+1, highest+70, forged response without Partial IV to a request the node itself sent on the peer's session} x replay_window {32,63 at every depth; 2,1,3,33,64 at depth <= 2 (thorough: 2,1 also at depth 3; depth 4 with 32,63 and first PIV 0 only)} x Appendix B.1.2 {off,on} x first PIV {0,5} x (depth <= 2, windows 32 and 2) a forgery arriving before the first genuine message claiming the first PIV / first+70; messages manufactured by the "
             "reference implementation; sender: ssn_freq {1,2,3,5} x start {0, 4, 2^40-6, 2^40-2} (the last two run into the end of the Partial IV space) x crash point of life 1 (after 0..7 sends, inside the 1st/2nd "
             "save callback) x crash point of life 2, each life resuming from the last value the callback stored; distinct = distinct (history, verdict vector)");
  vx_ev_assumption("accept = the application's request handler ran; the reference implementation (validated on the RFC 8613 Appendix C vectors and against libcoap in C14) produces the datagrams");
  vx_ev_assumption("liveness (fresh messages inside the window are accepted) is reported as counters; verdicts are at-most-once, forgery-leaves-no-trace and PIV uniqueness");
  return vx_finish();
}
