/* wire.h -- tiny independent RFC 7252 datagram reader/writer for trace monitors and raw peers.
 * Written from the RFC (section 3), not from libcoap.  Header-only. */
#ifndef WIRE_H
#define WIRE_H
#include <stdint.h>
#include <string.h>
#include <stddef.h>

#define W_MAXOPT 24
struct w_opt {
  uint32_t num;
  const uint8_t *val;
  size_t len;
};
struct w_msg {
  int ok;       /* parsed as well-formed CoAP over UDP */
  int type;     /* 0 CON 1 NON 2 ACK 3 RST */
  int code;     /* raw code byte */
  int mid;
  int tkl;
  uint8_t token[8];
  int nopts;
  struct w_opt opts[W_MAXOPT];
  const uint8_t *payload;
  size_t payload_len;
};

static inline int
w_parse(const uint8_t *b, size_t n, struct w_msg *m) {
  memset(m, 0, sizeof *m);
  if (n < 4 || (b[0] >> 6) != 1)
    return 0;
  m->type = (b[0] >> 4) & 3;
  m->tkl = b[0] & 15;
  m->code = b[1];
  m->mid = b[2] << 8 | b[3];
  if (m->tkl > 8 || (size_t)(4 + m->tkl) > n)
    return 0;
  memcpy(m->token, b + 4, (size_t)m->tkl);
  size_t p = 4 + (size_t)m->tkl;
  uint32_t num = 0;
  while (p < n) {
    if (b[p] == 0xFF) {
      if (p + 1 >= n)
        return 0;
      m->payload = b + p + 1;
      m->payload_len = n - p - 1;
      break;
    }
    uint32_t d = b[p] >> 4, l = b[p] & 15;
    p++;
    if (d == 15 || l == 15)
      return 0;
    if (d == 13) {
      if (p >= n)
        return 0;
      d = 13 + b[p++];
    } else if (d == 14) {
      if (p + 1 >= n)
        return 0;
      d = 269 + (b[p] << 8 | b[p + 1]);
      p += 2;
    }
    if (l == 13) {
      if (p >= n)
        return 0;
      l = 13 + b[p++];
    } else if (l == 14) {
      if (p + 1 >= n)
        return 0;
      l = 269 + (b[p] << 8 | b[p + 1]);
      p += 2;
    }
    if (p + l > n)
      return 0;
    num += d;
    if (m->nopts < W_MAXOPT) {
      m->opts[m->nopts].num = num;
      m->opts[m->nopts].val = b + p;
      m->opts[m->nopts].len = l;
      m->nopts++;
    }
    p += l;
  }
  m->ok = 1;
  return 1;
}

static inline const struct w_opt *
w_find(const struct w_msg *m, uint32_t num) {
  for (int i = 0; i < m->nopts; i++)
    if (m->opts[i].num == num)
      return &m->opts[i];
  return NULL;
}
static inline uint32_t
w_uint(const struct w_opt *o) {
  uint32_t v = 0;
  for (size_t i = 0; i < o->len && i < 4; i++)
    v = v << 8 | o->val[i];
  return v;
}

/* builder: options must be added in ascending number order */
struct w_buf {
  uint8_t b[1600];
  size_t n;
  uint32_t last;
};
static inline void
w_begin(struct w_buf *w, int type, int code, int mid, const uint8_t *tok, int tkl) {
  w->n = 0;
  w->last = 0;
  w->b[w->n++] = (uint8_t)(0x40 | type << 4 | tkl);
  w->b[w->n++] = (uint8_t)code;
  w->b[w->n++] = (uint8_t)(mid >> 8);
  w->b[w->n++] = (uint8_t)mid;
  if (tkl)
    memcpy(w->b + w->n, tok, (size_t)tkl);
  w->n += (size_t)tkl;
}
static inline void
w_opt_add(struct w_buf *w, uint32_t num, const void *val, size_t len) {
  uint32_t d = num - w->last;
  w->last = num;
  uint8_t *h = &w->b[w->n++];
  uint8_t dn, ln;
  if (d < 13)
    dn = (uint8_t)d;
  else if (d < 269) {
    dn = 13;
    w->b[w->n++] = (uint8_t)(d - 13);
  } else {
    dn = 14;
    w->b[w->n++] = (uint8_t)((d - 269) >> 8);
    w->b[w->n++] = (uint8_t)(d - 269);
  }
  if (len < 13)
    ln = (uint8_t)len;
  else if (len < 269) {
    ln = 13;
    w->b[w->n++] = (uint8_t)(len - 13);
  } else {
    ln = 14;
    w->b[w->n++] = (uint8_t)((len - 269) >> 8);
    w->b[w->n++] = (uint8_t)(len - 269);
  }
  *h = (uint8_t)(dn << 4 | ln);
  if (len)
    memcpy(w->b + w->n, val, len);
  w->n += len;
}
static inline void
w_opt_uint(struct w_buf *w, uint32_t num, uint32_t v) {
  uint8_t tmp[4];
  size_t l = 0;
  if (v >> 24)
    tmp[l++] = (uint8_t)(v >> 24);
  if (v >> 16)
    tmp[l++] = (uint8_t)(v >> 16);
  if (v >> 8)
    tmp[l++] = (uint8_t)(v >> 8);
  if (v)
    tmp[l++] = (uint8_t)v;
  w_opt_add(w, num, tmp, l);
}
static inline void
w_payload(struct w_buf *w, const void *p, size_t len) {
  if (!len)
    return;
  w->b[w->n++] = 0xFF;
  memcpy(w->b + w->n, p, len);
  w->n += len;
}
#endif
