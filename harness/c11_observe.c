/* C11 -- Observe: registered observers get fresh, ordered notifications until cancelled.
 *
 * A real libcoap server context with two observable resources (r1: one block, r2: 40 byte body served with
 * coap_add_data_large_response and a 16 byte Block2 size chosen by the observer) on the simulated network,
 * observed by RAW observers c1, c2 (addresses without libcoap: requests are composed with wire.h, notifications
 * are answered in ns_raw_rx) and, in the "lc" families, by a real libcoap client context in the place of c2.
 *
 * The operation script is itself enumerated (all well-formed sequences over Sigma_ops up to a depth), every
 * scenario is explored by vx under all network schedules with a bounded number of deviations, then run to
 * quiescence, jumped past the idle-session timeout and probed with further changes.
 *
 * Oracle: ref/refobs.c, a per (observer, resource, query) automaton fed from the wire (ns_on_send /
 * ns_on_deliver), from the server application's NACK callback ("confirmable notification timed out") and
 * from the script (resource deleted, session dropped).
 *
 * Signatures (clause[:cause or last script op][:shape]):
 *   wrong-token:<op>           notification carries a token the observer never registered with
 *   wrong-token:rereg          new notification carries the token a re-registration replaced
 *   notify-after:<cause>       NEW notification emitted after the deregistering event was processed by the server
 *                              (<cause> = cancel | rst | giveup | error | close | del); suffix :older-notification
 *                              when the Reset answered an older notification than the newest one
 *   retx-after:<cause>         retransmission of an already sent CON notification after that point
 *                              (<cause> as above or rereg = its token was replaced by a re-registration)
 *   observe-not-increasing:<op>                          Observe value not newer than an earlier notification's
 *   observe-not-increasing:equals-earlier-reg-response   ... equal to the value in the response to a (re-)registration
 *                              request (or a duplicate of it) answered between the change and the notification
 *   observe-regresses:reg-response                       registration response older than an earlier notification
 *   wire:observe-option-longer-than-3-bytes
 *   no-con-in-6, non-in-con-mode, con-in-non-always-mode
 *   stale-last-state:<op>      quiescent, still registered, newest notification older than the last change
 *   stale-last-state:pending-without-timer   same, and libcoap still has the notification pending (observe_pending)
 *                              while coap_io_prepare_io() announced no timer and nothing is in flight
 *   missed-notification:<op> / dup-entry:<op>   a fault free change produced 0 / more than 1 notification
 *   subscriber-count:extra|missing:<op>         resource->subscribers disagrees with the reference at the very end
 *                                               (cross-check, only when the wire checks found nothing)
 *   session-reclaimed-with-observers, session-unreferenced-with-observers
 *   client:foreign-token       (lc family) the client's response handler got a token it never used
 * <op> is "rereg" when the entry had been re-registered, else the kind of the last script operation ("probe" for
 * the fault free changes after the script).
 *
 * Soundness notes.  Verdicts are taken at emission time (ns_on_send), so a notification that was already in flight
 * when the deregistering event was processed is never blamed.  A deregistering event counts from the moment the
 * server has processed it: Observe:1 request answered, RST handed to the server, NACK(TOO_MANY_RETRIES) callback,
 * error response emitted, coap_delete_resource / coap_session_disconnected called.  A cancel that names another
 * token than the current one, or a request that got no answer, leaves the entry in state MAYBE (no check applies).
 * Registration responses (piggybacked ACKs) only have to be not older than earlier notifications; notifications
 * proper have to be strictly newer than everything sent before for that (observer, resource, query), also across
 * re-registration.  The NON run that must contain a CON restarts at every accepted (re-)registration.
 */
#include "netsim.h"
#include "wire.h"
#include "refobs.h"

/* ------------------------------------------------------------------------------------------ */
enum { M_DEF, M_CON, M_NONALW };
static const char *mode_names[] = {"def", "con", "nonalw"};
enum { OP_REG, OP_REREG, OP_CANCEL, OP_CHG, OP_CHG3, OP_RST, OP_ERR, OP_DEL, OP_CLOSE, OP_SIL, OP_NKINDS };
static const char *op_names[] = {"reg", "rereg", "cancel", "chg", "chg3", "rst", "err", "del", "close", "sil"};

struct op {
  uint8_t kind, c, r, q;
};
#define MAXOPS 6
struct cfg {
  char name[230];
  int mode;     /* resource notification mode */
  int wrap;     /* Observe counters start just below 2^24 */
  int lc;       /* c2 is a real libcoap client context */
  int nofetch;  /* raw observers do not fetch the remaining blocks of a multi-block notification */
  int verdicts; /* every notification offers "answer with RST" as a cost-1 alternative */
  int fault_blocks; /* block-wise follow-up requests / responses may be dropped, duplicated, reordered too */
  int sametok;  /* both raw observers draw their tokens from the same sequence: equal token bytes on different sessions */
  int nops;
  struct op ops[MAXOPS];
  int bound;
};

#define H_SRV 1
#define H_OBS0 51 /* c1 = .51, c2 = .52, stranger = .53 */
#define NOBS 2
#define NRES 2
#define R2_LEN 40

static struct cfg *C;
static refobs_t RO;
static coap_context_t *sc, *cc;
static coap_session_t *cs;
static coap_resource_t *res[NRES];
static coap_address_t srv_addr, obs_addr[3];
static const char *res_name[NRES] = {"r1", "r2"};

/* server application state */
static long val[NRES];
static int hcalls;
static int err_armed[NRES];
static int deleted[NRES];

/* observers (raw or libcoap client application) */
struct oreq {
  uint8_t tok[2];
  int r, q, kind; /* kind 0 registration / cancel, 1 block fetch */
};
struct observer {
  int silent, rst_armed;
  int next_mid, next_tok;
  int nreq;
  struct oreq req[96];
  int have_regtok[NRES][2];
  uint8_t regtok[NRES][2][2];
  int nseen;
  struct {
    int type, mid, verdict; /* verdict: 0 ACK, 1 RST, 2 nothing */
  } seen[128];
};
static struct observer OB[3];

static int pos;          /* next script op */
static int phase;        /* 0 script, 1 drain, 2 long idle, 3 probes */
static int last_ops[2];  /* kinds of the last two script ops executed (-1 none, OP_NKINDS = probe) */
static int reported_subcount;

static const char *
opname(int k) {
  return k < 0 ? "start" : k >= OP_NKINDS ? "probe" : op_names[k];
}
static const char *
blame(const struct ro_reg *reg) {
  if (reg && reg->reregs > 0)
    return "rereg";
  return opname(last_ops[1]);
}
static const char *
tokstr(const uint8_t *t, int l) {
  static char b[4][20];
  static int r;
  char *s = b[r++ & 3];
  vx_hex(s, 20, t, (size_t)l);
  return s;
}
static const char *
regstr(const struct ro_reg *r) {
  static char b[4][24];
  static int k;
  char *s = b[k++ & 3];
  if (!r)
    return "-";
  snprintf(s, 24, "c%d/%s/q%d", r->observer + 1, res_name[r->resource], r->query);
  return s;
}

/* ------------------------------------------------------------------------------------------ */
/* server application                                                                          */
static void
rel_body(coap_session_t *session, void *app_ptr) {
  (void)session;
  free(app_ptr);
}

static void
hnd_get(coap_resource_t *resource, coap_session_t *session, const coap_pdu_t *request, const coap_string_t *query,
        coap_pdu_t *response) {
  int r = (int)(intptr_t)coap_resource_get_userdata(resource) - 1;
  hcalls++;
  if (err_armed[r]) {
    err_armed[r] = 0;
    vx_observe("   app: GET %s handler call %d -> 4.04 (err armed)", res_name[r], hcalls);
    coap_pdu_set_code(response, COAP_RESPONSE_CODE_NOT_FOUND);
    return;
  }
  coap_pdu_set_code(response, COAP_RESPONSE_CODE_CONTENT);
  char buf[R2_LEN + 1];
  int n = snprintf(buf, sizeof buf, "v%ld;h%d;%s;", val[r], hcalls, res_name[r]);
  if (r == 0) {
    coap_add_data(response, (size_t)n, (const uint8_t *)buf);
  } else {
    uint8_t *body = malloc(R2_LEN);
    memset(body, '.', R2_LEN);
    memcpy(body, buf, (size_t)(n < R2_LEN ? n : R2_LEN));
    if (!coap_add_data_large_response(resource, session, request, response, query, COAP_MEDIATYPE_TEXT_PLAIN, -1, 0, R2_LEN,
                                      body, rel_body, body))
      vx_observe("   app: coap_add_data_large_response failed");
  }
}

static int
obs_of_session(const coap_session_t *s) {
  const coap_address_t *a = coap_session_get_addr_remote(s);
  int h = ns_addr_host(a) - H_OBS0;
  return h >= 0 && h < 3 ? h : -1;
}

static void
srv_nack(coap_session_t *session, const coap_pdu_t *sent, const coap_nack_reason_t reason, const coap_mid_t mid) {
  int o = obs_of_session(session);
  vx_observe("t=%llu S NACK c%d reason=%d mid=%04x", (unsigned long long)ns_now(), o + 1, reason, mid & 0xffff);
  if (reason == COAP_NACK_TOO_MANY_RETRIES && sent && o >= 0 && o < NOBS) {
    coap_bin_const_t t = coap_pdu_get_token(sent);
    struct ro_reg *reg = ro_con_timed_out(&RO, o, t.s, (int)t.length);
    if (reg && reg->state == RO_NO)
      vx_observe("   ref: %s deregistered (confirmable notification timed out)", regstr(reg));
    vx_nontrivial();
  }
}

static int
srv_event(coap_session_t *session, const coap_event_t event) {
  int o = obs_of_session(session);
  if (event == COAP_EVENT_SERVER_SESSION_NEW) {
    coap_session_set_max_retransmit(session, 2);
    vx_observe("t=%llu S session NEW c%d", (unsigned long long)ns_now(), o + 1);
  } else if (event == COAP_EVENT_SERVER_SESSION_DEL) {
    vx_observe("t=%llu S session DEL c%d", (unsigned long long)ns_now(), o + 1);
    if (o >= 0 && o < NOBS)
      for (int i = 0; i < RO.nregs; i++)
        if (RO.regs[i].used && RO.regs[i].observer == o && RO.regs[i].state == RO_YES)
          vx_fail("session-reclaimed-with-observers", "server session of c%d freed at t=%llu while %s is registered", o + 1,
                  (unsigned long long)ns_now(), regstr(&RO.regs[i]));
  }
  return 0;
}

/* ------------------------------------------------------------------------------------------ */
/* wire monitor                                                                                */
static void
parse_payload(const struct w_msg *m, long *v, int *h) {
  *v = -1;
  *h = -1;
  if (!m->payload || m->payload_len < 3 || m->payload[0] != 'v')
    return;
  char b[48];
  size_t n = m->payload_len < sizeof b - 1 ? m->payload_len : sizeof b - 1;
  memcpy(b, m->payload, n);
  b[n] = 0;
  long vv;
  int hh;
  if (sscanf(b, "v%ld;h%d;", &vv, &hh) == 2) {
    *v = vv;
    *h = hh;
  }
}

static void
report(int v, const struct ro_reg *reg, const struct w_msg *m, int o, uint32_t obsval) {
  char sig[120];
  const char *tk = tokstr(m->token, m->tkl);
  switch (v) {
  case RO_OK:
  case RO_IGNORED:
    return;
  case RO_V_UNKNOWN_TOKEN:
    snprintf(sig, sizeof sig, "wrong-token:%s", opname(last_ops[1]));
    vx_fail(sig, "notification mid=%04x to c%d carries token %s (Observe %u) that c%d never used for a registration", m->mid, o + 1, tk,
            obsval, o + 1);
    return;
  case RO_V_OLD_TOKEN:
    vx_fail("wrong-token:rereg", "%s: new notification mid=%04x Observe %u carries token %s which a re-registration replaced",
            regstr(reg), m->mid, obsval, tk);
    return;
  case RO_V_AFTER_DEREG:
    snprintf(sig, sizeof sig, "notify-after:%s%s", ro_cause_name(RO.v_cause), RO.v_rst_older ? ":older-notification" : "");
    vx_fail(sig, "%s: new notification mid=%04x type=%d Observe %u token %s emitted after deregistration (%s) was processed by the server",
            regstr(reg), m->mid, m->type, obsval, tk, ro_cause_name(RO.v_cause));
    return;
  case RO_V_RETX_AFTER_DEREG:
    snprintf(sig, sizeof sig, "retx-after:%s", ro_cause_name(RO.v_cause));
    vx_fail(sig, "%s: CON notification mid=%04x Observe %u token %s retransmitted after deregistration (%s) was processed by the server",
            regstr(reg), m->mid, obsval, tk, ro_cause_name(RO.v_cause));
    return;
  case RO_V_NOT_INCREASING:
    snprintf(sig, sizeof sig, "observe-not-increasing:%s", blame(reg));
    vx_fail(sig, "%s: notification mid=%04x Observe %u is not newer (RFC 7641 3.4) than an earlier one", regstr(reg), m->mid, obsval);
    return;
  case RO_V_EQUALS_REG_RESPONSE:
    vx_fail("observe-not-increasing:equals-earlier-reg-response",
            "%s: notification mid=%04x carries Observe %u, the same number as the response to a (re-)registration request that was answered "
            "after the change was signalled and before the notification left", regstr(reg), m->mid, obsval);
    return;
  case RO_V_REG_RESPONSE_OLDER:
    vx_fail("observe-regresses:reg-response", "%s: registration response Observe %u is older than an earlier notification's",
            regstr(reg), obsval);
    return;
  case RO_V_NO_CON:
    vx_fail("no-con-in-6", "%s: notification mid=%04x is the 6th consecutive non-confirmable one", regstr(reg), m->mid);
    return;
  case RO_V_NON_IN_CON_MODE:
    vx_fail("non-in-con-mode", "%s: non-confirmable notification mid=%04x from a COAP_RESOURCE_FLAGS_NOTIFY_CON resource", regstr(reg),
            m->mid);
    return;
  case RO_V_CON_IN_NON_MODE:
    vx_fail("con-in-non-always-mode", "%s: confirmable notification mid=%04x from a COAP_RESOURCE_FLAGS_NOTIFY_NON_ALWAYS resource",
            regstr(reg), m->mid);
    return;
  }
}

static void
on_send(const ns_dgram_t *d) {
  int sh = ns_addr_host(&d->src), dh = ns_addr_host(&d->dst);
  struct w_msg m;
  if (!w_parse(d->data, d->len, &m)) {
    vx_fail("wire:malformed", "%s emitted a malformed datagram", sh == H_SRV ? "server" : "client");
    return;
  }
  const struct w_opt *oo = w_find(&m, 6), *b2 = w_find(&m, 23);
  if (sh == H_SRV) {
    int o = dh - H_OBS0;
    long v;
    int h;
    parse_payload(&m, &v, &h);
    char ob[16] = "-", bb[16] = "-";
    if (oo)
      snprintf(ob, sizeof ob, "%u", w_uint(oo));
    if (b2)
      snprintf(bb, sizeof bb, "%u/%u", w_uint(b2) >> 4, (w_uint(b2) >> 3) & 1);
    vx_observe("t=%llu S>c%d #%d type=%d %d.%02d mid=%04x tok=%s obs=%s b2=%s v=%ld h=%d", (unsigned long long)ns_now(), o + 1, d->id,
               m.type, m.code >> 5, m.code & 31, m.mid, tokstr(m.token, m.tkl), ob, bb, v, h);
    if (oo && oo->len > 3)
      vx_fail("wire:observe-option-longer-than-3-bytes", "mid=%04x: Observe option of %zu bytes (RFC 7641 2: 0-3 bytes)", m.mid, oo->len);
    if (o < 0 || o >= NOBS)
      return;
    struct ro_emit e = {.observer = o, .type = m.type, .code = m.code, .mid = m.mid, .tok = m.token, .tkl = m.tkl,
                        .has_obs = oo != NULL, .obs = oo ? w_uint(oo) : 0, .val = v};
    struct ro_reg *reg = NULL;
    int st_before[RO_MAXREG];
    for (int i = 0; i < RO.nregs; i++)
      st_before[i] = RO.regs[i].state;
    int nb = RO.nregs;
    int verdict = ro_emit(&RO, &e, &reg);
    if (reg) {
      int idx = (int)(reg - RO.regs);
      int before = idx < nb ? st_before[idx] : RO_NO;
      if (before != reg->state)
        vx_observe("   ref: %s %s -> %s%s%s", regstr(reg), before == RO_YES ? "YES" : before == RO_NO ? "NO" : "MAYBE",
                   reg->state == RO_YES ? "YES" : reg->state == RO_NO ? "NO" : "MAYBE", reg->state != RO_YES ? " cause=" : "",
                   reg->state != RO_YES ? ro_cause_name(reg->cause) : "");
    }
    if (m.type == 0 && reg) {
      /* retransmission seen on the wire */
      for (int n = 0; n < reg->nnotes; n++)
        if (reg->notes[n].mid == m.mid && reg->notes[n].ntx > 1)
          vx_nontrivial();
    }
    report(verdict, reg, &m, o, e.obs);
  } else {
    vx_observe("t=%llu C%d> #%d type=%d code=%d mid=%04x tok=%s obs=%s", (unsigned long long)ns_now(), sh - H_OBS0 + 1, d->id, m.type,
               m.code, m.mid, tokstr(m.token, m.tkl), oo ? (w_uint(oo) ? "1" : "0") : "-");
  }
}

static void
on_deliver(const ns_dgram_t *d) {
  int sh = ns_addr_host(&d->src), dh = ns_addr_host(&d->dst);
  struct w_msg m;
  if (!w_parse(d->data, d->len, &m))
    return;
  if (dh != H_SRV) {
    if (C->lc && dh == H_OBS0 + 1)
      vx_observe("t=%llu >C2 #%d type=%d code=%d mid=%04x", (unsigned long long)ns_now(), d->id, m.type, m.code, m.mid);
    return;
  }
  int o = sh - H_OBS0;
  if (m.code >= 1 && m.code < 32) {
    int r = -1, q = 0, action = -1, bnum = 0;
    for (int i = 0; i < m.nopts; i++) {
      const struct w_opt *op = &m.opts[i];
      if (op->num == 11 && op->len == 2 && op->val[0] == 'r' && (op->val[1] == '1' || op->val[1] == '2'))
        r = op->val[1] - '1';
      else if (op->num == 15)
        q = 1;
      else if (op->num == 6)
        action = (int)w_uint(op);
      else if (op->num == 23)
        bnum = (int)(w_uint(op) >> 4);
    }
    if (action > 1 || bnum > 0 || r < 0)
      action = -1;
    vx_observe("t=%llu c%d>S #%d GET %s q%d observe=%d b2num=%d mid=%04x tok=%s", (unsigned long long)ns_now(), o + 1, d->id,
               r >= 0 ? res_name[r] : "?", q, action, bnum, m.mid, tokstr(m.token, m.tkl));
    if (o >= 0 && o < NOBS && r >= 0)
      ro_request_begin(&RO, o, r, q, action, m.token, m.tkl);
  } else if (m.code == 0 && m.type == 2) {
    vx_observe("t=%llu c%d>S #%d ACK mid=%04x", (unsigned long long)ns_now(), o + 1, d->id, m.mid);
    if (o >= 0 && o < NOBS)
      ro_ack_delivered(&RO, o, m.mid);
  } else if (m.code == 0 && m.type == 3) {
    struct ro_reg *reg = o >= 0 && o < NOBS ? ro_rst_delivered(&RO, o, m.mid) : NULL;
    vx_observe("t=%llu c%d>S #%d RST mid=%04x%s%s%s", (unsigned long long)ns_now(), o + 1, d->id, m.mid, reg ? " ref: " : "",
               reg ? regstr(reg) : "", reg ? (reg->rst_older ? " deregistered (Reset for an older notification)" : " deregistered") : "");
    if (reg)
      vx_nontrivial();
  }
}

static void
after_deliver(void) {
  struct ro_reg *before = NULL;
  int st = -1;
  if (RO.in_req) {
    before = ro_find(&RO, RO.req_observer, RO.req_resource, RO.req_query);
    st = before ? before->state : -1;
  }
  int was = RO.in_req, answered = RO.req_answered;
  ro_request_end(&RO);
  if (was && !answered) {
    struct ro_reg *r = ro_find(&RO, RO.req_observer, RO.req_resource, RO.req_query);
    if (r && r->state != st)
      vx_observe("   ref: %s request got no piggybacked answer -> %s", regstr(r), r->state == RO_MAYBE ? "MAYBE" : r->state == RO_YES ? "YES" : "NO");
  }
}

/* ------------------------------------------------------------------------------------------ */
/* observers                                                                                   */
static void
fresh_token(int c, uint8_t tok[2]) {
  tok[0] = (uint8_t)(0xA0 + (C->sametok ? 0 : c));
  tok[1] = (uint8_t)(OB[c].next_tok++);
}
static struct oreq *
oreq_add(int c, const uint8_t tok[2], int r, int q, int kind) {
  struct observer *ob = &OB[c];
  if (ob->nreq >= 96)
    return NULL;
  struct oreq *x = &ob->req[ob->nreq++];
  memcpy(x->tok, tok, 2);
  x->r = r;
  x->q = q;
  x->kind = kind;
  return x;
}
static struct oreq *
oreq_find(int c, const uint8_t *tok, int tkl) {
  struct observer *ob = &OB[c];
  if (tkl != 2)
    return NULL;
  for (int i = ob->nreq - 1; i >= 0; i--)
    if (!memcmp(ob->req[i].tok, tok, 2))
      return &ob->req[i];
  return NULL;
}

/* observe: -1 no option, 0 register, 1 deregister; bnum < 0: no Block2 option */
static void
obs_send_get(int c, int r, int q, int observe, const uint8_t tok[2], int bnum, int now) {
  if (C->lc && c == 1) {
    coap_pdu_t *p = coap_new_pdu(COAP_MESSAGE_CON, COAP_REQUEST_CODE_GET, cs);
    uint8_t b[4];
    coap_add_token(p, 2, tok);
    if (observe >= 0)
      coap_add_option(p, COAP_OPTION_OBSERVE, coap_encode_var_safe(b, sizeof b, (unsigned)observe), b);
    coap_add_option(p, COAP_OPTION_URI_PATH, 2, (const uint8_t *)res_name[r]);
    if (q)
      coap_add_option(p, COAP_OPTION_URI_QUERY, 3, (const uint8_t *)"x=1");
    coap_mid_t mid = coap_send(cs, p);
    vx_observe("t=%llu C2 app: coap_send GET %s q%d observe=%d tok=%s -> %d", (unsigned long long)ns_now(), res_name[r], q, observe,
               tokstr(tok, 2), mid == COAP_INVALID_MID ? -1 : (mid & 0xffff));
    return;
  }
  struct w_buf w;
  int mid = OB[c].next_mid++;
  w_begin(&w, 0, 1, mid, tok, 2);
  if (observe >= 0)
    w_opt_uint(&w, 6, (uint32_t)observe);
  w_opt_add(&w, 11, res_name[r], 2);
  if (q)
    w_opt_add(&w, 15, "x=1", 3);
  if (bnum >= 0)
    w_opt_uint(&w, 23, (uint32_t)bnum << 4); /* SZX 0 = 16 byte blocks */
  if (now)
    ns_inject_now(&obs_addr[c], &srv_addr, w.b, w.n);
  else
    ns_inject(&obs_addr[c], &srv_addr, w.b, w.n);
}

static void
raw_rx(const ns_dgram_t *d) {
  int c = ns_addr_host(&d->dst) - H_OBS0;
  struct w_msg m;
  if (c < 0 || c > 2 || !w_parse(d->data, d->len, &m))
    return;
  struct observer *ob = &OB[c];
  if (ob->silent) {
    vx_observe("   c%d (silent) ignores #%d", c + 1, d->id);
    return;
  }
  if (m.code < 64)
    return; /* empty ACK / RST from the server */
  const struct w_opt *oo = w_find(&m, 6), *b2 = w_find(&m, 23);
  int verdict = 2;
  if (m.type == 0 || m.type == 1) {
    int k;
    for (k = 0; k < ob->nseen; k++)
      if (ob->seen[k].type == m.type && ob->seen[k].mid == m.mid)
        break;
    if (k < ob->nseen) {
      /* duplicate (retransmission or network copy): same verdict again, nothing else */
      verdict = ob->seen[k].verdict;
      vx_observe("   c%d: duplicate of mid=%04x, verdict %d again", c + 1, m.mid, verdict);
      if (verdict != 2) {
        uint8_t pkt[4] = {(uint8_t)(verdict == 0 ? 0x60 : 0x70), 0, (uint8_t)(m.mid >> 8), (uint8_t)m.mid};
        ns_inject(&d->dst, &d->src, pkt, 4);
      }
      return;
    }
    verdict = m.type == 0 ? 0 : 2;
    if (oo && ob->rst_armed) {
      verdict = 1;
      ob->rst_armed = 0;
    } else if (oo && C->verdicts && phase <= 1 && vx_budget_left() > 0) {
      if (vx_choose(2, NULL, "verdict"))
        verdict = 1;
    }
    if (ob->nseen < 128) {
      ob->seen[ob->nseen].type = m.type;
      ob->seen[ob->nseen].mid = m.mid;
      ob->seen[ob->nseen].verdict = verdict;
      ob->nseen++;
    }
    if (verdict != 2) {
      uint8_t pkt[4] = {(uint8_t)(verdict == 0 ? 0x60 : 0x70), 0, (uint8_t)(m.mid >> 8), (uint8_t)m.mid};
      vx_observe("   c%d answers mid=%04x with %s", c + 1, m.mid, verdict == 0 ? "ACK" : "RST");
      ns_inject(&d->dst, &d->src, pkt, 4);
    }
  }
  /* block-wise: fetch the next block of a 2.xx body */
  if (c < NOBS && (m.code >> 5) == 2 && b2 && ((w_uint(b2) >> 3) & 1) && !C->nofetch && verdict != 1) {
    struct oreq *rq = oreq_find(c, m.token, m.tkl);
    if (rq) {
      uint8_t tok[2];
      fresh_token(c, tok);
      int r = rq->r, q = rq->q;
      oreq_add(c, tok, r, q, 1);
      vx_observe("   c%d fetches block %u of %s", c + 1, (w_uint(b2) >> 4) + 1, res_name[r]);
      obs_send_get(c, r, q, -1, tok, (int)(w_uint(b2) >> 4) + 1, 0);
    }
  }
}

/* libcoap client application (lc family) */
static coap_response_t
cli_resp(coap_session_t *session, const coap_pdu_t *sent, const coap_pdu_t *received, const coap_mid_t mid) {
  (void)session;
  (void)sent;
  coap_bin_const_t t = coap_pdu_get_token(received);
  coap_opt_iterator_t oi;
  coap_opt_t *o = coap_check_option(received, COAP_OPTION_OBSERVE, &oi);
  size_t len = 0;
  const uint8_t *data = NULL;
  coap_get_data(received, &len, &data);
  vx_observe("t=%llu C2 RESP-HANDLER type=%d code=%d mid=%04x tok=%s obs=%d len=%zu", (unsigned long long)ns_now(),
             coap_pdu_get_type(received), coap_pdu_get_code(received), mid & 0xffff, tokstr(t.s, (int)t.length),
             o ? (int)coap_decode_var_bytes(coap_opt_value(o), coap_opt_length(o)) : -1, len);
  if (!oreq_find(1, t.s, (int)t.length))
    vx_fail("client:foreign-token", "client response handler got token %s which the application never used", tokstr(t.s, (int)t.length));
  if (o && OB[1].rst_armed) {
    OB[1].rst_armed = 0;
    vx_observe("   C2 app rejects the notification (COAP_RESPONSE_FAIL -> RST)");
    return COAP_RESPONSE_FAIL;
  }
  return COAP_RESPONSE_OK;
}
static void
cli_nack(coap_session_t *session, const coap_pdu_t *sent, const coap_nack_reason_t reason, const coap_mid_t mid) {
  (void)session;
  (void)sent;
  vx_observe("t=%llu C2 NACK reason=%d mid=%04x", (unsigned long long)ns_now(), reason, mid & 0xffff);
}

/* ------------------------------------------------------------------------------------------ */
/* script                                                                                      */
static void
push_op(int kind) {
  last_ops[0] = last_ops[1];
  last_ops[1] = kind;
}

static void
do_change(int r) {
  val[r]++;
  int rc = coap_resource_notify_observers(res[r], NULL);
  vx_observe("t=%llu app: %s := v%ld, coap_resource_notify_observers -> %d", (unsigned long long)ns_now(), res_name[r], val[r], rc);
}

static void
do_op(const struct op *o) {
  push_op(o->kind);
  int c = o->c, r = o->r, q = o->q;
  uint8_t tok[2];
  switch (o->kind) {
  case OP_REG:
  case OP_REREG:
    fresh_token(c, tok);
    memcpy(OB[c].regtok[r][q], tok, 2);
    OB[c].have_regtok[r][q] = 1;
    oreq_add(c, tok, r, q, 0);
    vx_observe("t=%llu OP %s(c%d,%s,q%d) tok=%s", (unsigned long long)ns_now(), op_names[o->kind], c + 1, res_name[r], q, tokstr(tok, 2));
    obs_send_get(c, r, q, 0, tok, r == 1 && !(C->lc && c == 1) ? 0 : -1, 0);
    break;
  case OP_CANCEL:
    memcpy(tok, OB[c].regtok[r][q], 2);
    vx_observe("t=%llu OP cancel(c%d,%s,q%d) tok=%s", (unsigned long long)ns_now(), c + 1, res_name[r], q, tokstr(tok, 2));
    obs_send_get(c, r, q, 1, tok, r == 1 && !(C->lc && c == 1) ? 0 : -1, 0);
    break;
  case OP_CHG:
    vx_observe("t=%llu OP chg(%s)", (unsigned long long)ns_now(), res_name[r]);
    do_change(r);
    break;
  case OP_CHG3:
    vx_observe("t=%llu OP chg3(%s)", (unsigned long long)ns_now(), res_name[r]);
    do_change(r);
    do_change(r);
    do_change(r);
    break;
  case OP_RST:
    vx_observe("t=%llu OP rst(c%d): next notification is answered with RST", (unsigned long long)ns_now(), c + 1);
    OB[c].rst_armed = 1;
    break;
  case OP_ERR:
    vx_observe("t=%llu OP err(%s): next GET handler call answers 4.04", (unsigned long long)ns_now(), res_name[r]);
    err_armed[r] = 1;
    break;
  case OP_SIL:
    vx_observe("t=%llu OP sil(c%d): observer is silent from now on", (unsigned long long)ns_now(), c + 1);
    OB[c].silent = 1;
    break;
  case OP_DEL:
    vx_observe("t=%llu OP del(%s): coap_delete_resource", (unsigned long long)ns_now(), res_name[r]);
    /* the final 4.04 (no Observe option) that libcoap emits inside the call is allowed by the anchor */
    ro_resource_deleted(&RO, r);
    coap_delete_resource(sc, res[r]);
    res[r] = NULL;
    deleted[r] = 1;
    break;
  case OP_CLOSE: {
    coap_session_t *s = coap_session_get_by_peer(sc, &obs_addr[c], 1);
    vx_observe("t=%llu OP close(c%d): coap_session_disconnected(%s)", (unsigned long long)ns_now(), c + 1, s ? "session" : "no session");
    if (s)
      coap_session_disconnected(s, COAP_NACK_NOT_DELIVERABLE);
    ro_session_dropped(&RO, c);
    break;
  }
  }
}

/* ------------------------------------------------------------------------------------------ */
/* scheduler                                                                                   */
#define HORIZON_MS 3000000ULL

/* a Block2 follow-up: request for block > 0 or its piggybacked response (no Observe option in either) */
static int
is_block_followup(const ns_dgram_t *d) {
  struct w_msg m;
  if (!w_parse(d->data, d->len, &m) || m.code == 0)
    return 0;
  const struct w_opt *b2 = w_find(&m, 23);
  return b2 && (w_uint(b2) >> 4) > 0;
}

static int
step(int allow_dev, unsigned max_timer_ms) {
  enum { EV_DELIVER, EV_OP, EV_TIMER, EV_REORDER, EV_DROP, EV_DUP };
  struct {
    int kind, idx;
  } ev[VX_MAXALT];
  uint8_t cost[VX_MAXALT];
  int n = 0;
  unsigned tmo = ns_prepare_all();
  int nf = ns_inflight_count();
  int ops_left = phase == 0 && pos < C->nops;
  int budget = allow_dev ? vx_budget_left() : 0;
  int timer_ok = tmo && tmo <= max_timer_ms && ns_now() + tmo <= HORIZON_MS;
  /* "the timer fires before the delivery / the next operation" is offered when the timer can matter for
   * observations: a retransmission is queued or a notification is waiting to go out */
  int timer_first_ok = timer_ok && (sc->sendqueue || sc->observe_pending || (cc && cc->sendqueue));
  if (nf > 0)
    ev[n].kind = EV_DELIVER, ev[n].idx = 0, cost[n++] = 0;
  if (ops_left && (nf == 0 || budget > 0))
    ev[n].kind = EV_OP, ev[n].idx = 0, cost[n] = n ? 1 : 0, n++;
  if (timer_ok && ((nf == 0 && !ops_left) || (budget > 0 && timer_first_ok)))
    ev[n].kind = EV_TIMER, ev[n].idx = (int)tmo, cost[n] = n ? 1 : 0, n++;
  if (n == 0)
    return 0;
  if (budget > 0) {
    for (int j = 0; j < nf && j < 4 && n < VX_MAXALT - 3; j++) {
      if (!C->fault_blocks && is_block_followup(ns_inflight(j)))
        continue;
      if (j >= 1)
        ev[n].kind = EV_REORDER, ev[n].idx = j, cost[n++] = 1;
      ev[n].kind = EV_DROP, ev[n].idx = j, cost[n++] = 1;
      if (ns_dups_done < 2)
        ev[n].kind = EV_DUP, ev[n].idx = j, cost[n++] = 1;
    }
  }
  int c = vx_choose(n, cost, "step");
  switch (ev[c].kind) {
  case EV_DELIVER:
    ns_deliver(0);
    after_deliver();
    break;
  case EV_REORDER:
    vx_observe("   reorder: deliver dgram#%d first", ns_inflight(ev[c].idx)->id);
    ns_deliver(ev[c].idx);
    after_deliver();
    break;
  case EV_DUP:
    vx_observe("   dup dgram#%d", ns_inflight(ev[c].idx)->id);
    ns_duplicate(ev[c].idx);
    after_deliver();
    break;
  case EV_DROP:
    vx_observe("   drop dgram#%d", ns_inflight(ev[c].idx)->id);
    ns_drop(ev[c].idx);
    break;
  case EV_OP:
    if (nf > 0)
      vx_observe("   (operation while %d datagrams are in flight)", nf);
    /* environment answer: the socket refuses the next transmission once (ENOBUFS) - after a change that is the notification,
     * which libcoap has to try again ("the last state is always eventually notified") */
    int refusal_ok = C->mode == M_CON; /* (the every-sixth-Confirmable count is kept by attempts, the model counts the wire) */
    for (int k = 0; k < C->nops && refusal_ok; k++)
      if (C->ops[k].kind == OP_ERR)
        refusal_ok = 0; /* (an error response that deregisters is known to the model from the wire only) */
    if ((C->ops[pos].kind == OP_CHG || C->ops[pos].kind == OP_CHG3) && budget > 0 && nf == 0 && refusal_ok &&
        vx_choose(2, NULL, "socket-refuses") == 1) {
      vx_observe("   (the socket will refuse the next transmission)");
      ns_send_fail_next = 1;
      vx_nontrivial();
    }
    do_op(&C->ops[pos++]);
    break;
  case EV_TIMER:
    if (nf > 0 || ops_left)
      vx_observe("   (timer fires first)");
    vx_observe("t=%llu timer +%ums", (unsigned long long)ns_now(), (unsigned)ev[c].idx);
    ns_advance((uint64_t)ev[c].idx);
    break;
  }
  if (c)
    vx_nontrivial();
  return 1;
}

static int total_steps;
static void
run_quiet(int allow_dev, unsigned max_timer_ms) {
  while (total_steps < 1500 && step(allow_dev, max_timer_ms))
    total_steps++;
}

/* ------------------------------------------------------------------------------------------ */
/* checks at quiescent points                                                                  */
static void
check_sessions(const char *when) {
  for (int i = 0; i < RO.nregs; i++) {
    struct ro_reg *r = &RO.regs[i];
    if (!r->used || r->state != RO_YES)
      continue;
    coap_session_t *s = coap_session_get_by_peer(sc, &obs_addr[r->observer], 1);
    if (!s) {
      vx_fail("session-reclaimed-with-observers", "%s: no server session for c%d although %s is registered", when, r->observer + 1,
              regstr(r));
      return;
    }
    if (s->ref == 0) {
      vx_fail("session-unreferenced-with-observers", "%s: server session of c%d has ref 0 (idle, reclaimable) although %s is registered", when,
              r->observer + 1, regstr(r));
      return;
    }
  }
}

static void
check_fresh(const char *when) {
  for (int i = 0; i < RO.nregs; i++) {
    struct ro_reg *r = &RO.regs[i];
    if (!r->used || r->state != RO_YES || deleted[r->resource])
      continue;
    if (r->last_val != val[r->resource]) {
      char sig[100];
      /* shape: libcoap still has the notification pending but announced no timer (coap_io_prepare_io() returned 0
       * with nothing in flight): an application blocking in coap_io_process(ctx, COAP_IO_WAIT) never sends it */
      snprintf(sig, sizeof sig, "stale-last-state:%s", sc->observe_pending ? "pending-without-timer" : blame(r));
      vx_fail(sig, "%s: %s is registered and everything is quiescent (no datagram in flight, coap_io_prepare_io() announces no timer%s), newest notification sent carries v%ld but the resource is at v%ld",
              when, regstr(r), sc->observe_pending ? ", observe_pending still set" : "", r->last_val, val[r->resource]);
    }
  }
}

static void
check_subscribers(const char *when) {
  if (vx_failed() || reported_subcount)
    return;
  for (int x = 0; x < NRES; x++) {
    if (!res[x])
      continue;
    int cnt = 0, lo = 0, hi = 0;
    coap_subscription_t *s;
    LL_COUNT(res[x]->subscribers, s, cnt);
    const struct ro_reg *who = NULL;
    for (int i = 0; i < RO.nregs; i++) {
      struct ro_reg *r = &RO.regs[i];
      if (!r->used || r->resource != x)
        continue;
      if (r->state == RO_YES)
        lo++, hi++;
      else if (r->state == RO_MAYBE)
        hi++;
      if (r->reregs)
        who = r;
    }
    if (cnt < lo || cnt > hi) {
      char sig[100];
      snprintf(sig, sizeof sig, "subscriber-count:%s:%s", cnt > hi ? "extra" : "missing", blame(who));
      vx_fail(sig, "%s: %s has %d subscriber entries, reference says %d..%d", when, res_name[x], cnt, lo, hi);
      reported_subcount = 1;
      return;
    }
  }
}

static void
probe_round(int k) {
  char when[32];
  snprintf(when, sizeof when, "probe %d", k);
  ro_mark(&RO);
  push_op(OP_NKINDS);
  int any = 0;
  for (int r = 0; r < NRES; r++)
    if (res[r]) {
      do_change(r);
      any = 1;
    }
  if (!any)
    return;
  run_quiet(0, 100000);
  for (int i = 0; i < RO.nregs; i++) {
    struct ro_reg *r = &RO.regs[i];
    if (!r->used || r->state_at_mark != RO_YES || deleted[r->resource])
      continue;
    long got = r->total_new - r->mark_new;
    long want = r->state == RO_NO && r->cause == RO_C_ERROR ? 0 : 1;
    char sig[100];
    if (got > want) {
      snprintf(sig, sizeof sig, "dup-entry:%s", blame(r));
      vx_fail(sig, "%s: one change of %s produced %ld notifications for %s", when, res_name[r->resource], got, regstr(r));
    } else if (got < want && r->last_val != val[r->resource] && sc->observe_pending) {
      ; /* reported by check_fresh below as stale-last-state:pending-without-timer */
    } else if (got < want) {
      snprintf(sig, sizeof sig, "missed-notification:%s", blame(r));
      vx_fail(sig, "%s: change of %s to v%ld produced no notification for registered %s", when, res_name[r->resource], val[r->resource],
              regstr(r));
    }
  }
  check_fresh(when);
}

/* ------------------------------------------------------------------------------------------ */
static void
run(void *arg) {
  C = arg;
  ns_init();
  memset(OB, 0, sizeof OB);
  memset(val, 0, sizeof val);
  memset(err_armed, 0, sizeof err_armed);
  memset(deleted, 0, sizeof deleted);
  hcalls = 0;
  pos = 0;
  phase = 0;
  total_steps = 0;
  reported_subcount = 0;
  last_ops[0] = last_ops[1] = -1;
  ro_init(&RO, C->mode == M_DEF ? 6 : C->mode == M_CON ? 1 : 0, C->mode == M_NONALW, 1);
  ns_on_send = on_send;
  ns_on_deliver = on_deliver;
  ns_raw_rx = raw_rx;
  ns_addr(&srv_addr, H_SRV, 5683);
  for (int c = 0; c < 3; c++) {
    ns_addr(&obs_addr[c], H_OBS0 + c, 40001 + c);
    OB[c].next_mid = 0x1000 * (c + 1);
    OB[c].next_tok = 1;
  }
  sc = coap_new_context(NULL);
  ns_register_ctx(sc);
  coap_context_set_block_mode(sc, COAP_BLOCK_USE_LIBCOAP);
  coap_register_event_handler(sc, srv_event);
  coap_register_nack_handler(sc, srv_nack);
  coap_new_endpoint(sc, &srv_addr, COAP_PROTO_UDP);
  int flags = C->mode == M_CON ? COAP_RESOURCE_FLAGS_NOTIFY_CON : C->mode == M_NONALW ? COAP_RESOURCE_FLAGS_NOTIFY_NON_ALWAYS
                                                                                      : COAP_RESOURCE_FLAGS_NOTIFY_NON;
  for (int r = 0; r < NRES; r++) {
    res[r] = coap_resource_init(coap_make_str_const(res_name[r]), flags);
    coap_resource_set_get_observable(res[r], 1);
    coap_register_request_handler(res[r], COAP_REQUEST_GET, hnd_get);
    coap_resource_set_userdata(res[r], (void *)(intptr_t)(r + 1));
    coap_add_resource(sc, res[r]);
    if (C->wrap)
      coap_persist_set_observe_num(res[r], 0xFFFFFD);
  }
  cc = NULL;
  cs = NULL;
  if (C->lc) {
    cc = coap_new_context(NULL);
    ns_register_ctx(cc);
    coap_register_response_handler(cc, cli_resp);
    coap_register_nack_handler(cc, cli_nack);
    cs = coap_new_client_session(cc, &obs_addr[1], &srv_addr, COAP_PROTO_UDP);
  }

  /* phase 0: the script, phase 1: drain (deviations allowed in both) */
  run_quiet(1, 100000);
  phase = 1;
  run_quiet(1, 100000);
  check_fresh("quiescent after the script");
  check_sessions("quiescent after the script");

  /* phase 2: everything idle for longer than the session timeout, then a stranger shows up while at most one
   * idle session may be kept */
  phase = 2;
  vx_observe("t=%llu -- idle for 310 s", (unsigned long long)ns_now());
  ns_advance(310000);
  run_quiet(0, 400000);
  check_sessions("after 310 s idle");
  coap_context_set_max_idle_sessions(sc, 1);
  if (!OB[2].silent && (res[0] || res[1])) {
    uint8_t tok[2];
    fresh_token(2, tok);
    vx_observe("t=%llu -- stranger c3 sends a plain GET", (unsigned long long)ns_now());
    obs_send_get(2, res[0] ? 0 : 1, 0, -1, tok, -1, 0);
    run_quiet(0, 100000);
    check_sessions("after a new session was created with max_idle_sessions=1");
  }

  /* phase 3: fault free probes: one change per round on every live resource */
  phase = 3;
  int rounds = C->mode == M_DEF ? 7 : 2;
  for (int k = 1; k <= rounds && !vx_failed(); k++)
    probe_round(k);
  check_sessions("after the probes");
  check_subscribers("after the probes");
  if (total_steps >= 1500)
    vx_fail("horizon:steps", "scenario did not become quiescent within 1500 events");

  char oc[160] = "";
  size_t ol = 0;
  for (int i = 0; i < RO.nregs && ol + 24 < sizeof oc; i++) {
    struct ro_reg *r = &RO.regs[i];
    ol += (size_t)snprintf(oc + ol, sizeof oc - ol, "%s%c%s%ld", i ? "," : "", r->state == RO_YES ? 'Y' : r->state == RO_NO ? 'N' : 'M',
                           r->state == RO_YES ? "" : ro_cause_name(r->cause), r->total_new);
  }
  vx_outcome("%s", oc);

  if (cs)
    coap_session_release(cs);
  if (cc) {
    ns_unregister_ctx(cc);
    coap_free_context(cc);
  }
  ns_unregister_ctx(sc);
  coap_free_context(sc);
  ns_fini();
}

/* ------------------------------------------------------------------------------------------ */
/* scenario enumeration: all well-formed op sequences over an alphabet up to a depth           */
struct sstate {
  uint8_t act[NOBS][NRES][2], deleted[NRES], silent[NOBS], rst_armed[NOBS], err_armed[NRES], used[NOBS];
};
struct family {
  const char *tag;
  int mind, maxd;
  int cmask, rmask, qmask; /* allowed clients / resources / queries (bit masks) */
  unsigned kinds;          /* allowed op kinds (bit mask) */
  int modes;               /* bit mask of modes; rotate != 0: one mode per sequence, rotating */
  int rotate;
  int wrap, lc, nofetch, verdicts, fault_blocks, sametok;
  int bound;
  int need_r2;             /* only sequences that touch r2 */
  int qcanon;              /* query "x=1" is only used for a second registration next to the query-less one */
};

static struct cfg *cfgs;
static int ncfgs, capcfgs;
static long fam_count;

static int
any_act(const struct sstate *s, int c, int r) {
  for (int cc_ = 0; cc_ < NOBS; cc_++)
    for (int rr = 0; rr < NRES; rr++)
      for (int q = 0; q < 2; q++)
        if ((c < 0 || c == cc_) && (r < 0 || r == rr) && s->act[cc_][rr][q])
          return 1;
  return 0;
}

static int
op_ok(const struct sstate *s, const struct op *o, const struct family *f) {
  int c = o->c, r = o->r, q = o->q;
  switch (o->kind) {
  case OP_REG:
    if (!f->lc && c == 1 && !s->used[0])
      return 0; /* raw observers are interchangeable: the first one used is c1 */
    if (f->qcanon && q == 1 && !s->act[c][r][0])
      return 0;
    return !s->deleted[r] && !s->act[c][r][q] && !s->silent[c];
  case OP_REREG:
  case OP_CANCEL:
    return s->act[c][r][q] && !s->silent[c] && !s->deleted[r];
  case OP_CHG:
  case OP_CHG3:
  case OP_DEL:
    return !s->deleted[r] && any_act(s, -1, r);
  case OP_ERR:
    return !s->deleted[r] && any_act(s, -1, r) && !s->err_armed[r];
  case OP_RST:
    return any_act(s, c, -1) && !s->rst_armed[c] && !s->silent[c];
  case OP_SIL:
    return any_act(s, c, -1) && !s->silent[c] && !(f->lc && c == 1);
  case OP_CLOSE:
    return any_act(s, c, -1);
  }
  return 0;
}

static void
op_apply(struct sstate *s, const struct op *o) {
  int c = o->c, r = o->r, q = o->q;
  switch (o->kind) {
  case OP_REG:
    s->act[c][r][q] = 1;
    s->used[c] = 1;
    break;
  case OP_CANCEL:
    s->act[c][r][q] = 0;
    break;
  case OP_DEL:
    s->deleted[r] = 1;
    for (int cc_ = 0; cc_ < NOBS; cc_++)
      s->act[cc_][r][0] = s->act[cc_][r][1] = 0;
    break;
  case OP_CLOSE:
    memset(s->act[c], 0, sizeof s->act[c]);
    break;
  case OP_RST:
    s->rst_armed[c] = 1;
    break;
  case OP_ERR:
    s->err_armed[r] = 1;
    break;
  case OP_SIL:
    s->silent[c] = 1;
    break;
  default:
    break;
  }
}

static void
emit_scenario(const struct family *f, const struct op *ops, int n) {
  if (f->need_r2) {
    int t = 0;
    for (int i = 0; i < n; i++)
      if ((ops[i].kind == OP_REG || ops[i].kind == OP_REREG) && ops[i].r == 1)
        t = 1;
    if (!t)
      return;
  }
  if (f->lc) {
    int t = 0;
    for (int i = 0; i < n; i++)
      if (ops[i].kind == OP_REG && ops[i].c == 1)
        t = 1;
    if (!t)
      return; /* the lc family is about the real client */
  }
  for (int m = 0; m < 3; m++) {
    if (!(f->modes >> m & 1))
      continue;
    if (f->rotate && (int)(fam_count % 3) != m && f->modes == 7)
      continue;
    if (ncfgs == capcfgs) {
      capcfgs = capcfgs ? capcfgs * 2 : 4096;
      cfgs = realloc(cfgs, sizeof *cfgs * (size_t)capcfgs);
    }
    struct cfg *c = &cfgs[ncfgs++];
    memset(c, 0, sizeof *c);
    c->mode = m;
    c->wrap = f->wrap;
    c->lc = f->lc;
    c->nofetch = f->nofetch;
    c->verdicts = f->verdicts;
    c->fault_blocks = f->fault_blocks;
    c->sametok = f->sametok;
    c->bound = f->bound;
    c->nops = n;
    memcpy(c->ops, ops, sizeof *ops * (size_t)n);
    size_t o = (size_t)snprintf(c->name, sizeof c->name, "c11:%s,m=%s,w=%d,lc=%d,nf=%d,vd=%d,fb=%d%s,B=%d:", f->tag, mode_names[m], c->wrap,
                                c->lc, c->nofetch, c->verdicts, c->fault_blocks, c->sametok ? ",sametok" : "", c->bound);
    for (int i = 0; i < n && o + 24 < sizeof c->name; i++) {
      const struct op *p = &ops[i];
      switch (p->kind) {
      case OP_REG:
      case OP_REREG:
      case OP_CANCEL:
        o += (size_t)snprintf(c->name + o, sizeof c->name - o, "%s%s(c%d,%s,q%d)", i ? ";" : "", op_names[p->kind], p->c + 1, res_name[p->r],
                              p->q);
        break;
      case OP_CHG:
      case OP_CHG3:
      case OP_ERR:
      case OP_DEL:
        o += (size_t)snprintf(c->name + o, sizeof c->name - o, "%s%s(%s)", i ? ";" : "", op_names[p->kind], res_name[p->r]);
        break;
      default:
        o += (size_t)snprintf(c->name + o, sizeof c->name - o, "%s%s(c%d)", i ? ";" : "", op_names[p->kind], p->c + 1);
      }
    }
  }
  fam_count++;
}

static void
gen(const struct family *f, struct sstate s, struct op *ops, int n) {
  if (n >= f->mind && n > 0)
    emit_scenario(f, ops, n);
  if (n >= f->maxd)
    return;
  for (int k = 0; k < OP_NKINDS; k++) {
    if (!(f->kinds >> k & 1))
      continue;
    int per_c = k == OP_REG || k == OP_REREG || k == OP_CANCEL || k == OP_RST || k == OP_CLOSE || k == OP_SIL;
    int per_r = k == OP_REG || k == OP_REREG || k == OP_CANCEL || k == OP_CHG || k == OP_CHG3 || k == OP_ERR || k == OP_DEL;
    int per_q = k == OP_REG || k == OP_REREG || k == OP_CANCEL;
    for (int c = 0; c < (per_c ? NOBS : 1); c++)
      for (int r = 0; r < (per_r ? NRES : 1); r++)
        for (int q = 0; q < (per_q ? 2 : 1); q++) {
          if (per_c && !(f->cmask >> c & 1))
            continue;
          if (per_r && !(f->rmask >> r & 1))
            continue;
          if (per_q && !(f->qmask >> q & 1))
            continue;
          struct op o = {(uint8_t)k, (uint8_t)c, (uint8_t)r, (uint8_t)q};
          if (!op_ok(&s, &o, f))
            continue;
          struct sstate s2 = s;
          op_apply(&s2, &o);
          ops[n] = o;
          gen(f, s2, ops, n + 1);
        }
  }
}

#define ALLK ((1u << OP_NKINDS) - 1)

int
main(int argc, char **argv) {
  vx_main_init(argc, argv, "C11");
  int T = vx_is_thorough();
  static const struct family quick[] = {
      /* every sequence up to depth 2 over the full alphabet, all three modes */
      {.tag = "d2", .mind = 1, .maxd = 2, .cmask = 3, .rmask = 3, .qmask = 3, .kinds = ALLK, .modes = 7, .bound = 1},
      /* depth 3, query "x=1" only next to the query-less registration, default and CON mode */
      {.tag = "d3", .mind = 3, .maxd = 3, .cmask = 3, .rmask = 3, .qmask = 3, .kinds = ALLK, .modes = 3, .bound = 1, .qcanon = 1},
      {.tag = "lc", .mind = 1, .maxd = 2, .cmask = 3, .rmask = 3, .qmask = 1, .kinds = ALLK, .modes = 7, .rotate = 1, .lc = 1, .bound = 1},
      {.tag = "wrap", .mind = 1, .maxd = 2, .cmask = 1, .rmask = 3, .qmask = 1, .kinds = ALLK, .modes = 3, .wrap = 1, .bound = 1},
      /* the two observers use equal token bytes (each on its own session): an entry is identified by session AND token */
      {.tag = "sametok", .mind = 2, .maxd = 3, .cmask = 3, .rmask = 1, .qmask = 1, .kinds = ALLK, .modes = 7, .rotate = 1, .sametok = 1, .bound = 1},
  };
  static const struct family thorough[] = {
      {.tag = "d3", .mind = 1, .maxd = 3, .cmask = 3, .rmask = 3, .qmask = 3, .kinds = ALLK, .modes = 7, .bound = 1, .qcanon = 1},
      {.tag = "d3full", .mind = 1, .maxd = 3, .cmask = 3, .rmask = 3, .qmask = 3, .kinds = ALLK, .modes = 7, .rotate = 1, .bound = 1},
      {.tag = "d2b2", .mind = 1, .maxd = 2, .cmask = 3, .rmask = 3, .qmask = 3, .kinds = ALLK, .modes = 7, .bound = 2, .qcanon = 1},
      {.tag = "d4", .mind = 4, .maxd = 4, .cmask = 3, .rmask = 1, .qmask = 1, .kinds = ALLK, .modes = 3, .bound = 1},
      {.tag = "d4r", .mind = 4, .maxd = 4, .cmask = 1, .rmask = 3, .qmask = 1, .kinds = ALLK, .modes = 7, .rotate = 1, .bound = 1},
      {.tag = "d5", .mind = 5, .maxd = 5, .cmask = 1, .rmask = 1, .qmask = 1, .kinds = ALLK, .modes = 7, .rotate = 1, .bound = 1},
      {.tag = "d5b0", .mind = 4, .maxd = 5, .cmask = 1, .rmask = 1, .qmask = 3, .kinds = ALLK, .modes = 7, .bound = 0, .qcanon = 1},
      {.tag = "lc", .mind = 1, .maxd = 3, .cmask = 3, .rmask = 3, .qmask = 1, .kinds = ALLK, .modes = 7, .rotate = 1, .lc = 1, .bound = 1},
      {.tag = "wrap", .mind = 1, .maxd = 3, .cmask = 1, .rmask = 3, .qmask = 3, .kinds = ALLK, .modes = 3, .wrap = 1, .bound = 1, .qcanon = 1},
      {.tag = "nofetch", .mind = 1, .maxd = 3, .cmask = 3, .rmask = 3, .qmask = 3, .kinds = ALLK, .modes = 7, .rotate = 1, .nofetch = 1,
       .fault_blocks = 1, .bound = 1, .need_r2 = 1, .qcanon = 1},
      {.tag = "blk", .mind = 1, .maxd = 3, .cmask = 3, .rmask = 3, .qmask = 3, .kinds = ALLK, .modes = 7, .rotate = 1, .fault_blocks = 1,
       .bound = 1, .need_r2 = 1, .qcanon = 1},
      {.tag = "vd", .mind = 1, .maxd = 3, .cmask = 3, .rmask = 1, .qmask = 1, .kinds = ALLK, .modes = 7, .verdicts = 1, .bound = 1},
      {.tag = "sametok", .mind = 2, .maxd = 3, .cmask = 3, .rmask = 3, .qmask = 1, .kinds = ALLK, .modes = 7, .rotate = 1, .sametok = 1, .bound = 1},
      {.tag = "sametok4", .mind = 4, .maxd = 4, .cmask = 3, .rmask = 1, .qmask = 1, .kinds = ALLK, .modes = 7, .rotate = 1, .sametok = 1, .bound = 1},
  };
  const struct family *fams = T ? thorough : quick;
  int nf = T ? (int)(sizeof thorough / sizeof thorough[0]) : (int)(sizeof quick / sizeof quick[0]);
  char famdesc[2400] = "";
  size_t fo = 0;
  for (int i = 0; i < nf; i++) {
    struct sstate s;
    struct op ops[MAXOPS];
    memset(&s, 0, sizeof s);
    int before = ncfgs;
    fam_count = 0;
    gen(&fams[i], s, ops, 0);
    fo += (size_t)snprintf(famdesc + fo, sizeof famdesc - fo, "%s%s: depth %d..%d, %ld sequences, %d scenarios, bound %d", i ? "; " : "",
                           fams[i].tag, fams[i].mind, fams[i].maxd, fam_count, ncfgs - before, fams[i].bound);
  }
  if (getenv("C11_LIST")) {
    for (int i = 0; i < ncfgs; i++)
      puts(cfgs[i].name);
    fprintf(stderr, "%s\n", famdesc);
    return 0;
  }
  vx_ev_rule("(deviations include, for all-Confirmable resources and scripts without an error response: the socket refuses the first transmission after a change once) executions of a real libcoap server (observable r1 single-block, r2 40-byte body in 16-byte Block2 blocks; resource modes "
             "default / NOTIFY_CON / NOTIFY_NON_ALWAYS) observed by raw observers c1,c2 (and by a real libcoap client in the lc family); "
             "enumerated: every well-formed operation sequence over {reg, rereg, cancel (c,r,q), chg, chg3, err, del (r), rst, close, sil (c)} "
             "up to the family's depth (ill-formed ones such as cancel before reg pruned, raw observers interchangeable), each under all "
             "network schedules with <= bound deviations (drop / duplicate / reorder of any of the first 4 datagrams in flight -- Block2 follow-up "
             "exchanges only in the blk / nofetch families --, next operation before delivery, timer before delivery / before the next "
             "operation while a retransmission is queued or a notification is pending, RST verdict per notification in the vd family), "
             "then drained, idled 310 s, a stranger session with max_idle_sessions=1, and 2 (7 in default mode) fault-free probe changes; "
             "non-trivial = a deviation was taken, a retransmission or a deregistration by RST / time-out occurred; distinct = distinct observation logs");
  vx_ev_str("families", famdesc);
  vx_ev_assumption("observers register with Confirmable GETs and fresh 2-byte tokens (distinct between the two observers except in the sametok family, where both draw from one sequence); the registration response is recognised as the piggybacked ACK");
  vx_ev_assumption("a raw observer answers every copy of a message the same way (ACK for CON, nothing for NON unless rst/sil says otherwise) "
                   "and fetches the remaining blocks of a multi-block notification once");
  vx_ev_assumption("'a confirmable notification failed' is taken from the server application's NACK callback (COAP_NACK_TOO_MANY_RETRIES); "
                   "server sessions use MAX_RETRANSMIT 2 to keep the give-up path short");
  vx_ev_assumption("close(c) = coap_session_disconnected() on the observer's server session (the only public way to lose a UDP server session)");
  for (int i = 0; i < ncfgs; i++)
    if (vx_replay_if_match(cfgs[i].name, run, &cfgs[i]))
      return 0;
  if (vx_replay_path()) {
    fprintf(stderr, "replay file does not match any scenario\n");
    return 2;
  }
  struct vx_config *vcs = calloc((size_t)ncfgs, sizeof *vcs);
  void **args = calloc((size_t)ncfgs, sizeof *args);
  for (int i = 0; i < ncfgs; i++) {
    vcs[i] = (struct vx_config){.scenario = cfgs[i].name, .bound = cfgs[i].bound, .leakcheck = 1};
    args[i] = &cfgs[i];
  }
  struct vx_scn_stats st;
  vx_explore_multi("c11:all", vcs, args, ncfgs, run, 0, &st);
  vx_ev_int("scenarios", ncfgs);
  return vx_finish();
}
