/* C18 -- any single allocation failure is survived: clean error, no leak, endpoint still works.
 *
 * libcoap's allocator funnel (coap_malloc_type / coap_realloc_type, --wrap'ed) is a choice point for vx:
 * "this allocation fails" costs one deviation unit, so bound 1 enumerates exactly every index k of every
 * scenario of the catalogue (bound 2: every pair).  After the scenario a canary exchange with memory
 * available must succeed, teardown must be leak free (LeakSanitizer + per-execution balance of the funnel),
 * ASan/UBSan watch every access.
 */
#include "cs.h"
#include <stdarg.h>
#include <unistd.h>

void *__real_coap_malloc_type(coap_memory_tag_t type, size_t size);
void *__real_coap_realloc_type(coap_memory_tag_t type, void *p, size_t size);
void __real_coap_free_type(coap_memory_tag_t type, void *p);
void *__wrap_coap_malloc_type(coap_memory_tag_t type, size_t size);
void *__wrap_coap_realloc_type(coap_memory_tag_t type, void *p, size_t size);
void __wrap_coap_free_type(coap_memory_tag_t type, void *p);

static int inject_on;
static long allocs_seen, fails_injected;
static long live_blocks;
static const char *fail_site = "";
static char fail_site_buf[80];

/* nearest symbol below an address, from `nm -n` of this executable (read once in main) */
struct sym {
  uintptr_t a;
  char n[40];
};
static struct sym *syms;
static int nsyms;
static void
load_syms(void) {
  char exe[400], cmd[500], line[400];
  ssize_t l = readlink("/proc/self/exe", exe, sizeof exe - 1);
  if (l <= 0)
    return;
  exe[l] = 0;
  snprintf(cmd, sizeof cmd, "nm -n '%s'", exe);
  FILE *f = popen(cmd, "r");
  if (!f)
    return;
  int cap = 0;
  while (fgets(line, sizeof line, f)) {
    unsigned long a;
    char t, nm[300];
    if (sscanf(line, "%lx %c %299s", &a, &t, nm) != 3 || (t != 't' && t != 'T'))
      continue;
    if (nsyms == cap) {
      cap = cap ? cap * 2 : 2048;
      syms = realloc(syms, sizeof *syms * (size_t)cap);
    }
    syms[nsyms].a = a;
    snprintf(syms[nsyms].n, sizeof syms[nsyms].n, "%s", nm);
    nsyms++;
  }
  pclose(f);
}
static const char *
sym_of(void *p) {
  uintptr_t a = (uintptr_t)p;
  int lo = 0, hi = nsyms - 1, best = -1;
  while (lo <= hi) {
    int m = (lo + hi) / 2;
    if (syms[m].a <= a) {
      best = m;
      lo = m + 1;
    } else
      hi = m - 1;
  }
  return best >= 0 ? syms[best].n : "?";
}

static int
should_fail(void *site) {
  allocs_seen++;
  if (!inject_on || vx_budget_left() <= 0)
    return 0;
  if (vx_choose(2, NULL, "alloc") == 1) {
    fails_injected++;
    snprintf(fail_site_buf, sizeof fail_site_buf, "%s", sym_of(site));
    /* strip gcc clone suffixes */
    char *d = strchr(fail_site_buf, '.');
    if (d)
      *d = 0;
    fail_site = fail_site_buf;
    vx_observe("   !! allocation #%ld fails (in %s)", allocs_seen, fail_site);
    vx_nontrivial();
    return 1;
  }
  return 0;
}
void *
__wrap_coap_malloc_type(coap_memory_tag_t type, size_t size) {
  if (should_fail(__builtin_return_address(0)))
    return NULL;
  void *p = __real_coap_malloc_type(type, size);
  if (p)
    live_blocks++;
  return p;
}
void *
__wrap_coap_realloc_type(coap_memory_tag_t type, void *p, size_t size) {
  if (should_fail(__builtin_return_address(0)))
    return NULL;
  void *q = __real_coap_realloc_type(type, p, size);
  if (!p && q)
    live_blocks++;
  return q;
}
void
__wrap_coap_free_type(coap_memory_tag_t type, void *p) {
  if (p)
    live_blocks--;
  __real_coap_free_type(type, p);
}

/* ------------------------------------------------------------------------------------------ */
struct cfg {
  char name[60];
  int k;
  int bound;
};
static struct cfg *C;
static struct cs S;

static void
failsig(const char *what, const char *fmt, ...) {
  char sig[160], msg[400];
  va_list ap;
  va_start(ap, fmt);
  vsnprintf(msg, sizeof msg, fmt, ap);
  va_end(ap);
  snprintf(sig, sizeof sig, "%s:%s@%s", what, C->name, fail_site[0] ? fail_site : "no-fault");
  vx_fail(sig, "%s (scenario %s, failed allocation in %s)", msg, C->name, fail_site[0] ? fail_site : "-");
}

/* K1: CON GET, piggybacked reply */
static void
k_get(void) {
  coap_pdu_t *p = cs_request(&S, S.sess, 1, COAP_REQUEST_CODE_GET, "r", 0x11);
  if (!p)
    p = cs_request(&S, S.sess, 1, COAP_REQUEST_CODE_GET, "r", 0x11); /* re-issue once */
  if (!p)
    return;
  if (coap_send(S.sess, p) == COAP_INVALID_MID) {
    /* ownership rule: the PDU is consumed even on failure -- the harness never touches p again */
    p = cs_request(&S, S.sess, 1, COAP_REQUEST_CODE_GET, "r", 0x12);
    if (p)
      coap_send(S.sess, p);
  }
  cs_pump(&S, 400, 120000);
}
/* K2: separate response via async */
static void
k_async(void) {
  coap_pdu_t *p = cs_request(&S, S.sess, 1, COAP_REQUEST_CODE_GET, "async", 0x21);
  if (p)
    coap_send(S.sess, p);
  cs_pump(&S, 400, 120000);
}
/* K3: Block1 PUT, 3 blocks */
static void
k_block1(void) {
  coap_pdu_t *p = cs_request(&S, S.sess, 1, COAP_REQUEST_CODE_PUT, "put", 0x31);
  if (!p)
    return;
  uint8_t v = 0; /* SZX 0 */
  coap_add_option(p, COAP_OPTION_BLOCK1, 0, &v);
  size_t n = 40;
  uint8_t *b = malloc(n);
  for (size_t i = 0; i < n; i++)
    b[i] = cs_pat(i);
  S.large_calls++;
  if (!coap_add_data_large_request(S.sess, p, n, b, cs_release, b)) {
    coap_delete_pdu(p);
    return;
  }
  coap_send(S.sess, p);
  cs_pump(&S, 600, 200000);
}
/* K4: Block2 GET, several blocks */
static void
k_block2(void) {
  coap_pdu_t *p = cs_request(&S, S.sess, 1, COAP_REQUEST_CODE_GET, "big", 0x41);
  if (!p)
    return;
  uint8_t v = 1; /* SZX 1: 32-byte blocks, 100-byte body */
  coap_add_option(p, COAP_OPTION_BLOCK2, 1, &v);
  coap_send(S.sess, p);
  cs_pump(&S, 600, 200000);
}
/* K5: observe register + 2 notifies + cancel */
static void
k_observe(void) {
  coap_pdu_t *p = cs_request(&S, S.sess, 1, COAP_REQUEST_CODE_GET, "obs", 0x51);
  if (!p)
    return;
  coap_pdu_t *q = coap_new_pdu(COAP_MESSAGE_CON, COAP_REQUEST_CODE_GET, S.sess);
  coap_delete_pdu(p);
  if (!q)
    return;
  uint8_t tok = 0x51;
  if (!coap_add_token(q, 1, &tok) || !coap_add_option(q, COAP_OPTION_OBSERVE, 0, NULL) ||
      !coap_add_option(q, COAP_OPTION_URI_PATH, 3, (const uint8_t *)"obs")) {
    coap_delete_pdu(q);
    return;
  }
  coap_send(S.sess, q);
  cs_pump(&S, 400, 60000);
  for (int i = 0; i < 2; i++) {
    if (S.r_obs)
      coap_resource_notify_observers(S.r_obs, NULL);
    cs_pump(&S, 400, 60000);
  }
  coap_binary_t t = {1, &tok};
  coap_bin_const_t tc = {t.length, t.s};
  coap_cancel_observe(S.sess, (coap_binary_t *)&tc, COAP_MESSAGE_CON);
  cs_pump(&S, 400, 60000);
}
/* K7: URI / optlist helpers */
static void
k_uri(void) {
  static const char *uris[] = {"coap://[::1]:61616/a/b%20c/./d/../e?x=1&y=%41", "coaps+tcp://host.example/p/q?z"};
  for (unsigned u = 0; u < 2; u++) {
    coap_uri_t uri;
    if (coap_split_uri((const uint8_t *)uris[u], strlen(uris[u]), &uri) < 0)
      continue;
    coap_optlist_t *ol = NULL;
    uint8_t buf[200];
    coap_uri_into_optlist(&uri, NULL, &ol, 1);
    coap_delete_optlist(ol);
    ol = NULL;
    coap_path_into_optlist(uri.path.s, uri.path.length, COAP_OPTION_URI_PATH, &ol);
    coap_query_into_optlist(uri.query.s, uri.query.length, COAP_OPTION_URI_QUERY, &ol);
    (void)buf;
    coap_pdu_t *p = coap_new_pdu(COAP_MESSAGE_CON, COAP_REQUEST_CODE_GET, S.sess);
    if (p) {
      coap_add_optlist_pdu(p, &ol);
      coap_string_t *up = coap_get_uri_path(p);
      coap_string_t *qs = coap_get_query(p);
      coap_delete_string(up);
      coap_delete_string(qs);
      coap_delete_pdu(p);
    }
    coap_delete_optlist(ol);
    coap_uri_t *nu = coap_new_uri((const uint8_t *)uris[u], (unsigned)strlen(uris[u]));
    coap_uri_t *cu = nu ? coap_clone_uri(nu) : NULL;
    coap_delete_uri(cu);
    coap_delete_uri(nu);
  }
  /* .well-known/core */
  coap_pdu_t *p = cs_request(&S, S.sess, 1, COAP_REQUEST_CODE_GET, ".well-known", 0x71);
  if (p) {
    if (coap_add_option(p, COAP_OPTION_URI_PATH, 4, (const uint8_t *)"core"))
      coap_send(S.sess, p);
    else
      coap_delete_pdu(p);
  }
  cs_pump(&S, 400, 120000);
}
/* K8: TCP session incl. CSM + one exchange */
static void
k_tcp(void) {
  coap_address_t ca;
  ns_addr(&ca, 51, 41000);
  coap_session_t *t = coap_new_client_session(S.cc, &ca, &S.srv, COAP_PROTO_TCP);
  if (!t)
    return;
  cs_pump(&S, 200, 30000);
  if (coap_session_get_state(t) == COAP_SESSION_STATE_ESTABLISHED) {
    coap_pdu_t *p = cs_request(&S, t, 1, COAP_REQUEST_CODE_GET, "r", 0x81);
    if (p)
      coap_send(t, p);
    cs_pump(&S, 200, 30000);
  }
  coap_session_release(t);
  cs_pump(&S, 50, 1000);
}
/* K9: WebSocket upgrade + one exchange */
static void
k_ws(void) {
  coap_address_t ca, wa;
  ns_addr(&ca, 52, 42000);
  ns_addr(&wa, 1, 80);
  coap_session_t *t = coap_new_client_session(S.cc, &ca, &wa, COAP_PROTO_WS);
  if (!t)
    return;
  cs_pump(&S, 300, 30000);
  if (coap_session_get_state(t) == COAP_SESSION_STATE_ESTABLISHED) {
    coap_pdu_t *p = cs_request(&S, t, 1, COAP_REQUEST_CODE_GET, "r", 0x91);
    if (p)
      coap_send(t, p);
    cs_pump(&S, 300, 30000);
  }
  coap_session_release(t);
  cs_pump(&S, 50, 1000);
}
/* K10: further set-up and tear-down: second endpoint, extra resources with attributes, cache entry, session app data */
static void
k_setup(void) {
  coap_address_t a;
  ns_addr(&a, 1, 5684);
  coap_endpoint_t *ep = coap_new_endpoint(S.sc, &a, COAP_PROTO_UDP);
  (void)ep;
  coap_resource_t *r = coap_resource_init(coap_make_str_const("x/y"), 0);
  if (r) {
    coap_add_attr(r, coap_make_str_const("rt"), coap_make_str_const("\"t\""), 0);
    coap_add_attr(r, coap_make_str_const("ct"), coap_make_str_const("0"), 0);
    coap_register_request_handler(r, COAP_REQUEST_GET, cs_hnd_small);
    coap_add_resource(S.sc, r);
  }
  coap_resource_t *u = coap_resource_unknown_init(cs_hnd_small);
  if (u)
    coap_add_resource(S.sc, u);
  coap_pdu_t *p = cs_request(&S, S.sess, 1, COAP_REQUEST_CODE_GET, "r", 0xA1);
  if (p) {
    coap_cache_entry_t *e = coap_new_cache_entry(S.sess, p, COAP_CACHE_RECORD_PDU, COAP_CACHE_IS_SESSION_BASED, 0);
    (void)e;
    coap_cache_key_t *ck = coap_cache_derive_key(S.sess, p, COAP_CACHE_IS_SESSION_BASED);
    coap_delete_cache_key(ck);
    coap_delete_pdu(p);
  }
  if (r)
    coap_delete_resource(S.sc, r);
}

/* K11: a raw peer uploads a body with Block1 but without Size1 (the re-assembly buffer has to grow with every block) */
static void
k_rawblock1(void) {
  coap_address_t pa;
  ns_addr(&pa, 35, 5000);
  for (int i = 0; i < 3; i++) {
    struct w_buf w;
    uint8_t tok[2] = {0x62, (uint8_t)i};
    int m = i < 2;
    w_begin(&w, 0, 3, (uint16_t)(0x4500 + i), tok, 2);
    w_opt_add(&w, 11, "put", 3);
    w_opt_uint(&w, 27, (unsigned)(i << 4 | m << 3 | 0));
    uint8_t pl[16];
    for (int k = 0; k < 16; k++)
      pl[k] = cs_pat((size_t)(i * 16 + k));
    w_payload(&w, pl, m ? 16 : 8);
    ns_inject_now(&pa, &S.srv, w.b, w.n);
    ns_prepare_all();
    while (ns_inflight_count())
      ns_drop(0);
  }
  cs_pump(&S, 300, 400000); /* partial bodies expire */
}
/* K12: the client downloads a body from a raw server that sends Block2 without Size2 */
static coap_address_t rawsrv;
static size_t k12_len;
static int k12_ok;
static void
k12_raw_rx(const ns_dgram_t *d) {
  struct w_msg m;
  if (ns_addr_host(&d->dst) != ns_addr_host(&rawsrv) || !w_parse(d->data, d->len, &m) || m.type != 0 || m.code != 1)
    return;
  const struct w_opt *b2 = w_find(&m, 23);
  unsigned num = b2 ? w_uint(b2) >> 4 : 0;
  if (num > 2)
    return;
  struct w_buf w;
  w_begin(&w, 2, 0x45, m.mid, m.token, m.tkl);
  w_opt_uint(&w, 23, num << 4 | (num < 2 ? 8u : 0u) | 0);
  uint8_t pl[16];
  for (int k = 0; k < 16; k++)
    pl[k] = cs_pat(num * 16 + (size_t)k);
  w_payload(&w, pl, num < 2 ? 16 : 8);
  ns_inject(&d->dst, &d->src, w.b, w.n);
}
static void
k_rawblock2(void) {
  ns_addr(&rawsrv, 36, 5683);
  ns_raw_rx = k12_raw_rx;
  coap_session_t *s = coap_new_client_session(S.cc, NULL, &rawsrv, COAP_PROTO_UDP);
  if (!s)
    return;
  coap_pdu_t *p = cs_request(&S, s, 1, COAP_REQUEST_CODE_GET, "big", 0x61);
  if (p)
    coap_send(s, p);
  cs_pump(&S, 600, 200000);
  k12_len = S.last_len;
  k12_ok = S.body_ok;
  coap_session_release(s);
}

/* K13: OSCORE: the server context gets an OSCORE configuration, a client session is created with the mirror
 * configuration, one protected GET (+ the observe registration and one notification) */
static coap_session_t *k13_sess;
static coap_oscore_conf_t *
k13_conf(int server) {
  char conf[400];
  snprintf(conf, sizeof conf,
           "master_secret,hex,\"0102030405060708090a0b0c0d0e0f10\"\nmaster_salt,hex,\"9e7ca92223786340\"\n"
           "sender_id,hex,\"%s\"\nrecipient_id,hex,\"%s\"\nrfc8613_b_1_2,bool,false\n",
           server ? "01" : "02", server ? "02" : "01");
  coap_str_const_t cm = {strlen(conf), (const uint8_t *)conf};
  return coap_new_oscore_conf(cm, NULL, NULL, 0);
}
static void
k_oscore(void) {
  coap_oscore_conf_t *sc = k13_conf(1);
  /* a call that returns a result under memory pressure must return the right one */
  if (sc && (sc->recipient_id_count != 1 || !sc->master_salt || !sc->sender_id || sc->rfc8613_b_1_2 != 0))
    failsig("silent-wrong-result:coap_new_oscore_conf", "coap_new_oscore_conf() returned a configuration that differs from its input "
            "(recipient ids %u, salt %s, B.1.2 %d) instead of NULL", (unsigned)sc->recipient_id_count, sc->master_salt ? "present" : "missing",
            (int)sc->rfc8613_b_1_2);
  if (sc && !coap_context_oscore_server(S.sc, sc)) {
    /* ownership: the configuration is consumed also on failure */
  }
  coap_oscore_conf_t *cc = k13_conf(0);
  coap_address_t la;
  ns_addr(&la, 52, 40009);
  k13_sess = cc ? coap_new_client_session_oscore(S.cc, &la, &S.srv, COAP_PROTO_UDP, cc) : NULL;
  if (!k13_sess)
    return;
  coap_pdu_t *p = cs_request(&S, k13_sess, 1, COAP_REQUEST_CODE_GET, "r", 0x71);
  if (p)
    coap_send(k13_sess, p);
  cs_pump(&S, 400, 120000);
  k13_sess->doing_first = 0; /* an application would call coap_io_process() until the first response or a NACK arrives */
  p = cs_request(&S, k13_sess, 1, COAP_REQUEST_CODE_GET, "obs", 0x72);
  if (p) {
    coap_add_option(p, COAP_OPTION_OBSERVE, 0, NULL);
    /* options must be in order: rebuild properly */
    coap_delete_pdu(p);
    p = coap_new_pdu(COAP_MESSAGE_CON, COAP_REQUEST_CODE_GET, k13_sess);
    if (p) {
      uint8_t t = 0x72;
      if (!coap_add_token(p, 1, &t) || !coap_add_option(p, COAP_OPTION_OBSERVE, 0, NULL) ||
          !coap_add_option(p, COAP_OPTION_URI_PATH, 3, (const uint8_t *)"obs")) {
        coap_delete_pdu(p);
        p = NULL;
      }
    }
    if (p)
      coap_send(k13_sess, p);
  }
  cs_pump(&S, 400, 120000);
  if (S.r_obs)
    coap_resource_notify_observers(S.r_obs, NULL);
  cs_pump(&S, 400, 120000);
}

/* K15: bodies whose blocks are larger than a fresh PDU buffer (1024-byte blocks): the first block only fits after the PDU buffer has
 * been re-allocated inside coap_add_data_large_*() */
static void
k_bigblocks(void) {
  coap_pdu_t *p = cs_request(&S, S.sess, 1, COAP_REQUEST_CODE_PUT, "put", 0x35);
  if (p) {
    size_t n = 2500;
    uint8_t *b = malloc(n);
    for (size_t i = 0; i < n; i++)
      b[i] = cs_pat(i);
    S.large_calls++;
    if (!coap_add_data_large_request(S.sess, p, n, b, cs_release, b))
      coap_delete_pdu(p);
    else
      coap_send(S.sess, p);
    cs_pump(&S, 600, 200000);
  }
  cs_big_len = 2500;
  p = cs_request(&S, S.sess, 1, COAP_REQUEST_CODE_GET, "big", 0x45);
  if (p) {
    coap_send(S.sess, p);
    cs_pump(&S, 600, 200000);
  }
}

/* K14: resource discovery with a listing that needs a block-wise response (libcoap builds the listing, hands it to the large
 * response machinery and answers the follow-up block requests itself) */
static void
k_wellknown(void) {
  int keep = inject_on;
  inject_on = 0; /* the extra resources are part of the set-up, not of the operation under test */
  for (int i = 0; i < 8; i++) {
    char name[24];
    snprintf(name, sizeof name, "sensors/room%d/temp", i);
    /* the path string must outlive the resource: the resource owns a copy */
    coap_str_const_t *own = coap_new_str_const((const uint8_t *)name, strlen(name));
    coap_resource_t *r = own ? coap_resource_init(own, COAP_RESOURCE_FLAGS_RELEASE_URI) : NULL;
    if (!r)
      continue;
    coap_add_attr(r, coap_make_str_const("rt"), coap_make_str_const("\"temperature-c\""), 0);
    coap_add_attr(r, coap_make_str_const("if"), coap_make_str_const("\"sensor\""), 0);
    coap_register_request_handler(r, COAP_REQUEST_GET, cs_hnd_small);
    coap_add_resource(S.sc, r);
  }
  inject_on = keep;
  for (int round = 0; round < 2; round++) {
    coap_pdu_t *p = coap_new_pdu(COAP_MESSAGE_CON, COAP_REQUEST_CODE_GET, S.sess);
    if (!p)
      continue;
    uint8_t tok = (uint8_t)(0xE1 + round), b2 = 0x02; /* second round: the client asks for 64-byte blocks itself */
    if (!coap_add_token(p, 1, &tok) || !coap_add_option(p, COAP_OPTION_URI_PATH, 11, (const uint8_t *)".well-known") ||
        !coap_add_option(p, COAP_OPTION_URI_PATH, 4, (const uint8_t *)"core") || (round && !coap_add_option(p, COAP_OPTION_BLOCK2, 1, &b2))) {
      coap_delete_pdu(p);
      continue;
    }
    coap_send(S.sess, p);
    cs_pump(&S, 600, 120000);
  }
}

typedef void (*scn_fn)(void);
static struct {
  const char *name;
  scn_fn fn;
  int setup_injected; /* allocation failures also during context / endpoint / session / resource set-up */
} K[] = {{"K1-get", k_get, 0},       {"K2-async", k_async, 0}, {"K3-block1", k_block1, 0}, {"K4-block2", k_block2, 0},
         {"K5-observe", k_observe, 0}, {"K7-uri", k_uri, 0},     {"K8-tcp", k_tcp, 0},       {"K9-ws", k_ws, 0},
         {"K10-setup", k_setup, 1},   {"K11-rawblock1-nosize", k_rawblock1, 0}, {"K12-rawblock2-nosize", k_rawblock2, 0}, {"K13-oscore", k_oscore, 0}, {"K14-wellknown", k_wellknown, 0}, {"K15-bigblocks", k_bigblocks, 0}};
#define NK ((int)(sizeof K / sizeof K[0]))

static void
run(void *arg) {
  C = arg;
  ns_init();
  memset(&S, 0, sizeof S);
  cs_big_len = 100;
  allocs_seen = fails_injected = 0;
  live_blocks = 0;
  fail_site = "";
  inject_on = K[C->k].setup_injected;
  int ok = cs_server_new(&S, COAP_PROTO_UDP);
  if (ok && S.sc) {
    /* stream endpoints for K8 / K9 */
    coap_address_t wa;
    ns_addr(&wa, 1, 80);
    if (C->k == 6)
      coap_new_endpoint(S.sc, &S.srv, COAP_PROTO_TCP);
    if (C->k == 7)
      coap_new_endpoint(S.sc, &wa, COAP_PROTO_WS);
  }
  if (ok)
    ok = cs_client_new(&S, COAP_PROTO_UDP);
  if (ok) {
    inject_on = 1;
    K[C->k].fn();
  }
  inject_on = 0;
  vx_observe("scenario %s: allocs=%ld injected=%ld srv_calls=%d resp2xx=%d err=%d nacks=%d notif=%d", K[C->k].name, allocs_seen, fails_injected,
             S.srv_calls, S.resp_2xx, S.resp_err, S.nacks, S.notifications);
  /* with memory available again the endpoint must work */
  if (S.sc && S.cc && S.ep) {
    cs_pump(&S, 400, 120000);
    if (!cs_canary(&S))
      failsig("canary-lost", "after the injected failure a fresh session's GET /r was not answered 2.05 (code %d)", S.last_code);
    /* and so must the session the scenario itself used ("the next operation with memory available succeeds") */
    else if (S.sess && !cs_canary_same(&S, S.sess))
      failsig("canary-lost:same-session", "after the injected failure a Confirmable GET /r on the scenario's own session was not answered 2.05 (code %d)",
              S.watch_code);
  } else if (!fails_injected)
    failsig("setup-failed", "set-up failed without an injected failure");
  if (!fails_injected) {
    /* reference run: the scenario must have done its job */
    int good = 1;
    switch (C->k) {
    case 0:
      good = S.resp_2xx >= 2;
      break;
    case 1:
      good = S.resp_2xx >= 2;
      break;
    case 2:
      good = S.srv_put_bytes == 40 && S.srv_put_ok && S.resp_2xx >= 2;
      break;
    case 3:
      good = S.resp_2xx >= 2;
      break;
    case 4:
      good = S.notifications >= 3;
      break;
    case 9:
      good = S.srv_put_bytes == 40 && S.srv_put_ok;
      break;
    case 10:
      good = k12_len == 40 && k12_ok;
      break;
    case 11:
      good = S.resp_2xx >= 4 && S.notifications >= 2;
      break;
    case 13:
      good = S.srv_put_bytes == 2500 && S.srv_put_ok && S.max_len == 2500;
      break;
    case 12:
      good = S.resp_2xx >= 4 && S.max_len > 400; /* two listings + the canaries; the listing is > 400 bytes */
      break;
    default:
      break;
    }
    if (!good)
      failsig("reference-run", "fault-free run of the scenario did not complete (2xx=%d notif=%d put=%d)", S.resp_2xx, S.notifications,
              S.srv_put_bytes);
  }
  if (k13_sess) {
    coap_session_release(k13_sess);
    k13_sess = NULL;
  }
  cs_free(&S);
  if (S.release_calls != S.large_calls)
    failsig(S.release_calls < S.large_calls ? "release:missing" : "release:twice", "%d large-data calls, release callback ran %d times",
            S.large_calls, S.release_calls);
  ns_fini();
  if (live_blocks != 0)
    failsig(live_blocks > 0 ? "leak:funnel-balance" : "double-free:funnel-balance", "%ld blocks from coap_malloc_type still live after teardown",
            live_blocks);
  vx_outcome("%s inj=%ld 2xx=%d err=%d nack=%d", K[C->k].name, fails_injected, S.resp_2xx, S.resp_err, S.nacks);
}

int
main(int argc, char **argv) {
  vx_main_init(argc, argv, "C18");
  int T = vx_is_thorough();
  load_syms();
  static struct cfg cfgs[48];
  int n = 0;
  for (int k = 0; k < NK; k++) {
    cfgs[n].k = k;
    cfgs[n].bound = 1;
    snprintf(cfgs[n].name, sizeof cfgs[n].name, "%s", K[k].name);
    n++;
    /* pairs of failing allocations: everywhere in thorough; in quick for the request/response, block-wise and observe scenarios */
    if (T || k == 0 || k == 2 || k == 3 || k == 4 || k == 9 || k == 10) {
      cfgs[n].k = k;
      cfgs[n].bound = 2;
      snprintf(cfgs[n].name, sizeof cfgs[n].name, "%s", K[k].name);
      n++;
    }
  }
  /* scenario names must be unique for replay: append the bound */
  static char names[48][80];
  for (int i = 0; i < n; i++)
    snprintf(names[i], sizeof names[i], "c18:%s:B=%d", cfgs[i].name, cfgs[i].bound);
  vx_ev_rule("catalogue of scenarios (request/response, async separate response, Block1, Block2, observe register+notify+cancel, URI/optlist "
             "helpers + .well-known/core, TCP session with CSM, WebSocket upgrade, set-up/tear-down extras, Block1 upload from / Block2 download from a raw peer that sends no Size1 / Size2, OSCORE server + client session with a protected GET, observe registration and notification) on real client+server contexts; every "
             "call of coap_malloc_type / coap_realloc_type is a choice point: bound 1 = each single index k fails, bound 2 = every pair (quick: K1, K3, K4, K5, K11, K12; thorough: every scenario); K14 = resource discovery with a block-wise listing; K15 = 2500-byte bodies in 1024-byte blocks (the PDU buffer has to grow for the first block); after the scenario a canary exchange on a fresh session and one on the scenario's own session; "
             "non-trivial = a failure was injected; distinct = distinct observation logs (allocation index + outcome counters)");
  vx_ev_assumption("only allocations through libcoap's funnel fail; GnuTLS / uthash raw malloc are outside (as the property's anchor says)");
  vx_ev_assumption("after the faulted scenario the applications continue with memory available: canary = GET /r on a fresh UDP session");
  for (int i = 0; i < n; i++)
    if (vx_replay_if_match(names[i], run, &cfgs[i]))
      return 0;
  if (vx_replay_path()) {
    fprintf(stderr, "replay file does not match any scenario\n");
    return 2;
  }
  struct vx_config vcs[48];
  void *args[48];
  for (int i = 0; i < n; i++) {
    vcs[i] = (struct vx_config){.scenario = names[i], .bound = cfgs[i].bound, .leakcheck = 1, .exec_timeout_s = 30};
    args[i] = &cfgs[i];
  }
  struct vx_scn_stats st;
  vx_explore_multi("c18:all", vcs, args, n, run, 0, &st);
  vx_ev_int("scenarios", n);
  return vx_finish();
}
